/-
  C05 (code level) — `DecModel/Format.lean` is a code-shaped model of the decimal → text formatter
  `bid128_to_string` (sign, special spellings, the coefficient digits produced by the code's own
  limb / millennial-digit algorithm with its constant tables, exponent letter, sign and digits),
  with every table index, slice and `unwrap` that could panic made explicit.  Here: for every one of
  the 2^128 patterns and both exponent letters it returns normally and writes exactly
  `Dec.format upper (decode bits)`, the specification-level rendering the judge uses.  Together with
  `C05RoundTrip.roundtrip` (parse-spec ∘ format = identity) the round trip becomes a statement about the
  code-shaped formatter.
-/
import DecModel.Format
import DecProofs.Core.DigitStr
import DecProofs.TableFacts.F_MOD10_18_TBL
import DecProofs.TableFacts.F_BID_MIDI_TBL
import DecProofs.TableFacts.F_BID_CHAR_TABLE2
import DecProofs.TableFacts.F_BID_CHAR_TABLE3
import DecProofs.Core.Codec
import DecProofs.Properties.C05RoundTrip

namespace Dec.C05Format
open Dec Dec.Fmt

/-! ### 1. Decimal digit strings, compositionally -/

/-- `natDigitsAux` does not depend on the fuel once there is enough of it -/
theorem natDigitsAux_fuel (f g n : Nat) (hf : n < 10 ^ f) (hg : n < 10 ^ g) (hf0 : 0 < f) (hg0 : 0 < g) :
    natDigitsAux f n [] = natDigitsAux g n [] := by
  induction f generalizing g n with
  | zero => omega
  | succ f ih =>
    obtain ⟨g, rfl⟩ : ∃ j, g = j + 1 := ⟨g - 1, by omega⟩
    rw [natDigitsAux_succ, natDigitsAux_succ]
    split
    · rfl
    · rename_i hn
      have h1 : n / 10 < 10 ^ f := by rw [Nat.pow_succ] at hf; omega
      have h2 : n / 10 < 10 ^ g := by rw [Nat.pow_succ] at hg; omega
      have hf1 : 0 < f := by
        rcases Nat.eq_zero_or_pos f with h | h
        · subst h; simp at h1; omega
        · exact h
      have hg1 : 0 < g := by
        rcases Nat.eq_zero_or_pos g with h | h
        · subst h; simp at h2; omega
        · exact h
      rw [ih g (n / 10) h1 h2 hf1 hg1]

/-- a one-digit number -/
theorem digitBytes_lt_ten (n : Nat) (h : n < 10) : digitBytes n = [48 + n] := by
  unfold digitBytes natDigits
  rw [natDigitsAux_succ, if_pos h]
  simp [Nat.add_comm]

/-- the last digit of a number with at least two digits -/
theorem digitBytes_step (n : Nat) (h : 10 ≤ n) : digitBytes n = digitBytes (n / 10) ++ [48 + n % 10] := by
  unfold digitBytes natDigits
  rw [natDigitsAux_succ, if_neg (by omega)]
  have h1 : n / 10 < 10 ^ (n.log2 + 1) := by
    have := lt_ten_pow_fuel n
    rw [Nat.pow_succ] at this; omega
  rw [natDigitsAux_fuel (n.log2 + 1) ((n / 10).log2 + 2) (n / 10) h1 (lt_ten_pow_fuel _) (by omega) (by omega)]
  simp [Nat.add_comm]

/-- `n` as exactly `k` digits, zero-padded on the left (`n < 10^k`) -/
def pad : Nat → Nat → Bytes
  | 0, _ => []
  | k + 1, n => pad k (n / 10) ++ [48 + n % 10]

/-- the digits of `a·10^k + b` are the digits of `a` followed by the `k` digits of `b` -/
theorem digitBytes_mul_add (a k b : Nat) (ha : 0 < a) (hb : b < 10 ^ k) :
    digitBytes (a * 10 ^ k + b) = digitBytes a ++ pad k b := by
  induction k generalizing b with
  | zero =>
    have : b = 0 := by simpa using hb
    subst this; simp [pad]
  | succ k ih =>
    have hp : 0 < 10 ^ k := Nat.pow_pos (by decide)
    have e : a * 10 ^ (k + 1) = (a * 10 ^ k) * 10 := by rw [Nat.pow_succ, Nat.mul_assoc]
    have hA : 0 < a * 10 ^ k := Nat.mul_pos ha hp
    rw [Nat.pow_succ] at hb
    rw [e]
    generalize a * 10 ^ k = A at *
    rw [digitBytes_step _ (by omega)]
    have e1 : (A * 10 + b) / 10 = A + b / 10 := by omega
    have e2 : (A * 10 + b) % 10 = b % 10 := by omega
    rw [e1, e2, ih (b / 10) (by omega)]
    simp [pad]

/-! ### 2. The splitting helpers -/

theorem and_3ff (x : Nat) : x &&& 0x03FF = x % 1024 := Nat.and_two_pow_sub_one_eq_mod x 10

/-- one round of the reduction idiom: `x = 1024·h + l = 1000·h + (l + 24·h)` -/
theorem fold1024 (x : Nat) (hx : x < 2 ^ 26) :
    sub32 (add32 (x &&& 0x03FF) (shl32 (x >>> 10) 5)) (shl32 (x >>> 10) 3) = x % 1024 + 24 * (x / 1024) := by
  simp only [sub32, add32, shl32, and_3ff, Nat.shiftLeft_eq, Nat.shiftRight_eq_div_pow]; omega

/-- two rounds and one correction give quotient and remainder by 1000 -/
theorem fold_twice (x : Nat) (hx : x < 1000000) :
    let t := x % 1024 + 24 * (x / 1024)
    let t' := t % 1024 + 24 * (t / 1024)
    t < 2 ^ 26 ∧ t' < 2000 ∧ x / 1024 + t / 1024 < 1000 ∧
    (t' > 999 → x / 1000 = x / 1024 + t / 1024 + 1 ∧ x % 1000 = t' - 1000) ∧
    (¬ t' > 999 → x / 1000 = x / 1024 + t / 1024 ∧ x % 1000 = t') := by
  intro t t'
  omega

/-- lines 31–40 / 56–65: on `x < 10^6` the idiom computes `x / 1000` and `x % 1000` -/
theorem reduce1000_eq (x : Nat) (hx : x < 1000000) : reduce1000 x = (x / 1000, x % 1000) := by
  unfold reduce1000
  obtain ⟨h1, h2, h3, h4, h5⟩ := fold_twice x hx
  simp only [] at h1 h2 h3 h4 h5 ⊢
  rw [fold1024 x (by omega), fold1024 _ h1]
  simp only [Nat.shiftRight_eq_div_pow, add32, sub32]
  split
  · rename_i h; have := h4 h; simp only [Prod.mk.injEq]; omega
  · rename_i h; have := h5 h; simp only [Prod.mk.injEq]; omega

/-- `__l0_split_midi_2` (lines 30–44) on `x < 10^6` pushes `x / 1000` and `x % 1000` -/
theorem splitMidi2_eq (x : Nat) (hx : x < 1000000) (vec : List Nat) :
    splitMidi2 x vec = vec ++ [x / 1000, x % 1000] := by
  unfold splitMidi2
  simp only [reduce1000_eq x hx, List.append_assoc, List.cons_append, List.nil_append]

theorem est1e6 (x : Nat) (hx : x < 1000000000) :
    x / 131072 * 34359 / 262144 * 1000000 ≤ x ∧ x < x / 131072 * 34359 / 262144 * 1000000 + 2000000 := by
  have h1 : 131072 * (x / 131072) ≤ x := Nat.mul_div_le x 131072
  have h2 : x < 131072 * (x / 131072) + 131072 := by omega
  generalize x / 131072 = y at *
  have h3 : 262144 * (y * 34359 / 262144) ≤ y * 34359 := Nat.mul_div_le _ _
  have h4 : y * 34359 < 262144 * (y * 34359 / 262144) + 262144 := by omega
  generalize y * 34359 / 262144 = h at *
  omega

theorem e1a (x : Nat) (hx : x < 1000000000) : mul32 (x >>> 17) 34359 >>> 18 = x / 131072 * 34359 / 262144 := by
  simp only [mul32, Nat.shiftRight_eq_div_pow]
  have : x / 2^17 < 7630 := by omega
  generalize x / 2^17 = y at *
  omega

/-- quotient and remainder from an estimate that is at most one too small -/
theorem divmod_of_est (x h m : Nat) (h1 : h * m ≤ x) (h2 : x < h * m + 2 * m) :
    (x - h * m ≥ m → x / m = h + 1 ∧ x % m = x - h * m - m) ∧ (¬ x - h * m ≥ m → x / m = h ∧ x % m = x - h * m) := by
  have hm : 0 < m := by
    rcases Nat.eq_zero_or_pos m with h | h
    · subst h; omega
    · exact h
  constructor
  · intro h3
    have e : x = (x - h * m - m) + (h + 1) * m := by rw [Nat.add_mul]; omega
    have lt : x - h * m - m < m := by omega
    constructor
    · rw [e, Nat.add_mul_div_right _ _ hm, Nat.div_eq_of_lt lt, Nat.zero_add]
    · conv => lhs; rw [e]
      rw [Nat.add_mul_mod_self_right, Nat.mod_eq_of_lt lt]
  · intro h3
    have e : x = (x - h * m) + h * m := by omega
    have lt : x - h * m < m := by omega
    constructor
    · conv => lhs; rw [e]
      rw [Nat.add_mul_div_right _ _ hm, Nat.div_eq_of_lt lt, Nat.zero_add]
    · conv => lhs; rw [e]
      rw [Nat.add_mul_mod_self_right, Nat.mod_eq_of_lt lt]


/-- lines 47–54 of `__l0_split_midi_3`: on `x < 10^9`, `x / 10^6` and `x % 10^6` -/
theorem head1e6_eq (x : Nat) (hx : x < 1000000000) : head1e6 x = (x / 1000000, x % 1000000) := by
  unfold head1e6
  obtain ⟨h1, h2⟩ := est1e6 x hx
  simp only []
  rw [e1a x hx]
  generalize x / 131072 * 34359 / 262144 = h at *
  have e2 : sub32 x (mul32 h 1000000) = x - h * 1000000 := by
    simp only [mul32, sub32]; omega
  rw [e2]
  obtain ⟨h3, h4⟩ := divmod_of_est x h 1000000 h1 (by omega)
  split
  · rename_i hc
    obtain ⟨h5, h6⟩ := h3 hc
    rw [h5, h6]
    simp only [sub32, add32, Prod.mk.injEq]; omega
  · rename_i hc
    obtain ⟨h5, h6⟩ := h4 hc
    rw [h5, h6]

/-- `__l0_split_midi_3` (lines 46–70) on `x < 10^9` pushes the three groups of three digits of `x` -/
theorem splitMidi3_eq (x : Nat) (hx : x < 1000000000) (vec : List Nat) :
    splitMidi3 x vec = vec ++ [x / 1000000, x / 1000 % 1000, x % 1000] := by
  unfold splitMidi3
  have e1 : x % 1000000 / 1000 = x / 1000 % 1000 := by omega
  have e2 : x % 1000000 % 1000 = x % 1000 := by omega
  simp only [head1e6_eq x hx, reduce1000_eq _ (Nat.mod_lt x (by decide : 0 < 1000000)), e1, e2,
    List.append_assoc, List.cons_append, List.nil_append]

example : splitMidi3 123456789 [7] = [7, 123, 456, 789] ∧ splitMidi2 12345 [] = [12, 345] := by decide +kernel

/-- the multiply-and-shift estimate of `x / 10^9` (lines 73 / 95) is the quotient or one less -/
theorem est1e9 (x : Nat) (hx : x < 1000000000000000000) :
    x / 268435456 * 2305843009 / 8589934592 * 1000000000 ≤ x ∧
    x < x / 268435456 * 2305843009 / 8589934592 * 1000000000 + 2000000000 := by
  have h1 : 268435456 * (x / 268435456) ≤ x := Nat.mul_div_le x 268435456
  have h2 : x < 268435456 * (x / 268435456) + 268435456 := by omega
  generalize x / 268435456 = y at *
  have h3 : 8589934592 * (y * 2305843009 / 8589934592) ≤ y * 2305843009 := Nat.mul_div_le _ _
  have h4 : y * 2305843009 < 8589934592 * (y * 2305843009 / 8589934592) + 8589934592 := by omega
  generalize y * 2305843009 / 8589934592 = h at *
  omega

theorem e1b (x : Nat) (hx : x < 1000000000000000000) :
    mul64 (x >>> 28) BID_INV_TENTO9 >>> 33 = x / 268435456 * 2305843009 / 8589934592 := by
  simp only [mul64, BID_INV_TENTO9, Nat.shiftRight_eq_div_pow]
  have : x / 2 ^ 28 < 3725290299 := by omega
  generalize x / 2 ^ 28 = y at *
  omega

/-- lines 73–82 / 95–104: `x < 10^18` is split into `x / 10^9` and `x % 10^9` -/
theorem splitTento9_eq (x : Nat) (hx : x < 1000000000000000000) :
    splitTento9 x = (x / 1000000000, x % 1000000000) := by
  unfold splitTento9
  obtain ⟨h1, h2⟩ := est1e9 x hx
  simp only []
  rw [e1b x hx]
  generalize x / 268435456 * 2305843009 / 8589934592 = h at *
  have e2 : sub64 x (mul64 h BID_TENTO9) = x - h * 1000000000 := by
    simp only [mul64, sub64, BID_TENTO9]; omega
  rw [e2]
  obtain ⟨h3, h4⟩ := divmod_of_est x h 1000000000 h1 (by omega)
  delta BID_TENTO9
  by_cases hc : x - h * 1000000000 ≥ 1000000000
  · obtain ⟨h5, h6⟩ := h3 hc
    rw [if_pos hc, h5, h6]
    simp only [sub64, add64, asU32, Prod.mk.injEq]; omega
  · obtain ⟨h5, h6⟩ := h4 hc
    rw [if_neg hc, h5, h6]
    simp only [asU32, Prod.mk.injEq]; omega

example : splitTento9 999999999999999999 = (999999999, 999999999) ∧ splitTento9 1000000000 = (1, 0) := by
  decide +kernel

/-! ### 3. Millennial digits as text -/

theorem pad3 (x : Nat) : pad 3 x = [48 + x / 100 % 10, 48 + x / 10 % 10, 48 + x % 10] := by
  have e : x / 10 / 10 = x / 100 := by omega
  simp [pad, e]

theorem pad2 (x : Nat) : pad 2 x = [48 + x / 10 % 10, 48 + x % 10] := by
  simp [pad]

/-- a row of the flattened `BID_MIDI_TBL`: the length and the three characters -/
def midiRow (i : Nat) : List Nat := [3, 48 + i / 100, 48 + (i / 10) % 10, 48 + i % 10]

theorem strEntry_rows (n s i : Nat) (hi : i < n) :
    strEntry ((List.range' s n).flatMap midiRow) i = some [48 + (s + i) / 100, 48 + ((s + i) / 10) % 10, 48 + (s + i) % 10] := by
  induction n generalizing s i with
  | zero => omega
  | succ n ih =>
    rw [List.range'_succ, List.flatMap_cons]
    cases i with
    | zero => simp [midiRow, strEntry]
    | succ i =>
      have := ih (s + 1) i (by omega)
      simp only [midiRow, List.cons_append, List.nil_append, strEntry, List.drop_succ_cons, List.drop_zero] at this ⊢
      rw [this]
      have e : s + 1 + i = s + (i + 1) := by omega
      rw [e]

/-- `BID_MIDI_TBL[x]` is the three-character, zero-padded decimal form of `x` -/
theorem midiStr_eq (x : Nat) (hx : x < 1000) : midiStr x = some [48 + x / 100, 48 + (x / 10) % 10, 48 + x % 10] := by
  unfold midiStr
  rw [Dec.TableFacts.BID_MIDI_TBL_def, List.range_eq_range']
  have := strEntry_rows 1000 0 x hx
  simp only [Nat.zero_add] at this
  exact this

/-- `__l0_midi_2_str` writes the three digits of a millennial digit -/
theorem midi2Str_eq (x : Nat) (hx : x < 1000) (fmt : Bytes) : midi2Str x fmt = some (fmt ++ pad 3 x) := by
  unfold midi2Str
  rw [midiStr_eq x hx, pad3]
  have : x / 100 % 10 = x / 100 := by omega
  simp only [this]

theorem isCont_digit (d : Nat) (h : d < 10) : isContByte (48 + d) = false := by
  unfold isContByte
  rw [Bool.and_eq_false_iff]
  simp only [decide_eq_false_iff_not]
  omega

/-- `__l0_midi_2_str_lead` writes the digits of the leading millennial digit without leading zeros -/
theorem midi2StrLead_eq (x : Nat) (hx : x < 1000) (fmt : Bytes) : midi2StrLead x fmt = some (fmt ++ digitBytes x) := by
  unfold midi2StrLead
  rw [midiStr_eq x hx]
  simp only []
  by_cases h1 : x ≥ 100
  · rw [if_pos h1, digitBytes_step x (by omega), digitBytes_step (x / 10) (by omega), digitBytes_lt_ten (x / 10 / 10) (by omega)]
    have e : x / 10 / 10 = x / 100 := by omega
    simp [e]
  · rw [if_neg h1]
    by_cases h2 : x ≥ 10
    · rw [if_pos h2, digitBytes_step x (by omega), digitBytes_lt_ten (x / 10) (by omega)]
      have hc := isCont_digit (x / 10 % 10) (by omega)
      have e : x / 10 % 10 = x / 10 := by omega
      rw [e] at hc
      simp [sliceFrom, isCharBoundary, hc, e]
    · rw [if_neg h2, digitBytes_lt_ten x (by omega)]
      have hc := isCont_digit (x % 10) (by omega)
      have e : x % 10 = x := by omega
      rw [e] at hc
      simp [sliceFrom, isCharBoundary, hc, e]

/-- every entry is a millennial digit -/
def allLt : List Nat → Prop
  | [] => True
  | m :: r => m < 1000 ∧ allLt r

theorem allLt_append (a b : List Nat) : allLt (a ++ b) ↔ allLt a ∧ allLt b := by
  induction a with
  | nil => simp [allLt]
  | cons m r ih => simp [allLt, ih, and_assoc]

/-- lines 157–159 write three digits per entry -/
theorem writeMidis_eq (rest : List Nat) (h : allLt rest) (fmt : Bytes) :
    writeMidis rest fmt = some (fmt ++ rest.flatMap (pad 3)) := by
  induction rest generalizing fmt with
  | nil => simp [writeMidis]
  | cons m r ih =>
    simp only [allLt] at h
    simp only [writeMidis, midi2Str_eq m h.1, ih h.2, List.flatMap_cons, List.append_assoc]

/-- appending three-digit groups to the digits of a positive number -/
theorem digits_fold (rest : List Nat) (h : allLt rest) (acc : Nat) (hacc : 0 < acc) :
    digitBytes acc ++ rest.flatMap (pad 3) = digitBytes (rest.foldl (fun a m => a * 1000 + m) acc) := by
  induction rest generalizing acc with
  | nil => simp
  | cons m r ih =>
    simp only [allLt] at h
    rw [List.flatMap_cons, List.foldl_cons, ← ih h.2 (acc * 1000 + m) (by omega), ← List.append_assoc]
    congr 1
    exact (digitBytes_mul_add acc 3 m hacc h.1).symm

/-- the value of a list of millennial digits -/
def midiVal (l : List Nat) : Nat := l.foldl (fun a m => a * 1000 + m) 0

/-- a non-empty list of millennial digits with a non-zero head and value `v` -/
def Good (l : List Nat) (v : Nat) : Prop := (∃ m0 rest, l = m0 :: rest ∧ 0 < m0) ∧ allLt l ∧ midiVal l = v

/-- lines 155–159 on such a list write the decimal digits of its value, without leading zeros -/
theorem writeCoeff_eq (l : List Nat) (v : Nat) (h : Good l v) (fmt : Bytes) :
    writeCoeff l fmt = some (fmt ++ digitBytes v) := by
  obtain ⟨⟨m0, rest, rfl, h0⟩, h1, h2⟩ := h
  simp only [allLt] at h1
  simp only [writeCoeff, midi2StrLead_eq m0 h1.1, writeMidis_eq rest h1.2, List.append_assoc]
  rw [digits_fold rest h1.2 m0 h0, ← h2]
  simp [midiVal]

/-! ### 4. The millennial digits of a limb -/

theorem midiVal_push (vec : List Nat) (a : Nat) : midiVal (vec ++ [a]) = midiVal vec * 1000 + a := by
  simp [midiVal, List.foldl_append]

theorem head_append {l : List Nat} (h : ∃ m0 rest, l = m0 :: rest ∧ 0 < m0) (b : List Nat) :
    ∃ m0 rest, l ++ b = m0 :: rest ∧ 0 < m0 := by
  obtain ⟨m0, rest, rfl, h0⟩ := h
  exact ⟨m0, rest ++ b, rfl, h0⟩

/-- a single non-zero millennial digit -/
theorem good_one (x : Nat) (h0 : 0 < x) (hx : x < 1000) : Good ([] ++ [x]) x :=
  ⟨⟨x, [], rfl, h0⟩, by simp [allLt, hx], by simp [midiVal]⟩

/-- `__l0_split_midi_2` on a four- to six-digit number -/
theorem good_two (x : Nat) (h0 : 1000 ≤ x) (hx : x < 1000000) : Good (splitMidi2 x []) x := by
  rw [splitMidi2_eq x hx]
  refine ⟨⟨x / 1000, [x % 1000], rfl, by omega⟩, ?_, ?_⟩
  · simp only [List.nil_append, allLt, and_true]; omega
  · simp only [List.nil_append, midiVal, List.foldl_cons, List.foldl_nil]; omega

/-- `__l0_split_midi_3` on a seven- to nine-digit number -/
theorem good_three (x : Nat) (h0 : 1000000 ≤ x) (hx : x < 1000000000) : Good (splitMidi3 x []) x := by
  rw [splitMidi3_eq x hx]
  refine ⟨⟨x / 1000000, [x / 1000 % 1000, x % 1000], rfl, by omega⟩, ?_, ?_⟩
  · simp only [List.nil_append, allLt, and_true]; omega
  · simp only [List.nil_append, midiVal, List.foldl_cons, List.foldl_nil]; omega

/-- `__l0_split_midi_3` appends nine digits -/
theorem good_push3 (vec : List Nat) (v y : Nat) (h : Good vec v) (hy : y < 1000000000) :
    Good (splitMidi3 y vec) (v * 1000000000 + y) := by
  obtain ⟨h1, h2, h3⟩ := h
  rw [splitMidi3_eq y hy]
  refine ⟨head_append h1 _, ?_, ?_⟩
  · rw [allLt_append]
    refine ⟨h2, ?_⟩
    simp only [allLt, and_true]; omega
  · have e : vec ++ [y / 1000000, y / 1000 % 1000, y % 1000] = vec ++ [y / 1000000] ++ [y / 1000 % 1000] ++ [y % 1000] := by
      simp
    rw [e, midiVal_push, midiVal_push, midiVal_push, h3]
    omega

/-- `__l1_split_midi_6` appends eighteen digits -/
theorem good_push6 (vec : List Nat) (v y : Nat) (h : Good vec v) (hy : y < 1000000000000000000) :
    Good (splitMidi6 y vec) (v * 1000000000000000000 + y) := by
  unfold splitMidi6
  simp only [splitTento9_eq y hy]
  have h1 := good_push3 vec v (y / 1000000000) h (by omega)
  have h2 := good_push3 _ _ (y % 1000000000) h1 (Nat.mod_lt _ (by decide))
  have e : (v * 1000000000 + y / 1000000000) * 1000000000 + y % 1000000000 = v * 1000000000000000000 + y := by omega
  rw [e] at h2
  exact h2

/-- `__l1_split_midi_6_lead` on a non-zero limb: its millennial digits, the first one not zero -/
theorem good_lead (x : Nat) (h0 : 0 < x) (hx : x < 1000000000000000000) : Good (splitMidi6Lead x []) x := by
  unfold splitMidi6Lead
  delta BID_TENTO9 BID_TENTO6 BID_TENTO3
  by_cases h9 : x ≥ 1000000000
  · rw [if_pos h9]
    simp only [splitTento9_eq x hx]
    have hl : x % 1000000000 < 1000000000 := Nat.mod_lt _ (by decide)
    have e : x / 1000000000 * 1000000000 + x % 1000000000 = x := by omega
    have hh : x / 1000000000 < 1000000000 := by omega
    have hh0 : 0 < x / 1000000000 := by omega
    generalize x / 1000000000 = h at *
    generalize x % 1000000000 = l at *
    subst e
    by_cases h6 : h ≥ 1000000
    · rw [if_pos h6]
      exact good_push3 _ _ l (good_three h h6 hh) hl
    · rw [if_neg h6]
      by_cases h3 : h ≥ 1000
      · rw [if_pos h3]
        exact good_push3 _ _ l (good_two h h3 (by omega)) hl
      · rw [if_neg h3]
        exact good_push3 _ _ l (good_one h hh0 (by omega)) hl
  · rw [if_neg h9]
    have e : asU32 x = x := by unfold asU32; omega
    simp only [e]
    by_cases h6 : x ≥ 1000000
    · rw [if_pos h6]
      exact good_three x h6 (by omega)
    · rw [if_neg h6]
      by_cases h3 : x ≥ 1000
      · rw [if_pos h3]
        exact good_two x h3 (by omega)
      · rw [if_neg h3]
        exact good_one x h0 (by omega)

/-! ### 5. The limb loop -/

/-- Word `j` of row `i` of a `flatMap` of rows that all have width `k`. -/
theorem getElem?_flatMap_const_width {α β : Type} (f : α → List β) (k : Nat) (hk : ∀ a, (f a).length = k) :
    ∀ (l : List α) (i j : Nat) (a : α), l[i]? = some a → j < k → (l.flatMap f)[i * k + j]? = (f a)[j]?
  | [], i, j, a, h, _ => by simp at h
  | b :: l, 0, j, a, h, hj => by
    simp only [List.getElem?_cons_zero, Option.some.injEq] at h
    subst h
    rw [List.flatMap_cons, Nat.zero_mul, Nat.zero_add, List.getElem?_append_left (by rw [hk]; exact hj)]
  | b :: l, i + 1, j, a, h, hj => by
    rw [List.flatMap_cons, List.getElem?_append_right (by rw [hk, Nat.succ_mul]; omega)]
    have e : (i + 1) * k + j - (f b).length = i * k + j := by rw [hk, Nat.succ_mul]; omega
    rw [e]
    exact getElem?_flatMap_const_width f k hk l i j a (by simpa using h) hj

/-- an entry pair of `MOD10_18_TBL` -/
def modPair (k c : Nat) : List Nat := [(c * 2 ^ (59 + 6 * k)) / 10 ^ 18, (c * 2 ^ (59 + 6 * k)) % 10 ^ 18]

/-- a row of `MOD10_18_TBL` -/
def modRow (k : Nat) : List Nat := (List.range 64).flatMap (modPair k)

theorem modRow_length (k : Nat) : (modRow k).length = 128 := by
  simp only [modRow, modPair, List.length_flatMap, List.length_cons, List.length_nil]
  decide

/-- `MOD10_18_TBL[k][2c + j]` (`j = 0, 1`): quotient and remainder of `c · 2^(59+6k)` by `10^18` -/
theorem mod1018_eq (k c j : Nat) (hk : k < 9) (hc : c < 64) (hj : j < 2) :
    mod1018 k (c * 2 + j) = (modPair k c)[j]? := by
  unfold mod1018
  have h1 : k < Dec.Gen.MOD10_18_TBL_len ∧ c * 2 + j < 128 := ⟨hk, by omega⟩
  rw [if_pos h1, Dec.TableFacts.MOD10_18_TBL_def]
  have hrow := getElem?_flatMap_const_width modRow 128 modRow_length (List.range 9) k (c * 2 + j) k
    (List.getElem?_range hk) (by omega)
  have hcol := getElem?_flatMap_const_width (modPair k) 2 (fun _ => rfl) (List.range 64) c j c
    (List.getElem?_range hc) hj
  exact hrow.trans hcol

theorem and_field (x a b : Nat) : x &&& ((2 ^ b - 1) * 2 ^ a) = (x / 2 ^ a % 2 ^ b) * 2 ^ a := by
  apply Nat.eq_of_testBit_eq
  intro i
  rw [Nat.testBit_and, Nat.testBit_mul_two_pow, Nat.testBit_mul_two_pow, Nat.testBit_two_pow_sub_one,
    Nat.testBit_mod_two_pow, Nat.testBit_div_two_pow]
  by_cases h : a ≤ i
  · rw [Nat.sub_add_cancel h]
    cases x.testBit i <;> simp [h]
  · simp [h]

/-- `__l0_normalize_10to18` (lines 14–20) carries `10^18` from the low limb into the high one -/
theorem normalize10to18_eq (hi lo : Nat) (hhi : hi + 1 < 2 ^ 64) (hlo : lo < 2000000000000000000) :
    normalize10to18 hi lo = if lo ≥ 1000000000000000000 then (hi + 1, lo - 1000000000000000000) else (hi, lo) := by
  unfold normalize10to18
  have e1 : add64 lo BID_TWOTO60_M_10TO18 = lo + 152921504606846976 := by
    unfold add64 BID_TWOTO60_M_10TO18; omega
  have e2 : BID_TWOTO60 = (2 ^ 1 - 1) * 2 ^ 60 := by decide
  simp only [e1]
  rw [e2, and_field]
  by_cases h : lo ≥ 1000000000000000000
  · have c : ((lo + 152921504606846976) / 2 ^ 60 % 2 ^ 1 * 2 ^ 60 == (2 ^ 1 - 1) * 2 ^ 60) = true := by
      rw [beq_iff_eq]; omega
    rw [if_pos c, if_pos h]
    simp only [add64, shl64, Nat.shiftLeft_eq, Nat.shiftRight_eq_div_pow, Prod.mk.injEq]; omega
  · have c : ¬ ((lo + 152921504606846976) / 2 ^ 60 % 2 ^ 1 * 2 ^ 60 == (2 ^ 1 - 1) * 2 ^ 60) = true := by
      rw [beq_iff_eq]; omega
    rw [if_neg c, if_neg h]

/-- line 138–139, 141: the column of the quotient entry -/
theorem col_even (T : Nat) :
    i32AsUsize (wrapI32 (((asU32 T &&& 0x3f : Nat) : Int) * 2)) = T % 64 * 2 + 0 := by
  have e : asU32 T &&& 0x3f = T % 64 := by
    have := Nat.and_two_pow_sub_one_eq_mod (asU32 T) 6
    simp only [Nat.reducePow, Nat.reduceSub] at this
    rw [this]; unfold asU32; omega
  rw [e]
  unfold i32AsUsize wrapI32
  omega

/-- line 142–143: the column of the remainder entry -/
theorem col_odd (T : Nat) :
    i32AsUsize (wrapI32 (wrapI32 (((asU32 T &&& 0x3f : Nat) : Int) * 2) + 1)) = T % 64 * 2 + 1 := by
  have e : asU32 T &&& 0x3f = T % 64 := by
    have := Nat.and_two_pow_sub_one_eq_mod (asU32 T) 6
    simp only [Nat.reducePow, Nat.reduceSub] at this
    rw [this]; unfold asU32; omega
  rw [e]
  unfold i32AsUsize wrapI32
  omega

/-- one round of the loop body (lines 138–145) on limbs `(hi, lo)` with chunk `c` of weight `P = 2^(59+6k)`:
the limbs of `hi·10^18 + lo + c·P` -/
theorem limb_step (k c hi lo : Nat) (hk : k < 9) (hc : c < 64) (hlo : lo < 1000000000000000000)
    (hv : hi * 1000000000000000000 + lo + c * 2 ^ (59 + 6 * k) < 10000000000000000000000000000000000) :
    ∃ a b, mod1018 k (c * 2 + 0) = some a ∧ mod1018 k (c * 2 + 1) = some b ∧
      (normalize10to18 (add64 hi a) (add64 lo b)).2 < 1000000000000000000 ∧
      (normalize10to18 (add64 hi a) (add64 lo b)).1 * 1000000000000000000 + (normalize10to18 (add64 hi a) (add64 lo b)).2
        = hi * 1000000000000000000 + lo + c * 2 ^ (59 + 6 * k) := by
  refine ⟨_, _, (mod1018_eq k c 0 hk hc (by decide)).trans rfl, (mod1018_eq k c 1 hk hc (by decide)).trans rfl, ?_⟩
  simp only [Nat.reducePow]
  generalize c * 2 ^ (59 + 6 * k) = Y at *
  have e1 : add64 hi (Y / 1000000000000000000) = hi + Y / 1000000000000000000 := by unfold add64; omega
  have e2 : add64 lo (Y % 1000000000000000000) = lo + Y % 1000000000000000000 := by unfold add64; omega
  rw [e1, e2, normalize10to18_eq _ _ (by omega) (by omega)]
  split
  · simp only []; omega
  · simp only []; omega

/-- The `while Tmp > 0` loop (lines 137–146): started in round `k` with limbs `(hi, lo)` and the remaining chunks
`T < 64^j` (`k + j = 9`, fuel at least `j`), it ends with the limbs of `hi·10^18 + lo + T·2^(59+6k)`. -/
theorem limbLoop_spec (fuel : Nat) : ∀ (j T k hi lo : Nat), j ≤ fuel → k + j = 9 → T < 2 ^ (6 * j) →
    lo < 1000000000000000000 →
    hi * 1000000000000000000 + lo + T * 2 ^ (59 + 6 * k) < 10000000000000000000000000000000000 →
    limbLoop fuel T k hi lo = some ((hi * 1000000000000000000 + lo + T * 2 ^ (59 + 6 * k)) / 1000000000000000000,
      (hi * 1000000000000000000 + lo + T * 2 ^ (59 + 6 * k)) % 1000000000000000000) := by
  induction fuel with
  | zero =>
    intro j T k hi lo hj _ hT hlo _
    have : j = 0 := by omega
    subst this
    have hT0 : T = 0 := by simpa using hT
    subst hT0
    simp only [limbLoop, Nat.lt_irrefl, if_false, gt_iff_lt, Nat.zero_mul, Nat.add_zero, Option.some.injEq, Prod.mk.injEq]
    omega
  | succ fuel ih =>
    intro j T k hi lo hj hkj hT hlo hv
    rw [limbLoop]
    by_cases hT0 : T > 0
    · rw [if_pos hT0]
      obtain ⟨j, rfl⟩ : ∃ i, j = i + 1 := by
        rcases j with _ | i
        · simp at hT; omega
        · exact ⟨i, rfl⟩
      have hj' : j ≤ fuel := by omega
      have hkj' : k + 1 + j = 9 := by omega
      have hk : k < 9 := by omega
      have hc : T % 64 < 64 := Nat.mod_lt _ (by decide)
      have hT' : T / 64 < 2 ^ (6 * j) := by
        have hpow : 2 ^ (6 * (j + 1)) = 2 ^ (6 * j) * 64 := by rw [Nat.mul_succ, Nat.pow_add]
        rw [hpow] at hT
        generalize 2 ^ (6 * j) = Q at *; omega
      have hP : 2 ^ (59 + 6 * (k + 1)) = 64 * 2 ^ (59 + 6 * k) := by
        rw [Nat.mul_succ, ← Nat.add_assoc, Nat.pow_add, Nat.mul_comm]
      have hsplit : T * 2 ^ (59 + 6 * k) = T / 64 * (64 * 2 ^ (59 + 6 * k)) + T % 64 * 2 ^ (59 + 6 * k) := by
        rw [← Nat.mul_assoc, ← Nat.add_mul]
        congr 1; omega
      have hv' : hi * 1000000000000000000 + lo + T % 64 * 2 ^ (59 + 6 * k) < 10000000000000000000000000000000000 := by
        rw [hsplit] at hv
        exact Nat.lt_of_le_of_lt (by rw [Nat.add_comm (T / 64 * _), ← Nat.add_assoc]; exact Nat.le_add_right _ _) hv
      obtain ⟨a, b, ha, hb, h1, h2⟩ := limb_step k (T % 64) hi lo hk hc hlo hv'
      simp only [col_even, col_odd, ha, hb, Nat.shiftRight_eq_div_pow, Nat.reducePow]
      have hval : (normalize10to18 (add64 hi a) (add64 lo b)).1 * 1000000000000000000 +
          (normalize10to18 (add64 hi a) (add64 lo b)).2 + T / 64 * 2 ^ (59 + 6 * (k + 1))
          = hi * 1000000000000000000 + lo + T * 2 ^ (59 + 6 * k) := by
        rw [hP, h2, hsplit, Nat.add_comm (T / 64 * _), ← Nat.add_assoc]
      rw [ih j (T / 64) (k + 1) _ _ hj' hkj' hT' h1 (by rw [hval]; exact hv), hval]
    · rw [if_neg hT0]
      have hT0 : T = 0 := by omega
      subst hT0
      simp only [Nat.zero_mul, Nat.add_zero, Option.some.injEq, Prod.mk.injEq]
      omega

/-- `10^34 − 1`: nine rounds, limbs `9999999999999999` and `999999999999999999` -/
example : limbLoop 64 ((10 ^ 34 - 1) / 2 ^ 59) 0 0 ((10 ^ 34 - 1) % 2 ^ 59) = some (9999999999999999, 999999999999999999) := by
  decide +kernel

/-! ### 6. The exponent -/

theorem digitBytes_two (x : Nat) (h1 : 10 ≤ x) (h2 : x < 100) : digitBytes x = [48 + x / 10, 48 + x % 10] := by
  rw [digitBytes_step x h1, digitBytes_lt_ten (x / 10) (by omega)]; rfl

theorem digitBytes_three (x : Nat) (h1 : 100 ≤ x) (h2 : x < 1000) :
    digitBytes x = [48 + x / 100, 48 + x / 10 % 10, 48 + x % 10] := by
  rw [digitBytes_step x (by omega), digitBytes_two (x / 10) (by omega) (by omega)]
  have e : x / 10 / 10 = x / 100 := by omega
  simp [e]

theorem utf8CP_ascii (c : Nat) (h : c < 128) : utf8CP c = [c] := by
  unfold utf8CP; rw [if_pos h]

theorem i32AsUsize_nat (n : Nat) (h : n < 1000000) : i32AsUsize (n : Int) = n := by
  unfold i32AsUsize; omega

theorem wrapI32_succ (n : Nat) (h : n < 1000000) : wrapI32 ((n : Int) + 1) = ((n + 1 : Nat) : Int) := by
  unfold wrapI32; omega

/-- consecutive `write_char(TABLE[ind + i])` write the table's characters -/
theorem writeTable_chars (t cs : List Nat) : ∀ (n : Nat) (fmt : Bytes), n + cs.length < 1000000 →
    (∀ i, i < cs.length → t[n + i]? = cs[i]?) → (∀ c ∈ cs, c < 128) →
    writeTable t (n : Int) cs.length fmt = some (fmt ++ cs) := by
  induction cs with
  | nil => intro n fmt _ _ _; simp [writeTable]
  | cons c r ih =>
    intro n fmt hn hcs hascii
    simp only [List.length_cons] at hn ⊢
    have h0 := hcs 0 (by simp)
    simp only [Nat.add_zero, List.getElem?_cons_zero] at h0
    simp only [writeTable, tblAt, i32AsUsize_nat n (by omega), h0, wrapI32_succ n (by omega), writeChar,
      utf8CP_ascii c (hascii c (by simp))]
    rw [ih (n + 1) (fmt ++ [c]) (by omega) ?_ (fun x hx => hascii x (by simp [hx]))]
    · simp
    · intro i hi
      have := hcs (i + 1) (by simp; omega)
      simp only [List.getElem?_cons_succ] at this
      rw [← this]; congr 1; omega

/-- lines 180–183 / 196–199: the three characters of `d` from `BID_CHAR_TABLE3` -/
theorem writeTable3_eq (d : Nat) (hd : d < 1000) (fmt : Bytes) :
    writeTable Dec.Gen.BID_CHAR_TABLE3 (asI32 (mul32 3 d)) 3 fmt = some (fmt ++ [48 + d / 100, 48 + d / 10 % 10, 48 + d % 10]) := by
  have e : asI32 (mul32 3 d) = ((d * 3 : Nat) : Int) := by unfold asI32 mul32 wrapI32; omega
  rw [e]
  refine writeTable_chars _ [48 + d / 100, 48 + d / 10 % 10, 48 + d % 10] (d * 3) fmt (by simp; omega) ?_ ?_
  · intro i hi
    rw [Dec.TableFacts.BID_CHAR_TABLE3_def]
    exact getElem?_flatMap_const_width (fun i => [48 + i / 100, 48 + (i / 10) % 10, 48 + i % 10]) 3 (fun _ => rfl)
      (List.range 1000) d i d (List.getElem?_range hd) hi
  · intro c hc
    simp only [List.mem_cons, List.not_mem_nil, or_false] at hc
    omega

/-- lines 191–193: the two characters of `d` from `BID_CHAR_TABLE2` -/
theorem writeTable2_eq (d : Nat) (h1 : 10 ≤ d) (h2 : d < 100) (fmt : Bytes) :
    writeTable Dec.Gen.BID_CHAR_TABLE2 (asI32 (mul32 2 (sub32 d 10))) 2 fmt = some (fmt ++ [48 + d / 10, 48 + d % 10]) := by
  have e : asI32 (mul32 2 (sub32 d 10)) = (((d - 10) * 2 : Nat) : Int) := by unfold asI32 mul32 sub32 wrapI32; omega
  rw [e]
  refine writeTable_chars _ [48 + d / 10, 48 + d % 10] ((d - 10) * 2) fmt (by simp; omega) ?_ ?_
  · intro i hi
    rw [Dec.TableFacts.BID_CHAR_TABLE2_def]
    have := getElem?_flatMap_const_width (fun i => [48 + (i + 10) / 10, 48 + (i + 10) % 10]) 2 (fun _ => rfl)
      (List.range 90) (d - 10) i (d - 10) (List.getElem?_range (by omega)) hi
    rw [this]
    have e : d - 10 + 10 = d := by omega
    simp only [e]
  · intro c hc
    simp only [List.mem_cons, List.not_mem_nil, or_false] at hc
    omega

/-- "Property 1" of line 174: `(exp · 0x418a) >> 24` is `exp / 1000`, and line 175 gives `exp % 1000` -/
theorem exp_d0_d123 (n : Nat) (hn : n ≤ 6176) :
    i32AsU32 (wrapI32 ((n : Int) * 0x418a) >>> 24) = n / 1000 ∧
    i32AsU32 (wrapI32 ((n : Int) - wrapI32 (1000 * asI32 (n / 1000)))) = n % 1000 := by
  have key : ∀ m < 6177, m * 16778 / 16777216 = m / 1000 := by
    intro m _
    have : m / 1000 = 0 ∨ m / 1000 = 1 ∨ m / 1000 = 2 ∨ m / 1000 = 3 ∨ m / 1000 = 4 ∨ m / 1000 = 5 ∨ m / 1000 = 6 := by
      omega
    rcases this with h | h | h | h | h | h | h <;> omega
  have e0 : wrapI32 ((n : Int) * 0x418a) = ((n * 16778 : Nat) : Int) := by unfold wrapI32; omega
  have e1 : wrapI32 ((n : Int) * 0x418a) >>> 24 = ((n / 1000 : Nat) : Int) := by
    rw [e0, Int.shiftRight_eq_div_pow, ← key n (by omega)]
    simp only [Nat.reducePow]
    omega
  constructor
  · rw [e1]; unfold i32AsU32; omega
  · unfold i32AsU32 asI32 wrapI32; omega

/-- lines 171–201 write the decimal digits of the exponent's magnitude -/
theorem writeExpDigits_eq (n : Nat) (hn : n ≤ 6176) (fmt : Bytes) :
    writeExpDigits (n : Int) fmt = some (fmt ++ digitBytes n) := by
  unfold writeExpDigits
  obtain ⟨h1, h2⟩ := exp_d0_d123 n hn
  simp only [h1, h2]
  by_cases c0 : n / 1000 ≠ 0
  · have hc : (n / 1000 != 0) = true := by simpa using c0
    rw [if_pos hc]
    have hd : n / 1000 < 10 := by omega
    simp only [fromDigit10, if_pos hd, writeChar, utf8CP_ascii (48 + n / 1000) (by omega)]
    rw [writeTable3_eq (n % 1000) (Nat.mod_lt _ (by decide))]
    have e : n = n / 1000 * 10 ^ 3 + n % 1000 := by omega
    conv => rhs; rw [e, digitBytes_mul_add (n / 1000) 3 (n % 1000) (by omega) (Nat.mod_lt _ (by decide)),
      digitBytes_lt_ten _ hd, pad3]
    have e2 : n % 1000 / 100 % 10 = n % 1000 / 100 := by omega
    simp [e2]
  · have hc : ¬ (n / 1000 != 0) = true := by simpa using c0
    rw [if_neg hc]
    by_cases c1 : n % 1000 < 10
    · rw [if_pos c1]
      have e : n % 1000 = n := by omega
      simp only [fromDigit10, if_pos c1, writeChar, utf8CP_ascii (48 + n % 1000) (by omega)]
      rw [e, digitBytes_lt_ten n (by omega)]
    · rw [if_neg c1]
      have e : n % 1000 = n := by omega
      by_cases c2 : n % 1000 < 100
      · rw [if_pos c2, writeTable2_eq (n % 1000) (by omega) c2, e, digitBytes_two n (by omega) (by omega)]
      · rw [if_neg c2, writeTable3_eq (n % 1000) (Nat.mod_lt _ (by decide)), e, digitBytes_three n (by omega) (by omega)]

/-- lines 162–201 write `E`/`e`, the sign of the exponent and the digits of its magnitude -/
theorem writeExp_eq (up : Bool) (e : Int) (h1 : -6176 ≤ e) (h2 : e ≤ 6111) (fmt : Bytes) :
    writeExp up e fmt =
      some (fmt ++ [if up then 69 else 101] ++ [if e < 0 then 45 else 43] ++ digitBytes e.natAbs) := by
  unfold writeExp
  have hE : utf8CP (if up then 69 else 101) = [if up then 69 else 101] := by cases up <;> rfl
  simp only [writeChar, hE]
  by_cases hneg : e < 0
  · have e1 : wrapI32 (-e) = ((e.natAbs : Nat) : Int) := by unfold wrapI32; omega
    rw [if_pos hneg, if_pos hneg, e1, writeExpDigits_eq _ (by omega)]
    rfl
  · have e1 : e = ((e.natAbs : Nat) : Int) := by omega
    rw [if_neg hneg, if_neg hneg]
    conv => lhs; rw [e1]
    rw [writeExpDigits_eq _ (by omega)]
    rfl

example : writeExp true (-6176) [] = some [69, 45, 54, 49, 55, 54] ∧ writeExp false 42 [] = some [101, 43, 52, 50] := by
  decide +kernel

/-! ### 7. The coefficient -/

/-- lines 129–146: the two 18-digit limbs of a canonical coefficient `C1 = C1w1·2^64 + C1w0` -/
theorem limbs_eq (C1w0 C1w1 : Nat) (h0 : C1w0 < 2 ^ 64) (h1 : C1w1 < 2 ^ 49)
    (hlt : C1w1 * 2 ^ 64 + C1w0 < 10000000000000000000000000000000000) :
    limbLoop 64 (add64 (C1w0 >>> 59) (shl64 C1w1 5)) 0 0 (shl64 C1w0 5 >>> 5) =
      some ((C1w1 * 2 ^ 64 + C1w0) / 1000000000000000000, (C1w1 * 2 ^ 64 + C1w0) % 1000000000000000000) := by
  have eT : add64 (C1w0 >>> 59) (shl64 C1w1 5) = (C1w1 * 2 ^ 64 + C1w0) / 2 ^ 59 := by
    simp only [add64, shl64, Nat.shiftLeft_eq, Nat.shiftRight_eq_div_pow]; omega
  have eL : shl64 C1w0 5 >>> 5 = (C1w1 * 2 ^ 64 + C1w0) % 2 ^ 59 := by
    simp only [shl64, Nat.shiftLeft_eq, Nat.shiftRight_eq_div_pow]; omega
  rw [eT, eL]
  generalize hc : C1w1 * 2 ^ 64 + C1w0 = c at *
  have hc2 : c < 2 ^ 113 := by omega
  have hval : 0 * 1000000000000000000 + c % 2 ^ 59 + c / 2 ^ 59 * 2 ^ (59 + 6 * 0) = c := by
    simp only [Nat.mul_zero, Nat.add_zero, Nat.zero_mul, Nat.zero_add]; omega
  have hloop := limbLoop_spec 64 9 (c / 2 ^ 59) 0 0 (c % 2 ^ 59) (by decide) (by decide)
    (by omega) (by omega) (by rw [hval]; exact hlt)
  rw [hval] at hloop
  exact hloop

/-- lines 129–153: the millennial digits of a canonical non-zero coefficient -/
theorem coeffMidi_good (C1w0 C1w1 : Nat) (h0 : C1w0 < 2 ^ 64) (h1 : C1w1 < 2 ^ 49)
    (hpos : 0 < C1w1 * 2 ^ 64 + C1w0) (hlt : C1w1 * 2 ^ 64 + C1w0 < 10000000000000000000000000000000000) :
    ∃ l, coeffMidi C1w0 C1w1 = some l ∧ Good l (C1w1 * 2 ^ 64 + C1w0) := by
  unfold coeffMidi
  simp only []
  rw [limbs_eq C1w0 C1w1 h0 h1 hlt]
  generalize C1w1 * 2 ^ 64 + C1w0 = c at *
  simp only []
  by_cases hz : c / 1000000000000000000 = 0
  · have hb : (c / 1000000000000000000 == 0) = true := by simpa using hz
    rw [if_pos hb]
    have e : c % 1000000000000000000 = c := by omega
    rw [e]
    exact ⟨_, rfl, good_lead c hpos (by omega)⟩
  · have hb : ¬ (c / 1000000000000000000 == 0) = true := by simpa using hz
    rw [if_neg hb]
    refine ⟨_, rfl, ?_⟩
    have g := good_push6 _ _ (c % 1000000000000000000) (good_lead (c / 1000000000000000000) (by omega) (by omega))
      (Nat.mod_lt _ (by decide))
    have e : c / 1000000000000000000 * 1000000000000000000 + c % 1000000000000000000 = c := by omega
    rw [e] at g
    exact g


example : coeffMidi 0x378d8e63ffffffff 0x0001ed09bead87c0 = some (9 :: List.replicate 11 999) ∧
    coeffMidi 1000 0 = some [1, 0] := by decide +kernel

/-! ### 8. Bit fields of the high word, and `decode` -/

theorem mask_special (w : Nat) : w &&& MASK_SPECIAL = (w / 2 ^ 59 % 2 ^ 4) * 2 ^ 59 := and_field w 59 4
theorem mask_nan (w : Nat) : w &&& MASK_NAN = (w / 2 ^ 58 % 2 ^ 5) * 2 ^ 58 := and_field w 58 5
theorem mask_snan (w : Nat) : w &&& MASK_SNAN = (w / 2 ^ 57 % 2 ^ 6) * 2 ^ 57 := and_field w 57 6
theorem mask_sign (w : Nat) : w &&& MASK_SIGN = (w / 2 ^ 63 % 2 ^ 1) * 2 ^ 63 := and_field w 63 1
theorem mask_exp (w : Nat) : w &&& MASK_EXP = (w / 2 ^ 49 % 2 ^ 14) * 2 ^ 49 := and_field w 49 14
theorem mask_steer (w : Nat) : w &&& 0x6000000000000000 = (w / 2 ^ 61 % 2 ^ 2) * 2 ^ 61 := and_field w 61 2
theorem mask_coeff (w : Nat) : w &&& MASK_COEFF = w % 2 ^ 49 := Nat.and_two_pow_sub_one_eq_mod w 49

/-- the fields `decode` reads, in terms of the two words -/
theorem dec_fields (w0 w1 : Nat) (h0 : w0 < 2 ^ 64) (h1 : w1 < 2 ^ 64) :
    (w1 * 2 ^ 64 + w0) / 2 ^ 127 % 2 = w1 / 2 ^ 63 ∧
    (w1 * 2 ^ 64 + w0) / 2 ^ 123 % 16 = w1 / 2 ^ 59 % 16 ∧
    (w1 * 2 ^ 64 + w0) / 2 ^ 122 % 2 = w1 / 2 ^ 58 % 2 ∧
    (w1 * 2 ^ 64 + w0) / 2 ^ 121 % 2 = w1 / 2 ^ 57 % 2 ∧
    (w1 * 2 ^ 64 + w0) / 2 ^ 111 % 2 ^ 14 = w1 / 2 ^ 47 % 2 ^ 14 ∧
    (w1 * 2 ^ 64 + w0) % 2 ^ 113 = w1 % 2 ^ 49 * 2 ^ 64 + w0 ∧
    (w1 * 2 ^ 64 + w0) / 2 ^ 113 % 2 ^ 14 = w1 / 2 ^ 49 % 2 ^ 14 := by
  refine ⟨?_, ?_, ?_, ?_, ?_, ?_, ?_⟩ <;> omega

/-- `decode` of a special pattern -/
theorem decode_special (w0 w1 : Nat) (h0 : w0 < 2 ^ 64) (h1 : w1 < 2 ^ 64) (hs : w1 / 2 ^ 59 % 16 = 15) :
    ∃ p, decode (w1 * 2 ^ 64 + w0) =
      if w1 / 2 ^ 58 % 2 = 0 then .inf (w1 / 2 ^ 63 == 1) else .nan (w1 / 2 ^ 63 == 1) (w1 / 2 ^ 57 % 2 == 1) p := by
  obtain ⟨f1, f2, f3, f4, f5, f6, f7⟩ := dec_fields w0 w1 h0 h1
  unfold decode
  simp only [f1, f2, f3, f4, hs, beq_self_eq_true, if_true, beq_iff_eq]
  exact ⟨_, rfl⟩

/-- `decode` of a finite pattern in the large-coefficient form: a zero -/
theorem decode_steer (w0 w1 : Nat) (h0 : w0 < 2 ^ 64) (h1 : w1 < 2 ^ 64) (hs : w1 / 2 ^ 59 % 16 ≠ 15)
    (ht : w1 / 2 ^ 61 % 4 = 3) :
    decode (w1 * 2 ^ 64 + w0) = .fin (w1 / 2 ^ 63 == 1) 0 (((w1 / 2 ^ 47 % 2 ^ 14 : Nat) : Int) - 6176) := by
  obtain ⟨f1, f2, f3, f4, f5, f6, f7⟩ := dec_fields w0 w1 h0 h1
  unfold decode
  have e : w1 / 2 ^ 59 % 16 / 4 = 3 := by omega
  have hs' : (w1 / 2 ^ 59 % 16 == 15) = false := beq_false_of_ne hs
  simp only [f1, f2, f5, e, hs', beq_self_eq_true, if_true, Bool.false_eq_true, if_false]

/-- `decode` of a finite pattern in the ordinary form -/
theorem decode_fin (w0 w1 : Nat) (h0 : w0 < 2 ^ 64) (h1 : w1 < 2 ^ 64) (hs : w1 / 2 ^ 59 % 16 ≠ 15)
    (ht : w1 / 2 ^ 61 % 4 ≠ 3) :
    decode (w1 * 2 ^ 64 + w0) = .fin (w1 / 2 ^ 63 == 1)
      (if w1 % 2 ^ 49 * 2 ^ 64 + w0 < P34 then w1 % 2 ^ 49 * 2 ^ 64 + w0 else 0)
      (((w1 / 2 ^ 49 % 2 ^ 14 : Nat) : Int) - 6176) := by
  obtain ⟨f1, f2, f3, f4, f5, f6, f7⟩ := dec_fields w0 w1 h0 h1
  unfold decode
  have e : (w1 / 2 ^ 59 % 16 / 4 == 3) = false := beq_false_of_ne (by omega)
  have hs' : (w1 / 2 ^ 59 % 16 == 15) = false := beq_false_of_ne hs
  simp only [f1, f2, f6, f7, e, hs', Bool.false_eq_true, if_false]

/-! ### 9. The three blocks of `bid128_to_string` -/

theorem beq_one_of_zero {x : Nat} (h : x = 0) : (x == 1) = false := by subst h; rfl
theorem beq_one_of_one {x : Nat} (h : x = 1) : (x == 1) = true := by subst h; rfl

/-- lines 51–61 print a NaN or an infinity as the specification does -/
theorem fmtSpecial_eq (up : Bool) (w1 : Nat) (h1 : w1 < 2 ^ 64) (hs : w1 / 2 ^ 59 % 16 = 15) (p : Nat) :
    fmtSpecial w1 = format up
      (if w1 / 2 ^ 58 % 2 = 0 then .inf (w1 / 2 ^ 63 == 1) else .nan (w1 / 2 ^ 63 == 1) (w1 / 2 ^ 57 % 2 == 1) p) := by
  unfold fmtSpecial
  rw [mask_nan, mask_snan, mask_sign]
  simp only [beq_iff_eq, MASK_NAN, MASK_SNAN]
  have hsg : w1 / 2 ^ 63 = 0 ∨ w1 / 2 ^ 63 = 1 := by omega
  by_cases hn : w1 / 2 ^ 58 % 2 = 0
  · rw [if_neg (by omega), if_pos hn]
    rcases hsg with g | g
    · rw [if_pos (by omega), beq_one_of_zero g]; rfl
    · rw [if_neg (by omega), beq_one_of_one g]; rfl
  · rw [if_pos (by omega), if_neg hn]
    by_cases hq : w1 / 2 ^ 57 % 2 = 0
    · rw [if_neg (by omega)]
      rcases hsg with g | g
      · rw [if_neg (by omega), beq_one_of_zero g, beq_one_of_zero hq]; rfl
      · rw [if_pos (by omega), beq_one_of_one g, beq_one_of_zero hq]; rfl
    · have hq1 : w1 / 2 ^ 57 % 2 = 1 := by omega
      rw [if_pos (by omega)]
      rcases hsg with g | g
      · rw [if_neg (by omega), beq_one_of_zero g, beq_one_of_one hq1]; rfl
      · rw [if_pos (by omega), beq_one_of_one g, beq_one_of_one hq1]; rfl

/-- the biased exponent of the ordinary form, as the code computes it (lines 71 / 83, 91) -/
theorem exp_ordinary (w1 : Nat) :
    asI32 (sub64 ((w1 &&& MASK_EXP) >>> 49) 6176) = ((w1 / 2 ^ 49 % 2 ^ 14 : Nat) : Int) - 6176 := by
  rw [mask_exp, Nat.shiftRight_eq_div_pow, Nat.mul_div_cancel _ (Nat.pow_pos (by decide))]
  have : w1 / 2 ^ 49 % 2 ^ 14 < 16384 := Nat.mod_lt _ (by decide)
  generalize w1 / 2 ^ 49 % 2 ^ 14 = E at *
  unfold asI32 sub64 wrapI32
  omega

/-- the biased exponent field of the large-coefficient form (lines 74 / 86) -/
theorem exp_field_steer (w1 : Nat) :
    (shl64 w1 2 &&& MASK_EXP) >>> 49 = w1 / 2 ^ 47 % 2 ^ 14 := by
  rw [mask_exp, Nat.shiftRight_eq_div_pow, Nat.mul_div_cancel _ (Nat.pow_pos (by decide))]
  unfold shl64
  rw [Nat.shiftLeft_eq]
  omega

/-- the tail of the zero block (lines 65–79) against the specification's rendering of a zero -/
theorem zero_text (up neg : Bool) (e : Int) :
    (if e ≥ 0 then writeChar [if neg then 45 else 43, 48, if up then 69 else 101] 43
      else [if neg then 45 else 43, 48, if up then 69 else 101]) ++ i32ToString e = format up (.fin neg 0 e) := by
  have hu : utf8CP 43 = [43] := rfl
  by_cases he : e < 0
  · have h2 : ¬ e ≥ 0 := by omega
    rw [if_neg h2]
    simp only [i32ToString, format, digitBytes_zero, if_pos he, List.cons_append, List.nil_append]
  · have h2 : e ≥ 0 := by omega
    rw [if_pos h2]
    simp only [i32ToString, format, digitBytes_zero, if_neg he, writeChar, hu, List.cons_append, List.nil_append]

/-- lines 63–79 print a zero whose coefficient field is all zero as the specification does -/
theorem fmtZero_eq (up : Bool) (w1 : Nat) (h1 : w1 < 2 ^ 64) :
    fmtZero up w1 = format up (.fin (w1 / 2 ^ 63 == 1) 0
      (if w1 / 2 ^ 61 % 4 = 3 then ((w1 / 2 ^ 47 % 2 ^ 14 : Nat) : Int) - 6176
        else ((w1 / 2 ^ 49 % 2 ^ 14 : Nat) : Int) - 6176)) := by
  unfold fmtZero
  simp only []
  rw [exp_ordinary w1, exp_field_steer w1, mask_sign]
  have e0 : (((0x5ffe >>> 1 : Nat) : Int) - 6176) = 6111 := by decide
  rw [e0]
  have hE2 : w1 / 2 ^ 47 % 2 ^ 14 < 16384 := Nat.mod_lt _ (by decide)
  have e2 : wrapI32 (asI32 (w1 / 2 ^ 47 % 2 ^ 14) - 6176) = ((w1 / 2 ^ 47 % 2 ^ 14 : Nat) : Int) - 6176 := by
    generalize w1 / 2 ^ 47 % 2 ^ 14 = E at *
    unfold asI32 wrapI32; omega
  rw [e2]
  have hc : (((w1 / 2 ^ 49 % 2 ^ 14 : Nat) : Int) - 6176 > 6111) ↔ w1 / 2 ^ 61 % 4 = 3 := by omega
  have hfmt : (if up = true then
        if (w1 / 2 ^ 63 % 2 ^ 1 * 2 ^ 63 == MASK_SIGN) = true then ([45, 48, 69] : Bytes) else [43, 48, 69]
      else if (w1 / 2 ^ 63 % 2 ^ 1 * 2 ^ 63 == MASK_SIGN) = true then [45, 48, 101] else [43, 48, 101]) =
      [if (w1 / 2 ^ 63 == 1) = true then 45 else 43, 48, if up = true then 69 else 101] := by
    have hsg : w1 / 2 ^ 63 = 0 ∨ w1 / 2 ^ 63 = 1 := by omega
    rcases hsg with g | g <;> rw [g] <;> cases up <;> decide
  rw [hfmt]
  by_cases ht : w1 / 2 ^ 61 % 4 = 3
  · rw [if_pos (hc.2 ht), if_pos ht]
    exact zero_text up _ _
  · rw [if_neg (fun h => ht (hc.1 h)), if_neg ht]
    exact zero_text up _ _

/-- lines 99–101: the test for "print `0`" -/
theorem coeff_cond (w0 w1 C : Nat) (h0 : w0 < 2 ^ 64) :
    ((decide (C > 0x0001ed09bead87c0) || (C == 0x0001ed09bead87c0 && decide (w0 > 0x378d8e63ffffffff))
        || (w1 &&& 0x6000000000000000 == 0x6000000000000000) || (C == 0 && w0 == 0)) = true) ↔
      (C * 2 ^ 64 + w0 ≥ 10000000000000000000000000000000000 ∨ w1 / 2 ^ 61 % 4 = 3 ∨ C * 2 ^ 64 + w0 = 0) := by
  rw [mask_steer]
  simp only [Bool.or_eq_true, Bool.and_eq_true, decide_eq_true_eq, beq_iff_eq]
  omega

/-- lines 96–160 print the coefficient the specification reads from the pattern: `0` for the large-coefficient form,
for a coefficient field `≥ 10^34` and for zero, otherwise the decimal digits of the coefficient -/
theorem writeCoeffOf_eq (w0 w1 : Nat) (h0 : w0 < 2 ^ 64) (fmt : Bytes) :
    writeCoeffOf w0 w1 (w1 % 2 ^ 49) fmt = some (fmt ++ digitBytes
      (if w1 / 2 ^ 61 % 4 = 3 then 0
        else if w1 % 2 ^ 49 * 2 ^ 64 + w0 < P34 then w1 % 2 ^ 49 * 2 ^ 64 + w0 else 0)) := by
  unfold writeCoeffOf
  simp only []
  have hC : w1 % 2 ^ 49 < 2 ^ 49 := Nat.mod_lt _ (by decide)
  have hcond := coeff_cond w0 w1 (w1 % 2 ^ 49) h0
  generalize w1 % 2 ^ 49 = C at *
  have h48 : writeChar fmt 48 = fmt ++ [48] := rfl
  by_cases hc : (C * 2 ^ 64 + w0 ≥ 10000000000000000000000000000000000 ∨ w1 / 2 ^ 61 % 4 = 3 ∨ C * 2 ^ 64 + w0 = 0)
  · rw [if_pos (hcond.2 hc), h48]
    have : (if w1 / 2 ^ 61 % 4 = 3 then 0 else if C * 2 ^ 64 + w0 < P34 then C * 2 ^ 64 + w0 else 0) = 0 := by
      unfold P34
      split
      · rfl
      · split <;> omega
    rw [this, digitBytes_zero]
  · rw [if_neg (fun h => hc (hcond.1 h))]
    have h1 : ¬ w1 / 2 ^ 61 % 4 = 3 := by omega
    have h2 : C * 2 ^ 64 + w0 < P34 := by unfold P34; omega
    rw [if_neg h1, if_pos h2]
    obtain ⟨l, hl, hg⟩ := coeffMidi_good w0 C h0 hC (by omega) (by unfold P34 at h2; omega)
    rw [hl]
    exact writeCoeff_eq l _ hg fmt

theorem exp_sub (E : Nat) (hE : E < 16384) : asI32 (sub64 E 6176) = (E : Int) - 6176 := by
  unfold asI32 sub64 wrapI32; omega

/-- lines 81–201 print a finite value as the specification does -/
theorem fmtFinite_eq (up : Bool) (w0 w1 : Nat) (h0 : w0 < 2 ^ 64) (h1 : w1 < 2 ^ 64) (hs : w1 / 2 ^ 59 % 16 ≠ 15) :
    fmtFinite up w0 w1 = some (format up (.fin (w1 / 2 ^ 63 == 1)
      (if w1 / 2 ^ 61 % 4 = 3 then 0
        else if w1 % 2 ^ 49 * 2 ^ 64 + w0 < P34 then w1 % 2 ^ 49 * 2 ^ 64 + w0 else 0)
      (if w1 / 2 ^ 61 % 4 = 3 then ((w1 / 2 ^ 47 % 2 ^ 14 : Nat) : Int) - 6176
        else ((w1 / 2 ^ 49 % 2 ^ 14 : Nat) : Int) - 6176))) := by
  unfold fmtFinite
  simp only []
  rewrite [mask_coeff, writeCoeffOf_eq w0 w1 h0]
  simp only []
  have hsign : writeChar [] (if (w1 &&& MASK_SIGN != 0) = true then 45 else 43) =
      [if (w1 / 2 ^ 63 == 1) = true then 45 else 43] := by
    rewrite [mask_sign]
    have hsg : w1 / 2 ^ 63 = 0 ∨ w1 / 2 ^ 63 = 1 := by omega
    rcases hsg with g | g <;> rw [g] <;> decide
  rewrite [hsign, mask_steer]
  have hE1 : w1 / 2 ^ 49 % 2 ^ 14 < 16384 := Nat.mod_lt _ (by decide)
  have hE2 : w1 / 2 ^ 47 % 2 ^ 14 < 16384 := Nat.mod_lt _ (by decide)
  by_cases ht : w1 / 2 ^ 61 % 4 = 3
  · have c : (w1 / 2 ^ 61 % 2 ^ 2 * 2 ^ 61 == 0x6000000000000000) = true := by rw [beq_iff_eq]; omega
    rewrite [if_pos c, if_pos ht, if_pos ht, exp_field_steer w1, exp_sub _ hE2,
      writeExp_eq up _ (by omega) (by omega)]
    simp only [format, List.singleton_append]
  · have c : ¬ (w1 / 2 ^ 61 % 2 ^ 2 * 2 ^ 61 == 0x6000000000000000) = true := by rw [beq_iff_eq]; omega
    rewrite [if_neg c, if_neg ht, if_neg ht, exp_ordinary w1, writeExp_eq up _ (by omega) (by omega)]
    simp only [format, List.singleton_append]

/-! ### 10. The formatter -/

/-- **C05, code level.**  For every 128-bit pattern (`w1` the high word, `w0` the low word) and both exponent
letters, the code-shaped formatter `fmtCode` — the transcription of `bid128_to_string` with its limb splitting,
millennial digits and constant tables — returns normally (no table index, slice or `unwrap` of the code can
panic) and writes exactly the text the specification-level renderer `Dec.format` gives for the decoded datum:
sign, the decimal digits of the coefficient without leading zeros (`0` for zero and for every non-canonical
encoding), `E`/`e`, the sign of the exponent and the digits of its magnitude; `±Inf`, `±NaN`, `±SNaN`. -/
theorem fmtCode_eq_format (up : Bool) (w0 w1 : Nat) (h0 : w0 < 2 ^ 64) (h1 : w1 < 2 ^ 64) :
    fmtCode up w0 w1 = some (format up (decode (w1 * 2 ^ 64 + w0))) := by
  unfold fmtCode
  rewrite [mask_special, mask_coeff]
  by_cases hs : w1 / 2 ^ 59 % 16 = 15
  · have c : (w1 / 2 ^ 59 % 2 ^ 4 * 2 ^ 59 == MASK_SPECIAL) = true := by rw [beq_iff_eq]; unfold MASK_SPECIAL; omega
    obtain ⟨p, hp⟩ := decode_special w0 w1 h0 h1 hs
    rewrite [if_pos c, hp, fmtSpecial_eq up w1 h1 hs p]
    rfl
  · have c : ¬ (w1 / 2 ^ 59 % 2 ^ 4 * 2 ^ 59 == MASK_SPECIAL) = true := by rw [beq_iff_eq]; unfold MASK_SPECIAL; omega
    rewrite [if_neg c]
    by_cases hz : w1 % 2 ^ 49 = 0 ∧ w0 = 0
    · have cz : (w1 % 2 ^ 49 == 0 && w0 == 0) = true := by rw [hz.1, hz.2]; rfl
      rewrite [if_pos cz, fmtZero_eq up w1 h1]
      by_cases ht : w1 / 2 ^ 61 % 4 = 3
      · rw [decode_steer w0 w1 h0 h1 hs ht, if_pos ht]
      · rw [decode_fin w0 w1 h0 h1 hs ht, if_neg ht, hz.1, hz.2]
        simp only [Nat.zero_mul, Nat.add_zero, ite_self]
    · have cz : ¬ (w1 % 2 ^ 49 == 0 && w0 == 0) = true := by
        simp only [Bool.and_eq_true, beq_iff_eq]; exact hz
      rewrite [if_neg cz, fmtFinite_eq up w0 w1 h0 h1 hs]
      by_cases ht : w1 / 2 ^ 61 % 4 = 3
      · rw [decode_steer w0 w1 h0 h1 hs ht, if_pos ht, if_pos ht]
      · rw [decode_fin w0 w1 h0 h1 hs ht, if_neg ht, if_neg ht]

example : fmtCode true 1 0x3040000000000000 = some [43, 49, 69, 43, 48] := by decide +kernel                -- "+1E+0"
example : fmtCode false 0 0xb03e000000000000 = some [45, 48, 101, 45, 49] := by decide +kernel              -- "-0e-1"
/-- 34 nines at the smallest exponent: both limbs, all twelve millennial digits, a four-digit exponent -/
example : fmtCode true 0x378d8e63ffffffff 0x0001ed09bead87c0 =
    some ([43] ++ List.replicate 34 57 ++ [69, 45, 54, 49, 55, 54]) := by decide +kernel                   -- "+99…9E-6176"
/-- a non-canonical coefficient (`10^34`) prints as zero; `-SNaN` -/
example : fmtCode true 0x378d8e6400000000 0x0001ed09bead87c0 = some [43, 48, 69, 45, 54, 49, 55, 54] ∧
    fmtCode true 5 0xfe00000000000000 = some [45, 83, 78, 97, 78] := by decide +kernel
example : fmtCode_eq_format true 0x378d8e63ffffffff 0x0001ed09bead87c0 (by decide) (by decide) =
    (by decide +kernel : fmtCode true 0x378d8e63ffffffff 0x0001ed09bead87c0 =
      some (format true (decode (0x0001ed09bead87c0 * 2 ^ 64 + 0x378d8e63ffffffff)))) := rfl

/-- The same under the harness's four operation names (`bits` the 128-bit pattern): `display`, `debug` and
`upperexp` print with `E`, `lowerexp` with `e`. -/
theorem fmtCodeOp_eq_format (bits : Nat) (h : bits < 2 ^ 128) :
    fmtCodeOp "display" bits = some (format true (decode bits)) ∧
    fmtCodeOp "debug" bits = some (format true (decode bits)) ∧
    fmtCodeOp "upperexp" bits = some (format true (decode bits)) ∧
    fmtCodeOp "lowerexp" bits = some (format false (decode bits)) := by
  have e : bits / 2 ^ 64 % 2 ^ 64 * 2 ^ 64 + bits % 2 ^ 64 = bits := by omega
  have ht := fmtCode_eq_format true (bits % 2 ^ 64) (bits / 2 ^ 64 % 2 ^ 64) (Nat.mod_lt _ (by decide)) (Nat.mod_lt _ (by decide))
  have hf := fmtCode_eq_format false (bits % 2 ^ 64) (bits / 2 ^ 64 % 2 ^ 64) (Nat.mod_lt _ (by decide)) (Nat.mod_lt _ (by decide))
  rw [e] at ht hf
  exact ⟨ht, ht, ht, hf⟩

example : fmtCodeOp "lowerexp" 0x30400000000000000000000000000001 = some [43, 49, 101, 43, 48] :=
  (fmtCodeOp_eq_format _ (by decide)).2.2.2.trans (by decide +kernel)

/-- The code-shaped formatter never panics. -/
theorem fmtCode_isSome (up : Bool) (w0 w1 : Nat) (h0 : w0 < 2 ^ 64) (h1 : w1 < 2 ^ 64) :
    (fmtCode up w0 w1).isSome = true := by
  rw [fmtCode_eq_format up w0 w1 h0 h1]; rfl

example : (fmtCode false 0xffffffffffffffff 0xffffffffffffffff).isSome = true := fmtCode_isSome _ _ _ (by decide) (by decide)

/-- **Round trip through the code-shaped formatter.**  For every 128-bit pattern, what the formatter writes is a text
for which the judge's parsing expectation, under every rounding mode, is exactly the canonical encoding of the
decoded datum (a NaN without its payload, which the text does not carry) with no flag raised. -/
theorem roundtrip_code (up : Bool) (mode : Mode) (w0 w1 : Nat) (h0 : w0 < 2 ^ 64) (h1 : w1 < 2 ^ 64) :
    ∃ t, fmtCode up w0 w1 = some t ∧
      expectCore.parseE mode t = exactly [.d (encode (C05RoundTrip.noPayload (decode (w1 * 2 ^ 64 + w0))))] 0 :=
  ⟨_, fmtCode_eq_format up w0 w1 h0 h1, C05RoundTrip.parseE_format up mode _ (decode_WF _)⟩

/-- a negative signalling NaN with payload 5, printed with `e`, parsed under round-up: `-SNaN`, payload dropped -/
example : ∃ t, fmtCode false 5 0xfe00000000000000 = some t ∧
    expectCore.parseE .rup t = exactly [.d (encode (.nan true true 0))] 0 := by
  have h := roundtrip_code false .rup 5 0xfe00000000000000 (by decide) (by decide)
  have e : decode (0xfe00000000000000 * 2 ^ 64 + 5) = .nan true true 5 := by decide +kernel
  rw [e] at h
  exact h

/-- For a finite pattern: the strict grammar reads the written text as a literal whose specified value is the decoded
datum itself — same sign, coefficient and quantum exponent — with no flag, under every rounding mode. -/
theorem roundtrip_code_finite (up : Bool) (mode : Mode) (w0 w1 : Nat) (h0 : w0 < 2 ^ 64) (h1 : w1 < 2 ^ 64)
    (s : Bool) (c : Nat) (e : Int) (hd : decode (w1 * 2 ^ 64 + w0) = .fin s c e) :
    ∃ t, fmtCode up w0 w1 = some t ∧ (parseLiteral t).map (parseLiteralSpec mode) = some (.fin s c e, 0) := by
  refine ⟨_, fmtCode_eq_format up w0 w1 h0 h1, ?_⟩
  rw [hd]
  exact C05RoundTrip.roundtrip up mode s c e (hd ▸ decode_WF _)

example : ∃ t, fmtCode true 1234 0x3040000000000000 = some t ∧
    (parseLiteral t).map (parseLiteralSpec .rne) = some (.fin false 1234 0, 0) :=
  roundtrip_code_finite true .rne 1234 0x3040000000000000 (by decide) (by decide) false 1234 0 (by decide +kernel)

end Dec.C05Format
