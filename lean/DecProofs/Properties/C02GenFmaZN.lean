/-
  C02GenFmaZ (part N: Case (1''B), `10^33`, the inexact sub-case) — see C02GenFmaZ.lean
-/
import DecProofs.Properties.C02GenFmaZM
set_option linter.unusedSimpArgs false
set_option linter.unusedVariables false
set_option linter.unusedTactic false
set_option linter.unreachableTactic false
set_option linter.unnecessarySeqFocus false
namespace Dec.C02GenFmaZ
open Dec Dec.Rs Dec.Gen.Code Dec.C03GenCompare Dec.C02GenCorrection
open Dec.C08GenRoundIntegral (bind_ok' ite_true_bool ite_false_bool i32_add i32_sub i32_neg)
open Dec.C01GenAdd (lt113)

/-! ## 18. Case (1''B), `10^33`: the inexact sub-case -/


/-- the continuation of the `10^33` branch: overflow check of the exact differences, inexact flag, last statement -/
abbrev powK (pml pmg pil pig : Bool) (m : RoundingMode) (z_sign : UInt64) :
    U128 → UInt64 → Int32 → UInt32 → Bool → Bool → Bool → Bool → Except String (U128 × Bool × Bool × Bool × Bool × UInt32) :=
  fun res z_exp e3 pfpsf ml mg il ig =>
    z2PowO pml pmg pil pig m pfpsf res z_sign z_exp e3 ml mg il ig
      (z2PowF (fun res z_exp pfpsf ml mg il ig => z2Fin pml pmg pil pig pfpsf res z_sign z_exp ml mg il ig))

/-- the words of `10^34 − R` -/
theorem p34_minus (R64 : UInt64) (R : Nat) (hR : R64.toNat = R) (h10 : R ≤ 10) :
    (0x1ed09bead87c0 : UInt64).toNat * 2^64 + ((0x378d8e6400000000 : UInt64) - R64).toNat = P34 - R := by
  have e34 : P34 = 10000000000000000000000000000000000 := rfl
  rw [UInt64.toNat_sub_of_le _ _ (by rw [UInt64.le_iff_toNat_le, hR]; show R ≤ 0x378d8e6400000000; omega), hR, e34]
  show 0x1ed09bead87c0 * 2^64 + (0x378d8e6400000000 - R) = _
  omega

theorem flags3 (pf : UInt32) (F2 : Nat) (hF : F2 = fOverflow ||| fInexact ∨ F2 = fUnderflow ||| fInexact ∨ F2 = fInexact) :
    ((pf ||| c_StatusFlags_BID_INEXACT_EXCEPTION) ||| UInt32.ofNat F2) ||| c_StatusFlags_BID_INEXACT_EXCEPTION =
      pf ||| UInt32.ofNat F2 := by
  rcases hF with h | h | h <;> rw [h, UInt32.or_assoc, UInt32.or_assoc] <;> congr 1

/-- the indicators mirrored (the value was subtracted): `(ML, MG, L, G)` from the helper's -/
def mirror (ml mg il ig : Bool) : Bool × Bool × Bool × Bool :=
  if il = true then (ml, mg, false, true)
  else if ig = true then (ml, mg, true, false)
  else if ml = true then (false, true, il, ig)
  else if mg = true then (true, false, il, ig)
  else (ml, mg, il, ig)

theorem z2PowC_eval (pml pmg pil pig : Bool) (m : RoundingMode) (pfpsf : UInt32) (res : U128) (z_sign zx : UInt64) (e3 : Int32)
    (ml mg il ig incr : Bool) (R64 : UInt64)
    (k : U128 → UInt64 → Int32 → UInt32 → Bool → Bool → Bool → Bool → Except String (U128 × Bool × Bool × Bool × Bool × UInt32)) :
    z2PowC pml pmg pil pig m pfpsf res z_sign zx e3 ml mg il ig incr R64 k =
      if decide (e3 - 1 > c_EXP_MAX_UNBIASED) = true then
        (if (m == RoundingMode.NearestEven) = true then
          .ok (⟨0, z_sign ||| 0x7800000000000000⟩, (mirror ml mg il ig).1, (mirror ml mg il ig).2.1, (mirror ml mg il ig).2.2.1,
            (mirror ml mg il ig).2.2.2,
            pfpsf ||| (c_StatusFlags_BID_INEXACT_EXCEPTION ||| c_StatusFlags_BID_OVERFLOW_EXCEPTION))
        else (bid_rounding_correction m (mirror ml mg il ig).2.2.1 (mirror ml mg il ig).2.2.2 (mirror ml mg il ig).1
            (mirror ml mg il ig).2.1 (e3 - 1)
            ⟨(0x378d8e6400000000 : UInt64) - (if incr = true then 0xa else R64), z_sign ||| (0x1ed09bead87c0 : UInt64)⟩
            pfpsf).bind fun t =>
          .ok (t.1, (mirror ml mg il ig).1, (mirror ml mg il ig).2.1, (mirror ml mg il ig).2.2.1, (mirror ml mg il ig).2.2.2, t.2))
      else if (m != RoundingMode.NearestEven) = true then
        (bid_rounding_correction m (mirror ml mg il ig).2.2.1 (mirror ml mg il ig).2.2.2 (mirror ml mg il ig).1
            (mirror ml mg il ig).2.1 (e3 - 1)
            ⟨(0x378d8e6400000000 : UInt64) - (if incr = true then 0xa else R64),
              (z_sign ||| (0x1ed09bead87c0 : UInt64)) |||
                (z_sign ||| ((UInt64.ofInt (toI (e3 - 1 + (0x1820 : Int32)))) <<< 0x31))⟩
            (pfpsf ||| c_StatusFlags_BID_INEXACT_EXCEPTION)).bind fun t =>
          k t.1 (t.1.w1 &&& c_MASK_EXP) (e3 - 1) t.2 (mirror ml mg il ig).1 (mirror ml mg il ig).2.1 (mirror ml mg il ig).2.2.1
            (mirror ml mg il ig).2.2.2
      else
        k ⟨(0x378d8e6400000000 : UInt64) - (if incr = true then 0xa else R64),
              (z_sign ||| (0x1ed09bead87c0 : UInt64)) |||
                (z_sign ||| ((UInt64.ofInt (toI (e3 - 1 + (0x1820 : Int32)))) <<< 0x31))⟩
          (((z_sign ||| (0x1ed09bead87c0 : UInt64)) |||
                (z_sign ||| ((UInt64.ofInt (toI (e3 - 1 + (0x1820 : Int32)))) <<< 0x31))) &&& c_MASK_EXP)
          (e3 - 1) (pfpsf ||| c_StatusFlags_BID_INEXACT_EXCEPTION) (mirror ml mg il ig).1 (mirror ml mg il ig).2.1
          (mirror ml mg il ig).2.2.1 (mirror ml mg il ig).2.2.2 := by
  cases il <;> cases ig <;> cases ml <;> cases mg <;> cases incr <;>
    simp only [z2PowC, mirror, bind, pure, Except.pure, bind_ok', if_true, if_false, Bool.false_eq_true]

/-- **Case (1''B), `10^33`, the inexact sub-case** -/
theorem z2PowC_spec {sz : Bool} {N : Nat} {E4 ef : Int} {R : Nat} {L G ML MG : Bool}
    (h : Deliv sz N E4 ef (P34 - R) L G ML MG) (hnt : ¬ N < 10 ^ 33 * 10 ^ (ef - E4).toNat)
    (hR1 : 1 ≤ R) (hR10 : R ≤ 10)
    (pml pmg pil pig : Bool) (m : RoundingMode) (pfpsf : UInt32) (res : U128) (z_sign zx : UInt64) (e3 : Int32)
    (incr : Bool) (R64 : UInt64) (pref : Int) (hR : (if incr = true then 10 else R64.toNat) = R)
    (he : e3.toInt = ef + 1) (hef : ef ≤ 12300) (hzs : z_sign.toNat = if sz then 2^63 else 0)
    (hx1 : G = true → L = false ∧ MG = false ∧ ML = false) (hx2 : L = true → MG = false ∧ ML = false)
    (hx3 : MG = true → ML = false) :
    z2PowC pml pmg pil pig m pfpsf res z_sign zx e3 MG ML G L incr R64 (powK pml pmg pil pig m z_sign) =
      .ok (ofBits (encode (finish (modeOf m) sz N 1 E4 pref).1), ML, MG, L, G,
        pfpsf ||| UInt32.ofNat (finish (modeOf m) sz N 1 E4 pref).2) := by
  have e34 : P34 = 10000000000000000000000000000000000 := rfl
  have hmir : mirror MG ML G L = (ML, MG, L, G) := by
    unfold mirror
    cases hg : G
    · cases hl : L
      · cases hmg : MG
        · cases hml : ML <;> rfl
        · have := hx3 hmg; subst this; rfl
      · obtain ⟨a, b⟩ := hx2 hl; subst a b; rfl
    · obtain ⟨a, b, c⟩ := hx1 hg; subst a b c; rfl
  have hnd : deliver (P34 - R) ef = (P34 - R, ef) := by unfold deliver; rw [if_neg (by omega)]
  have hef1 := h.hef1
  have k14 : ¬ 6111 < ef → (ef + 6176).toNat < 2^14 := by intro _; omega
  have kE : (((ef + 6176).toNat : Nat) : Int) - 6176 = ef := by omega
  have kP : P34 - R < P34 := by omega
  have k62 : ¬ 6111 < ef → ef ≤ 6200 := by intro _; omega
  have k61 : ¬ 6111 < ef → ef ≤ 6111 := by intro _; omega
  have k14' : ¬ 6111 < ef → ef + 6176 < 2^14 := by intro _; omega
  have hR' : (if incr = true then (0xa : UInt64) else R64).toNat = R := by
    rw [← hR]; cases incr <;> rfl
  have hwords := p34_minus _ R hR' hR10
  have he1 : (e3 - 1).toInt = ef := by rw [i32_sub _ _ (by have := h.hef1; omega) (by decide), he]; show ef + 1 - 1 = ef; omega
  have hcd : P34 - R < 2^113 := by omega
  have hN0 : 0 < N := by
    have := h.hinex
    rcases Nat.eq_zero_or_pos N with h0 | h0
    · rw [h0, Nat.zero_mod] at this; exact absurd rfl this
    · exact h0
  -- the word handed to the correction on overflow
  obtain ⟨g1, g2⟩ := signed_words ((0x378d8e6400000000 : UInt64) - (if incr = true then 0xa else R64)) 0x1ed09bead87c0 z_sign sz
    (P34 - R) hwords hcd hzs
  rw [UInt64.or_comm] at g1 g2
  rw [z2PowC_eval, hmir, gt_emax _ _ he1]
  by_cases hov : 6111 < ef
  · rw [if_pos (by simpa using hov)]
    by_cases hm : m = .NearestEven
    · subst hm
      rw [if_pos (by decide), inf_word z_sign sz hzs]
      show _ = Except.ok (ofBits (encode (finish .rne sz N 1 E4 pref).1), ML, MG, L, G,
        pfpsf ||| UInt32.ofNat (finish .rne sz N 1 E4 pref).2)
      rw [h.nearest pref, hnd, if_pos (by unfold eMax; exact hov),
        show (c_StatusFlags_BID_INEXACT_EXCEPTION ||| c_StatusFlags_BID_OVERFLOW_EXCEPTION : UInt32) =
          UInt32.ofNat (fOverflow ||| fInexact) from by decide]
    · rw [if_neg (by simpa using hm)]
      obtain ⟨hcode, _⟩ := h.corr_nt2 hnt m hm (e3 - 1)
        ⟨(0x378d8e6400000000 : UInt64) - (if incr = true then 0xa else R64), z_sign ||| (0x1ed09bead87c0 : UInt64)⟩ pfpsf pref g1
        (by rw [hnd]; exact g2) (by rw [hnd]; exact he1)
      rw [hcode]; rfl
  · rw [if_neg (by simpa using hov)]
    -- the packed word
    have hw := expw_of_i32 (e3 - 1) ef he1 h.hef1 (k62 hov)
    have hword : (⟨(0x378d8e6400000000 : UInt64) - (if incr = true then 0xa else R64),
        (z_sign ||| (0x1ed09bead87c0 : UInt64)) ||| (z_sign ||| ((UInt64.ofInt (toI (e3 - 1 + (0x1820 : Int32)))) <<< 0x31))⟩ : U128) =
        ofBits (encode (.fin sz (P34 - R) ef)) := by
      have := asm ((0x378d8e6400000000 : UInt64) - (if incr = true then 0xa else R64)) 0x1ed09bead87c0 z_sign
        ((UInt64.ofInt (toI (e3 - 1 + (0x1820 : Int32)))) <<< 0x31) sz (P34 - R) (ef + 6176).toNat hwords hcd hzs hw
        (k14 hov)
      rw [kE] at this
      rw [← this, UInt64.or_comm z_sign (0x1ed09bead87c0 : UInt64), UInt64.or_assoc, ← UInt64.or_assoc z_sign z_sign,
        UInt64.or_self]
    have hw1 : (z_sign ||| (0x1ed09bead87c0 : UInt64)) ||| (z_sign ||| ((UInt64.ofInt (toI (e3 - 1 + (0x1820 : Int32)))) <<< 0x31)) =
        (ofBits (encode (.fin sz (P34 - R) ef))).w1 := congrArg U128.w1 hword
    rw [hword, hw1]
    have hany : (((L || G) || ML) || MG) = true := h.any
    by_cases hm : m = .NearestEven
    · subst hm
      rw [if_neg (by decide)]
      show powK pml pmg pil pig .NearestEven z_sign _ _ _ _ _ _ _ _ =
        Except.ok (ofBits (encode (finish .rne sz N 1 E4 pref).1), ML, MG, L, G,
        pfpsf ||| UInt32.ofNat (finish .rne sz N 1 E4 pref).2)
      simp only [powK]
      rw [z2PowO_eval, gt_emax _ _ he1, if_neg (by simpa using hov)]
      unfold z2PowF
      dsimp only
      rw [if_pos hany, z2Fin_eq, h.nearest pref, hnd, if_neg (by unfold eMax; exact hov), if_neg hnt]
      rw [final_or_id _ sz z_sign hzs (Or.inr ⟨_, _, rfl, kP, h.hef1, k61 hov⟩)]
      rw [UInt32.or_assoc, show (c_StatusFlags_BID_INEXACT_EXCEPTION ||| c_StatusFlags_BID_INEXACT_EXCEPTION : UInt32) =
        UInt32.ofNat fInexact from by decide]
    · rw [if_pos (by simpa using hm)]
      have g1' := enc_neg sz (P34 - R) ef hcd h.hef1 (k14' hov)
      have g2' := enc_sig sz (P34 - R) ef hcd h.hef1 (k14' hov)
      obtain ⟨hcode, hfl⟩ := h.corr_nt2 hnt m hm (e3 - 1) (ofBits (encode (.fin sz (P34 - R) ef)))
        (pfpsf ||| c_StatusFlags_BID_INEXACT_EXCEPTION) pref g1' (by rw [hnd]; exact g2') (by rw [hnd]; exact he1)
      rw [hcode]
      simp only [Except.bind, powK]
      rw [z2PowO_eval, gt_emax _ _ he1, if_neg (by simpa using hov)]
      unfold z2PowF
      dsimp only
      rw [if_pos hany, z2Fin_eq]
      rw [final_or_id _ sz z_sign hzs (finish_shape (modeOf m) sz N 1 E4 pref hN0 (by decide))]
      have hF : (finish (modeOf m) sz N 1 E4 pref).2 = fOverflow ||| fInexact ∨
          (finish (modeOf m) sz N 1 E4 pref).2 = fUnderflow ||| fInexact ∨ (finish (modeOf m) sz N 1 E4 pref).2 = fInexact := by
        rcases hfl with h | h; exact Or.inl h; exact Or.inr (Or.inr h)
      rw [flags3 pfpsf _ hF]


end Dec.C02GenFmaZ
