/-
  C02 (translated-code level) — the four digit-removal rounding helpers as the machine translation of
  /repo/src/bid_round.rs has them (`Dec.Gen.Code.bid_round64_2_18`, `bid_round128_19_38`, `bid_round192_39_57`,
  `bid_round256_58_76` in `DecGen/Code.lean`, regenerated from the Rust source on every run), called as the library calls
  them: `q`, `x` the `Int32` images of numbers in the routine's domain, the five `&mut bool` out-parameters `false` on entry.

  For every `(q, x)` of the domain (2–18 / 19–38 / 39–57 / 58–76, `1 ≤ x ≤ q − 1`) and EVERY coefficient word pattern:
    * `bid_roundNN_…_eq`     the translated routine returns `.ok` (no panic: no table index out of range) of exactly what the
                             code-shaped model `Dec.RH.roundNN` of `DecModel/RoundHelpers.lean` computes on the `.toNat` words;
    * `bid_roundNN_…_toNat`  the same read through `.toNat` (`roundNN_word(s)`: the model's `C*` consists of `u64` words);
  and for `C < 10^q`:
    * `bid_roundNN_…_spec`   the result meets `Dec.C02RoundHelpers.Spec` — `C*` is `C / 10^x` rounded half-even with the
                             10^(q−x) → 10^(q−x−1) replacement, `incr_exp` says so, and the four indicators are the stated
                             functions of quotient, remainder and half divisor — now as a theorem about the translated code.
      For `bid_round256_58_76` this needs `20 ≤ x` (`…_spec`); for `x ≤ 19` (`…_spec_low`, reached by no caller) everything but
      `is_inexact_lt_midpoint` is right, and that too when `C mod 10^x ≥ 2`: line 945 of bid_round.rs compares `fstar.w[3]`
      with `BID_TEN2MXTRUNC256[ind].w[2]`.  The translated code has the slip (two `decide +kernel` examples at the end of the
      section evaluate it), as the compiled code and the model do.

  The translated routines call the translated multi-word multipliers, word-by-word transcriptions of bid_internal.rs;
  `mul_64x64_to_128_ok` / `mul_64x64_to_128MACH_ok`, `mul_64x128_full_ok`, `mul_128x128_to_256_ok`, `mul_64x192_to_256_ok`,
  `mul_192x192_to_384_ok`, `mul_64x256_to_320_ok`, `mul_256x256_to_512_ok` (with `add_128_64_ok`, `add_carry_out_ok`,
  `add_carry_in_out_ok`) prove that they return `.ok` of the words of the exact product, for all arguments — what the
  model assumed of them.

  Method.  `extract_lets` turns the join points (`__do_jp`) the `do` blocks elaborate to into local definitions.  Working
  from the last block backwards, each join point is shown to return `.ok` of the model's remaining blocks applied to the
  `.toNat` of its arguments (`hOvf`, `hGt`, `hMid`, `hSplit`, `hMul`, `hjp…` inside the proofs); a block is then a small `if` tree
  whose leaves call the next join point.  The `UInt64` tests and operations are moved to `Nat` by `u64_beq`, `u64_dlt`,
  `u64_add`, `u64_sub`, `u64_shr`, … , the short-circuit `if c { true } else { … }` conditions collapse to Boolean
  expressions (`ite_ok_true`, `ite_ok_false`), after which the two sides have the same conditions and `paths` splits them in
  step.  Casts: `idx_sub_one`, `idx_cast_sub_one`, `idx_sub` (`(x − 1) as usize`, `(x as usize) − 1`, `(q − x) as usize`),
  `shift_cast`, `shift_cast_sub` (`BID_EX…[ind] as i32`, `(64 − shift)` as shift amounts); tables: `tbl64_ok … tbl256_ok`.
-/
import DecGen.Code
import DecProofs.Properties.C02RoundHelpers

set_option linter.unusedSimpArgs false
set_option linter.unusedVariables false
set_option exponentiation.threshold 600

namespace Dec.C02GenRound
open Dec Dec.Gen.Code Dec.Rs Dec.Gen
open Dec.RH (tw tv)

/-! ### From `UInt64` / `Int32` to `Nat` -/

theorem ofInt_natCast (n : Nat) : UInt64.ofInt (n : Int) = UInt64.ofNat n := by
  apply UInt64.toNat_inj.1
  unfold UInt64.ofInt
  simp only [UInt64.toNat_ofNat']
  omega

/-- `(x - 1) as usize` -/
theorem idx_sub_one (x : Nat) (h1 : 1 ≤ x) (h2 : x < 2 ^ 31) :
    UInt64.ofInt (toI (Int32.ofNat x - (1 : Int32))) = UInt64.ofNat (x - 1) := by
  have : (Int32.ofNat x - (1 : Int32)).toInt = ((x - 1 : Nat) : Int) := by
    rw [Int32.toInt_sub, Int32.toInt_ofNat_of_lt h2]
    have : (1 : Int32).toInt = 1 := rfl
    rw [this]
    have e : ((x : Int) - 1) = ((x - 1 : Nat) : Int) := by omega
    rw [e]
    apply Int.bmod_eq_of_le <;> omega
  show UInt64.ofInt (Int32.toInt _) = _
  rw [this, ofInt_natCast]

theorem idx_sub (q x : Nat) (h1 : x ≤ q) (h2 : q < 2 ^ 31) :
    UInt64.ofInt (toI (Int32.ofNat q - Int32.ofNat x)) = UInt64.ofNat (q - x) := by
  have : (Int32.ofNat q - Int32.ofNat x).toInt = ((q - x : Nat) : Int) := by
    rw [Int32.toInt_sub, Int32.toInt_ofNat_of_lt h2, Int32.toInt_ofNat_of_lt (by omega)]
    have e : ((q : Int) - x) = ((q - x : Nat) : Int) := by omega
    rw [e]
    apply Int.bmod_eq_of_le <;> omega
  show UInt64.ofInt (Int32.toInt _) = _
  rw [this, ofInt_natCast]

theorem tbl64_ok (t : List Nat) (i : Nat) (h : i < t.length) (hi : i < 2 ^ 64) :
    tbl64 t (UInt64.ofNat i) = .ok (UInt64.ofNat (tw t 1 i 0)) := by
  unfold tbl64 tw
  have : (UInt64.ofNat i).toNat = i := by rw [UInt64.toNat_ofNat']; omega
  rw [this, List.getElem?_eq_getElem h]
  simp [List.getD_eq_getElem?_getD, List.getElem?_eq_getElem h]

theorem tbl32_ok (t : List Nat) (i : Nat) (h : i < t.length) (hi : i < 2 ^ 64) :
    tbl32 t (UInt64.ofNat i) = .ok (UInt32.ofNat (tw t 1 i 0)) := by
  unfold tbl32 tw
  have : (UInt64.ofNat i).toNat = i := by rw [UInt64.toNat_ofNat']; omega
  rw [this, List.getElem?_eq_getElem h]
  simp [List.getD_eq_getElem?_getD, List.getElem?_eq_getElem h]

/-- the shift amount: `BID_EX…[ind] as i32`, then `as u32`/`as u64` for the shift -/
theorem shift_cast (s : Nat) (h : s < 2 ^ 31) :
    UInt64.ofInt (toI (Int32.ofInt (toI (UInt32.ofNat s)))) = UInt64.ofNat s := by
  show UInt64.ofInt (Int32.toInt (Int32.ofInt ((UInt32.ofNat s).toNat : Int))) = _
  have : (UInt32.ofNat s).toNat = s := by rw [UInt32.toNat_ofNat']; omega
  rw [this, Int32.toInt_ofInt_of_le (by omega) (by omega), ofInt_natCast]
theorem ite_pure_true (c : Prop) [Decidable c] (b : Bool) :
    (if c then (pure true : Except String Bool) else pure b) = .ok (decide c || b) := by
  by_cases h : c <;> simp [h, pure, Except.pure]
theorem ite_pure_false (c : Prop) [Decidable c] (b : Bool) :
    (if c then (pure b : Except String Bool) else pure false) = .ok (decide c && b) := by
  by_cases h : c <;> simp [h, pure, Except.pure]

def out64 (o : Nat × Bool) (fl : RH.Ind) : UInt64 × Bool × Bool × Bool × Bool × Bool :=
  (UInt64.ofNat o.1, o.2, fl.midLtEven, fl.midGtEven, fl.inexLtMid, fl.inexGtMid)

theorem u64_beq (a b : UInt64) : (a == b) = (a.toNat == b.toNat) := by
  rw [Bool.eq_iff_iff]
  simp only [beq_iff_eq]
  exact UInt64.toNat_inj.symm
theorem u64_bne (a b : UInt64) : (a != b) = (a.toNat != b.toNat) := by
  show (!(a == b)) = (!(a.toNat == b.toNat))
  rw [u64_beq]
theorem u64_dlt (a b : UInt64) : decide (a < b) = decide (a.toNat < b.toNat) :=
  decide_eq_decide.2 UInt64.lt_iff_toNat_lt
theorem u64_dle (a b : UInt64) : decide (a ≤ b) = decide (a.toNat ≤ b.toNat) :=
  decide_eq_decide.2 UInt64.le_iff_toNat_le
theorem u64_sub (a b : UInt64) : (a - b).toNat = RH.sub64 a.toNat b.toNat := by
  have := a.toNat_lt; have := b.toNat_lt
  rw [UInt64.toNat_sub]; unfold RH.sub64; omega
theorem u64_add (a b : UInt64) : (a + b).toNat = RH.add64 a.toNat b.toNat := by
  rw [UInt64.toNat_add]; rfl


/-! ### The multi-word multipliers return the exact product -/

theorem lo32 (x : UInt64) : (UInt64.ofInt (toI (UInt32.ofInt (toI x)))).toNat = x.toNat % 2 ^ 32 := by
  show (UInt64.ofInt ((UInt32.ofInt (x.toNat : Int)).toNat : Int)).toNat = _
  rw [ofInt_natCast, UInt64.toNat_ofNat']
  have : (UInt32.ofInt (x.toNat : Int)).toNat = x.toNat % 2 ^ 32 := by
    unfold UInt32.ofInt
    rw [UInt32.toNat_ofNat']
    omega
  rw [this]; omega

/-- schoolbook 64×64 from 32-bit halves, on numbers -/
theorem mul64_nat (a b : Nat) (ha : a < 2 ^ 64) (hb : b < 2 ^ 64) :
    let ah := a / 2 ^ 32; let al := a % 2 ^ 32; let bh := b / 2 ^ 32; let bl := b % 2 ^ 32
    let pm := ah * bl % 2 ^ 64; let ph := ah * bh % 2 ^ 64; let pl := al * bl % 2 ^ 64; let pm2 := al * bh % 2 ^ 64
    let ph' := (ph + pm / 2 ^ 32) % 2 ^ 64
    let pm' := ((pm % 2 ^ 32 + pm2) % 2 ^ 64 + pl / 2 ^ 32) % 2 ^ 64
    ((pm' * 2 ^ 32) % 2 ^ 64 + pl % 2 ^ 32) % 2 ^ 64 = a * b % 2 ^ 64 ∧
    (ph' + pm' / 2 ^ 32) % 2 ^ 64 = a * b / 2 ^ 64 := by
  intro ah al bh bl pm ph pl pm2 ph' pm'
  have hah : ah < 2 ^ 32 := by omega
  have hal : al < 2 ^ 32 := by omega
  have hbh : bh < 2 ^ 32 := by omega
  have hbl : bl < 2 ^ 32 := by omega
  have b1 : ah * bl ≤ (2 ^ 32 - 1) * (2 ^ 32 - 1) := Nat.mul_le_mul (by omega) (by omega)
  have b2 : ah * bh ≤ (2 ^ 32 - 1) * (2 ^ 32 - 1) := Nat.mul_le_mul (by omega) (by omega)
  have b3 : al * bl ≤ (2 ^ 32 - 1) * (2 ^ 32 - 1) := Nat.mul_le_mul (by omega) (by omega)
  have b4 : al * bh ≤ (2 ^ 32 - 1) * (2 ^ 32 - 1) := Nat.mul_le_mul (by omega) (by omega)
  have hab : a * b = ah * bh * 2 ^ 64 + (ah * bl + al * bh) * 2 ^ 32 + al * bl := by
    have ea : a = ah * 2 ^ 32 + al := by omega
    have eb : b = bh * 2 ^ 32 + bl := by omega
    rw [ea, eb]
    generalize ah = x, al = y, bh = z, bl = w
    grind
  generalize a * b = P at *
  simp only [ph', pm', pm, ph, pl, pm2]
  generalize ah * bl = pm, ah * bh = ph, al * bl = pl, al * bh = pm2 at *
  omega

/-- word `k` of the number `P`, as a `u64` -/
def wU (P k : Nat) : UInt64 := UInt64.ofNat (RH.wd P k)
theorem wU_toNat (P k : Nat) : (wU P k).toNat = RH.wd P k := by
  unfold wU RH.wd; rw [UInt64.toNat_ofNat']; omega

theorem mul_64x64_to_128_ok (a b : UInt64) :
    mul_64x64_to_128 a b = .ok ⟨wU (a.toNat * b.toNat) 0, wU (a.toNat * b.toNat) 1⟩ := by
  obtain ⟨h1, h2⟩ := mul64_nat a.toNat b.toNat a.toNat_lt b.toNat_lt
  have hlt : a.toNat * b.toNat < 2 ^ 64 * 2 ^ 64 := Nat.mul_lt_mul'' a.toNat_lt b.toNat_lt
  unfold mul_64x64_to_128
  simp only [pure, Except.pure, Except.ok.injEq, Rs.U128.mk.injEq]
  constructor
  · apply UInt64.toNat_inj.1
    simp only [UInt64.toNat_add, UInt64.toNat_shiftLeft, UInt64.toNat_shiftRight, UInt64.toNat_mul, lo32,
      UInt64.toNat_ofNat', Nat.shiftLeft_eq, Nat.shiftRight_eq_div_pow, UInt64.toNat_ofNat, wU_toNat, RH.wd,
      show (32 % 2 ^ 64 % 64) = 32 from rfl]
    omega
  · apply UInt64.toNat_inj.1
    simp only [UInt64.toNat_add, UInt64.toNat_shiftLeft, UInt64.toNat_shiftRight, UInt64.toNat_mul, lo32,
      UInt64.toNat_ofNat', Nat.shiftLeft_eq, Nat.shiftRight_eq_div_pow, UInt64.toNat_ofNat, wU_toNat, RH.wd,
      show (32 % 2 ^ 64 % 64) = 32 from rfl]
    omega

theorem add_carry_out_ok (X Y : UInt64) :
    add_carry_out X Y = .ok (UInt64.ofNat ((X.toNat + Y.toNat) % 2 ^ 64), UInt64.ofNat ((X.toNat + Y.toNat) / 2 ^ 64)) := by
  have := X.toNat_lt; have := Y.toNat_lt
  unfold add_carry_out
  simp only [pure, Except.pure, Except.ok.injEq, Prod.mk.injEq]
  constructor
  · apply UInt64.toNat_inj.1
    simp only [UInt64.toNat_add, UInt64.toNat_ofNat']; omega
  · apply UInt64.toNat_inj.1
    by_cases h : X + Y < X
    · have h' := UInt64.lt_iff_toNat_lt.1 h
      simp only [UInt64.toNat_add] at h'
      simp only [h, decide_true, if_true, UInt64.toNat_ofNat', UInt64.toNat_one]; omega
    · have h' := mt UInt64.lt_iff_toNat_lt.2 h
      simp only [UInt64.toNat_add] at h'
      simp only [h, decide_false, if_false, UInt64.toNat_ofNat', UInt64.toNat_zero, Bool.false_eq_true]; omega

theorem add_carry_in_out_ok (X Y CI : UInt64) (hc : CI.toNat ≤ 1) :
    add_carry_in_out X Y CI = .ok (UInt64.ofNat ((X.toNat + Y.toNat + CI.toNat) % 2 ^ 64),
      UInt64.ofNat ((X.toNat + Y.toNat + CI.toNat) / 2 ^ 64)) := by
  have := X.toNat_lt; have := Y.toNat_lt
  unfold add_carry_in_out
  simp only [pure, Except.pure, Except.ok.injEq, Prod.mk.injEq]
  constructor
  · apply UInt64.toNat_inj.1
    simp only [UInt64.toNat_add, UInt64.toNat_ofNat']; omega
  · apply UInt64.toNat_inj.1
    by_cases h : (decide (X + CI + Y < X + CI) || decide (X + CI < CI)) = true
    · have h' := h
      simp only [Bool.or_eq_true, decide_eq_true_eq, UInt64.lt_iff_toNat_lt, UInt64.toNat_add] at h'
      simp only [h, if_true, UInt64.toNat_ofNat', UInt64.toNat_one]; omega
    · have h' := h
      simp only [Bool.or_eq_true, decide_eq_true_eq, UInt64.lt_iff_toNat_lt, UInt64.toNat_add] at h'
      simp only [h, if_false, UInt64.toNat_ofNat', UInt64.toNat_zero, Bool.false_eq_true]; omega

theorem carry1 (x y : Nat) (hx : x < 2 ^ 64) (hy : y < 2 ^ 64) : (UInt64.ofNat ((x + y) / 2 ^ 64)).toNat ≤ 1 := by
  rw [UInt64.toNat_ofNat']; omega
theorem carry2 (x y c : Nat) (hx : x < 2 ^ 64) (hy : y < 2 ^ 64) (hc : c ≤ 1) :
    (UInt64.ofNat ((x + y + c) / 2 ^ 64)).toNat ≤ 1 := by
  rw [UInt64.toNat_ofNat']; omega

def v128 (a : Rs.U128) : Nat := a.w0.toNat + 2 ^ 64 * a.w1.toNat
def v192 (a : Rs.U192) : Nat := a.w0.toNat + 2 ^ 64 * a.w1.toNat + 2 ^ 128 * a.w2.toNat
def v256 (a : Rs.U256) : Nat := a.w0.toNat + 2 ^ 64 * a.w1.toNat + 2 ^ 128 * a.w2.toNat + 2 ^ 192 * a.w3.toNat

theorem add_128_64_ok (A : Rs.U128) (B : UInt64) :
    add_128_64 A B = .ok ⟨wU (v128 A + B.toNat) 0, wU (v128 A + B.toNat) 1⟩ := by
  have := A.w0.toNat_lt; have := A.w1.toNat_lt; have := B.toNat_lt
  unfold add_128_64
  by_cases h : B + A.w0 < B
  · have h' := UInt64.lt_iff_toNat_lt.1 h
    simp only [UInt64.toNat_add] at h'
    simp only [h, decide_true, if_true, pure, Except.pure, bind, Except.bind, Except.ok.injEq, Rs.U128.mk.injEq]
    constructor <;> apply UInt64.toNat_inj.1 <;>
      simp only [UInt64.toNat_add, wU_toNat, RH.wd, v128, UInt64.toNat_one] <;> omega
  · have h' := mt UInt64.lt_iff_toNat_lt.2 h
    simp only [UInt64.toNat_add] at h'
    simp only [h, decide_false, if_false, pure, Except.pure, bind, Except.bind, Except.ok.injEq, Rs.U128.mk.injEq,
      Bool.false_eq_true]
    constructor <;> apply UInt64.toNat_inj.1 <;>
      simp only [UInt64.toNat_add, wU_toNat, RH.wd, v128] <;> omega

theorem mul_64x128_full_ok (A : UInt64) (B : Rs.U128) :
    mul_64x128_full A B = .ok (wU (A.toNat * v128 B) 2, ⟨wU (A.toNat * v128 B) 0, wU (A.toNat * v128 B) 1⟩) := by
  have h0 : A.toNat * B.w0.toNat < 2 ^ 64 * 2 ^ 64 := Nat.mul_lt_mul'' A.toNat_lt B.w0.toNat_lt
  have h1 : A.toNat * B.w1.toNat < 2 ^ 64 * 2 ^ 64 := Nat.mul_lt_mul'' A.toNat_lt B.w1.toNat_lt
  have hP : A.toNat * v128 B = A.toNat * B.w0.toNat + 2 ^ 64 * (A.toNat * B.w1.toNat) := by
    unfold v128; rw [Nat.mul_add, Nat.mul_left_comm]
  unfold mul_64x128_full
  simp only [mul_64x64_to_128_ok, add_128_64_ok, bind, Except.bind, pure, Except.pure, Except.ok.injEq, Prod.mk.injEq,
    Rs.U128.mk.injEq]
  rw [hP]
  generalize A.toNat * B.w0.toNat = Q0 at *
  generalize A.toNat * B.w1.toNat = Q1 at *
  refine ⟨?_, ?_, ?_⟩ <;> apply UInt64.toNat_inj.1 <;> simp only [wU_toNat, RH.wd, v128] <;> omega

theorem words3 (Q : Nat) (h : Q < 2 ^ 192) : ∃ w0 w1 w2, w0 < 2 ^ 64 ∧ w1 < 2 ^ 64 ∧ w2 < 2 ^ 64 ∧
    Q = w0 + 2 ^ 64 * w1 + 2 ^ 128 * w2 ∧ RH.wd Q 0 = w0 ∧ RH.wd Q 1 = w1 ∧ RH.wd Q 2 = w2 := by
  refine ⟨RH.wd Q 0, RH.wd Q 1, RH.wd Q 2, ?_, ?_, ?_, ?_, rfl, rfl, rfl⟩ <;> unfold RH.wd <;> omega

theorem mul_128x128_to_256_ok (A B : Rs.U128) :
    mul_128x128_to_256 A B =
      .ok ⟨wU (v128 A * v128 B) 0, wU (v128 A * v128 B) 1, wU (v128 A * v128 B) 2, wU (v128 A * v128 B) 3⟩ := by
  have hB : v128 B < 2 ^ 128 := by
    have := B.w0.toNat_lt; have := B.w1.toNat_lt; unfold v128; omega
  have h0 : A.w0.toNat * v128 B < 2 ^ 192 :=
    calc _ < 2 ^ 64 * 2 ^ 128 := Nat.mul_lt_mul'' A.w0.toNat_lt hB
      _ = _ := by rw [← Nat.pow_add]
  have h1 : A.w1.toNat * v128 B < 2 ^ 192 :=
    calc _ < 2 ^ 64 * 2 ^ 128 := Nat.mul_lt_mul'' A.w1.toNat_lt hB
      _ = _ := by rw [← Nat.pow_add]
  have hP : v128 A * v128 B = A.w0.toNat * v128 B + 2 ^ 64 * (A.w1.toNat * v128 B) := by
    rw [show v128 A = A.w0.toNat + 2 ^ 64 * A.w1.toNat from rfl, Nat.add_mul, Nat.mul_assoc]
  unfold mul_128x128_to_256
  simp only [mul_64x128_full_ok, add_carry_out_ok, bind, Except.bind, pure, Except.pure]
  rw [add_carry_in_out_ok _ _ _ (carry1 _ _ (UInt64.toNat_lt _) (UInt64.toNat_lt _))]
  simp only [Except.ok.injEq, Rs.U256.mk.injEq]
  rw [hP]
  obtain ⟨a0, a1, a2, ha0, ha1, ha2, hQ0, e0, e1, e2⟩ := words3 _ h0
  obtain ⟨b0, b1, b2, hb0, hb1, hb2, hQ1, f0, f1, f2⟩ := words3 _ h1
  simp only [wU_toNat, e0, e1, e2, f0, f1, f2, UInt64.toNat_ofNat', UInt64.toNat_add]
  rw [hQ0, hQ1]
  refine ⟨?_, ?_, ?_, ?_⟩ <;> apply UInt64.toNat_inj.1 <;>
    simp only [wU_toNat, RH.wd, UInt64.toNat_ofNat', UInt64.toNat_add] <;> omega

syntax "carry_tac" : tactic
macro_rules
  | `(tactic| carry_tac) => `(tactic| first
      | exact carry1 _ _ (UInt64.toNat_lt _) (UInt64.toNat_lt _)
      | exact carry2 _ _ _ (UInt64.toNat_lt _) (UInt64.toNat_lt _) (by carry_tac))

theorem words4 (Q : Nat) (h : Q < 2 ^ 256) : ∃ w0 w1 w2 w3, w0 < 2 ^ 64 ∧ w1 < 2 ^ 64 ∧ w2 < 2 ^ 64 ∧ w3 < 2 ^ 64 ∧
    Q = w0 + 2 ^ 64 * w1 + 2 ^ 128 * w2 + 2 ^ 192 * w3 ∧
    RH.wd Q 0 = w0 ∧ RH.wd Q 1 = w1 ∧ RH.wd Q 2 = w2 ∧ RH.wd Q 3 = w3 := by
  refine ⟨RH.wd Q 0, RH.wd Q 1, RH.wd Q 2, RH.wd Q 3, ?_, ?_, ?_, ?_, ?_, rfl, rfl, rfl, rfl⟩ <;> unfold RH.wd <;> omega

theorem v192_lt (B : Rs.U192) : v192 B < 2 ^ 192 := by
  have := B.w0.toNat_lt; have := B.w1.toNat_lt; have := B.w2.toNat_lt; unfold v192; omega

theorem mul_64x192_to_256_ok (A : UInt64) (B : Rs.U192) :
    mul_64x192_to_256 A B = .ok ⟨wU (A.toNat * v192 B) 0, wU (A.toNat * v192 B) 1, wU (A.toNat * v192 B) 2,
      wU (A.toNat * v192 B) 3⟩ := by
  have h0 : A.toNat * B.w0.toNat < 2 ^ 128 :=
    calc _ < 2 ^ 64 * 2 ^ 64 := Nat.mul_lt_mul'' A.toNat_lt B.w0.toNat_lt
      _ = _ := by rw [← Nat.pow_add]
  have h1 : A.toNat * B.w1.toNat < 2 ^ 128 :=
    calc _ < 2 ^ 64 * 2 ^ 64 := Nat.mul_lt_mul'' A.toNat_lt B.w1.toNat_lt
      _ = _ := by rw [← Nat.pow_add]
  have h2 : A.toNat * B.w2.toNat < 2 ^ 128 :=
    calc _ < 2 ^ 64 * 2 ^ 64 := Nat.mul_lt_mul'' A.toNat_lt B.w2.toNat_lt
      _ = _ := by rw [← Nat.pow_add]
  have hP : A.toNat * v192 B = A.toNat * B.w0.toNat + 2 ^ 64 * (A.toNat * B.w1.toNat)
      + 2 ^ 128 * (A.toNat * B.w2.toNat) := by
    unfold v192; rw [Nat.mul_add, Nat.mul_add, Nat.mul_left_comm, Nat.mul_left_comm (A.toNat) (2 ^ 128)]
  unfold mul_64x192_to_256
  simp only [mul_64x64_to_128_ok, add_carry_out_ok, bind, Except.bind, pure, Except.pure]
  rw [add_carry_in_out_ok _ _ _ (by carry_tac)]
  simp only [Except.ok.injEq, Rs.U256.mk.injEq]
  rw [hP]
  generalize A.toNat * B.w0.toNat = Q0 at *
  generalize A.toNat * B.w1.toNat = Q1 at *
  generalize A.toNat * B.w2.toNat = Q2 at *
  refine ⟨?_, ?_, ?_, ?_⟩ <;> apply UInt64.toNat_inj.1 <;>
    simp only [wU_toNat, RH.wd, UInt64.toNat_ofNat', UInt64.toNat_add] <;> omega

theorem mulU_lt (a : UInt64) (b n : Nat) (hb : b < 2 ^ n) : a.toNat * b < 2 ^ (64 + n) :=
  calc _ < 2 ^ 64 * 2 ^ n := Nat.mul_lt_mul'' a.toNat_lt hb
    _ = _ := by rw [← Nat.pow_add]

theorem dm (n : Nat) (hn : n < 2 ^ 65) : ∃ s k, n % 2 ^ 64 = s ∧ k % 2 ^ 64 = k ∧ n / 2 ^ 64 = k ∧
    s % 2 ^ 64 = s ∧ s < 2 ^ 64 ∧ k ≤ 1 ∧ n = s + 2 ^ 64 * k :=
  ⟨n % 2 ^ 64, n / 2 ^ 64, rfl, by omega, rfl, by omega, by omega, by omega, by omega⟩

theorem acc192 (a0 a1 a2 a3 b0 b1 b2 b3 c0 c1 c2 c3 : Nat)
    (ha0 : a0 < 2 ^ 64) (ha1 : a1 < 2 ^ 64) (ha2 : a2 < 2 ^ 64) (ha3 : a3 < 2 ^ 64)
    (hb0 : b0 < 2 ^ 64) (hb1 : b1 < 2 ^ 64) (hb2 : b2 < 2 ^ 64) (hb3 : b3 + 1 < 2 ^ 64)
    (hc0 : c0 < 2 ^ 64) (hc1 : c1 < 2 ^ 64) (hc2 : c2 < 2 ^ 64) (hc3 : c3 + 1 < 2 ^ 64) :
    ∃ s1 s4 s5 s6 k6,
      (b0 + a1) % 2 ^ 64 = s1 ∧
      (c0 + (b1 + a2 + (b0 + a1) / 2 ^ 64 % 2 ^ 64) % 2 ^ 64 % 2 ^ 64) % 2 ^ 64 = s4 ∧
      (c1 + (b2 + a3 + (b1 + a2 + (b0 + a1) / 2 ^ 64 % 2 ^ 64) / 2 ^ 64 % 2 ^ 64) % 2 ^ 64 % 2 ^ 64 +
                  (c0 + (b1 + a2 + (b0 + a1) / 2 ^ 64 % 2 ^ 64) % 2 ^ 64 % 2 ^ 64) / 2 ^ 64 % 2 ^ 64) % 2 ^ 64 = s5 ∧
      (c2 + (b3 + (b2 + a3 + (b1 + a2 + (b0 + a1) / 2 ^ 64 % 2 ^ 64) / 2 ^ 64 % 2 ^ 64) / 2 ^ 64 % 2 ^ 64) % 2 ^ 64 +
                    (c1 + (b2 + a3 + (b1 + a2 + (b0 + a1) / 2 ^ 64 % 2 ^ 64) / 2 ^ 64 % 2 ^ 64) % 2 ^ 64 % 2 ^ 64 +
                          (c0 + (b1 + a2 + (b0 + a1) / 2 ^ 64 % 2 ^ 64) % 2 ^ 64 % 2 ^ 64) / 2 ^ 64 % 2 ^ 64) /
                        2 ^ 64 % 2 ^ 64) % 2 ^ 64 = s6 ∧
      (c2 + (b3 + (b2 + a3 + (b1 + a2 + (b0 + a1) / 2 ^ 64 % 2 ^ 64) / 2 ^ 64 % 2 ^ 64) / 2 ^ 64 % 2 ^ 64) % 2 ^ 64 +
                      (c1 + (b2 + a3 + (b1 + a2 + (b0 + a1) / 2 ^ 64 % 2 ^ 64) / 2 ^ 64 % 2 ^ 64) % 2 ^ 64 % 2 ^ 64 +
                            (c0 + (b1 + a2 + (b0 + a1) / 2 ^ 64 % 2 ^ 64) % 2 ^ 64 % 2 ^ 64) / 2 ^ 64 % 2 ^ 64) /
                          2 ^ 64 % 2 ^ 64) / 2 ^ 64 = k6 ∧
      s1 < 2 ^ 64 ∧ s4 < 2 ^ 64 ∧ s5 < 2 ^ 64 ∧ s6 < 2 ^ 64 ∧ k6 ≤ 1 ∧
      a0 + 2 ^ 64 * a1 + 2 ^ 128 * a2 + 2 ^ 192 * a3 + 2 ^ 64 * (b0 + 2 ^ 64 * b1 + 2 ^ 128 * b2 + 2 ^ 192 * b3) +
        2 ^ 128 * (c0 + 2 ^ 64 * c1 + 2 ^ 128 * c2 + 2 ^ 192 * c3) =
      a0 + 2 ^ 64 * s1 + 2 ^ 128 * s4 + 2 ^ 192 * s5 + 2 ^ 256 * s6 + 2 ^ 320 * (c3 + k6) := by
  obtain ⟨s1, k1, r1, mk1, r1', m1, bs1, bk1, n1⟩ := dm (b0 + a1) (by omega)
  simp only [r1, r1', mk1, m1]
  obtain ⟨s2, k2, r2, mk2, r2', m2, bs2, bk2, n2⟩ := dm (b1 + a2 + k1) (by omega)
  simp only [r2, r2', mk2, m2]
  obtain ⟨s3, k3, r3, mk3, r3', m3, bs3, bk3, n3⟩ := dm (b2 + a3 + k2) (by omega)
  simp only [r3, r3', mk3, m3]
  have t4 : (b3 + k3) % 2 ^ 64 = b3 + k3 := Nat.mod_eq_of_lt (by omega)
  simp only [t4]
  obtain ⟨s4, k4, r4, mk4, r4', m4, bs4, bk4, n4⟩ := dm (c0 + s2) (by omega)
  simp only [r4, r4', mk4, m4]
  obtain ⟨s5, k5, r5, mk5, r5', m5, bs5, bk5, n5⟩ := dm (c1 + s3 + k4) (by omega)
  simp only [r5, r5', mk5, m5]
  obtain ⟨s6, k6, r6, mk6, r6', m6, bs6, bk6, n6⟩ := dm (c2 + (b3 + k3) + k5) (by omega)
  simp only [r6, r6', mk6, m6]
  refine ⟨s1, s4, s5, s6, k6, rfl, rfl, rfl, rfl, rfl, bs1, bs4, bs5, bs6, bk6, ?_⟩
  omega

theorem mulU_le (a : UInt64) (b n : Nat) (hb : b < 2 ^ n) : a.toNat * b ≤ (2 ^ 64 - 1) * (2 ^ n - 1) :=
  Nat.mul_le_mul (by have := a.toNat_lt; omega) (by omega)

/-- the top word of a 64×192-bit product is at most `2^64 − 2` -/
theorem top4 (Q w0 w1 w2 w3 : Nat) (h : Q ≤ (2 ^ 64 - 1) * (2 ^ 192 - 1))
    (hQ : Q = w0 + 2 ^ 64 * w1 + 2 ^ 128 * w2 + 2 ^ 192 * w3) : w3 + 1 < 2 ^ 64 := by omega

theorem wU_sum6 (w0 w1 w2 w3 w4 w5 : Nat) (h0 : w0 < 2 ^ 64) (h1 : w1 < 2 ^ 64) (h2 : w2 < 2 ^ 64) (h3 : w3 < 2 ^ 64)
    (h4 : w4 < 2 ^ 64) (h5 : w5 < 2 ^ 64) :
    let P := w0 + 2 ^ 64 * w1 + 2 ^ 128 * w2 + 2 ^ 192 * w3 + 2 ^ 256 * w4 + 2 ^ 320 * w5
    wU P 0 = UInt64.ofNat w0 ∧ wU P 1 = UInt64.ofNat w1 ∧ wU P 2 = UInt64.ofNat w2 ∧ wU P 3 = UInt64.ofNat w3 ∧
    wU P 4 = UInt64.ofNat w4 ∧ wU P 5 = UInt64.ofNat w5 := by
  intro P
  refine ⟨?_, ?_, ?_, ?_, ?_, ?_⟩ <;> unfold wU RH.wd <;> congr 1 <;> omega

theorem mul_192x192_to_384_ok (A B : Rs.U192) :
    mul_192x192_to_384 A B = .ok ⟨wU (v192 A * v192 B) 0, wU (v192 A * v192 B) 1, wU (v192 A * v192 B) 2,
      wU (v192 A * v192 B) 3, wU (v192 A * v192 B) 4, wU (v192 A * v192 B) 5⟩ := by
  have h0 : A.w0.toNat * v192 B < 2 ^ 256 := mulU_lt _ _ 192 (v192_lt B)
  have h1 : A.w1.toNat * v192 B < 2 ^ 256 := mulU_lt _ _ 192 (v192_lt B)
  have h2 : A.w2.toNat * v192 B < 2 ^ 256 := mulU_lt _ _ 192 (v192_lt B)
  have h1' := mulU_le A.w1 _ 192 (v192_lt B)
  have h2' := mulU_le A.w2 _ 192 (v192_lt B)
  have hP : v192 A * v192 B = A.w0.toNat * v192 B + 2 ^ 64 * (A.w1.toNat * v192 B)
      + 2 ^ 128 * (A.w2.toNat * v192 B) := by
    rw [show v192 A = A.w0.toNat + 2 ^ 64 * A.w1.toNat + 2 ^ 128 * A.w2.toNat from rfl, Nat.add_mul, Nat.add_mul,
      Nat.mul_assoc, Nat.mul_assoc]
  unfold mul_192x192_to_384
  simp only [mul_64x192_to_256_ok, add_carry_out_ok, bind, Except.bind, pure, Except.pure]
  rw [add_carry_in_out_ok _ _ _ (by carry_tac)]
  simp only [add_carry_out_ok]
  rw [add_carry_in_out_ok _ _ _ (by carry_tac)]
  simp only [add_carry_out_ok]
  rw [add_carry_in_out_ok _ _ _ (by carry_tac)]
  simp only [add_carry_out_ok]
  rw [add_carry_in_out_ok _ _ _ (by carry_tac)]
  simp only [Except.ok.injEq, Rs.U384.mk.injEq]
  rw [hP]
  obtain ⟨a0, a1, a2, a3, ha0, ha1, ha2, ha3, hQ0, e0, e1, e2, e3⟩ := words4 _ h0
  obtain ⟨b0, b1, b2, b3, hb0, hb1, hb2, hb3, hQ1, f0, f1, f2, f3⟩ := words4 _ h1
  obtain ⟨c0, c1, c2, c3, hc0, hc1, hc2, hc3, hQ2, g0, g1, g2, g3⟩ := words4 _ h2
  have hb3' := top4 _ _ _ _ _ h1' hQ1
  have hc3' := top4 _ _ _ _ _ h2' hQ2
  simp only [wU_toNat, e0, e1, e2, e3, f0, f1, f2, f3, g0, g1, g2, g3, UInt64.toNat_ofNat', UInt64.toNat_add]
  obtain ⟨s1, s4, s5, s6, k6, r1, r4, r5, r6, rk, bs1, bs4, bs5, bs6, bk6, hsum⟩ :=
    acc192 a0 a1 a2 a3 b0 b1 b2 b3 c0 c1 c2 c3 ha0 ha1 ha2 ha3 hb0 hb1 hb2 hb3' hc0 hc1 hc2 hc3'
  simp only [r1, r4, r5, r6, rk]
  have e0' : wU (A.w0.toNat * v192 B) 0 = UInt64.ofNat a0 := by unfold wU; rw [e0]
  have g3' : wU (A.w2.toNat * v192 B) 3 = UInt64.ofNat c3 := by unfold wU; rw [g3]
  rw [e0', g3', hQ0, hQ1, hQ2, hsum]
  have htop : c3 + k6 < 2 ^ 64 := by clear hsum r1 r4 r5 r6 rk hQ0 hQ1 hQ2 h0 h1 h2 h1' h2' hP; omega
  obtain ⟨w0, w1, w2, w3, w4, w5⟩ := wU_sum6 a0 s1 s4 s5 s6 (c3 + k6) ha0 bs1 bs4 bs5 bs6 htop
  simp only [w0, w1, w2, w3, w4, w5, true_and]
  exact (UInt64.ofNat_add _ _).symm

theorem add_carry_out_ex (X Y : UInt64) : ∃ s k : UInt64, add_carry_out X Y = .ok (s, k) ∧ k.toNat ≤ 1 ∧
    X.toNat + Y.toNat = s.toNat + 2 ^ 64 * k.toNat := by
  have := X.toNat_lt; have := Y.toNat_lt
  refine ⟨_, _, add_carry_out_ok X Y, ?_, ?_⟩ <;> simp only [UInt64.toNat_ofNat'] <;> omega

theorem add_carry_in_out_ex (X Y CI : UInt64) (h : CI.toNat ≤ 1) : ∃ s k : UInt64,
    add_carry_in_out X Y CI = .ok (s, k) ∧ k.toNat ≤ 1 ∧ X.toNat + Y.toNat + CI.toNat = s.toNat + 2 ^ 64 * k.toNat := by
  have := X.toNat_lt; have := Y.toNat_lt
  refine ⟨_, _, add_carry_in_out_ok X Y CI h, ?_, ?_⟩ <;> simp only [UInt64.toNat_ofNat'] <;> omega

theorem v256_lt (B : Rs.U256) : v256 B < 2 ^ 256 := by
  have := B.w0.toNat_lt; have := B.w1.toNat_lt; have := B.w2.toNat_lt; have := B.w3.toNat_lt; unfold v256; omega

/-- the words of a number below `2^320`, as `u64`s -/
theorem words5U (Q : Nat) (h : Q < 2 ^ 320) : ∃ w0 w1 w2 w3 w4 : UInt64,
    wU Q 0 = w0 ∧ wU Q 1 = w1 ∧ wU Q 2 = w2 ∧ wU Q 3 = w3 ∧ wU Q 4 = w4 ∧
    Q = w0.toNat + 2 ^ 64 * w1.toNat + 2 ^ 128 * w2.toNat + 2 ^ 192 * w3.toNat + 2 ^ 256 * w4.toNat := by
  refine ⟨_, _, _, _, _, rfl, rfl, rfl, rfl, rfl, ?_⟩
  simp only [wU_toNat, RH.wd]; omega

theorem mul_64x256_to_320_ok (A : UInt64) (B : Rs.U256) :
    mul_64x256_to_320 A B = .ok ⟨wU (A.toNat * v256 B) 0, wU (A.toNat * v256 B) 1, wU (A.toNat * v256 B) 2,
      wU (A.toNat * v256 B) 3, wU (A.toNat * v256 B) 4, 0, 0, 0⟩ := by
  have h0 : A.toNat * B.w0.toNat < 2 ^ 128 := mulU_lt A _ 64 B.w0.toNat_lt
  have h1 : A.toNat * B.w1.toNat < 2 ^ 128 := mulU_lt A _ 64 B.w1.toNat_lt
  have h2 : A.toNat * B.w2.toNat < 2 ^ 128 := mulU_lt A _ 64 B.w2.toNat_lt
  have h3 : A.toNat * B.w3.toNat < 2 ^ 128 := mulU_lt A _ 64 B.w3.toNat_lt
  have h3' := mulU_le A _ 64 B.w3.toNat_lt
  have hP : A.toNat * v256 B = A.toNat * B.w0.toNat + 2 ^ 64 * (A.toNat * B.w1.toNat)
      + 2 ^ 128 * (A.toNat * B.w2.toNat) + 2 ^ 192 * (A.toNat * B.w3.toNat) := by
    unfold v256
    rw [Nat.mul_add, Nat.mul_add, Nat.mul_add, Nat.mul_left_comm, Nat.mul_left_comm (A.toNat) (2 ^ 128),
      Nat.mul_left_comm (A.toNat) (2 ^ 192)]
  unfold mul_64x256_to_320
  simp only [mul_64x64_to_128_ok, bind, Except.bind, pure, Except.pure]
  rw [hP]
  generalize A.toNat * B.w0.toNat = Q0 at *
  generalize A.toNat * B.w1.toNat = Q1 at *
  generalize A.toNat * B.w2.toNat = Q2 at *
  generalize A.toNat * B.w3.toNat = Q3 at *
  clear hP
  obtain ⟨s1, k1, e1, hk1, n1⟩ := add_carry_out_ex (wU Q1 0) (wU Q0 1)
  simp only [e1]
  obtain ⟨s2, k2, e2, hk2, n2⟩ := add_carry_in_out_ex (wU Q2 0) (wU Q1 1) k1 hk1
  simp only [e2]
  obtain ⟨s3, k3, e3, hk3, n3⟩ := add_carry_in_out_ex (wU Q3 0) (wU Q2 1) k2 hk2
  simp only [e3]
  simp only [wU_toNat, RH.wd] at n1 n2 n3
  have hs1 := s1.toNat_lt; have hs2 := s2.toNat_lt; have hs3 := s3.toNat_lt
  have hsum : Q0 + 2 ^ 64 * Q1 + 2 ^ 128 * Q2 + 2 ^ 192 * Q3 =
      Q0 % 2 ^ 64 + 2 ^ 64 * s1.toNat + 2 ^ 128 * s2.toNat + 2 ^ 192 * s3.toNat + 2 ^ 256 * (Q3 / 2 ^ 64 + k3.toNat) := by
    omega
  have htop : Q3 / 2 ^ 64 + k3.toNat < 2 ^ 64 := by omega
  simp only [Except.ok.injEq, Rs.U512.mk.injEq]
  refine ⟨?_, ?_, ?_, ?_, ?_, rfl, rfl, rfl⟩ <;> apply UInt64.toNat_inj.1 <;>
    simp only [wU_toNat, RH.wd, hsum, UInt64.toNat_add] <;> omega

/-- the top word of a 64×256-bit product is at most `2^64 − 2` -/
theorem top5 (Q : Nat) (w0 w1 w2 w3 w4 : UInt64) (h : Q ≤ (2 ^ 64 - 1) * (2 ^ 256 - 1))
    (hQ : Q = w0.toNat + 2 ^ 64 * w1.toNat + 2 ^ 128 * w2.toNat + 2 ^ 192 * w3.toNat + 2 ^ 256 * w4.toNat) :
    w4.toNat + 1 < 2 ^ 64 := by
  have := w0.toNat_lt; omega

theorem wU_sum8 (w0 w1 w2 w3 w4 w5 w6 w7 : UInt64) :
    let P := w0.toNat + 2 ^ 64 * w1.toNat + 2 ^ 128 * w2.toNat + 2 ^ 192 * w3.toNat + 2 ^ 256 * w4.toNat
      + 2 ^ 320 * w5.toNat + 2 ^ 384 * w6.toNat + 2 ^ 448 * w7.toNat
    wU P 0 = w0 ∧ wU P 1 = w1 ∧ wU P 2 = w2 ∧ wU P 3 = w3 ∧ wU P 4 = w4 ∧ wU P 5 = w5 ∧ wU P 6 = w6 ∧ wU P 7 = w7 := by
  intro P
  have := w0.toNat_lt; have := w1.toNat_lt; have := w2.toNat_lt; have := w3.toNat_lt
  have := w4.toNat_lt; have := w5.toNat_lt; have := w6.toNat_lt; have := w7.toNat_lt
  refine ⟨?_, ?_, ?_, ?_, ?_, ?_, ?_, ?_⟩ <;> apply UInt64.toNat_inj.1 <;> simp only [wU_toNat, RH.wd, P] <;> omega

theorem mul_256x256_to_512_ok (A B : Rs.U256) :
    mul_256x256_to_512 A B = .ok ⟨wU (v256 A * v256 B) 0, wU (v256 A * v256 B) 1, wU (v256 A * v256 B) 2,
      wU (v256 A * v256 B) 3, wU (v256 A * v256 B) 4, wU (v256 A * v256 B) 5, wU (v256 A * v256 B) 6,
      wU (v256 A * v256 B) 7⟩ := by
  have hP : v256 A * v256 B = A.w0.toNat * v256 B + 2 ^ 64 * (A.w1.toNat * v256 B)
      + 2 ^ 128 * (A.w2.toNat * v256 B) + 2 ^ 192 * (A.w3.toNat * v256 B) := by
    rw [show v256 A = A.w0.toNat + 2 ^ 64 * A.w1.toNat + 2 ^ 128 * A.w2.toNat + 2 ^ 192 * A.w3.toNat from rfl,
      Nat.add_mul, Nat.add_mul, Nat.add_mul, Nat.mul_assoc, Nat.mul_assoc, Nat.mul_assoc]
  unfold mul_256x256_to_512
  simp (config := {zeta := false}) only [mul_64x256_to_320_ok]
  simp (config := {zeta := false}) only [bind]
  simp (config := {zeta := false}) only [Except.bind]
  simp only [pure, Except.pure]
  rw [hP]
  obtain ⟨a0, a1, a2, a3, a4, ea0, ea1, ea2, ea3, ea4, hQ0⟩ := words5U _ (mulU_lt A.w0 _ 256 (v256_lt B))
  obtain ⟨b0, b1, b2, b3, b4, eb0, eb1, eb2, eb3, eb4, hQ1⟩ := words5U _ (mulU_lt A.w1 _ 256 (v256_lt B))
  obtain ⟨c0, c1, c2, c3, c4, ec0, ec1, ec2, ec3, ec4, hQ2⟩ := words5U _ (mulU_lt A.w2 _ 256 (v256_lt B))
  obtain ⟨d0, d1, d2, d3, d4, ed0, ed1, ed2, ed3, ed4, hQ3⟩ := words5U _ (mulU_lt A.w3 _ 256 (v256_lt B))
  have tb := top5 _ _ _ _ _ _ (mulU_le A.w1 _ 256 (v256_lt B)) hQ1
  have tc := top5 _ _ _ _ _ _ (mulU_le A.w2 _ 256 (v256_lt B)) hQ2
  have td := top5 _ _ _ _ _ _ (mulU_le A.w3 _ 256 (v256_lt B)) hQ3
  simp only [ea0, ea1, ea2, ea3, ea4, eb0, eb1, eb2, eb3, eb4, ec0, ec1, ec2, ec3, ec4, ed0, ed1, ed2, ed3, ed4]
  rw [hQ0, hQ1, hQ2, hQ3]
  clear hP hQ0 hQ1 hQ2 hQ3 ea0 ea1 ea2 ea3 ea4 eb0 eb1 eb2 eb3 eb4 ec0 ec1 ec2 ec3 ec4 ed0 ed1 ed2 ed3 ed4
  -- pass 1
  obtain ⟨s1, k1, e1, hk1, n1⟩ := add_carry_out_ex b0 a1
  simp only [e1]
  obtain ⟨s2, k2, e2, hk2, n2⟩ := add_carry_in_out_ex b1 a2 k1 hk1
  simp only [e2]
  obtain ⟨s3, k3, e3, hk3, n3⟩ := add_carry_in_out_ex b2 a3 k2 hk2
  simp only [e3]
  obtain ⟨s4, k4, e4, hk4, n4⟩ := add_carry_in_out_ex b3 a4 k3 hk3
  simp only [e4]
  have n5 : (b4 + k4).toNat = b4.toNat + k4.toNat := by rw [UInt64.toNat_add]; omega
  generalize b4 + k4 = s5 at *
  -- pass 2
  obtain ⟨t2, l2, f2, hl2, m2⟩ := add_carry_out_ex c0 s2
  simp only [f2]
  obtain ⟨t3, l3, f3, hl3, m3⟩ := add_carry_in_out_ex c1 s3 l2 hl2
  simp only [f3]
  obtain ⟨t4, l4, f4, hl4, m4⟩ := add_carry_in_out_ex c2 s4 l3 hl3
  simp only [f4]
  obtain ⟨t5, l5, f5, hl5, m5⟩ := add_carry_in_out_ex c3 s5 l4 hl4
  simp only [f5]
  have m6 : (c4 + l5).toNat = c4.toNat + l5.toNat := by rw [UInt64.toNat_add]; omega
  generalize c4 + l5 = t6 at *
  -- pass 3
  obtain ⟨u3, j3, g3, hj3, p3⟩ := add_carry_out_ex d0 t3
  simp only [g3]
  obtain ⟨u4, j4, g4, hj4, p4⟩ := add_carry_in_out_ex d1 t4 j3 hj3
  simp only [g4]
  obtain ⟨u5, j5, g5, hj5, p5⟩ := add_carry_in_out_ex d2 t5 j4 hj4
  simp only [g5]
  obtain ⟨u6, j6, g6, hj6, p6⟩ := add_carry_in_out_ex d3 t6 j5 hj5
  simp only [g6]
  have p7 : (d4 + j6).toNat = d4.toNat + j6.toNat := by rw [UInt64.toNat_add]; omega
  generalize d4 + j6 = u7 at *
  have hsum : a0.toNat + 2 ^ 64 * a1.toNat + 2 ^ 128 * a2.toNat + 2 ^ 192 * a3.toNat + 2 ^ 256 * a4.toNat +
        2 ^ 64 * (b0.toNat + 2 ^ 64 * b1.toNat + 2 ^ 128 * b2.toNat + 2 ^ 192 * b3.toNat + 2 ^ 256 * b4.toNat) +
        2 ^ 128 * (c0.toNat + 2 ^ 64 * c1.toNat + 2 ^ 128 * c2.toNat + 2 ^ 192 * c3.toNat + 2 ^ 256 * c4.toNat) +
        2 ^ 192 * (d0.toNat + 2 ^ 64 * d1.toNat + 2 ^ 128 * d2.toNat + 2 ^ 192 * d3.toNat + 2 ^ 256 * d4.toNat) =
      a0.toNat + 2 ^ 64 * s1.toNat + 2 ^ 128 * t2.toNat + 2 ^ 192 * u3.toNat + 2 ^ 256 * u4.toNat
        + 2 ^ 320 * u5.toNat + 2 ^ 384 * u6.toNat + 2 ^ 448 * u7.toNat := by
    omega
  rw [hsum]
  obtain ⟨w0, w1, w2, w3, w4, w5, w6, w7⟩ := wU_sum8 a0 s1 t2 u3 u4 u5 u6 u7
  simp only [w0, w1, w2, w3, w4, w5, w6, w7]

theorem mul_64x64_to_128MACH_ok (a b : UInt64) :
    mul_64x64_to_128MACH a b = .ok ⟨wU (a.toNat * b.toNat) 0, wU (a.toNat * b.toNat) 1⟩ :=
  mul_64x64_to_128_ok a b


/-! ### bid_round64_2_18 -/

/-- **Bridge for `bid_round64_2_18`.** -/
theorem bid_round64_2_18_eq (qn xn : Nat) (C : UInt64) (hq : 2 ≤ qn) (hq' : qn ≤ 18) (hx : 1 ≤ xn) (hxq : xn + 1 ≤ qn) :
    Code.bid_round64_2_18 (Int32.ofNat qn) (Int32.ofNat xn) C false false false false false =
      .ok (UInt64.ofNat (RH.round64 qn xn C.toNat).cstar, (RH.round64 qn xn C.toNat).incrExp,
        (RH.round64 qn xn C.toNat).ind.midLtEven, (RH.round64 qn xn C.toNat).ind.midGtEven,
        (RH.round64 qn xn C.toNat).ind.inexLtMid, (RH.round64 qn xn C.toNat).ind.inexGtMid) := by
  unfold Code.bid_round64_2_18
  have hi : xn - 1 < 17 := by omega
  have l1 := tbl64_ok BID_MIDPOINT64 (xn - 1) (by simp [BID_MIDPOINT64]; omega) (by omega)
  have l2 := tbl64_ok BID_KX64 (xn - 1) (by simp [BID_KX64]; omega) (by omega)
  have l3 := tbl32_ok BID_EX64M64 (xn - 1) (by simp [BID_EX64M64]; omega) (by omega)
  have l4 := tbl64_ok BID_MASK64 (xn - 1) (by simp [BID_MASK64]; omega) (by omega)
  have l5 := tbl64_ok BID_HALF64 (xn - 1) (by simp [BID_HALF64]; omega) (by omega)
  have l6 := tbl64_ok BID_TEN2MXTRUNC64 (xn - 1) (by simp [BID_TEN2MXTRUNC64]; omega) (by omega)
  have l7 := tbl64_ok BID_TEN2K64 (qn - xn) (by simp [BID_TEN2K64]; omega) (by omega)
  have l8 := tbl64_ok BID_TEN2K64 (qn - xn - 1) (by simp [BID_TEN2K64]; omega) (by omega)
  extract_lets qI xI C0 bF P0 Cs0 sh0 C1 ind1 ind2 bT jpOvf
  have hind2 : ind2 = UInt64.ofNat (qn - xn) := idx_sub qn xn (by omega) (by omega)
  have hind1 : ind1 = UInt64.ofNat (xn - 1) := idx_sub_one xn hx (by omega)
  have hOvf : ∀ r lt gt ilt igt Cs, jpOvf r lt gt ilt igt Cs =
      .ok (out64 (RH.r64Ovf qn xn Cs.toNat) ⟨lt, gt, ilt, igt⟩) := by
    intro r lt gt ilt igt Cs
    have e1 : UInt64.ofNat (qn - xn) - 1 = UInt64.ofNat (qn - xn - 1) := by
      apply UInt64.toNat_inj.1
      rw [UInt64.toNat_sub, UInt64.toNat_ofNat', UInt64.toNat_ofNat']
      simp only [UInt64.toNat_one]
      omega
    have b7 := C02RoundHelpers.tw_lt C02RoundHelpers.w_TEN2K64 1 (qn - xn) 0
    have b8 := C02RoundHelpers.tw_lt C02RoundHelpers.w_TEN2K64 1 (qn - xn - 1) 0
    simp only [jpOvf, hind2, e1, l7, l8, bind, Except.bind, pure, Except.pure, bT, bF]
    unfold out64 RH.r64Ovf
    simp only [u64_beq, UInt64.toNat_ofNat', Nat.mod_eq_of_lt b7]
    split <;> simp [UInt64.ofNat_toNat]
  have hs : tw BID_EX64M64 1 (xn - 1) 0 < 2 ^ 31 := by
    have := (C02RoundHelpers.tbl64 (xn - 1) hi).1.2.1; omega
  simp (config := {zeta := false}) only [hind1, l1, l2, l3, l4, l5, l6, bind, Except.bind, mul_64x64_to_128MACH_ok,
    ite_pure_true, ite_pure_false, shift_cast _ hs]
  extract_lets C2 P128 shift Cstar fstar0 fstar CsM1 jpMid tmp64
  have b5 := C02RoundHelpers.tw_lt C02RoundHelpers.w_HALF64 1 (xn - 1) 0
  have b6 := C02RoundHelpers.tw_lt C02RoundHelpers.w_TRUNC64 1 (xn - 1) 0
  have hMid : ∀ r ilt igt tmp, jpMid r ilt igt tmp =
      .ok (out64 (RH.r64Ovf qn xn (RH.r64Midpoint (xn - 1) Cstar.toNat fstar.w1.toNat fstar.w0.toNat ⟨false, false, ilt, igt⟩).1)
        (RH.r64Midpoint (xn - 1) Cstar.toNat fstar.w1.toNat fstar.w0.toNat ⟨false, false, ilt, igt⟩).2) := by
    intro r ilt igt tmp
    simp only [jpMid, hOvf, bT, bF, CsM1]
    unfold RH.r64Midpoint
    simp only [u64_beq, u64_dle, UInt64.toNat_ofNat', Nat.mod_eq_of_lt b6, UInt64.toNat_and, UInt64.toNat_zero,
      UInt64.toNat_one, Bool.decide_eq_true, u64_sub]
    split <;> (try split) <;> rfl
  -- the words of the product, as the model names them
  have b1 := C02RoundHelpers.tw_lt C02RoundHelpers.w_MIDPOINT64 1 (xn - 1) 0
  have b2 := C02RoundHelpers.tw_lt C02RoundHelpers.w_KX64 1 (xn - 1) 0
  have b4 : tw BID_MASK64 1 (xn - 1) 0 < 2 ^ 64 := by
    have := (C02RoundHelpers.tbl64 (xn - 1) hi).1.2.2.1
    have h2 := (C02RoundHelpers.tbl64 (xn - 1) hi).1.2.1
    have := C02RoundHelpers.pow_le_W _ h2
    omega
  have hC2 : C2.toNat = RH.add64 C.toNat (tw BID_MIDPOINT64 1 (xn - 1) 0) := by
    simp only [C2, C1, C0, u64_add, UInt64.toNat_ofNat', Nat.mod_eq_of_lt b1]
  have hP' : C2.toNat * (UInt64.ofNat (tw BID_KX64 1 (xn - 1) 0)).toNat =
      RH.add64 C.toNat (tw BID_MIDPOINT64 1 (xn - 1) 0) * tw BID_KX64 1 (xn - 1) 0 := by
    rw [hC2, UInt64.toNat_ofNat', Nat.mod_eq_of_lt b2]
  have hPlt : RH.add64 C.toNat (tw BID_MIDPOINT64 1 (xn - 1) 0) * tw BID_KX64 1 (xn - 1) 0 < 2 ^ 128 := by
    have : RH.add64 C.toNat (tw BID_MIDPOINT64 1 (xn - 1) 0) < 2 ^ 64 := Nat.mod_lt _ (by decide)
    calc _ < 2 ^ 64 * 2 ^ 64 := Nat.mul_lt_mul'' this b2
      _ = 2 ^ 128 := by rw [← Nat.pow_add]
  generalize hPd : RH.add64 C.toNat (tw BID_MIDPOINT64 1 (xn - 1) 0) * tw BID_KX64 1 (xn - 1) 0 = P at *
  have hw1 : P128.w1.toNat = RH.wd P 1 := by
    simp only [P128, hP', wU_toNat]
  have hw0 : P128.w0.toNat = RH.wd P 0 := by
    simp only [P128, hP', wU_toNat]
  have hCs : Cstar.toNat = RH.shr64 (RH.wd P 1) (tw BID_EX64M64 1 (xn - 1) 0) := by
    simp only [Cstar, shift, shift_cast _ hs, UInt64.toNat_shiftRight, hw1, UInt64.toNat_ofNat']
    unfold RH.shr64
    congr 1; omega
  have hf1 : fstar.w1.toNat = RH.wd P 1 &&& tw BID_MASK64 1 (xn - 1) 0 := by
    simp only [fstar, fstar0, UInt64.toNat_and, hw1, UInt64.toNat_ofNat', Nat.mod_eq_of_lt b4]
  have hf0 : fstar.w0.toNat = RH.wd P 0 := by
    simp only [fstar, hw0]
  simp only [hMid, bT, bF, tmp64]
  rw [C02RoundHelpers.round64_unfold]
  simp only [hPd, ← hCs, ← hf1, ← hf0]
  unfold RH.r64Inexact
  simp only [u64_beq, u64_bne, u64_dlt, u64_dle, UInt64.toNat_ofNat', Nat.mod_eq_of_lt b5, Nat.mod_eq_of_lt b6,
    UInt64.toNat_zero, Bool.decide_eq_true, u64_sub, GT.gt]
  split <;> (try split) <;> rfl

/-- **`bid_round64_2_18` as translated meets the specification**: for `2 ≤ q ≤ 18`, `1 ≤ x ≤ q − 1`, `C < 10^q` it returns
`.ok (C*, incr_exp, lt_even, gt_even, inexact_lt, inexact_gt)` with `Spec q x C C* incr_exp ⟨…⟩` (C* rounded half-even with
the 10^(q−x) → 10^(q−x−1) replacement, and the four indicators as functions of quotient and remainder). -/
theorem bid_round64_2_18_spec (qn xn : Nat) (C : UInt64) (hq : 2 ≤ qn) (hq' : qn ≤ 18) (hx : 1 ≤ xn) (hxq : xn + 1 ≤ qn)
    (hC : C.toNat < 10 ^ qn) :
    ∃ (cs : UInt64) (incr lt gt ilt igt : Bool),
      Code.bid_round64_2_18 (Int32.ofNat qn) (Int32.ofNat xn) C false false false false false =
        .ok (cs, incr, lt, gt, ilt, igt) ∧
      C02RoundHelpers.Spec qn xn C.toNat cs.toNat incr ⟨lt, gt, ilt, igt⟩ := by
  obtain ⟨hs, hb⟩ := C02RoundHelpers.round64_spec qn xn C.toNat hq hq' hx hxq hC
  refine ⟨_, _, _, _, _, _, bid_round64_2_18_eq qn xn C hq hq' hx hxq, ?_⟩
  rw [UInt64.toNat_ofNat', Nat.mod_eq_of_lt hb]
  exact hs

-- the tie 999999999999999|500 (q = 18, x = 3) through the translated routine
example : (Code.bid_round64_2_18 18 3 999999999999999500 false false false false false).toOption =
    some (100000000000000, true, true, false, false, false) := by decide +kernel

/-! ### bid_round128_19_38 -/

theorem tbl128_ok (t : List Nat) (i : Nat) (h : 2 * i + 1 < t.length) (hi : i < 2 ^ 64) :
    tbl128 t (UInt64.ofNat i) = .ok ⟨UInt64.ofNat (tw t 2 i 0), UInt64.ofNat (tw t 2 i 1)⟩ := by
  unfold tbl128 tw
  have : (UInt64.ofNat i).toNat = i := by rw [UInt64.toNat_ofNat']; omega
  rw [this, List.getElem?_eq_getElem (by omega : 2 * i < t.length), List.getElem?_eq_getElem h]
  simp only [List.getD_eq_getElem?_getD]
  rw [show i * 2 + 0 = 2 * i from by omega, show i * 2 + 1 = 2 * i + 1 from by omega,
    List.getElem?_eq_getElem (by omega : 2 * i < t.length), List.getElem?_eq_getElem h]
  rfl

/-- a `BID_UINT128` of the translated code as the model's structure of numbers, and back -/
def n128 (c : Rs.U128) : RH.U128 := ⟨c.w0.toNat, c.w1.toNat⟩
def u128 (c : RH.U128) : Rs.U128 := ⟨UInt64.ofNat c.w0, UInt64.ofNat c.w1⟩
def n256 (c : Rs.U256) : RH.U256 := ⟨c.w0.toNat, c.w1.toNat, c.w2.toNat, c.w3.toNat⟩

theorem u128_n128 (c : Rs.U128) : u128 (n128 c) = c := by
  unfold u128 n128; simp only [UInt64.ofNat_toNat]

def out128 (o : RH.U128 × Bool) (fl : RH.Ind) : Rs.U128 × Bool × Bool × Bool × Bool × Bool :=
  (u128 o.1, o.2, fl.midLtEven, fl.midGtEven, fl.inexLtMid, fl.inexGtMid)

theorem ite_ok_true (c : Prop) [Decidable c] (b : Bool) :
    (if c then (Except.ok true : Except String Bool) else Except.ok b) = .ok (decide c || b) := by
  by_cases h : c <;> simp [h]
theorem ite_ok_false (c : Prop) [Decidable c] (b : Bool) :
    (if c then (Except.ok b : Except String Bool) else Except.ok false) = .ok (decide c && b) := by
  by_cases h : c <;> simp [h]

theorem ofNat_toNat_lt (n : Nat) (h : n < 2 ^ 64) : (UInt64.ofNat n).toNat = n := by
  rw [UInt64.toNat_ofNat']; exact Nat.mod_eq_of_lt h

theorem u64_shr (a : UInt64) (s : Nat) (hs : s < 2 ^ 64) : (a >>> UInt64.ofNat s).toNat = RH.shr64 a.toNat s := by
  rw [UInt64.toNat_shiftRight, ofNat_toNat_lt s hs]; rfl
theorem u64_shl (a : UInt64) (s : Nat) (hs : s < 2 ^ 64) : (a <<< UInt64.ofNat s).toNat = RH.shl64 a.toNat s := by
  rw [UInt64.toNat_shiftLeft, ofNat_toNat_lt s hs]; rfl

/-- `(64 - shift) as u64` for the left shifts -/
theorem shift_cast_sub (s : Nat) (h : s ≤ 64) :
    UInt64.ofInt (toI ((64 : Int32) - Int32.ofInt (toI (UInt32.ofNat s)))) = UInt64.ofNat (64 - s) := by
  show UInt64.ofInt (Int32.toInt ((64 : Int32) - Int32.ofInt ((UInt32.ofNat s).toNat : Int))) = _
  have : (UInt32.ofNat s).toNat = s := by rw [UInt32.toNat_ofNat']; omega
  rw [this, Int32.toInt_sub, Int32.toInt_ofInt_of_le (by omega) (by omega)]
  have e64 : (64 : Int32).toInt = 64 := rfl
  rw [e64]
  have e : ((64 : Int) - (s : Int)) = ((64 - s : Nat) : Int) := by omega
  rw [e, Int.bmod_eq_of_le (by omega) (by omega), ofInt_natCast]

theorem w_KX128 : C02RoundHelpers.allW BID_KX128 = true := by decide +kernel

theorem ofNat_sub_lit (n k : Nat) (hk : k ≤ n) (hn : n < 2 ^ 64) :
    UInt64.ofNat n - UInt64.ofNat k = UInt64.ofNat (n - k) := by
  apply UInt64.toNat_inj.1
  rw [UInt64.toNat_sub, UInt64.toNat_ofNat', UInt64.toNat_ofNat', UInt64.toNat_ofNat']
  omega

/-- **Bridge for `bid_round128_19_38`**: for every `(q, x)` of the domain and every coefficient the translated routine
returns what the model `RH.round128` computes. -/
theorem bid_round128_19_38_eq (qn xn : Nat) (C : Rs.U128) (hq : 19 ≤ qn) (hq' : qn ≤ 38) (hx : 1 ≤ xn) (hxq : xn + 1 ≤ qn) :
    Code.bid_round128_19_38 (Int32.ofNat qn) (Int32.ofNat xn) C false false false false false =
      .ok (u128 (RH.round128 qn xn (n128 C)).cstar, (RH.round128 qn xn (n128 C)).incrExp,
        (RH.round128 qn xn (n128 C)).ind.midLtEven, (RH.round128 qn xn (n128 C)).ind.midGtEven,
        (RH.round128 qn xn (n128 C)).ind.inexLtMid, (RH.round128 qn xn (n128 C)).ind.inexGtMid) := by
  unfold Code.bid_round128_19_38
  extract_lets qI xI C0 bF P0 Cs0 tmp0 sh0 C1 ind1 t1 ind2 t4 val2 bT jpOvf jpGt val1 jpMul tmpA jpHi
  have hind2 : ind2 = UInt64.ofNat (qn - xn) := idx_sub qn xn (by omega) (by omega)
  have hind1 : ind1 = UInt64.ofNat (xn - 1) := idx_sub_one xn hx (by omega)
  have hn1 : 1 ≤ qn - xn := by omega
  have hn2 : qn - xn ≤ 37 := by omega
  have hOvf : ∀ r lt gt ilt igt Cs, jpOvf r lt gt ilt igt Cs =
      .ok (out128 (RH.r128Ovf qn xn (n128 Cs)) ⟨lt, gt, ilt, igt⟩) := by
    intro r lt gt ilt igt Cs
    have e0 : UInt64.ofInt (toI (0 : Nat)) = UInt64.ofNat 0 := rfl
    have e19 : UInt64.ofInt (toI (19 : Nat)) = UInt64.ofNat 19 := rfl
    simp only [jpOvf, val2, t4, hind2, bT, bF, e0, e19]
    unfold out128 RH.r128Ovf n128
    generalize qn - xn = n at *
    have hnn : (UInt64.ofNat n).toNat = n := ofNat_toNat_lt n (by omega)
    have c19 : decide (UInt64.ofNat n ≤ 19) = decide (n ≤ 19) := by
      rw [u64_dle, hnn]; rfl
    have c20 : (UInt64.ofNat n == 20) = (n == 20) := by
      rw [u64_beq, hnn]; rfl
    simp only [c19, c20]
    by_cases h19 : n ≤ 19
    · have e1 : UInt64.ofNat n - 1 = UInt64.ofNat (n - 1) := ofNat_sub_lit n 1 (by omega) (by omega)
      have l7 := tbl64_ok BID_TEN2K64 n (by simp [BID_TEN2K64]; omega) (by omega)
      have l8 := tbl64_ok BID_TEN2K64 (n - 1) (by simp [BID_TEN2K64]; omega) (by omega)
      have b7 := C02RoundHelpers.tw_lt C02RoundHelpers.w_TEN2K64 1 n 0
      simp only [h19, decide_true, if_true, e1, l7, l8, bind, Except.bind, pure, Except.pure, ite_pure_false, ite_ok_false]
      simp only [u64_beq, Bool.decide_eq_true, ofNat_toNat_lt _ b7, UInt64.toNat_zero]
      split <;> simp [u128, UInt64.ofNat_toNat]
    · by_cases h20 : n = 20
      · subst h20
        have l7 := tbl128_ok BID_TEN2K128 0 (by simp [BID_TEN2K128]) (by omega)
        have l8 := tbl64_ok BID_TEN2K64 19 (by simp [BID_TEN2K64]) (by omega)
        have b0 := C02RoundHelpers.tw_lt C02RoundHelpers.w_TEN2K128 2 0 0
        have b1 := C02RoundHelpers.tw_lt C02RoundHelpers.w_TEN2K128 2 0 1
        simp only [show ¬ (20 ≤ 19) from by omega, decide_false, if_false, BEq.rfl, if_true, l7, l8, bind, Except.bind, pure,
          Except.pure, ite_pure_false, ite_ok_false, Bool.false_eq_true]
        simp only [u64_beq, Bool.decide_eq_true, ofNat_toNat_lt _ b0, ofNat_toNat_lt _ b1]
        split <;> simp [u128, UInt64.ofNat_toNat]
      · have e20 : UInt64.ofNat n - 20 = UInt64.ofNat (n - 20) := ofNat_sub_lit n 20 (by omega) (by omega)
        have e21 : UInt64.ofNat n - 21 = UInt64.ofNat (n - 21) := ofNat_sub_lit n 21 (by omega) (by omega)
        have l7 := tbl128_ok BID_TEN2K128 (n - 20) (by simp [BID_TEN2K128]; omega) (by omega)
        have l8 := tbl128_ok BID_TEN2K128 (n - 21) (by simp [BID_TEN2K128]; omega) (by omega)
        have b0 := C02RoundHelpers.tw_lt C02RoundHelpers.w_TEN2K128 2 (n - 20) 0
        have b1 := C02RoundHelpers.tw_lt C02RoundHelpers.w_TEN2K128 2 (n - 20) 1
        have hb : (n == 20) = false := by simp [h20]
        simp only [h19, hb, decide_false, if_false, e20, e21, l7, l8, bind, Except.bind, pure,
          Except.pure, ite_pure_false, ite_ok_false, Bool.false_eq_true]
        simp only [u64_beq, Bool.decide_eq_true, ofNat_toNat_lt _ b0, ofNat_toNat_lt _ b1]
        split <;> simp [u128, UInt64.ofNat_toNat]
  have hGt : ∀ r Cs, jpGt r Cs = .ok (out128 (RH.r128Ovf qn xn (n128 Cs)) ⟨false, true, false, false⟩) := by
    intro r Cs; simp only [jpGt, hOvf, bT, bF]
  have hi : xn - 1 < 37 := by omega
  obtain ⟨⟨hs1, hs2, hmsk, hhlf, hT, hK, hb⟩, hM, hKlt⟩ := C02RoundHelpers.tbl128 (xn - 1) hi
  have hs : tw BID_EX128M128 1 (xn - 1) 0 < 2 ^ 31 := by omega
  have lK := tbl128_ok BID_KX128 (xn - 1) (by simp [BID_KX128]; omega) (by omega)
  have lE := tbl32_ok BID_EX128M128 (xn - 1) (by simp [BID_EX128M128]; omega) (by omega)
  have lM := tbl64_ok BID_MASK128 (xn - 1) (by simp [BID_MASK128]; omega) (by omega)
  have lH := tbl64_ok BID_HALF128 (xn - 1) (by simp [BID_HALF128]; omega) (by omega)
  have lT := tbl128_ok BID_TEN2MXTRUNC128 (xn - 1) (by simp [BID_TEN2MXTRUNC128]; omega) (by omega)
  have cv : decide (val1 ≤ 18) = decide (xn - 1 ≤ 18) := by
    simp only [val1, t1, hind1]; rw [u64_dle, ofNat_toNat_lt _ (by omega)]; rfl
  by_cases hi18 : xn - 1 ≤ 18
  · have hMul : ∀ r C' tmp, jpMul r C' tmp =
        .ok (out128 (RH.r128Ovf qn xn (RH.r128Midpoint (xn - 1)
              (RH.r128Split (xn - 1) ((n128 C').val * tv BID_KX128 2 (xn - 1))).1
              (RH.r128Split (xn - 1) ((n128 C').val * tv BID_KX128 2 (xn - 1))).2
              (RH.r128Inexact (xn - 1) (RH.r128Split (xn - 1) ((n128 C').val * tv BID_KX128 2 (xn - 1))).2)).1)
            (RH.r128Midpoint (xn - 1)
              (RH.r128Split (xn - 1) ((n128 C').val * tv BID_KX128 2 (xn - 1))).1
              (RH.r128Split (xn - 1) ((n128 C').val * tv BID_KX128 2 (xn - 1))).2
              (RH.r128Inexact (xn - 1) (RH.r128Split (xn - 1) ((n128 C').val * tv BID_KX128 2 (xn - 1))).2)).2) := by
      intro r C' tmp
      simp (config := {zeta := false}) only [jpMul, hind1, lK, lE, lM, lH, lT, cv, hi18, decide_true, if_true]
      simp (config := {zeta := false}) only [bind, Except.bind, mul_128x128_to_256_ok]
      extract_lets P256 shift jpSplit Cs1 Cs2 f1 f2 f3 f4
      have bT0 := C02RoundHelpers.tw_lt C02RoundHelpers.w_TRUNC128 2 (xn - 1) 0
      have bT1 := C02RoundHelpers.tw_lt C02RoundHelpers.w_TRUNC128 2 (xn - 1) 1
      have bH := C02RoundHelpers.tw_lt C02RoundHelpers.w_HALF128 1 (xn - 1) 0
      have hSplit : ∀ r fstar Cstar, jpSplit r fstar Cstar =
          .ok (out128 (RH.r128Ovf qn xn (RH.r128Midpoint (xn - 1) (n128 Cstar) (n256 fstar)
                (RH.r128Inexact (xn - 1) (n256 fstar))).1)
              (RH.r128Midpoint (xn - 1) (n128 Cstar) (n256 fstar) (RH.r128Inexact (xn - 1) (n256 fstar))).2) := by
        intro r fstar Cstar
        simp (config := {zeta := false}) only [jpSplit]
        extract_lets CsA CsB jpMid tmp64
        have hMid : ∀ r ilt igt tmp, jpMid r ilt igt tmp =
            .ok (out128 (RH.r128Ovf qn xn (RH.r128Midpoint (xn - 1) (n128 Cstar) (n256 fstar) ⟨false, false, ilt, igt⟩).1)
              (RH.r128Midpoint (xn - 1) (n128 Cstar) (n256 fstar) ⟨false, false, ilt, igt⟩).2) := by
          intro r ilt igt tmp
          simp only [jpMid, pure, Except.pure, ite_ok_true, ite_ok_false, hOvf, hGt, bT, bF, CsA, CsB]
          unfold RH.r128Midpoint n128 n256
          simp only [u64_beq, u64_dle, u64_dlt, ofNat_toNat_lt _ bT0, ofNat_toNat_lt _ bT1, UInt64.toNat_and,
            UInt64.toNat_zero, UInt64.toNat_one, Bool.decide_eq_true, u64_sub,
            show (18446744073709551615 : UInt64).toNat = 18446744073709551615 from rfl]
          split <;> (try split) <;> (try split) <;> rfl
        simp only [pure, Except.pure, ite_ok_true, ite_ok_false, hMid, bT, bF, tmp64]
        unfold RH.r128Inexact n256
        simp only [hi18, if_true, u64_beq, u64_bne, u64_dle, u64_dlt, ofNat_toNat_lt _ bT0, ofNat_toNat_lt _ bT1,
          ofNat_toNat_lt _ bH, UInt64.toNat_zero, Bool.decide_eq_true, u64_sub, GT.gt]
        split <;> (try split) <;> rfl
      simp only [hSplit]
      -- the two parts of the product, as the model names them
      have bK0 := C02RoundHelpers.tw_lt w_KX128 2 (xn - 1) 0
      have bK1 := C02RoundHelpers.tw_lt w_KX128 2 (xn - 1) 1
      have hPn : v128 C' * v128 ⟨UInt64.ofNat (tw BID_KX128 2 (xn - 1) 0), UInt64.ofNat (tw BID_KX128 2 (xn - 1) 1)⟩ =
          (n128 C').val * tv BID_KX128 2 (xn - 1) := by
        unfold v128 n128 RH.U128.val
        rw [C02RoundHelpers.tv2]
        simp only [ofNat_toNat_lt _ bK0, ofNat_toNat_lt _ bK1]
      generalize hPd : (n128 C').val * tv BID_KX128 2 (xn - 1) = P at *
      have bM : tw BID_MASK128 1 (xn - 1) 0 < 2 ^ 64 := by
        have := C02RoundHelpers.pow_le_W _ hs2; omega
      have hCs : n128 Cs2 = (RH.r128Split (xn - 1) P).1 := by
        unfold RH.r128Split n128
        simp only [hi18, if_true, Cs2, Cs1, P256, hPn, shift, shift_cast _ hs, shift_cast_sub (tw BID_EX128M128 1 (xn - 1) 0) (by omega),
          UInt64.toNat_or, u64_shr _ _ (by omega : tw BID_EX128M128 1 (xn - 1) 0 < 2 ^ 64),
          u64_shl _ _ (by omega : 64 - tw BID_EX128M128 1 (xn - 1) 0 < 2 ^ 64), wU_toNat, UInt64.toNat_zero]
      have hf : n256 f4 = (RH.r128Split (xn - 1) P).2 := by
        unfold RH.r128Split n256
        simp only [hi18, if_true, f4, f3, f2, f1, P256, hPn, UInt64.toNat_and, wU_toNat, ofNat_toNat_lt _ bM,
          UInt64.toNat_zero]
      rw [hCs, hf]
    have lMid := tbl64_ok BID_MIDPOINT64 (xn - 1) (by simp [BID_MIDPOINT64]; omega) (by omega)
    have bMid := C02RoundHelpers.tw_lt C02RoundHelpers.w_MIDPOINT64 1 (xn - 1) 0
    simp only [cv, hi18, decide_true, if_true, hind1, lMid, bind, Except.bind, hMul, tmpA, C1, C0]
    rw [C02RoundHelpers.round128_unfold]
    simp only [Nat.add_sub_cancel]
    unfold RH.r128AddMid
    simp only [hi18, if_true, n128, u64_dlt, u64_add, ofNat_toNat_lt _ bMid, UInt64.toNat_one, decide_eq_true_eq]
    split <;> rename_i h <;> simp only [h, if_true, if_false] <;> rfl
  · have hMul : ∀ r C' tmp, jpMul r C' tmp =
        .ok (out128 (RH.r128Ovf qn xn (RH.r128Midpoint (xn - 1)
              (RH.r128Split (xn - 1) ((n128 C').val * tv BID_KX128 2 (xn - 1))).1
              (RH.r128Split (xn - 1) ((n128 C').val * tv BID_KX128 2 (xn - 1))).2
              (RH.r128Inexact (xn - 1) (RH.r128Split (xn - 1) ((n128 C').val * tv BID_KX128 2 (xn - 1))).2)).1)
            (RH.r128Midpoint (xn - 1)
              (RH.r128Split (xn - 1) ((n128 C').val * tv BID_KX128 2 (xn - 1))).1
              (RH.r128Split (xn - 1) ((n128 C').val * tv BID_KX128 2 (xn - 1))).2
              (RH.r128Inexact (xn - 1) (RH.r128Split (xn - 1) ((n128 C').val * tv BID_KX128 2 (xn - 1))).2)).2) := by
      intro r C' tmp
      simp (config := {zeta := false}) only [jpMul, hind1, lK, lE, lM, lH, lT, cv, hi18, decide_false, if_false, Bool.false_eq_true]
      simp (config := {zeta := false}) only [bind, Except.bind, mul_128x128_to_256_ok]
      extract_lets P256 shift jpSplit Cs1 Cs2 f1 f2 f3 f4
      have bT0 := C02RoundHelpers.tw_lt C02RoundHelpers.w_TRUNC128 2 (xn - 1) 0
      have bT1 := C02RoundHelpers.tw_lt C02RoundHelpers.w_TRUNC128 2 (xn - 1) 1
      have bH := C02RoundHelpers.tw_lt C02RoundHelpers.w_HALF128 1 (xn - 1) 0
      have hSplit : ∀ r fstar Cstar, jpSplit r fstar Cstar =
          .ok (out128 (RH.r128Ovf qn xn (RH.r128Midpoint (xn - 1) (n128 Cstar) (n256 fstar)
                (RH.r128Inexact (xn - 1) (n256 fstar))).1)
              (RH.r128Midpoint (xn - 1) (n128 Cstar) (n256 fstar) (RH.r128Inexact (xn - 1) (n256 fstar))).2) := by
        intro r fstar Cstar
        simp (config := {zeta := false}) only [jpSplit]
        extract_lets CsA CsB jpMid tmp64
        have hMid : ∀ r ilt igt tmp, jpMid r ilt igt tmp =
            .ok (out128 (RH.r128Ovf qn xn (RH.r128Midpoint (xn - 1) (n128 Cstar) (n256 fstar) ⟨false, false, ilt, igt⟩).1)
              (RH.r128Midpoint (xn - 1) (n128 Cstar) (n256 fstar) ⟨false, false, ilt, igt⟩).2) := by
          intro r ilt igt tmp
          simp only [jpMid, pure, Except.pure, ite_ok_true, ite_ok_false, hOvf, hGt, bT, bF, CsA, CsB]
          unfold RH.r128Midpoint n128 n256
          simp only [u64_beq, u64_dle, u64_dlt, ofNat_toNat_lt _ bT0, ofNat_toNat_lt _ bT1, UInt64.toNat_and,
            UInt64.toNat_zero, UInt64.toNat_one, Bool.decide_eq_true, u64_sub,
            show (18446744073709551615 : UInt64).toNat = 18446744073709551615 from rfl]
          split <;> (try split) <;> (try split) <;> rfl
        simp only [pure, Except.pure, ite_ok_true, ite_ok_false, hMid, bT, bF, tmp64]
        unfold RH.r128Inexact n256
        simp only [hi18, if_false, u64_beq, u64_bne, u64_dle, u64_dlt, ofNat_toNat_lt _ bT0, ofNat_toNat_lt _ bT1,
          ofNat_toNat_lt _ bH, UInt64.toNat_zero, Bool.decide_eq_true, u64_sub, GT.gt]
        split <;> (try split) <;> rfl
      simp only [hSplit]
      -- the two parts of the product, as the model names them
      have bK0 := C02RoundHelpers.tw_lt w_KX128 2 (xn - 1) 0
      have bK1 := C02RoundHelpers.tw_lt w_KX128 2 (xn - 1) 1
      have hPn : v128 C' * v128 ⟨UInt64.ofNat (tw BID_KX128 2 (xn - 1) 0), UInt64.ofNat (tw BID_KX128 2 (xn - 1) 1)⟩ =
          (n128 C').val * tv BID_KX128 2 (xn - 1) := by
        unfold v128 n128 RH.U128.val
        rw [C02RoundHelpers.tv2]
        simp only [ofNat_toNat_lt _ bK0, ofNat_toNat_lt _ bK1]
      generalize hPd : (n128 C').val * tv BID_KX128 2 (xn - 1) = P at *
      have bM : tw BID_MASK128 1 (xn - 1) 0 < 2 ^ 64 := by
        have := C02RoundHelpers.pow_le_W _ hs2; omega
      have hCs : n128 Cs2 = (RH.r128Split (xn - 1) P).1 := by
        unfold RH.r128Split n128
        simp only [hi18, if_false, Cs2, Cs1, P256, hPn, shift, shift_cast _ hs, shift_cast_sub (tw BID_EX128M128 1 (xn - 1) 0) (by omega),
          UInt64.toNat_or, u64_shr _ _ (by omega : tw BID_EX128M128 1 (xn - 1) 0 < 2 ^ 64),
          u64_shl _ _ (by omega : 64 - tw BID_EX128M128 1 (xn - 1) 0 < 2 ^ 64), wU_toNat, UInt64.toNat_zero]
      have hf : n256 f4 = (RH.r128Split (xn - 1) P).2 := by
        unfold RH.r128Split n256
        simp only [hi18, if_false, f4, f3, f2, f1, P256, hPn, UInt64.toNat_and, wU_toNat, ofNat_toNat_lt _ bM,
          UInt64.toNat_zero]
      rw [hCs, hf]
    have e19 : UInt64.ofNat (xn - 1) - 19 = UInt64.ofNat (xn - 1 - 19) := ofNat_sub_lit _ 19 (by omega) (by omega)
    have lMid := tbl128_ok BID_MIDPOINT128 (xn - 1 - 19) (by simp [BID_MIDPOINT128]; omega) (by omega)
    have bMid0 := C02RoundHelpers.tw_lt C02RoundHelpers.w_MIDPOINT128 2 (xn - 1 - 19) 0
    have bMid1 := C02RoundHelpers.tw_lt C02RoundHelpers.w_MIDPOINT128 2 (xn - 1 - 19) 1
    simp only [cv, hi18, decide_false, if_false, Bool.false_eq_true, hind1, e19, lMid, bind, Except.bind, jpHi, hMul, tmpA,
      C1, C0]
    rw [C02RoundHelpers.round128_unfold]
    simp only [Nat.add_sub_cancel]
    unfold RH.r128AddMid
    simp only [hi18, if_false, n128, u64_dlt, u64_add, ofNat_toNat_lt _ bMid0, ofNat_toNat_lt _ bMid1, UInt64.toNat_one,
      decide_eq_true_eq]
    split <;> rename_i h <;> simp only [h, if_true, if_false] <;> rfl


/-- **`bid_round128_19_38` as translated meets the specification** (`19 ≤ q ≤ 38`, `1 ≤ x ≤ q − 1`, `C < 10^q`). -/
theorem bid_round128_19_38_spec (qn xn : Nat) (C : Rs.U128) (hq : 19 ≤ qn) (hq' : qn ≤ 38) (hx : 1 ≤ xn)
    (hxq : xn + 1 ≤ qn) (hC : v128 C < 10 ^ qn) :
    ∃ (cs : Rs.U128) (incr lt gt ilt igt : Bool),
      Code.bid_round128_19_38 (Int32.ofNat qn) (Int32.ofNat xn) C false false false false false =
        .ok (cs, incr, lt, gt, ilt, igt) ∧
      C02RoundHelpers.Spec qn xn (v128 C) (v128 cs) incr ⟨lt, gt, ilt, igt⟩ := by
  have hv : (n128 C).val = v128 C := rfl
  obtain ⟨hs, hb0, hb1⟩ := C02RoundHelpers.round128_spec qn xn (n128 C) hq hq' hx hxq C.w0.toNat_lt C.w1.toNat_lt
    (by rw [hv]; exact hC)
  refine ⟨_, _, _, _, _, _, bid_round128_19_38_eq qn xn C hq hq' hx hxq, ?_⟩
  have : v128 (u128 (RH.round128 qn xn (n128 C)).cstar) = (RH.round128 qn xn (n128 C)).cstar.val := by
    unfold v128 u128 RH.U128.val
    simp only [ofNat_toNat_lt _ hb0, ofNat_toNat_lt _ hb1]
  rw [this, ← hv]
  exact hs

-- q = 35, x = 1 (the call at line 2720 of bid128_fma.rs), C = 10^35 − 5 through the translated routine
example : (Code.bid_round128_19_38 35 1 ⟨wU (10 ^ 35 - 5) 0, wU (10 ^ 35 - 5) 1⟩ false false false false false).toOption =
    some (⟨wU (10 ^ 33) 0, wU (10 ^ 33) 1⟩, true, true, false, false, false) := by decide +kernel

/-! ### bid_round192_39_57 -/

/-- split every `if` of the goal, use the case hypothesis on the other side, close the leaves by `rfl` -/
macro "paths" : tactic =>
  `(tactic| ((repeat' (split <;> rename_i hh <;> try simp only [hh, if_true, if_false, Bool.false_eq_true])) <;> rfl))

theorem tbl192_ok (t : List Nat) (i : Nat) (h : 3 * i + 2 < t.length) (hi : i < 2 ^ 64) :
    tbl192 t (UInt64.ofNat i) =
      .ok ⟨UInt64.ofNat (tw t 3 i 0), UInt64.ofNat (tw t 3 i 1), UInt64.ofNat (tw t 3 i 2)⟩ := by
  unfold tbl192 tw
  rw [ofNat_toNat_lt i hi, List.getElem?_eq_getElem (by omega : 3 * i < t.length),
    List.getElem?_eq_getElem (by omega : 3 * i + 1 < t.length), List.getElem?_eq_getElem h]
  simp only [List.getD_eq_getElem?_getD]
  rw [show i * 3 + 0 = 3 * i from by omega, show i * 3 + 1 = 3 * i + 1 from by omega,
    show i * 3 + 2 = 3 * i + 2 from by omega,
    List.getElem?_eq_getElem (by omega : 3 * i < t.length),
    List.getElem?_eq_getElem (by omega : 3 * i + 1 < t.length), List.getElem?_eq_getElem h]
  rfl

theorem tbl256_ok (t : List Nat) (i : Nat) (h : 4 * i + 3 < t.length) (hi : i < 2 ^ 64) :
    tbl256 t (UInt64.ofNat i) =
      .ok ⟨UInt64.ofNat (tw t 4 i 0), UInt64.ofNat (tw t 4 i 1), UInt64.ofNat (tw t 4 i 2), UInt64.ofNat (tw t 4 i 3)⟩ := by
  unfold tbl256 tw
  rw [ofNat_toNat_lt i hi, List.getElem?_eq_getElem (by omega : 4 * i < t.length),
    List.getElem?_eq_getElem (by omega : 4 * i + 1 < t.length),
    List.getElem?_eq_getElem (by omega : 4 * i + 2 < t.length), List.getElem?_eq_getElem h]
  simp only [List.getD_eq_getElem?_getD]
  rw [show i * 4 + 0 = 4 * i from by omega, show i * 4 + 1 = 4 * i + 1 from by omega,
    show i * 4 + 2 = 4 * i + 2 from by omega, show i * 4 + 3 = 4 * i + 3 from by omega,
    List.getElem?_eq_getElem (by omega : 4 * i < t.length),
    List.getElem?_eq_getElem (by omega : 4 * i + 1 < t.length),
    List.getElem?_eq_getElem (by omega : 4 * i + 2 < t.length), List.getElem?_eq_getElem h]
  rfl

def n192 (c : Rs.U192) : RH.U192 := ⟨c.w0.toNat, c.w1.toNat, c.w2.toNat⟩
def u192 (c : RH.U192) : Rs.U192 := ⟨UInt64.ofNat c.w0, UInt64.ofNat c.w1, UInt64.ofNat c.w2⟩
def n384 (c : Rs.U384) : RH.U384 := ⟨c.w0.toNat, c.w1.toNat, c.w2.toNat, c.w3.toNat, c.w4.toNat, c.w5.toNat⟩

def out192 (o : RH.U192 × Bool) (fl : RH.Ind) : Rs.U192 × Bool × Bool × Bool × Bool × Bool :=
  (u192 o.1, o.2, fl.midLtEven, fl.midGtEven, fl.inexLtMid, fl.inexGtMid)

theorem len_TEN2K256 : BID_TEN2K256.length = 156 := by decide +kernel
theorem len_KX192 : BID_KX192.length = 168 := by decide +kernel
theorem len_TRUNC192 : BID_TEN2MXTRUNC192.length = 168 := by decide +kernel
theorem len_MIDPOINT192 : BID_MIDPOINT192.length = 60 := by decide +kernel
theorem w_KX192 : C02RoundHelpers.allW BID_KX192 = true := by decide +kernel

/-- **Bridge for `bid_round192_39_57`.** -/
theorem bid_round192_39_57_eq (qn xn : Nat) (C : Rs.U192) (hq : 39 ≤ qn) (hq' : qn ≤ 57) (hx : 1 ≤ xn) (hxq : xn + 1 ≤ qn) :
    Code.bid_round192_39_57 (Int32.ofNat qn) (Int32.ofNat xn) C false false false false false =
      .ok (u192 (RH.round192 qn xn (n192 C)).cstar, (RH.round192 qn xn (n192 C)).incrExp,
        (RH.round192 qn xn (n192 C)).ind.midLtEven, (RH.round192 qn xn (n192 C)).ind.midGtEven,
        (RH.round192 qn xn (n192 C)).ind.inexLtMid, (RH.round192 qn xn (n192 C)).ind.inexGtMid) := by
  unfold Code.bid_round192_39_57
  extract_lets qI xI C0 bF P0 Cs0 tmp0 sh0 C1 ind1 t1 ind2 t4 val2 bT jpOvf jpGt val1 fA fB CsA CsB jpMul tmpA jpAdd1 jpAdd2
  have hind2 : ind2 = UInt64.ofNat (qn - xn) := idx_sub qn xn (by omega) (by omega)
  have hind1 : ind1 = UInt64.ofNat (xn - 1) := idx_sub_one xn hx (by omega)
  have hn1 : 1 ≤ qn - xn := by omega
  have hn2 : qn - xn ≤ 56 := by omega
  have hOvf : ∀ r lt gt ilt igt Cs, jpOvf r lt gt ilt igt Cs =
      .ok (out192 (RH.r192Ovf qn xn (n192 Cs)) ⟨lt, gt, ilt, igt⟩) := by
    intro r lt gt ilt igt Cs
    have e0 : UInt64.ofInt (toI (0 : Nat)) = UInt64.ofNat 0 := rfl
    have e18 : UInt64.ofInt (toI (18 : Nat)) = UInt64.ofNat 18 := rfl
    have e19 : UInt64.ofInt (toI (19 : Nat)) = UInt64.ofNat 19 := rfl
    simp only [jpOvf, val2, t4, hind2, bT, bF, e0, e18, e19]
    unfold out192 RH.r192Ovf n192
    generalize qn - xn = n at *
    have hnn : (UInt64.ofNat n).toNat = n := ofNat_toNat_lt n (by omega)
    have c19 : decide (UInt64.ofNat n ≤ 19) = decide (n ≤ 19) := by rw [u64_dle, hnn]; rfl
    have c38 : decide (UInt64.ofNat n ≤ 38) = decide (n ≤ 38) := by rw [u64_dle, hnn]; rfl
    have c20 : (UInt64.ofNat n == 20) = (n == 20) := by rw [u64_beq, hnn]; rfl
    have c39 : (UInt64.ofNat n == 39) = (n == 39) := by rw [u64_beq, hnn]; rfl
    simp only [c19, c20, c38, c39]
    by_cases h19 : n ≤ 19
    · have e1 : UInt64.ofNat n - 1 = UInt64.ofNat (n - 1) := ofNat_sub_lit n 1 (by omega) (by omega)
      have l7 := tbl64_ok BID_TEN2K64 n (by simp [BID_TEN2K64]; omega) (by omega)
      have l8 := tbl64_ok BID_TEN2K64 (n - 1) (by simp [BID_TEN2K64]; omega) (by omega)
      have b7 := C02RoundHelpers.tw_lt C02RoundHelpers.w_TEN2K64 1 n 0
      simp only [h19, decide_true, if_true, e1, l7, l8, bind, Except.bind, pure, Except.pure, ite_ok_false]
      simp only [u64_beq, Bool.decide_eq_true, ofNat_toNat_lt _ b7, UInt64.toNat_zero]
      split <;> simp [u192, UInt64.ofNat_toNat]
    · by_cases h20 : n = 20
      · subst h20
        have l7 := tbl128_ok BID_TEN2K128 0 (by simp [BID_TEN2K128]) (by omega)
        have l8 := tbl64_ok BID_TEN2K64 19 (by simp [BID_TEN2K64]) (by omega)
        have b0 := C02RoundHelpers.tw_lt C02RoundHelpers.w_TEN2K128 2 0 0
        have b1 := C02RoundHelpers.tw_lt C02RoundHelpers.w_TEN2K128 2 0 1
        simp only [show ¬ (20 ≤ 19) from by omega, decide_false, if_false, BEq.rfl, if_true, l7, l8, bind, Except.bind, pure,
          Except.pure, ite_ok_false, Bool.false_eq_true]
        simp only [u64_beq, Bool.decide_eq_true, ofNat_toNat_lt _ b0, ofNat_toNat_lt _ b1, UInt64.toNat_zero]
        split <;> simp [u192, UInt64.ofNat_toNat]
      · have hb20 : (n == 20) = false := by simp [h20]
        by_cases h38 : n ≤ 38
        · have e20 : UInt64.ofNat n - 20 = UInt64.ofNat (n - 20) := ofNat_sub_lit n 20 (by omega) (by omega)
          have e21 : UInt64.ofNat n - 21 = UInt64.ofNat (n - 21) := ofNat_sub_lit n 21 (by omega) (by omega)
          have l7 := tbl128_ok BID_TEN2K128 (n - 20) (by simp [BID_TEN2K128]; omega) (by omega)
          have l8 := tbl128_ok BID_TEN2K128 (n - 21) (by simp [BID_TEN2K128]; omega) (by omega)
          have b0 := C02RoundHelpers.tw_lt C02RoundHelpers.w_TEN2K128 2 (n - 20) 0
          have b1 := C02RoundHelpers.tw_lt C02RoundHelpers.w_TEN2K128 2 (n - 20) 1
          simp only [h19, hb20, h38, decide_true, decide_false, if_true, if_false, e20, e21, l7, l8, bind, Except.bind, pure,
            Except.pure, ite_ok_false, Bool.false_eq_true]
          simp only [u64_beq, Bool.decide_eq_true, ofNat_toNat_lt _ b0, ofNat_toNat_lt _ b1, UInt64.toNat_zero]
          split <;> simp [u192, UInt64.ofNat_toNat]
        · by_cases h39 : n = 39
          · subst h39
            have l7 := tbl256_ok BID_TEN2K256 0 (by rw [len_TEN2K256]; omega) (by omega)
            have l8 := tbl128_ok BID_TEN2K128 18 (by simp [BID_TEN2K128]) (by omega)
            have b0 := C02RoundHelpers.tw_lt C02RoundHelpers.w_TEN2K256 4 0 0
            have b1 := C02RoundHelpers.tw_lt C02RoundHelpers.w_TEN2K256 4 0 1
            have b2 := C02RoundHelpers.tw_lt C02RoundHelpers.w_TEN2K256 4 0 2
            simp only [show ¬ (39 ≤ 19) from by omega, show ¬ (39 ≤ 38) from by omega, show (39 == 20) = false from rfl,
              decide_false, if_false, BEq.rfl, if_true, l7, l8, bind, Except.bind, pure, Except.pure, ite_ok_false,
              Bool.false_eq_true]
            simp only [u64_beq, Bool.decide_eq_true, ofNat_toNat_lt _ b0, ofNat_toNat_lt _ b1, ofNat_toNat_lt _ b2,
              UInt64.toNat_zero]
            split <;> simp [u192, UInt64.ofNat_toNat]
          · have hb39 : (n == 39) = false := by simp [h39]
            have e39 : UInt64.ofNat n - 39 = UInt64.ofNat (n - 39) := ofNat_sub_lit n 39 (by omega) (by omega)
            have e40 : UInt64.ofNat n - 40 = UInt64.ofNat (n - 40) := ofNat_sub_lit n 40 (by omega) (by omega)
            have l7 := tbl256_ok BID_TEN2K256 (n - 39) (by rw [len_TEN2K256]; omega) (by omega)
            have l8 := tbl256_ok BID_TEN2K256 (n - 40) (by rw [len_TEN2K256]; omega) (by omega)
            have b0 := C02RoundHelpers.tw_lt C02RoundHelpers.w_TEN2K256 4 (n - 39) 0
            have b1 := C02RoundHelpers.tw_lt C02RoundHelpers.w_TEN2K256 4 (n - 39) 1
            have b2 := C02RoundHelpers.tw_lt C02RoundHelpers.w_TEN2K256 4 (n - 39) 2
            simp only [h19, hb20, h38, hb39, decide_false, if_false, e39, e40, l7, l8, bind, Except.bind, pure,
              Except.pure, ite_ok_false, Bool.false_eq_true]
            simp only [u64_beq, Bool.decide_eq_true, ofNat_toNat_lt _ b0, ofNat_toNat_lt _ b1, ofNat_toNat_lt _ b2,
              UInt64.toNat_zero]
            split <;> simp [u192, UInt64.ofNat_toNat]
  have hGt : ∀ r Cs, jpGt r Cs = .ok (out192 (RH.r192Ovf qn xn (n192 Cs)) ⟨false, true, false, false⟩) := by
    intro r Cs; simp only [jpGt, hOvf, bT, bF]
  have hi : xn - 1 < 56 := by omega
  obtain ⟨⟨hs1, hs2, hmsk, hhlf, hT, hK, hb⟩, hM, hKlt⟩ := C02RoundHelpers.tbl192 (xn - 1) hi
  have hs : tw BID_EX192M192 1 (xn - 1) 0 < 2 ^ 31 := by omega
  have lK := tbl192_ok BID_KX192 (xn - 1) (by rw [len_KX192]; omega) (by omega)
  have lE := tbl32_ok BID_EX192M192 (xn - 1) (by simp [BID_EX192M192]; omega) (by omega)
  have lM := tbl64_ok BID_MASK192 (xn - 1) (by simp [BID_MASK192]; omega) (by omega)
  have lH := tbl64_ok BID_HALF192 (xn - 1) (by simp [BID_HALF192]; omega) (by omega)
  have lT := tbl192_ok BID_TEN2MXTRUNC192 (xn - 1) (by rw [len_TRUNC192]; omega) (by omega)
  have bT0 := C02RoundHelpers.tw_lt C02RoundHelpers.w_TRUNC192 3 (xn - 1) 0
  have bT1 := C02RoundHelpers.tw_lt C02RoundHelpers.w_TRUNC192 3 (xn - 1) 1
  have bT2 := C02RoundHelpers.tw_lt C02RoundHelpers.w_TRUNC192 3 (xn - 1) 2
  have bH := C02RoundHelpers.tw_lt C02RoundHelpers.w_HALF192 1 (xn - 1) 0
  have bM : tw BID_MASK192 1 (xn - 1) 0 < 2 ^ 64 := by
    have := C02RoundHelpers.pow_le_W _ hs2; omega
  have bK0 := C02RoundHelpers.tw_lt w_KX192 3 (xn - 1) 0
  have bK1 := C02RoundHelpers.tw_lt w_KX192 3 (xn - 1) 1
  have bK2 := C02RoundHelpers.tw_lt w_KX192 3 (xn - 1) 2
  have cv18 : decide (val1 ≤ 18) = decide (xn - 1 ≤ 18) := by
    simp only [val1, t1, hind1]; rw [u64_dle, ofNat_toNat_lt _ (by omega)]; rfl
  have cv37 : decide (val1 ≤ 37) = decide (xn - 1 ≤ 37) := by
    simp only [val1, t1, hind1]; rw [u64_dle, ofNat_toNat_lt _ (by omega)]; rfl
  have hMul : ∀ r C' tmp, jpMul r C' tmp =
      .ok (out192 (RH.r192Ovf qn xn (RH.r192Midpoint (xn - 1)
            (RH.r192Split (xn - 1) ((n192 C').val * tv BID_KX192 3 (xn - 1))).1
            (RH.r192Split (xn - 1) ((n192 C').val * tv BID_KX192 3 (xn - 1))).2
            (RH.r192Inexact (xn - 1) (RH.r192Split (xn - 1) ((n192 C').val * tv BID_KX192 3 (xn - 1))).2)).1)
          (RH.r192Midpoint (xn - 1)
            (RH.r192Split (xn - 1) ((n192 C').val * tv BID_KX192 3 (xn - 1))).1
            (RH.r192Split (xn - 1) ((n192 C').val * tv BID_KX192 3 (xn - 1))).2
            (RH.r192Inexact (xn - 1) (RH.r192Split (xn - 1) ((n192 C').val * tv BID_KX192 3 (xn - 1))).2)).2) := by
    intro r C' tmp
    simp (config := {zeta := false}) only [jpMul, hind1, lK, lE, lM, lH, lT, cv18, cv37]
    simp (config := {zeta := false}) only [bind, Except.bind, mul_192x192_to_384_ok]
    extract_lets +onlyGivenNames P384 shift jpSplit
    have hSplit : ∀ r fstar Cstar, jpSplit r fstar Cstar =
        .ok (out192 (RH.r192Ovf qn xn (RH.r192Midpoint (xn - 1) (n192 Cstar) (n384 fstar)
              (RH.r192Inexact (xn - 1) (n384 fstar))).1)
            (RH.r192Midpoint (xn - 1) (n192 Cstar) (n384 fstar) (RH.r192Inexact (xn - 1) (n384 fstar))).2) := by
      intro r fstar Cstar
      simp (config := {zeta := false}) only [jpSplit]
      extract_lets Cd1 Cd2 Cd3 jpMid tm1 tm2 tm3
      have hMid : ∀ r ilt igt tmp, jpMid r ilt igt tmp =
          .ok (out192 (RH.r192Ovf qn xn (RH.r192Midpoint (xn - 1) (n192 Cstar) (n384 fstar) ⟨false, false, ilt, igt⟩).1)
            (RH.r192Midpoint (xn - 1) (n192 Cstar) (n384 fstar) ⟨false, false, ilt, igt⟩).2) := by
        intro r ilt igt tmp
        simp only [jpMid, pure, Except.pure, ite_ok_true, ite_ok_false, hOvf, hGt, bT, bF, Cd1, Cd2, Cd3]
        unfold RH.r192Midpoint n192 n384
        simp only [u64_beq, u64_dle, u64_dlt, ofNat_toNat_lt _ bT0, ofNat_toNat_lt _ bT1, ofNat_toNat_lt _ bT2,
          UInt64.toNat_and, UInt64.toNat_zero, UInt64.toNat_one, Bool.decide_eq_true, u64_sub,
          show (18446744073709551615 : UInt64).toNat = 18446744073709551615 from rfl]
        paths
      simp only [pure, Except.pure, ite_ok_true, ite_ok_false, hMid, bT, bF, tm1, tm2, tm3]
      unfold RH.r192Inexact RH.gtT192 n384
      simp only [u64_beq, u64_bne, u64_dle, u64_dlt, ofNat_toNat_lt _ bT0, ofNat_toNat_lt _ bT1, ofNat_toNat_lt _ bT2,
        ofNat_toNat_lt _ bH, UInt64.toNat_zero, Bool.decide_eq_true, u64_sub, GT.gt, decide_eq_true_eq, Bool.or_assoc]
      paths
    simp only [hSplit]
    have hPn : v192 C' * v192 ⟨UInt64.ofNat (tw BID_KX192 3 (xn - 1) 0), UInt64.ofNat (tw BID_KX192 3 (xn - 1) 1),
        UInt64.ofNat (tw BID_KX192 3 (xn - 1) 2)⟩ = (n192 C').val * tv BID_KX192 3 (xn - 1) := by
      unfold v192 n192 RH.U192.val
      rw [C02RoundHelpers.tv3]
      simp only [ofNat_toNat_lt _ bK0, ofNat_toNat_lt _ bK1, ofNat_toNat_lt _ bK2]
    have d384 : (default : Rs.U384) = ⟨0, 0, 0, 0, 0, 0⟩ := rfl
    have d192 : (default : Rs.U192) = ⟨0, 0, 0⟩ := rfl
    have sc := shift_cast _ hs
    have scs := shift_cast_sub (tw BID_EX192M192 1 (xn - 1) 0) (by omega)
    have shr := fun a => u64_shr a _ (by omega : tw BID_EX192M192 1 (xn - 1) 0 < 2 ^ 64)
    have shl := fun a => u64_shl a _ (by omega : 64 - tw BID_EX192M192 1 (xn - 1) 0 < 2 ^ 64)
    unfold RH.r192Split n192 n384
    simp only [P384, hPn, shift, sc, scs, fA, fB, CsA, CsB, Cs0, P0, d384, d192, UInt64.toNat_or, UInt64.toNat_and, shr, shl,
      wU_toNat, ofNat_toNat_lt _ bM, UInt64.toNat_zero, decide_eq_true_eq]
    paths
  rw [C02RoundHelpers.round192_unfold]
  simp only [Nat.add_sub_cancel]
  unfold RH.r192AddMid
  by_cases hi18 : xn - 1 ≤ 18
  · have lMid := tbl64_ok BID_MIDPOINT64 (xn - 1) (by simp [BID_MIDPOINT64]; omega) (by omega)
    have bMid := C02RoundHelpers.tw_lt C02RoundHelpers.w_MIDPOINT64 1 (xn - 1) 0
    simp only [cv18, hi18, decide_true, if_true, hind1, lMid, bind, Except.bind, hMul, tmpA, C1, C0]
    simp only [n192, u64_dlt, u64_beq, u64_add, ofNat_toNat_lt _ bMid, UInt64.toNat_one, UInt64.toNat_zero,
      decide_eq_true_eq]
    paths
  · by_cases hi37 : xn - 1 ≤ 37
    · have e19 : UInt64.ofNat (xn - 1) - 19 = UInt64.ofNat (xn - 1 - 19) := ofNat_sub_lit _ 19 (by omega) (by omega)
      have lMid := tbl128_ok BID_MIDPOINT128 (xn - 1 - 19) (by simp [BID_MIDPOINT128]; omega) (by omega)
      have bMid0 := C02RoundHelpers.tw_lt C02RoundHelpers.w_MIDPOINT128 2 (xn - 1 - 19) 0
      have bMid1 := C02RoundHelpers.tw_lt C02RoundHelpers.w_MIDPOINT128 2 (xn - 1 - 19) 1
      simp only [cv18, cv37, hi18, hi37, decide_true, decide_false, if_true, if_false, Bool.false_eq_true, hind1, e19, lMid,
        bind, Except.bind, jpAdd1, hMul, tmpA, C1, C0]
      simp only [n192, u64_dlt, u64_beq, u64_add, ofNat_toNat_lt _ bMid0, ofNat_toNat_lt _ bMid1, UInt64.toNat_one,
        UInt64.toNat_zero, decide_eq_true_eq]
      paths
    · have e38 : UInt64.ofNat (xn - 1) - 38 = UInt64.ofNat (xn - 1 - 38) := ofNat_sub_lit _ 38 (by omega) (by omega)
      have lMid := tbl192_ok BID_MIDPOINT192 (xn - 1 - 38) (by rw [len_MIDPOINT192]; omega) (by omega)
      have bMid0 := C02RoundHelpers.tw_lt C02RoundHelpers.w_MIDPOINT192 3 (xn - 1 - 38) 0
      have bMid1 := C02RoundHelpers.tw_lt C02RoundHelpers.w_MIDPOINT192 3 (xn - 1 - 38) 1
      have bMid2 := C02RoundHelpers.tw_lt C02RoundHelpers.w_MIDPOINT192 3 (xn - 1 - 38) 2
      simp only [cv18, cv37, hi18, hi37, decide_false, if_false, Bool.false_eq_true, hind1, e38, lMid,
        bind, Except.bind, jpAdd2, hMul, tmpA, C1, C0]
      simp only [n192, u64_dlt, u64_beq, u64_add, ofNat_toNat_lt _ bMid0, ofNat_toNat_lt _ bMid1, ofNat_toNat_lt _ bMid2,
        UInt64.toNat_one, UInt64.toNat_zero, decide_eq_true_eq]
      paths


/-- **`bid_round192_39_57` as translated meets the specification** (`39 ≤ q ≤ 57`, `1 ≤ x ≤ q − 1`, `C < 10^q`). -/
theorem bid_round192_39_57_spec (qn xn : Nat) (C : Rs.U192) (hq : 39 ≤ qn) (hq' : qn ≤ 57) (hx : 1 ≤ xn)
    (hxq : xn + 1 ≤ qn) (hC : v192 C < 10 ^ qn) :
    ∃ (cs : Rs.U192) (incr lt gt ilt igt : Bool),
      Code.bid_round192_39_57 (Int32.ofNat qn) (Int32.ofNat xn) C false false false false false =
        .ok (cs, incr, lt, gt, ilt, igt) ∧
      C02RoundHelpers.Spec qn xn (v192 C) (v192 cs) incr ⟨lt, gt, ilt, igt⟩ := by
  have hv : (n192 C).val = v192 C := rfl
  obtain ⟨hs, hb0, hb1, hb2⟩ := C02RoundHelpers.round192_spec qn xn (n192 C) hq hq' hx hxq C.w0.toNat_lt C.w1.toNat_lt
    C.w2.toNat_lt (by rw [hv]; exact hC)
  refine ⟨_, _, _, _, _, _, bid_round192_39_57_eq qn xn C hq hq' hx hxq, ?_⟩
  have : v192 (u192 (RH.round192 qn xn (n192 C)).cstar) = (RH.round192 qn xn (n192 C)).cstar.val := by
    unfold v192 u192 RH.U192.val
    simp only [ofNat_toNat_lt _ hb0, ofNat_toNat_lt _ hb1, ofNat_toNat_lt _ hb2]
  rw [this, ← hv]
  exact hs

-- q = 40, x = 39 (rounding to one digit): 95·10^38 → 10 → replaced by 1, incr_exp; through the translated routine
example : (Code.bid_round192_39_57 40 39 ⟨wU (95 * 10 ^ 38) 0, wU (95 * 10 ^ 38) 1, wU (95 * 10 ^ 38) 2⟩
    false false false false false).toOption = some (⟨1, 0, 0⟩, true, true, false, false, false) := by decide +kernel

/-! ### bid_round256_58_76 -/

def u256 (c : RH.U256) : Rs.U256 := ⟨UInt64.ofNat c.w0, UInt64.ofNat c.w1, UInt64.ofNat c.w2, UInt64.ofNat c.w3⟩
def n512 (c : Rs.U512) : RH.U512 :=
  ⟨c.w0.toNat, c.w1.toNat, c.w2.toNat, c.w3.toNat, c.w4.toNat, c.w5.toNat, c.w6.toNat, c.w7.toNat⟩

def out256 (o : RH.U256 × Bool) (fl : RH.Ind) : Rs.U256 × Bool × Bool × Bool × Bool × Bool :=
  (u256 o.1, o.2, fl.midLtEven, fl.midGtEven, fl.inexLtMid, fl.inexGtMid)

/-- everything `bid_round256_58_76` does after the midpoint has been added, in the model's terms -/
def rest256 (qn xn : Nat) (c : RH.U256) : Rs.U256 × Bool × Bool × Bool × Bool × Bool :=
  out256 (RH.r256Ovf qn xn (RH.r256Midpoint (xn - 1)
      (RH.r256Split (xn - 1) (c.val * tv BID_KX256 4 (xn - 1))).1
      (RH.r256Split (xn - 1) (c.val * tv BID_KX256 4 (xn - 1))).2
      (RH.r256Inexact (xn - 1) (RH.r256Split (xn - 1) (c.val * tv BID_KX256 4 (xn - 1))).2)).1)
    (RH.r256Midpoint (xn - 1)
      (RH.r256Split (xn - 1) (c.val * tv BID_KX256 4 (xn - 1))).1
      (RH.r256Split (xn - 1) (c.val * tv BID_KX256 4 (xn - 1))).2
      (RH.r256Inexact (xn - 1) (RH.r256Split (xn - 1) (c.val * tv BID_KX256 4 (xn - 1))).2)).2

theorem len_KX256 : BID_KX256.length = 300 := by decide +kernel
theorem len_TRUNC256 : BID_TEN2MXTRUNC256.length = 300 := by decide +kernel
theorem len_MIDPOINT256 : BID_MIDPOINT256.length = 76 := by decide +kernel
theorem w_KX256 : C02RoundHelpers.allW BID_KX256 = true := by decide +kernel
theorem w_MASK256 : C02RoundHelpers.allW BID_MASK256 = true := by decide +kernel
theorem w_EX256 : ∀ i, i < 75 → tw BID_EX256M256 1 i 0 ≤ 63 := by decide +kernel

/-- `(x as usize) - 1` -/
theorem idx_cast_sub_one (x : Nat) (h1 : 1 ≤ x) (h2 : x < 2 ^ 31) :
    UInt64.ofInt (toI (Int32.ofNat x)) - 1 = UInt64.ofNat (x - 1) := by
  show UInt64.ofInt (Int32.toInt (Int32.ofNat x)) - 1 = _
  rw [Int32.toInt_ofNat_of_lt h2, ofInt_natCast]
  exact ofNat_sub_lit x 1 h1 (by omega)

set_option maxHeartbeats 1600000 in
/-- **Bridge for `bid_round256_58_76`**, for every `1 ≤ x ≤ q − 1` (the branch `x ≤ 19` with its line-945 slip included: the
translated code has it, the model has it).  One declaration for a 330-line routine: the heartbeat limit is raised, not removed. -/
theorem bid_round256_58_76_eq (qn xn : Nat) (C : Rs.U256) (hq : 58 ≤ qn) (hq' : qn ≤ 76) (hx : 1 ≤ xn) (hxq : xn + 1 ≤ qn) :
    Code.bid_round256_58_76 (Int32.ofNat qn) (Int32.ofNat xn) C false false false false false =
      .ok (u256 (RH.round256 qn xn (n256 C)).cstar, (RH.round256 qn xn (n256 C)).incrExp,
        (RH.round256 qn xn (n256 C)).ind.midLtEven, (RH.round256 qn xn (n256 C)).ind.midGtEven,
        (RH.round256 qn xn (n256 C)).ind.inexLtMid, (RH.round256 qn xn (n256 C)).ind.inexGtMid) := by
  unfold Code.bid_round256_58_76
  extract_lets qI xI C0 bF P0 Cs0 tmp0 sh0 C1 ind1 t1 ind2 t4 val2 bT jpOvf jpGt val1 fA fB fC CsA CsB CsC jpMul tmpA
    jp4 jp3 jp2 jp1 jp0
  have hind2 : ind2 = UInt64.ofNat (qn - xn) := idx_sub qn xn (by omega) (by omega)
  have hind1 : ind1 = UInt64.ofNat (xn - 1) := idx_cast_sub_one xn hx (by omega)
  have hn1 : 1 ≤ qn - xn := by omega
  have hn2 : qn - xn ≤ 75 := by omega
  have hOvf : ∀ r lt gt ilt igt Cs, jpOvf r lt gt ilt igt Cs =
      .ok (out256 (RH.r256Ovf qn xn (n256 Cs)) ⟨lt, gt, ilt, igt⟩) := by
    intro r lt gt ilt igt Cs
    have e0 : UInt64.ofInt (toI (0 : Nat)) = UInt64.ofNat 0 := rfl
    have e18 : UInt64.ofInt (toI (18 : Nat)) = UInt64.ofNat 18 := rfl
    have e19 : UInt64.ofInt (toI (19 : Nat)) = UInt64.ofNat 19 := rfl
    simp only [jpOvf, val2, t4, hind2, bT, bF, e0, e18, e19]
    unfold out256 RH.r256Ovf n256
    generalize qn - xn = n at *
    have hnn : (UInt64.ofNat n).toNat = n := ofNat_toNat_lt n (by omega)
    have c19 : decide (UInt64.ofNat n ≤ 19) = decide (n ≤ 19) := by rw [u64_dle, hnn]; rfl
    have c38 : decide (UInt64.ofNat n ≤ 38) = decide (n ≤ 38) := by rw [u64_dle, hnn]; rfl
    have c57 : decide (UInt64.ofNat n ≤ 57) = decide (n ≤ 57) := by rw [u64_dle, hnn]; rfl
    have c20 : (UInt64.ofNat n == 20) = (n == 20) := by rw [u64_beq, hnn]; rfl
    have c39 : (UInt64.ofNat n == 39) = (n == 39) := by rw [u64_beq, hnn]; rfl
    simp only [c19, c20, c38, c39, c57]
    by_cases h19 : n ≤ 19
    · have e1 : UInt64.ofNat n - 1 = UInt64.ofNat (n - 1) := ofNat_sub_lit n 1 (by omega) (by omega)
      have l7 := tbl64_ok BID_TEN2K64 n (by simp [BID_TEN2K64]; omega) (by omega)
      have l8 := tbl64_ok BID_TEN2K64 (n - 1) (by simp [BID_TEN2K64]; omega) (by omega)
      have b7 := C02RoundHelpers.tw_lt C02RoundHelpers.w_TEN2K64 1 n 0
      simp only [h19, decide_true, if_true, e1, l7, l8, bind, Except.bind, pure, Except.pure, ite_ok_false]
      simp only [u64_beq, Bool.decide_eq_true, ofNat_toNat_lt _ b7, UInt64.toNat_zero]
      split <;> simp [u256, UInt64.ofNat_toNat]
    · by_cases h20 : n = 20
      · subst h20
        have l7 := tbl128_ok BID_TEN2K128 0 (by simp [BID_TEN2K128]) (by omega)
        have l8 := tbl64_ok BID_TEN2K64 19 (by simp [BID_TEN2K64]) (by omega)
        have b0 := C02RoundHelpers.tw_lt C02RoundHelpers.w_TEN2K128 2 0 0
        have b1 := C02RoundHelpers.tw_lt C02RoundHelpers.w_TEN2K128 2 0 1
        simp only [show ¬ (20 ≤ 19) from by omega, decide_false, if_false, BEq.rfl, if_true, l7, l8, bind, Except.bind, pure,
          Except.pure, ite_ok_false, Bool.false_eq_true]
        simp only [u64_beq, Bool.decide_eq_true, ofNat_toNat_lt _ b0, ofNat_toNat_lt _ b1, UInt64.toNat_zero]
        split <;> simp [u256, UInt64.ofNat_toNat]
      · have hb20 : (n == 20) = false := by simp [h20]
        by_cases h38 : n ≤ 38
        · have e20 : UInt64.ofNat n - 20 = UInt64.ofNat (n - 20) := ofNat_sub_lit n 20 (by omega) (by omega)
          have e21 : UInt64.ofNat n - 21 = UInt64.ofNat (n - 21) := ofNat_sub_lit n 21 (by omega) (by omega)
          have l7 := tbl128_ok BID_TEN2K128 (n - 20) (by simp [BID_TEN2K128]; omega) (by omega)
          have l8 := tbl128_ok BID_TEN2K128 (n - 21) (by simp [BID_TEN2K128]; omega) (by omega)
          have b0 := C02RoundHelpers.tw_lt C02RoundHelpers.w_TEN2K128 2 (n - 20) 0
          have b1 := C02RoundHelpers.tw_lt C02RoundHelpers.w_TEN2K128 2 (n - 20) 1
          simp only [h19, hb20, h38, decide_true, decide_false, if_true, if_false, e20, e21, l7, l8, bind, Except.bind, pure,
            Except.pure, ite_ok_false, Bool.false_eq_true]
          simp only [u64_beq, Bool.decide_eq_true, ofNat_toNat_lt _ b0, ofNat_toNat_lt _ b1, UInt64.toNat_zero]
          split <;> simp [u256, UInt64.ofNat_toNat]
        · by_cases h39 : n = 39
          · subst h39
            have l7 := tbl256_ok BID_TEN2K256 0 (by rw [len_TEN2K256]; omega) (by omega)
            have l8 := tbl128_ok BID_TEN2K128 18 (by simp [BID_TEN2K128]) (by omega)
            have b0 := C02RoundHelpers.tw_lt C02RoundHelpers.w_TEN2K256 4 0 0
            have b1 := C02RoundHelpers.tw_lt C02RoundHelpers.w_TEN2K256 4 0 1
            have b2 := C02RoundHelpers.tw_lt C02RoundHelpers.w_TEN2K256 4 0 2
            simp only [show ¬ (39 ≤ 19) from by omega, show ¬ (39 ≤ 38) from by omega, show (39 == 20) = false from rfl,
              decide_false, if_false, BEq.rfl, if_true, l7, l8, bind, Except.bind, pure, Except.pure, ite_ok_false,
              Bool.false_eq_true]
            simp only [u64_beq, Bool.decide_eq_true, ofNat_toNat_lt _ b0, ofNat_toNat_lt _ b1, ofNat_toNat_lt _ b2,
              UInt64.toNat_zero]
            split <;> simp [u256, UInt64.ofNat_toNat]
          · have hb39 : (n == 39) = false := by simp [h39]
            have e39 : UInt64.ofNat n - 39 = UInt64.ofNat (n - 39) := ofNat_sub_lit n 39 (by omega) (by omega)
            have e40 : UInt64.ofNat n - 40 = UInt64.ofNat (n - 40) := ofNat_sub_lit n 40 (by omega) (by omega)
            have l7 := tbl256_ok BID_TEN2K256 (n - 39) (by rw [len_TEN2K256]; omega) (by omega)
            have l8 := tbl256_ok BID_TEN2K256 (n - 40) (by rw [len_TEN2K256]; omega) (by omega)
            have b0 := C02RoundHelpers.tw_lt C02RoundHelpers.w_TEN2K256 4 (n - 39) 0
            have b1 := C02RoundHelpers.tw_lt C02RoundHelpers.w_TEN2K256 4 (n - 39) 1
            have b2 := C02RoundHelpers.tw_lt C02RoundHelpers.w_TEN2K256 4 (n - 39) 2
            have b3 := C02RoundHelpers.tw_lt C02RoundHelpers.w_TEN2K256 4 (n - 39) 3
            by_cases h57 : n ≤ 57
            · simp only [h19, hb20, h38, hb39, h57, decide_true, decide_false, if_true, if_false, e39, e40, l7, l8, bind,
                Except.bind, pure, Except.pure, ite_ok_false, Bool.false_eq_true]
              simp only [u64_beq, Bool.decide_eq_true, ofNat_toNat_lt _ b0, ofNat_toNat_lt _ b1, ofNat_toNat_lt _ b2,
                UInt64.toNat_zero]
              split <;> simp [u256, UInt64.ofNat_toNat]
            · simp only [h19, hb20, h38, hb39, h57, decide_false, if_false, e39, e40, l7, l8, bind,
                Except.bind, pure, Except.pure, ite_ok_false, Bool.false_eq_true]
              simp only [u64_beq, Bool.decide_eq_true, ofNat_toNat_lt _ b0, ofNat_toNat_lt _ b1, ofNat_toNat_lt _ b2,
                ofNat_toNat_lt _ b3, UInt64.toNat_zero]
              split <;> simp [u256, UInt64.ofNat_toNat]
  have hGt : ∀ r Cs, jpGt r Cs = .ok (out256 (RH.r256Ovf qn xn (n256 Cs)) ⟨false, true, false, false⟩) := by
    intro r Cs; simp only [jpGt, hOvf, bT, bF]
  have hi : xn - 1 < 75 := by omega
  have hs2 := w_EX256 (xn - 1) hi
  have hs : tw BID_EX256M256 1 (xn - 1) 0 < 2 ^ 31 := by omega
  have lK := tbl256_ok BID_KX256 (xn - 1) (by rw [len_KX256]; omega) (by omega)
  have lE := tbl32_ok BID_EX256M256 (xn - 1) (by simp [BID_EX256M256]; omega) (by omega)
  have lM := tbl64_ok BID_MASK256 (xn - 1) (by simp [BID_MASK256]; omega) (by omega)
  have lH := tbl64_ok BID_HALF256 (xn - 1) (by simp [BID_HALF256]; omega) (by omega)
  have lT := tbl256_ok BID_TEN2MXTRUNC256 (xn - 1) (by rw [len_TRUNC256]; omega) (by omega)
  have bT0 := C02RoundHelpers.tw_lt C02RoundHelpers.w_TRUNC256 4 (xn - 1) 0
  have bT1 := C02RoundHelpers.tw_lt C02RoundHelpers.w_TRUNC256 4 (xn - 1) 1
  have bT2 := C02RoundHelpers.tw_lt C02RoundHelpers.w_TRUNC256 4 (xn - 1) 2
  have bT3 := C02RoundHelpers.tw_lt C02RoundHelpers.w_TRUNC256 4 (xn - 1) 3
  have bH := C02RoundHelpers.tw_lt C02RoundHelpers.w_HALF256 1 (xn - 1) 0
  have bM := C02RoundHelpers.tw_lt w_MASK256 1 (xn - 1) 0
  have bK0 := C02RoundHelpers.tw_lt w_KX256 4 (xn - 1) 0
  have bK1 := C02RoundHelpers.tw_lt w_KX256 4 (xn - 1) 1
  have bK2 := C02RoundHelpers.tw_lt w_KX256 4 (xn - 1) 2
  have bK3 := C02RoundHelpers.tw_lt w_KX256 4 (xn - 1) 3
  have hv1 : val1 = UInt64.ofNat (xn - 1) := by simp only [val1, t1, hind1]
  have hvn : (UInt64.ofNat (xn - 1)).toNat = xn - 1 := ofNat_toNat_lt _ (by omega)
  have cv18 : decide (val1 ≤ 18) = decide (xn - 1 ≤ 18) := by rw [hv1, u64_dle, hvn]; rfl
  have cv37 : decide (val1 ≤ 37) = decide (xn - 1 ≤ 37) := by rw [hv1, u64_dle, hvn]; rfl
  have cv56 : decide (val1 ≤ 56) = decide (xn - 1 ≤ 56) := by rw [hv1, u64_dle, hvn]; rfl
  have cv57 : decide (val1 ≤ 57) = decide (xn - 1 ≤ 57) := by rw [hv1, u64_dle, hvn]; rfl
  have cb57 : (val1 == 57) = (xn - 1 == 57) := by rw [hv1, u64_beq, hvn]; rfl
  have hMul : ∀ r C' tmp, jpMul r C' tmp = .ok (rest256 qn xn (n256 C')) := by
    intro r C' tmp
    simp (config := {zeta := false}) only [jpMul, hind1, lK, lE, lM, lH, lT, cv18, cv37, cv56, cv57, cb57]
    simp (config := {zeta := false}) only [bind, Except.bind, mul_256x256_to_512_ok]
    extract_lets +onlyGivenNames P512 shift jpSplit
    have hSplit : ∀ r fstar Cstar, jpSplit r fstar Cstar =
        .ok (out256 (RH.r256Ovf qn xn (RH.r256Midpoint (xn - 1) (n256 Cstar) (n512 fstar)
              (RH.r256Inexact (xn - 1) (n512 fstar))).1)
            (RH.r256Midpoint (xn - 1) (n256 Cstar) (n512 fstar) (RH.r256Inexact (xn - 1) (n512 fstar))).2) := by
      intro r fstar Cstar
      simp (config := {zeta := false}) only [jpSplit]
      extract_lets Cd1 Cd2 Cd3 Cd4 jpMid tm1 tm2 tm3 tm4
      have hMid : ∀ r ilt igt tmp, jpMid r ilt igt tmp =
          .ok (out256 (RH.r256Ovf qn xn (RH.r256Midpoint (xn - 1) (n256 Cstar) (n512 fstar) ⟨false, false, ilt, igt⟩).1)
            (RH.r256Midpoint (xn - 1) (n256 Cstar) (n512 fstar) ⟨false, false, ilt, igt⟩).2) := by
        intro r ilt igt tmp
        simp only [jpMid, pure, Except.pure, ite_ok_true, ite_ok_false, hOvf, hGt, bT, bF, Cd1, Cd2, Cd3, Cd4]
        unfold RH.r256Midpoint n256 n512
        simp only [u64_beq, u64_dle, u64_dlt, ofNat_toNat_lt _ bT0, ofNat_toNat_lt _ bT1, ofNat_toNat_lt _ bT2,
          ofNat_toNat_lt _ bT3, UInt64.toNat_and, UInt64.toNat_zero, UInt64.toNat_one, Bool.decide_eq_true, u64_sub,
          show (18446744073709551615 : UInt64).toNat = 18446744073709551615 from rfl]
        paths
      simp only [pure, Except.pure, ite_ok_true, ite_ok_false, hMid, bT, bF, tm1, tm2, tm3, tm4]
      unfold RH.r256Inexact RH.gtT256 RH.gtT256Line945 n512
      simp only [u64_beq, u64_bne, u64_dle, u64_dlt, ofNat_toNat_lt _ bT0, ofNat_toNat_lt _ bT1, ofNat_toNat_lt _ bT2,
        ofNat_toNat_lt _ bT3, ofNat_toNat_lt _ bH, UInt64.toNat_zero, Bool.decide_eq_true, u64_sub, GT.gt,
        decide_eq_true_eq, Bool.or_assoc]
      paths
    simp only [hSplit]
    have hPn : v256 C' * v256 ⟨UInt64.ofNat (tw BID_KX256 4 (xn - 1) 0), UInt64.ofNat (tw BID_KX256 4 (xn - 1) 1),
        UInt64.ofNat (tw BID_KX256 4 (xn - 1) 2), UInt64.ofNat (tw BID_KX256 4 (xn - 1) 3)⟩ =
        (n256 C').val * tv BID_KX256 4 (xn - 1) := by
      unfold v256 n256 RH.U256.val
      rw [C02RoundHelpers.tv4]
      simp only [ofNat_toNat_lt _ bK0, ofNat_toNat_lt _ bK1, ofNat_toNat_lt _ bK2, ofNat_toNat_lt _ bK3]
    have d512 : (default : Rs.U512) = ⟨0, 0, 0, 0, 0, 0, 0, 0⟩ := rfl
    have d256 : (default : Rs.U256) = ⟨0, 0, 0, 0⟩ := rfl
    have sc := shift_cast _ hs
    have scs := shift_cast_sub (tw BID_EX256M256 1 (xn - 1) 0) (by omega)
    have shr := fun a => u64_shr a _ (by omega : tw BID_EX256M256 1 (xn - 1) 0 < 2 ^ 64)
    have shl := fun a => u64_shl a _ (by omega : 64 - tw BID_EX256M256 1 (xn - 1) 0 < 2 ^ 64)
    unfold rest256 RH.r256Split n256 n512
    simp only [P512, hPn, shift, sc, scs, fA, fB, fC, CsA, CsB, CsC, Cs0, P0, d512, d256, UInt64.toNat_or,
      UInt64.toNat_and, shr, shl, wU_toNat, ofNat_toNat_lt _ bM, UInt64.toNat_zero, decide_eq_true_eq]
    paths
  clear_value jpMul jpOvf jpGt
  have hfin : Except.ok (u256 (RH.round256 qn xn (n256 C)).cstar, (RH.round256 qn xn (n256 C)).incrExp,
        (RH.round256 qn xn (n256 C)).ind.midLtEven, (RH.round256 qn xn (n256 C)).ind.midGtEven,
        (RH.round256 qn xn (n256 C)).ind.inexLtMid, (RH.round256 qn xn (n256 C)).ind.inexGtMid) =
      (Except.ok (rest256 qn xn (RH.r256AddMid (xn - 1) (n256 C))) : Except String _) := by
    rw [C02RoundHelpers.round256_unfold]; rfl
  rw [hfin]
  unfold RH.r256AddMid
  have tsimp : ∀ a b : UInt64, (a + b).toNat = RH.add64 a.toNat b.toNat := u64_add
  by_cases hi18 : xn - 1 ≤ 18
  · have lMid := tbl64_ok BID_MIDPOINT64 (xn - 1) (by simp [BID_MIDPOINT64]; omega) (by omega)
    have bMid := C02RoundHelpers.tw_lt C02RoundHelpers.w_MIDPOINT64 1 (xn - 1) 0
    simp only [cv18, hi18, decide_true, if_true, hind1, lMid, bind, Except.bind, hMul, tmpA, C1, C0]
    unfold RH.r256Add0
    simp only [n256, u64_dlt, u64_beq, u64_add, ofNat_toNat_lt _ bMid, UInt64.toNat_one, UInt64.toNat_zero,
      decide_eq_true_eq]
    paths
  · by_cases hi37 : xn - 1 ≤ 37
    · have e19 : UInt64.ofNat (xn - 1) - 19 = UInt64.ofNat (xn - 1 - 19) := ofNat_sub_lit _ 19 (by omega) (by omega)
      have lMid := tbl128_ok BID_MIDPOINT128 (xn - 1 - 19) (by simp [BID_MIDPOINT128]; omega) (by omega)
      have bMid0 := C02RoundHelpers.tw_lt C02RoundHelpers.w_MIDPOINT128 2 (xn - 1 - 19) 0
      have bMid1 := C02RoundHelpers.tw_lt C02RoundHelpers.w_MIDPOINT128 2 (xn - 1 - 19) 1
      have hjp4 : ∀ r Cc, jp4 r Cc =
          .ok (rest256 qn xn (RH.r256Add1 (n256 Cc) (tw BID_MIDPOINT128 2 (xn - 1 - 19) 1))) := by
        intro r Cc
        simp only [jp4, hind1, e19, lMid, bind, Except.bind, hMul]
        unfold RH.r256Add1
        simp only [n256, u64_dlt, u64_beq, u64_add, ofNat_toNat_lt _ bMid1, UInt64.toNat_one, UInt64.toNat_zero,
          decide_eq_true_eq]
        paths
      simp only [cv18, cv37, hi18, hi37, decide_true, decide_false, if_true, if_false, Bool.false_eq_true, hind1, e19, lMid,
        bind, Except.bind, hjp4, tmpA, C1, C0]
      unfold RH.r256Add0
      simp only [n256, u64_dlt, u64_beq, u64_add, ofNat_toNat_lt _ bMid0, UInt64.toNat_one, UInt64.toNat_zero,
        decide_eq_true_eq]
      paths
    · by_cases hi57 : xn - 1 ≤ 57
      · have e38 : UInt64.ofNat (xn - 1) - 38 = UInt64.ofNat (xn - 1 - 38) := ofNat_sub_lit _ 38 (by omega) (by omega)
        have lMid := tbl192_ok BID_MIDPOINT192 (xn - 1 - 38) (by rw [len_MIDPOINT192]; omega) (by omega)
        have bMid0 := C02RoundHelpers.tw_lt C02RoundHelpers.w_MIDPOINT192 3 (xn - 1 - 38) 0
        have bMid1 := C02RoundHelpers.tw_lt C02RoundHelpers.w_MIDPOINT192 3 (xn - 1 - 38) 1
        have bMid2 := C02RoundHelpers.tw_lt C02RoundHelpers.w_MIDPOINT192 3 (xn - 1 - 38) 2
        have hjp3 : ∀ r Cc, jp3 r Cc =
            .ok (rest256 qn xn (RH.r256Add2 (n256 Cc) (tw BID_MIDPOINT192 3 (xn - 1 - 38) 2))) := by
          intro r Cc
          simp only [jp3, hind1, e38, lMid, bind, Except.bind, hMul]
          unfold RH.r256Add2
          simp only [n256, u64_dlt, u64_beq, u64_add, ofNat_toNat_lt _ bMid2, UInt64.toNat_one, UInt64.toNat_zero,
            decide_eq_true_eq]
          paths
        have hjp2 : ∀ r Cc, jp2 r Cc =
            .ok (rest256 qn xn (RH.r256Add2 (RH.r256Add1 (n256 Cc) (tw BID_MIDPOINT192 3 (xn - 1 - 38) 1))
              (tw BID_MIDPOINT192 3 (xn - 1 - 38) 2))) := by
          intro r Cc
          simp only [jp2, hind1, e38, lMid, bind, Except.bind, hjp3]
          unfold RH.r256Add1
          simp only [n256, u64_dlt, u64_beq, u64_add, ofNat_toNat_lt _ bMid1, UInt64.toNat_one, UInt64.toNat_zero,
            decide_eq_true_eq]
          paths
        simp only [cv18, cv37, cv57, hi18, hi37, hi57, decide_true, decide_false, if_true, if_false, Bool.false_eq_true,
          hind1, e38, lMid, bind, Except.bind, hjp2, tmpA, C1, C0]
        unfold RH.r256Add0
        simp only [n256, u64_dlt, u64_beq, u64_add, ofNat_toNat_lt _ bMid0, UInt64.toNat_one, UInt64.toNat_zero,
          decide_eq_true_eq]
        paths
      · have e58 : UInt64.ofNat (xn - 1) - 58 = UInt64.ofNat (xn - 1 - 58) := ofNat_sub_lit _ 58 (by omega) (by omega)
        have lMid := tbl256_ok BID_MIDPOINT256 (xn - 1 - 58) (by rw [len_MIDPOINT256]; omega) (by omega)
        have bMid0 := C02RoundHelpers.tw_lt C02RoundHelpers.w_MIDPOINT256 4 (xn - 1 - 58) 0
        have bMid1 := C02RoundHelpers.tw_lt C02RoundHelpers.w_MIDPOINT256 4 (xn - 1 - 58) 1
        have bMid2 := C02RoundHelpers.tw_lt C02RoundHelpers.w_MIDPOINT256 4 (xn - 1 - 58) 2
        have bMid3 := C02RoundHelpers.tw_lt C02RoundHelpers.w_MIDPOINT256 4 (xn - 1 - 58) 3
        have hjp1 : ∀ r Cc, jp1 r Cc =
            .ok (rest256 qn xn (RH.r256Add3 (RH.r256Add2 (n256 Cc) (tw BID_MIDPOINT256 4 (xn - 1 - 58) 2))
              (tw BID_MIDPOINT256 4 (xn - 1 - 58) 3))) := by
          intro r Cc
          simp only [jp1, hind1, e58, lMid, bind, Except.bind, hMul]
          unfold RH.r256Add3 RH.r256Add2
          simp only [n256, u64_dlt, u64_beq, u64_add, ofNat_toNat_lt _ bMid2, ofNat_toNat_lt _ bMid3, UInt64.toNat_one,
            UInt64.toNat_zero, decide_eq_true_eq]
          paths
        have hjp0 : ∀ r Cc, jp0 r Cc =
            .ok (rest256 qn xn (RH.r256Add3 (RH.r256Add2 (RH.r256Add1 (n256 Cc) (tw BID_MIDPOINT256 4 (xn - 1 - 58) 1))
              (tw BID_MIDPOINT256 4 (xn - 1 - 58) 2)) (tw BID_MIDPOINT256 4 (xn - 1 - 58) 3))) := by
          intro r Cc
          simp only [jp0, hind1, e58, lMid, bind, Except.bind, hjp1]
          unfold RH.r256Add1
          simp only [n256, u64_dlt, u64_beq, u64_add, ofNat_toNat_lt _ bMid1, UInt64.toNat_one, UInt64.toNat_zero,
            decide_eq_true_eq]
          paths
        simp only [cv18, cv37, cv57, hi18, hi37, hi57, decide_false, if_false, Bool.false_eq_true,
          hind1, e58, lMid, bind, Except.bind, hjp0, tmpA, C1, C0]
        unfold RH.r256Add0
        simp only [n256, u64_dlt, u64_beq, u64_add, ofNat_toNat_lt _ bMid0, UInt64.toNat_one, UInt64.toNat_zero,
          decide_eq_true_eq]
        paths


theorem v256_u256 (c : RH.U256) (h0 : c.w0 < 2 ^ 64) (h1 : c.w1 < 2 ^ 64) (h2 : c.w2 < 2 ^ 64) (h3 : c.w3 < 2 ^ 64) :
    v256 (u256 c) = c.val := by
  unfold v256 u256 RH.U256.val
  simp only [ofNat_toNat_lt _ h0, ofNat_toNat_lt _ h1, ofNat_toNat_lt _ h2, ofNat_toNat_lt _ h3]

/-- **`bid_round256_58_76` as translated meets the specification** for `58 ≤ q ≤ 76`, `20 ≤ x ≤ q − 1`, `C < 10^q` (this contains
every call in bid128_fma.rs). -/
theorem bid_round256_58_76_spec (qn xn : Nat) (C : Rs.U256) (hq : 58 ≤ qn) (hq' : qn ≤ 76) (hx : 20 ≤ xn)
    (hxq : xn + 1 ≤ qn) (hC : v256 C < 10 ^ qn) :
    ∃ (cs : Rs.U256) (incr lt gt ilt igt : Bool),
      Code.bid_round256_58_76 (Int32.ofNat qn) (Int32.ofNat xn) C false false false false false =
        .ok (cs, incr, lt, gt, ilt, igt) ∧
      C02RoundHelpers.Spec qn xn (v256 C) (v256 cs) incr ⟨lt, gt, ilt, igt⟩ := by
  have hv : (n256 C).val = v256 C := rfl
  obtain ⟨hs, hb0, hb1, hb2, hb3⟩ := C02RoundHelpers.round256_spec qn xn (n256 C) hq hq' hx hxq C.w0.toNat_lt
    C.w1.toNat_lt C.w2.toNat_lt C.w3.toNat_lt (by rw [hv]; exact hC)
  refine ⟨_, _, _, _, _, _, bid_round256_58_76_eq qn xn C hq hq' (by omega) hxq, ?_⟩
  rw [v256_u256 _ hb0 hb1 hb2 hb3, ← hv]
  exact hs

/-- **`bid_round256_58_76` as translated, `x ≤ 19`** (reached by no caller): `C*`, `incr_exp` and three indicators are as
specified — the result with `is_inexact_lt_midpoint` corrected meets `Spec` — and so is that indicator when the discarded
part `C mod 10^x` is at least 2.  For `C mod 10^x ∈ {0, 1}` it can be wrong, in the translated code as in the compiled one:
see the two examples below. -/
theorem bid_round256_58_76_spec_low (qn xn : Nat) (C : Rs.U256) (hq : 58 ≤ qn) (hq' : qn ≤ 76) (hx : 1 ≤ xn) (hx' : xn ≤ 19)
    (hxq : xn + 1 ≤ qn) (hC : v256 C < 10 ^ qn) :
    ∃ (cs : Rs.U256) (incr lt gt ilt igt : Bool),
      Code.bid_round256_58_76 (Int32.ofNat qn) (Int32.ofNat xn) C false false false false false =
        .ok (cs, incr, lt, gt, ilt, igt) ∧
      C02RoundHelpers.Spec qn xn (v256 C) (v256 cs) incr
        ⟨lt, gt, decide (0 < v256 C % 10 ^ xn ∧ v256 C % 10 ^ xn < 10 ^ xn / 2), igt⟩ ∧
      (2 ≤ v256 C % 10 ^ xn → C02RoundHelpers.Spec qn xn (v256 C) (v256 cs) incr ⟨lt, gt, ilt, igt⟩) := by
  have hv : (n256 C).val = v256 C := rfl
  obtain ⟨hs, hs2, hb0, hb1, hb2, hb3⟩ := C02RoundHelpers.round256_spec_low qn xn (n256 C) hq' hx hx' hxq C.w0.toNat_lt
    C.w1.toNat_lt C.w2.toNat_lt C.w3.toNat_lt (by rw [hv]; exact hC)
  refine ⟨_, _, _, _, _, _, bid_round256_58_76_eq qn xn C hq hq' hx hxq, ?_, ?_⟩
  · rw [v256_u256 _ hb0 hb1 hb2 hb3, ← hv]
    exact hs
  · intro h2
    rw [v256_u256 _ hb0 hb1 hb2 hb3, ← hv]
    exact hs2 (by rw [hv]; exact h2)

-- q = 68, x = 34 (a 68-digit product rounded to 34 digits): all nines, through the translated routine
example : (Code.bid_round256_58_76 68 34 ⟨wU (10 ^ 68 - 1) 0, wU (10 ^ 68 - 1) 1, wU (10 ^ 68 - 1) 2, wU (10 ^ 68 - 1) 3⟩
    false false false false false).toOption =
    some (⟨wU (10 ^ 33) 0, wU (10 ^ 33) 1, 0, 0⟩, true, false, false, false, true) := by decide +kernel
-- line 945 in the translated code: q = 58, x = 4, C = 3·10^57 + 1 — inexact, yet no indicator is set
example : (Code.bid_round256_58_76 58 4 ⟨wU (3 * 10 ^ 57 + 1) 0, wU (3 * 10 ^ 57 + 1) 1, wU (3 * 10 ^ 57 + 1) 2,
    wU (3 * 10 ^ 57 + 1) 3⟩ false false false false false).toOption =
    some (⟨wU (3 * 10 ^ 53) 0, wU (3 * 10 ^ 53) 1, wU (3 * 10 ^ 53) 2, 0⟩, false, false, false, false, false) := by
  decide +kernel
-- … and q = 76, x = 17, C = 7·10^75 — exact, yet is_inexact_lt_midpoint is set
example : (Code.bid_round256_58_76 76 17 ⟨wU (7 * 10 ^ 75) 0, wU (7 * 10 ^ 75) 1, wU (7 * 10 ^ 75) 2, wU (7 * 10 ^ 75) 3⟩
    false false false false false).toOption =
    some (⟨wU (7 * 10 ^ 58) 0, wU (7 * 10 ^ 58) 1, wU (7 * 10 ^ 58) 2, wU (7 * 10 ^ 58) 3⟩,
      false, false, false, true, false) := by decide +kernel

section
open Dec.C02RoundHelpers
/-! ### The model's `C*` is made of `u64` words for every coefficient (so `.toNat` of the translated result IS the model's) -/

theorem round64_word (q x C : Nat) (hq : 2 ≤ q) (hq' : q ≤ 18) (hx : 1 ≤ x) (hxq : x + 1 ≤ q) :
    (RH.round64 q x C).cstar < 2 ^ 64 := by
  rw [round64_unfold]
  simp only []
  have hn : q - x ≤ 19 := by omega
  generalize hP : RH.add64 C (tw BID_MIDPOINT64 1 (x - 1) 0) * tw BID_KX64 1 (x - 1) 0 = P
  have hc : RH.shr64 (RH.wd P 1) (tw BID_EX64M64 1 (x - 1) 0) < 2 ^ 64 := by
    unfold RH.shr64 RH.wd
    rw [Nat.shiftRight_eq_div_pow]
    exact Nat.lt_of_le_of_lt (Nat.div_le_self _ _) (Nat.mod_lt _ (by decide))
  have hf0 : RH.wd P 0 < 2 ^ 64 := Nat.mod_lt _ (by decide)
  have hf1 : RH.wd P 1 &&& tw BID_MASK64 1 (x - 1) 0 < 2 ^ 64 :=
    Nat.lt_of_le_of_lt Nat.and_le_left (Nat.mod_lt _ (by decide))
  obtain ⟨_, m0⟩ := r64Midpoint_spec (x - 1) _ _ _
    (RH.r64Inexact (x - 1) (RH.wd P 1 &&& tw BID_MASK64 1 (x - 1) 0) (RH.wd P 0)) hc hf0 hf1
  exact (r64Ovf_spec q x _ (by omega) hn m0).2

theorem round128_words (q x : Nat) (C : RH.U128) (hq : 19 ≤ q) (hq' : q ≤ 38) (hx : 1 ≤ x) (hxq : x + 1 ≤ q)
    (h0 : C.w0 < 2 ^ 64) (h1 : C.w1 < 2 ^ 64) :
    (RH.round128 q x C).cstar.w0 < 2 ^ 64 ∧ (RH.round128 q x C).cstar.w1 < 2 ^ 64 := by
  obtain ⟨i, rfl⟩ : ∃ i, x = i + 1 := ⟨x - 1, by omega⟩
  have hi : i < 37 := by omega
  obtain ⟨⟨hs1, hs2, hmsk, _⟩, _, hKlt⟩ := tbl128 i hi
  rw [round128_unfold]
  simp only [Nat.add_sub_cancel]
  obtain ⟨a0, a1, _⟩ := r128AddMid_spec i C h0 h1
  generalize RH.r128AddMid i C = C' at *
  have hP : C'.val * tv BID_KX128 2 i < 2 ^ 256 := by
    have : C'.val < 2 ^ 128 := by unfold RH.U128.val; omega
    calc C'.val * tv BID_KX128 2 i < 2 ^ 128 * 2 ^ 128 := Nat.mul_lt_mul'' this hKlt
      _ = 2 ^ 256 := by rw [← Nat.pow_add]
  obtain ⟨_, s0, s1, _, f0, f1, f2, f3, _⟩ := r128Split_spec i _ hP hs1 hs2 hmsk
  generalize RH.r128Split i (C'.val * tv BID_KX128 2 i) = sp at *
  obtain ⟨_, m0, m1⟩ := r128Midpoint_spec i sp.1 sp.2 (RH.r128Inexact i sp.2) s0 s1 f0 f1 f2 f3
  obtain ⟨_, o0, o1⟩ := r128Ovf_spec q (i + 1) _ (by omega) (by omega) m0 m1
  exact ⟨o0, o1⟩

theorem round192_words (q x : Nat) (C : RH.U192) (hq : 39 ≤ q) (hq' : q ≤ 57) (hx : 1 ≤ x) (hxq : x + 1 ≤ q)
    (h0 : C.w0 < 2 ^ 64) (h1 : C.w1 < 2 ^ 64) (h2 : C.w2 < 2 ^ 64) :
    (RH.round192 q x C).cstar.w0 < 2 ^ 64 ∧ (RH.round192 q x C).cstar.w1 < 2 ^ 64 ∧
    (RH.round192 q x C).cstar.w2 < 2 ^ 64 := by
  obtain ⟨i, rfl⟩ : ∃ i, x = i + 1 := ⟨x - 1, by omega⟩
  have hi : i < 56 := by omega
  obtain ⟨⟨hs1, hs2, hmsk, _⟩, _, hKlt⟩ := tbl192 i hi
  rw [round192_unfold]
  simp only [Nat.add_sub_cancel]
  obtain ⟨a0, a1, a2, _⟩ := r192AddMid_spec i C h0 h1 h2
  generalize RH.r192AddMid i C = C' at *
  have hP : C'.val * tv BID_KX192 3 i < 2 ^ 384 := by
    have : C'.val < 2 ^ 192 := by unfold RH.U192.val; omega
    calc C'.val * tv BID_KX192 3 i < 2 ^ 192 * 2 ^ 192 := Nat.mul_lt_mul'' this hKlt
      _ = 2 ^ 384 := by rw [← Nat.pow_add]
  obtain ⟨_, s0, s1, s2, _, f0, f1, f2, f3, f4, f5, _⟩ := r192Split_spec i _ hP hs1 hs2 hmsk
  generalize RH.r192Split i (C'.val * tv BID_KX192 3 i) = sp at *
  obtain ⟨_, m0, m1, m2⟩ := r192Midpoint_spec i sp.1 sp.2 (RH.r192Inexact i sp.2) s0 s1 s2 f0 f1 f2 f3 f4 f5
  obtain ⟨_, o0, o1, o2⟩ := r192Ovf_spec q (i + 1) _ (by omega) (by omega) m0 m1 m2
  exact ⟨o0, o1, o2⟩

theorem round256_words (q x : Nat) (C : RH.U256) (hq : 58 ≤ q) (hq' : q ≤ 76) (hx : 1 ≤ x) (hxq : x + 1 ≤ q)
    (h0 : C.w0 < 2 ^ 64) (h1 : C.w1 < 2 ^ 64) (h2 : C.w2 < 2 ^ 64) (h3 : C.w3 < 2 ^ 64) :
    (RH.round256 q x C).cstar.w0 < 2 ^ 64 ∧ (RH.round256 q x C).cstar.w1 < 2 ^ 64 ∧
    (RH.round256 q x C).cstar.w2 < 2 ^ 64 ∧ (RH.round256 q x C).cstar.w3 < 2 ^ 64 := by
  obtain ⟨i, rfl⟩ : ∃ i, x = i + 1 := ⟨x - 1, by omega⟩
  have hi : i < 75 := by omega
  obtain ⟨_, _, _, _, hKlt⟩ := tbl256_all i hi
  rw [round256_unfold]
  simp only [Nat.add_sub_cancel]
  obtain ⟨a0, a1, a2, a3, _⟩ := r256AddMid_spec i C h0 h1 h2 h3
  generalize RH.r256AddMid i C = C' at *
  have hP : C'.val * tv BID_KX256 4 i < 2 ^ 512 := by
    have : C'.val < 2 ^ 256 := by unfold RH.U256.val; omega
    calc C'.val * tv BID_KX256 4 i < 2 ^ 256 * 2 ^ 256 := Nat.mul_lt_mul'' this hKlt
      _ = 2 ^ 512 := by rw [← Nat.pow_add]
  have hsp := r256Split_spec i hi _ hP
  unfold Split256OK at hsp
  obtain ⟨_, s0, s1, s2, s3, _, f0, f1, f2, f3, f4, f5, f6, f7, _⟩ := hsp
  generalize RH.r256Split i (C'.val * tv BID_KX256 4 i) = sp at *
  obtain ⟨_, m0, m1, m2, m3⟩ :=
    r256Midpoint_spec i sp.1 sp.2 (RH.r256Inexact i sp.2) s0 s1 s2 s3 f0 f1 f2 f3 f4 f5 f6 f7
  obtain ⟨_, o0, o1, o2, o3⟩ := r256Ovf_spec q (i + 1) _ (by omega) (by omega) m0 m1 m2 m3
  exact ⟨o0, o1, o2, o3⟩
end

theorem n128_u128 (c : RH.U128) (h0 : c.w0 < 2 ^ 64) (h1 : c.w1 < 2 ^ 64) : n128 (u128 c) = c := by
  unfold n128 u128; simp only [ofNat_toNat_lt _ h0, ofNat_toNat_lt _ h1]
theorem n192_u192 (c : RH.U192) (h0 : c.w0 < 2 ^ 64) (h1 : c.w1 < 2 ^ 64) (h2 : c.w2 < 2 ^ 64) : n192 (u192 c) = c := by
  unfold n192 u192; simp only [ofNat_toNat_lt _ h0, ofNat_toNat_lt _ h1, ofNat_toNat_lt _ h2]
theorem n256_u256 (c : RH.U256) (h0 : c.w0 < 2 ^ 64) (h1 : c.w1 < 2 ^ 64) (h2 : c.w2 < 2 ^ 64) (h3 : c.w3 < 2 ^ 64) :
    n256 (u256 c) = c := by
  unfold n256 u256; simp only [ofNat_toNat_lt _ h0, ofNat_toNat_lt _ h1, ofNat_toNat_lt _ h2, ofNat_toNat_lt _ h3]

/-- **The bridges read through `.toNat`**: the translated routine returns `.ok`, and its result — the words of `C*` through
`.toNat`, `incr_exp`, the four indicators — is the model's output on the `.toNat` words of `C`, for every coefficient. -/
theorem bid_round64_2_18_toNat (qn xn : Nat) (C : UInt64) (hq : 2 ≤ qn) (hq' : qn ≤ 18) (hx : 1 ≤ xn) (hxq : xn + 1 ≤ qn) :
    ∃ (cs : UInt64) (incr lt gt ilt igt : Bool),
      Code.bid_round64_2_18 (Int32.ofNat qn) (Int32.ofNat xn) C false false false false false =
        .ok (cs, incr, lt, gt, ilt, igt) ∧
      cs.toNat = (RH.round64 qn xn C.toNat).cstar ∧ incr = (RH.round64 qn xn C.toNat).incrExp ∧
      (⟨lt, gt, ilt, igt⟩ : RH.Ind) = (RH.round64 qn xn C.toNat).ind :=
  ⟨_, _, _, _, _, _, bid_round64_2_18_eq qn xn C hq hq' hx hxq,
    ofNat_toNat_lt _ (round64_word qn xn C.toNat hq hq' hx hxq), rfl, rfl⟩

theorem bid_round128_19_38_toNat (qn xn : Nat) (C : Rs.U128) (hq : 19 ≤ qn) (hq' : qn ≤ 38) (hx : 1 ≤ xn)
    (hxq : xn + 1 ≤ qn) :
    ∃ (cs : Rs.U128) (incr lt gt ilt igt : Bool),
      Code.bid_round128_19_38 (Int32.ofNat qn) (Int32.ofNat xn) C false false false false false =
        .ok (cs, incr, lt, gt, ilt, igt) ∧
      n128 cs = (RH.round128 qn xn (n128 C)).cstar ∧ incr = (RH.round128 qn xn (n128 C)).incrExp ∧
      (⟨lt, gt, ilt, igt⟩ : RH.Ind) = (RH.round128 qn xn (n128 C)).ind := by
  obtain ⟨b0, b1⟩ := round128_words qn xn (n128 C) hq hq' hx hxq C.w0.toNat_lt C.w1.toNat_lt
  exact ⟨_, _, _, _, _, _, bid_round128_19_38_eq qn xn C hq hq' hx hxq, n128_u128 _ b0 b1, rfl, rfl⟩

theorem bid_round192_39_57_toNat (qn xn : Nat) (C : Rs.U192) (hq : 39 ≤ qn) (hq' : qn ≤ 57) (hx : 1 ≤ xn)
    (hxq : xn + 1 ≤ qn) :
    ∃ (cs : Rs.U192) (incr lt gt ilt igt : Bool),
      Code.bid_round192_39_57 (Int32.ofNat qn) (Int32.ofNat xn) C false false false false false =
        .ok (cs, incr, lt, gt, ilt, igt) ∧
      n192 cs = (RH.round192 qn xn (n192 C)).cstar ∧ incr = (RH.round192 qn xn (n192 C)).incrExp ∧
      (⟨lt, gt, ilt, igt⟩ : RH.Ind) = (RH.round192 qn xn (n192 C)).ind := by
  obtain ⟨b0, b1, b2⟩ := round192_words qn xn (n192 C) hq hq' hx hxq C.w0.toNat_lt C.w1.toNat_lt C.w2.toNat_lt
  exact ⟨_, _, _, _, _, _, bid_round192_39_57_eq qn xn C hq hq' hx hxq, n192_u192 _ b0 b1 b2, rfl, rfl⟩

theorem bid_round256_58_76_toNat (qn xn : Nat) (C : Rs.U256) (hq : 58 ≤ qn) (hq' : qn ≤ 76) (hx : 1 ≤ xn)
    (hxq : xn + 1 ≤ qn) :
    ∃ (cs : Rs.U256) (incr lt gt ilt igt : Bool),
      Code.bid_round256_58_76 (Int32.ofNat qn) (Int32.ofNat xn) C false false false false false =
        .ok (cs, incr, lt, gt, ilt, igt) ∧
      n256 cs = (RH.round256 qn xn (n256 C)).cstar ∧ incr = (RH.round256 qn xn (n256 C)).incrExp ∧
      (⟨lt, gt, ilt, igt⟩ : RH.Ind) = (RH.round256 qn xn (n256 C)).ind := by
  obtain ⟨b0, b1, b2, b3⟩ := round256_words qn xn (n256 C) hq hq' hx hxq C.w0.toNat_lt C.w1.toNat_lt C.w2.toNat_lt
    C.w3.toNat_lt
  exact ⟨_, _, _, _, _, _, bid_round256_58_76_eq qn xn C hq hq' hx hxq, n256_u256 _ b0 b1 b2 b3, rfl, rfl⟩

end Dec.C02GenRound
