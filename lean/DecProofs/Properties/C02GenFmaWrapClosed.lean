/-
  C02GenFmaWrapClosed — the hypothesis `AarSpec` of C02GenFmaWrap.lean (the specification of `bid_add_and_round`) is
  `Dec.C02GenFmaLow.add_and_round_spec`, binder for binder; with it the theorems of C02GenFmaWrap about the call sites of
  `bid_add_and_round` in `bid128_ext_fma` hold without hypothesis:

    * `aarSpec`            : `AarSpec`
    * `case1517_spec'`, `case1517_fma'`  : Cases (15), (16), (17) return the encoding of `fmaD …` and its flags
    * `arm26_spec'`, `arm26_fma'`, `arm26_fma_swapped'` : the `delta ≤ 1`, opposite-signs arm of Cases (2)–(6), entered in the
      first pass or after the operand swap, returns the encoding of `fmaD …` and its flags.
-/
import DecProofs.Properties.C02GenFmaLow
import DecProofs.Properties.C02GenFmaWrap

namespace Dec.C02GenFmaWrapClosed
open Dec Dec.Rs Dec.Gen.Code
open Dec.C02GenCorrection (ofBits modeOf)
open Dec.C02GenRound (v128 v256)
open Dec.C02GenFmaSwap (sgnW)
open Dec.C02GenFmaWrap

/-- **the specification of `bid_add_and_round` holds** (proved in C02GenFmaLow.lean) -/
theorem aarSpec : AarSpec :=
  fun q3 q4 e4 delta p34 z_sign p_sign C3 C4 m b1 b2 b3 b4 f sz sp hzs hps hp34 E he4 hElo hEhi sc hsc hsc2 hC4 hA hB hN =>
    Dec.C02GenFmaLow.add_and_round_spec q3 q4 e4 delta p34 z_sign p_sign C3 C4 m b1 b2 b3 b4 f sz sp hzs hps hp34 E he4 hElo hEhi
      sc hsc hsc2 hC4 hA hB hN

/-- Cases (15)–(17), block specification, without hypothesis -/
theorem case1517_spec' (m : RoundingMode) (f : UInt32) (ps zs : Bool) (C3 : U128) (C4 : U256)
    (q3n q4n : Nat) (e3 e4 : Int) (q3 q4 e4w delta : Int32) (b1 b2 b3 b4 : Bool)
    (hq3w : q3.toInt = q3n) (hq4w : q4.toInt = q4n)
    (hq3 : 1 ≤ q3n) (hq3' : q3n ≤ 34) (hc3 : v128 C3 < 10 ^ q3n)
    (hq4' : q4n ≤ 68) (hc4lo : 0 < v256 C4) (hc4 : v256 C4 < 10 ^ q4n)
    (he3' : e3 ≤ 6111) (he4 : -12352 ≤ e4)
    (hew : e4w.toInt = e4) (hdelta : delta.toInt = q4n + e4 - q3n - e3) (hd0 : 0 ≤ delta.toInt) (hd1 : delta.toInt < 2^19)
    (hcond : cond1517 q3 q4 delta 34 = true) :
    ∃ lt gt ilt igt : Bool,
      case1517K q3 q4 e4w delta 34 (sgnW zs) (sgnW ps) C3 C4 m b1 b2 b3 b4 f =
        .ok (ofBits (encode (addFin (modeOf m) ps (v256 C4) e4 zs (v128 C3) e3 e4).1), lt, gt, ilt, igt,
             f ||| UInt32.ofNat (addFin (modeOf m) ps (v256 C4) e4 zs (v128 C3) e3 e4).2) :=
  case1517_spec aarSpec m f ps zs C3 C4 q3n q4n e3 e4 q3 q4 e4w delta b1 b2 b3 b4 hq3w hq4w hq3 hq3' hc3 hq4' hc4lo hc4 he3' he4 hew hdelta hd0 hd1 hcond

/-- **Cases (15)–(17) against `fmaD`**, without hypothesis -/
theorem case1517_fma' (m : RoundingMode) (f : UInt32) (s1 s2 s3 : Bool) (c1 c2 : Nat) (e1 e2 : Int)
    (C3 : U128) (C4 : U256) (q3n q4n : Nat) (e3 : Int) (q3 q4 e4w delta : Int32) (b1 b2 b3 b4 : Bool)
    (hq3w : q3.toInt = q3n) (hq4w : q4.toInt = q4n)
    (hq3 : 1 ≤ q3n) (hq3' : q3n ≤ 34) (hc3 : v128 C3 < 10 ^ q3n)
    (hq4' : q4n ≤ 68) (hprod : v256 C4 = c1 * c2) (hc4lo : 0 < c1 * c2) (hc4 : c1 * c2 < 10 ^ q4n)
    (he3' : e3 ≤ 6111) (he4 : -12352 ≤ e1 + e2)
    (hew : e4w.toInt = e1 + e2) (hdelta : delta.toInt = q4n + (e1 + e2) - q3n - e3) (hd0 : 0 ≤ delta.toInt)
    (hd1 : delta.toInt < 2^19) (hcond : cond1517 q3 q4 delta 34 = true) :
    ∃ lt gt ilt igt : Bool,
      case1517K q3 q4 e4w delta 34 (sgnW s3) (sgnW (s1 != s2)) C3 C4 m b1 b2 b3 b4 f =
        .ok (ofBits (encode (fmaD (modeOf m) false (.fin s1 c1 e1) (.fin s2 c2 e2) (.fin s3 (v128 C3) e3)).1), lt, gt, ilt, igt,
             f ||| UInt32.ofNat (fmaD (modeOf m) false (.fin s1 c1 e1) (.fin s2 c2 e2) (.fin s3 (v128 C3) e3)).2) :=
  case1517_fma aarSpec m f s1 s2 s3 c1 c2 e1 e2 C3 C4 q3n q4n e3 q3 q4 e4w delta b1 b2 b3 b4 hq3w hq4w hq3 hq3' hc3 hq4' hprod hc4lo hc4 he3' he4 hew hdelta hd0 hd1 hcond

/-- the cancellation arm (`delta ≤ 1`, opposite signs) of Cases (2)–(6), block specification, without hypothesis -/
theorem arm26_spec' (m : RoundingMode) (f : UInt32) (ps zs : Bool) (C3 : U128) (C4 : U256)
    (q3n q4n : Nat) (e3 e4 : Int) (q3 q4 e3w e4w delta : Int32) (b1 b2 b3 b4 : Bool)
    (hq3w : q3.toInt = q3n) (hq4w : q4.toInt = q4n)
    (hq3 : 1 ≤ q3n) (hq3' : q3n ≤ 34) (hc3lo : 0 < v128 C3) (hc3 : v128 C3 < 10 ^ q3n)
    (hq4 : 1 ≤ q4n) (hq4' : q4n ≤ 68) (hc4lo : 0 < v256 C4) (hc4 : v256 C4 < 10 ^ q4n)
    (he3 : -12352 ≤ e3) (he3' : e3 ≤ 12222) (he4 : -12352 ≤ e4) (he4' : e4 ≤ 12222) (hmin : e3 ≤ 6111 ∨ e4 ≤ 6111)
    (hew3 : e3w.toInt = e3) (hew : e4w.toInt = e4) (hdelta : delta.toInt = q3n + e3 - q4n - e4)
    (hd0 : 0 ≤ delta.toInt) (hd1 : delta.toInt ≤ 1) (hsign : ps ≠ zs) :
    ∃ lt gt ilt igt : Bool,
      arm26K q3 q4 e3w e4w delta 34 (sgnW zs) (sgnW ps) C3 C4 m b1 b2 b3 b4 f =
        .ok (ofBits (encode (addFin (modeOf m) ps (v256 C4) e4 zs (v128 C3) e3 (if e4 ≤ e3 then e4 else e3)).1), lt, gt, ilt, igt,
             f ||| UInt32.ofNat (addFin (modeOf m) ps (v256 C4) e4 zs (v128 C3) e3 (if e4 ≤ e3 then e4 else e3)).2) :=
  arm26_spec aarSpec m f ps zs C3 C4 q3n q4n e3 e4 q3 q4 e3w e4w delta b1 b2 b3 b4 hq3w hq4w hq3 hq3' hc3lo hc3 hq4 hq4' hc4lo hc4 he3 he3' he4 he4' hmin hew3 hew hdelta hd0 hd1 hsign

/-- **the cancellation arm of Cases (2)–(6) against `fmaD`, entered in the first pass**, without hypothesis -/
theorem arm26_fma' (m : RoundingMode) (f : UInt32) (s1 s2 s3 : Bool) (c1 c2 : Nat) (e1 e2 : Int)
    (C3 : U128) (C4 : U256) (q3n q4n : Nat) (e3 : Int) (q3 q4 e3w e4w delta : Int32) (b1 b2 b3 b4 : Bool)
    (hq3w : q3.toInt = q3n) (hq4w : q4.toInt = q4n)
    (hq3 : 1 ≤ q3n) (hq3' : q3n ≤ 34) (hc3lo : 0 < v128 C3) (hc3 : v128 C3 < 10 ^ q3n)
    (hq4 : 1 ≤ q4n) (hq4' : q4n ≤ 68) (hprod : v256 C4 = c1 * c2) (hc4lo : 0 < c1 * c2) (hc4 : c1 * c2 < 10 ^ q4n)
    (he3 : -6176 ≤ e3) (he3' : e3 ≤ 6111) (he4 : -12352 ≤ e1 + e2) (he4' : e1 + e2 ≤ 12222)
    (hew3 : e3w.toInt = e3) (hew : e4w.toInt = e1 + e2) (hdelta : delta.toInt = q3n + e3 - q4n - (e1 + e2))
    (hd0 : 0 ≤ delta.toInt) (hd1 : delta.toInt ≤ 1) (hsign : (s1 != s2) ≠ s3) :
    ∃ lt gt ilt igt : Bool,
      arm26K q3 q4 e3w e4w delta 34 (sgnW s3) (sgnW (s1 != s2)) C3 C4 m b1 b2 b3 b4 f =
        .ok (ofBits (encode (fmaD (modeOf m) false (.fin s1 c1 e1) (.fin s2 c2 e2) (.fin s3 (v128 C3) e3)).1), lt, gt, ilt, igt,
             f ||| UInt32.ofNat (fmaD (modeOf m) false (.fin s1 c1 e1) (.fin s2 c2 e2) (.fin s3 (v128 C3) e3)).2) :=
  arm26_fma aarSpec m f s1 s2 s3 c1 c2 e1 e2 C3 C4 q3n q4n e3 q3 q4 e3w e4w delta b1 b2 b3 b4 hq3w hq4w hq3 hq3' hc3lo hc3 hq4 hq4' hprod hc4lo hc4 he3 he3' he4 he4' hew3 hew hdelta hd0 hd1 hsign

/-- **the cancellation arm of Cases (2)–(6) against `fmaD`, entered after the operand swap**, without hypothesis -/
theorem arm26_fma_swapped' (m : RoundingMode) (f : UInt32) (s1 s2 s3 : Bool) (c1 c2 c3 : Nat) (e1 e2 : Int)
    (C3 : U128) (C4 : U256) (q3n q4n : Nat) (e3 : Int) (q3 q4 e3w e4w delta : Int32) (b1 b2 b3 b4 : Bool)
    (hq3w : q3.toInt = q3n) (hq4w : q4.toInt = q4n)
    (hq3 : 1 ≤ q3n) (hq3' : q3n ≤ 34) (hprod : v128 C3 = c1 * c2) (hc3lo : 0 < c1 * c2) (hc3 : c1 * c2 < 10 ^ q3n)
    (hq4 : 1 ≤ q4n) (hq4' : q4n ≤ 34) (hz : v256 C4 = c3) (hc4lo : 0 < c3) (hc4 : c3 < 10 ^ q4n)
    (he3 : -6176 ≤ e3) (he3' : e3 ≤ 6111) (he4 : -12352 ≤ e1 + e2) (he4' : e1 + e2 ≤ 12222)
    (hew3 : e3w.toInt = e1 + e2) (hew : e4w.toInt = e3) (hdelta : delta.toInt = q3n + (e1 + e2) - q4n - e3)
    (hd0 : 0 ≤ delta.toInt) (hd1 : delta.toInt ≤ 1) (hsign : (s1 != s2) ≠ s3) :
    ∃ lt gt ilt igt : Bool,
      arm26K q3 q4 e3w e4w delta 34 (sgnW (s1 != s2)) (sgnW s3) C3 C4 m b1 b2 b3 b4 f =
        .ok (ofBits (encode (fmaD (modeOf m) false (.fin s1 c1 e1) (.fin s2 c2 e2) (.fin s3 c3 e3)).1), lt, gt, ilt, igt,
             f ||| UInt32.ofNat (fmaD (modeOf m) false (.fin s1 c1 e1) (.fin s2 c2 e2) (.fin s3 c3 e3)).2) :=
  arm26_fma_swapped aarSpec m f s1 s2 s3 c1 c2 c3 e1 e2 C3 C4 q3n q4n e3 q3 q4 e3w e4w delta b1 b2 b3 b4 hq3w hq4w hq3 hq3' hprod hc3lo hc3 hq4 hq4' hz hc4lo hc4 he3 he3' he4 he4' hew3 hew hdelta hd0 hd1 hsign

end Dec.C02GenFmaWrapClosed
