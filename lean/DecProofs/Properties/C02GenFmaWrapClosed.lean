/-
  C02GenFmaWrapClosed — the hypothesis `AarSpec` of C02GenFmaWrap.lean discharged by `Dec.C02GenFmaLow.add_and_round_spec`
  (C02GenFmaLow.lean), and the block theorems of C02GenFmaWrap without hypothesis: Cases (15)–(17) and the `delta <= 1`,
  opposite-signs arm of Cases (2)–(6) of `bid128_ext_fma` return the encoding of `fmaD` and `f ||| flags`.
-/
import DecProofs.Properties.C02GenFmaWrap
import DecProofs.Properties.C02GenFmaLow

namespace Dec.C02GenFmaWrap

/-- `AarSpec` holds: it is, binder for binder, `add_and_round_spec` -/
theorem aarSpec : AarSpec := by
  unfold AarSpec
  exact Dec.C02GenFmaLow.add_and_round_spec

/-- Cases (15)–(17), closed -/
theorem case1517_fma_closed : type_of% (@case1517_fma aarSpec) := @case1517_fma aarSpec
/-- the arm, entered in the first pass, closed -/
theorem arm26_fma_closed : type_of% (@arm26_fma aarSpec) := @arm26_fma aarSpec
/-- the arm, entered in the second pass (after the swap), closed -/
theorem arm26_fma_swapped_closed : type_of% (@arm26_fma_swapped aarSpec) := @arm26_fma_swapped aarSpec
/-- the general forms, closed -/
theorem case1517_spec_closed : type_of% (@case1517_spec aarSpec) := @case1517_spec aarSpec
theorem arm26_spec_closed : type_of% (@arm26_spec aarSpec) := @arm26_spec aarSpec

end Dec.C02GenFmaWrap
