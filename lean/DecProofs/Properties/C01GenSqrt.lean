/-
  C01GenSqrt — the translated square root `Dec.Gen.Code.bid128_sqrt` (bid128_sqrt.rs), with its helpers `short_sqrt128`
  and `bid_long_sqrt128` (bid_sqrt_macros.rs), against the model `Dec.sqrtD` (DecModel/Arith.lean).

  RESULT.  For every operand that is not a NaN (canonical or not), every rounding mode and every status word on entry
      bid128_sqrt x m f = .ok (encoding of (sqrtD (md m) (dOf x)).1 , f ||| flags of sqrtD)
  (`sqrt_spec_long_partial`) — the routine does not fail, returns the canonical encoding of the datum `sqrtD` gives
  (value, preferred exponent `⌊e/2⌋` for exact roots and zeros, 34 digits otherwise, 10^34 renormalised) and ORs
  exactly `sqrtD`'s flags (nothing / invalid / inexact) into the status word — RELATIVE TO ONE RESIDUAL HYPOTHESIS:
      LongOK C :  bid_long_sqrt128 _ C256 = .ok r  with  r = ⌊√C⌋ or ⌊√C⌋ + 1      for 10^66 ≤ C < 10^68.
  NaN operands are `C12GenNaN.sqrt_nan`.  Unconditional (no hypothesis at all):
    * the front end: `sqrt_neg_inf`, `sqrt_pos_inf`, `sqrt_neg` (−x → invalid, default NaN), `sqrt_zero` (±0, any
      exponent, canonical or not → ±0 with the exponent halved, floor);
    * THE EXACT-ROOT PATH `sqrt_exact_root`: if `c·10^(e mod 2) = n²` the result is `+n·10^(e div 2)`, no flag, in all
      modes (= `sqrtD`).  This rests on the full proof of the first helper:
    * `short_ok`: for `1 ≤ A < 10^35`, `short_sqrt128 A` does not fail, is `< 2^63`, and `= n` whenever `A = n²`
      (float estimate `short_float`: the four f64 operations never fail and `ly²·A = 1 ± 2^-40`; `natSqrt_spec`: the
      model's Newton iteration is `⌊√·⌋`; then the fixed-point first-order correction, `short_exact_nat`).
  Relative to `LongOK` (everything else proved): the digit count (`digits_stage`, `d_to_tail`: the f32 chain and the
  two tables give `ndigits c`), the scale factor and `C256 = c·10^scale` exactly on both multiplication paths, `C4`, the
  rounding step in all five modes (`tail_nearest`, `tail_directed`: every compare, borrow/carry chain and ±1 fix-up),
  the inexact flag, the 10^34 renormalisation of `bid_get_BID128_fast`, and `sqrtD`'s rounding from the remainder
  (`sqrtD_inexact`, via `FinishSpecStrict` uniqueness).

  FINDINGS.
   1. (the flagged line, bid128_sqrt.rs directed branch)  `CS.w[0] += 1; if CS.w[0] != 0 { CS.w[1] += 1 }` — the C
      original has `if (!CS.w[0]) CS.w[1]++`.  As written the line is WRONG: it adds 2^64 to `CS` whenever the low word
      does not wrap (`incBug`, example in §10).  It is UNREACHABLE as long as `bid_long_sqrt128` returns `⌊√C⌋` or
      `⌊√C⌋+1` (`flagged_guard_false`; `tail_directed` skips the branch with exactly this fact), and REACHED iff it
      ever returned `⌊√C⌋ − 1` or less (`flagged_guard_true`).  No input reaching it is known: 2.4 million sampled
      `C` (random, and adjacent to perfect squares) all gave `⌊√C⌋` or `⌊√C⌋+1`; see the error budget below.
   2. No deviation of the routine from `sqrtD` found (19 930 sampled operand/mode pairs evaluated in the Lean model
      agree; all special cases proved).
   3. (`__shr_256`, used by `short_sqrt128`) shifts only the two low words, as the C macro `__shr_128` it replaces
      does; all call sites are consistent with that (proved, `es_case_c`/`es_case_d`).
   4. (`short_sqrt128`, final shift) for `k = ey + 51 ≥ 128` the code subtracts 128 and then another 64 (as the C
      original); unreachable, `ey ≤ 59` (`short_float`).

  WHY `LongOK` IS LEFT OPEN (error budget, informal).  `bid_long_sqrt128` corrects the f64 estimate `ly ≈ C^(-1/2)`
  to second order in `η = ly²C − 1`.  Its result is `round(√C + err)` with `err ≤ 0` essentially
  `−(7/8)·|η|·√C / 2^63` (the second-order term uses only the top word `ES.w[1] ≈ η·2^63`, about 13 bits, truncated).
  With per-operation relative error bounds `2^-53` one gets `|err| ≤ 0.53` — not enough; with the half-ulp bounds per
  binade one gets `|err| ≤ 0.39 < 1/2` (worst near `C = 10^68`; observed worst in sampling: 0.353).  So the property
  holds with a margin of about 20 %, but its proof needs the binade-wise error analysis of the four-term f64 sum, `√`
  and `1/·` and the exact bookkeeping of the second-order correction; not done here.

  METHOD.  `bid128_sqrt` is one `do` block of 180 lines.  It is cut into pieces by *suffix copies* (`sqrtFromTest`,
  `sqrtFromD`, `sqrtTail`, `sqrtFin`; `shortFromES`, `shortFromS`): definitions that repeat the text of the routine from
  a given line on with all local variables as parameters; that they are the rest of the routine is proved by `rfl` after
  stepping through the lines before (`head_step`/`take_*` of C12GenNaN), so nothing rests on the copies.  `jp_merge`
  turns `if c then J v' else J v` (an `if` without `else` followed by the rest `J` of the routine) into
  `J (if c then v' else v)`.  Exact multi-word facts: C01GenArith.  f64 toolkit (`Rep`, `rn53`, `fpRound_rep`,
  `lx_rep`): C10GenRem §1–5.
-/
import DecProofs.Properties.C01GenMul
import DecProofs.Properties.C01GenArith
import DecProofs.Properties.C11GenLogb
import DecProofs.TableFacts.F_BID_POWER10_TABLE_128
import DecProofs.Core.RoundInt
import DecProofs.Properties.C10GenRem
import Mathlib.Tactic.Linarith
import Mathlib.Tactic.Ring
import Mathlib.Tactic.NormNum
import Mathlib.Tactic.Positivity
import Mathlib.Tactic.GCongr

set_option linter.unusedSimpArgs false
set_option linter.unusedVariables false
set_option linter.unusedTactic false

namespace Dec.C01GenSqrt


/-! ## The arithmetic of the rounding step (no code here) -/

theorem zpow_unique {v : ℚ} {a b : Int} (ha1 : (10 : ℚ) ^ a ≤ v) (ha2 : v < (10 : ℚ) ^ (a + 1))
    (hb1 : (10 : ℚ) ^ b ≤ v) (hb2 : v < (10 : ℚ) ^ (b + 1)) : a = b := by
  have h1 : (10 : ℚ) ^ a < (10 : ℚ) ^ (b + 1) := lt_of_le_of_lt ha1 hb2
  have h2 : (10 : ℚ) ^ b < (10 : ℚ) ^ (a + 1) := lt_of_le_of_lt hb1 ha2
  have := (zpow_lt_zpow_iff_right₀ (by norm_num : (1 : ℚ) < 10)).1 h1
  have := (zpow_lt_zpow_iff_right₀ (by norm_num : (1 : ℚ) < 10)).1 h2
  omega

/-- `ilog10Ratio` from integer bounds -/
theorem ilog10Ratio_eq (n d L : Nat) (hd : 0 < d) (h1 : d * 10 ^ L ≤ n) (h2 : n < d * 10 ^ (L + 1)) :
    ilog10Ratio n d = L := by
  have hn : 0 < n := lt_of_lt_of_le (Nat.mul_pos hd (Nat.pow_pos (by decide))) h1
  obtain ⟨s1, s2⟩ := ilog10Ratio_spec hn hd
  have hdq : (0 : ℚ) < d := by exact_mod_cast hd
  have b1 : (10 : ℚ) ^ (L : Int) ≤ (n : ℚ) / d := by
    rw [le_div_iff₀ hdq, zpow_natCast]
    have : ((d * 10 ^ L : Nat) : ℚ) ≤ (n : ℚ) := by exact_mod_cast h1
    push_cast at this; linarith
  have b2 : (n : ℚ) / d < (10 : ℚ) ^ ((L : Int) + 1) := by
    rw [div_lt_iff₀ hdq]
    have : ((n : Nat) : ℚ) < ((d * 10 ^ (L + 1) : Nat) : ℚ) := by exact_mod_cast h2
    push_cast at this
    have e : (10 : ℚ) ^ ((L : Int) + 1) = (10 : ℚ) ^ (L + 1) := by
      rw [← zpow_natCast]; push_cast; rfl
    rw [e]; linarith
  exact zpow_unique s1 s2 b1 b2

/-- `a² < N < (r+1)²` gives `a ≤ r` -/
theorem le_of_sq_lt {a r N : Nat} (h1 : a * a < N) (h2 : N < (r + 1) * (r + 1)) : a ≤ r := by
  by_contra h
  have : (r + 1) * (r + 1) ≤ a * a := Nat.mul_self_le_mul_self (by omega)
  omega
/-- `r² ≤ N < a²` gives `r < a` -/
theorem lt_of_lt_sq {a r N : Nat} (h1 : r * r ≤ N) (h2 : N < a * a) : r < a := by
  by_contra h
  have : a * a ≤ r * r := Nat.mul_self_le_mul_self (by omega)
  omega

/-- the coefficient delivered, by mode, from `s = ⌊√C⌋` (`C` not a square, positive sign) -/
def pickM (mode : Mode) (C s : Nat) : Nat :=
  match mode with
  | .rne | .rna => if (2 * s + 1) * (2 * s + 1) < 4 * C then s + 1 else s
  | .rdn | .rtz => s
  | .rup => s + 1

theorem pickM_rounded (mode : Mode) (C s r j : Nat) (hj : 1 ≤ j)
    (hs1 : s * s < C) (hs2 : C < (s + 1) * (s + 1))
    (hr1 : r * r ≤ C * 10 ^ (2 * j)) (hr2 : C * 10 ^ (2 * j) < (r + 1) * (r + 1)) :
    RoundedInt mode false (4 * r + 1) (4 * 10 ^ j) (pickM mode C s) ∧ s * (4 * 10 ^ j) < 4 * r + 1
      ∧ 4 * r + 1 < (s + 1) * (4 * 10 ^ j) := by
  have hPP : (10 : Nat) ^ (2 * j) = 10 ^ j * 10 ^ j := by rw [two_mul, Nat.pow_add]
  obtain ⟨P2, hP2⟩ : ∃ P2, 10 ^ j = 2 * P2 := ⟨5 * 10 ^ (j - 1), by
    have : j = (j - 1) + 1 := by omega
    conv_lhs => rw [this, Nat.pow_succ]
    omega⟩
  generalize hP : 10 ^ j = P at *
  rw [hPP] at hr1 hr2
  have hP0 : 0 < P := by rw [← hP]; exact Nat.pow_pos (by decide)
  have hPpos : 0 < P * P := Nat.mul_pos hP0 hP0
  -- s·P ≤ r < (s+1)·P
  have ha : s * P ≤ r := by
    apply le_of_sq_lt _ hr2
    calc s * P * (s * P) = s * s * (P * P) := by ring
      _ < C * (P * P) := Nat.mul_lt_mul_of_pos_right hs1 hPpos
  have hb : r < (s + 1) * P := by
    apply lt_of_lt_sq hr1
    calc C * (P * P) < (s + 1) * (s + 1) * (P * P) :=
          Nat.mul_lt_mul_of_pos_right hs2 hPpos
      _ = (s + 1) * P * ((s + 1) * P) := by ring
  have e1 : s * (4 * P) = 4 * (s * P) := by ring
  have e2 : (s + 1) * (4 * P) = 4 * ((s + 1) * P) := by ring
  refine ⟨?_, by rw [e1]; omega, by rw [e2]; omega⟩
  -- the half-way point h = (2s+1)·P2, an integer
  have hhalf : (2 * s + 1) * (2 * s + 1) < 4 * C → (2 * s + 1) * P2 ≤ r := by
    intro h
    apply le_of_sq_lt _ hr2
    have : 4 * ((2 * s + 1) * P2 * ((2 * s + 1) * P2)) < 4 * (C * (P * P)) := by
      calc 4 * ((2 * s + 1) * P2 * ((2 * s + 1) * P2)) = (2 * s + 1) * (2 * s + 1) * (P * P) := by rw [hP2]; ring
        _ < 4 * C * (P * P) := Nat.mul_lt_mul_of_pos_right h hPpos
        _ = 4 * (C * (P * P)) := by ring
    omega
  have hhalf' : ¬ (2 * s + 1) * (2 * s + 1) < 4 * C → r < (2 * s + 1) * P2 := by
    intro h
    have hgt : 4 * C < (2 * s + 1) * (2 * s + 1) := by
      have : (2 * s + 1) * (2 * s + 1) = 4 * (s * s + s) + 1 := by ring
      omega
    apply lt_of_lt_sq hr1
    have : 4 * (C * (P * P)) < 4 * ((2 * s + 1) * P2 * ((2 * s + 1) * P2)) := by
      calc 4 * (C * (P * P)) = 4 * C * (P * P) := by ring
        _ < (2 * s + 1) * (2 * s + 1) * (P * P) :=
            Nat.mul_lt_mul_of_pos_right hgt hPpos
        _ = 4 * ((2 * s + 1) * P2 * ((2 * s + 1) * P2)) := by rw [hP2]; ring
    omega
  have e3 : (2 * s + 1) * P2 * 2 = s * P * 2 + P := by rw [hP2]; ring
  have e4 : (s + 1) * P = s * P + P := by ring
  generalize hsP : s * P = sP at *
  generalize hH : (2 * s + 1) * P2 = H at *
  have e5 : (s + 1) * (4 * P) = 4 * sP + 4 * P := by rw [e2, e4]; ring
  have e6 : 2 * s * (4 * P) = 8 * sP := by rw [← hsP]; ring
  have e7 : 2 * (s + 1) * (4 * P) = 8 * sP + 8 * P := by rw [← hsP]; ring
  cases mode <;> simp only [pickM, RoundedInt, Bool.false_eq_true, if_false]
  · -- rne
    by_cases hc : (2 * s + 1) * (2 * s + 1) < 4 * C
    · have := hhalf hc
      rw [if_pos hc, e7]
      refine ⟨⟨by omega, by omega⟩, fun h => by omega⟩
    · have := hhalf' hc
      rw [if_neg hc, e6]
      refine ⟨⟨by omega, by omega⟩, fun h => by omega⟩
  · rw [e1]; omega
  · rw [e5]; omega
  · rw [e1]; omega
  · -- rna
    by_cases hc : (2 * s + 1) * (2 * s + 1) < 4 * C
    · have := hhalf hc
      rw [if_pos hc, e7]
      refine ⟨⟨by omega, by omega⟩, fun h => by omega⟩
    · have := hhalf' hc
      rw [if_neg hc, e6]
      refine ⟨⟨by omega, by omega⟩, fun h => by omega⟩

/-- **the rounding step of `sqrtD` evaluated**: for `N = C·10^(2j)` (`j ≥ 1`), `C` a non-square with a 34-digit integer root
`s = ⌊√C⌋`, `r = ⌊√N⌋`, the model's `finish` on the representative `r + 1/4` at exponent `E` delivers the coefficient
`pickM mode C s` at exponent `E + j` (renormalised when it is 10^34), inexact. -/
theorem finish_sqrt (mode : Mode) (C s r j : Nat) (E pref : Int) (hj : 1 ≤ j)
    (hs1 : s * s < C) (hs2 : C < (s + 1) * (s + 1))
    (hr1 : r * r ≤ C * 10 ^ (2 * j)) (hr2 : C * 10 ^ (2 * j) < (r + 1) * (r + 1))
    (hsl : 10 ^ 33 ≤ s) (hsu : s < 10 ^ 34) (hX1 : eMin ≤ E + j) (hX2 : E + j + 1 ≤ eMax) :
    finish mode false (4 * r + 1) 4 E pref =
      (if pickM mode C s = P34 then Datum.fin false P33 (E + j + 1) else Datum.fin false (pickM mode C s) (E + j),
        fInexact) := by
  obtain ⟨hR, hlo, hhi⟩ := pickM_rounded mode C s r j hj hs1 hs2 hr1 hr2
  simp only [eMin, eMax] at hX1 hX2
  -- ⌊log₁₀ (r + 1/4)⌋ = 33 + j
  have hL : ilog10Ratio (4 * r + 1) 4 = ((33 + j : Nat) : Int) := by
    apply ilog10Ratio_eq _ _ _ (by decide)
    · have : 4 * 10 ^ (33 + j) = 10 ^ 33 * (4 * 10 ^ j) := by rw [Nat.pow_add]; ring
      rw [this]
      have : 10 ^ 33 * (4 * 10 ^ j) ≤ s * (4 * 10 ^ j) := Nat.mul_le_mul_right _ hsl
      omega
    · have : 4 * 10 ^ (33 + j + 1) = 10 ^ 34 * (4 * 10 ^ j) := by
        rw [show 33 + j + 1 = 34 + j from by omega, Nat.pow_add]; ring
      rw [this]
      have : (s + 1) * (4 * 10 ^ j) ≤ 10 ^ 34 * (4 * 10 ^ j) := Nat.mul_le_mul_right _ (by omega)
      omega
  rw [finish_eq, hL]
  have hlg : ((33 + j : Nat) : Int) + E = 33 + (E + j) := by push_cast; ring
  rw [hlg, if_neg (by omega), if_neg (by omega)]
  have hx0 : fx0 (33 + (E + j)) = E + j := by
    unfold fx0; split
    · rename_i h; simp only [eMin] at h; omega
    · ring
  rw [hx0]
  have hsh : E - (E + j) = -(j : Int) := by ring
  rw [hsh]
  have hnum : fnum (4 * r + 1) (-(j : Int)) = 4 * r + 1 := by unfold fnum; rw [if_neg (by omega)]
  have hden : fden 4 (-(j : Int)) = 4 * 10 ^ j := by
    unfold fden; rw [if_neg (by omega)]; simp
  have htiny : decide (33 + (E + j) - 33 < eMin) = false := by
    rw [decide_eq_false_iff_not]; simp only [eMin]; omega
  rw [hnum, hden, htiny]
  have hD : 0 < 4 * 10 ^ j := Nat.mul_pos (by decide) (Nat.pow_pos (by decide))
  -- quotient s, remainder non-zero
  have hq : (4 * r + 1) / (4 * 10 ^ j) = s := by
    apply Nat.div_eq_of_lt_le
    · exact Nat.le_of_lt hlo
    · exact hhi
  have hdm := Nat.div_add_mod (4 * r + 1) (4 * 10 ^ j)
  rw [hq] at hdm
  have hrem : (4 * r + 1) % (4 * 10 ^ j) ≠ 0 := by
    intro h0; rw [h0, Nat.add_zero, Nat.mul_comm] at hdm; omega
  have hround : roundInt mode false s ((4 * r + 1) % (4 * 10 ^ j)) (4 * 10 ^ j) = pickM mode C s := by
    have h1 := roundInt_spec mode false s ((4 * r + 1) % (4 * 10 ^ j)) (4 * 10 ^ j) (Nat.mod_lt _ hD)
    have hv : s * (4 * 10 ^ j) + (4 * r + 1) % (4 * 10 ^ j) = 4 * r + 1 := by rw [Nat.mul_comm]; exact hdm
    rw [hv] at h1
    exact RoundedInt_unique mode false _ _ _ _ hD h1 hR
  by_cases hc : pickM mode C s = P34
  · rw [if_pos hc, finishAt_inexact_carry _ _ _ _ _ _ _ hrem (by rw [hq, hround]; exact hc), if_neg (by simp only [eMax]; omega)]
    rfl
  · rw [if_neg hc, finishAt_inexact _ _ _ _ _ _ _ hrem (by rw [hq, hround]; exact hc), if_neg (by simp only [eMax]; omega),
      hq, hround]
    rfl

open Dec.C01GenMul (finish_shift)

theorem isqrt_unique {N r : Nat} (h1 : r * r ≤ N) (h2 : N < (r + 1) * (r + 1)) : isqrt N = r := by
  obtain ⟨s1, s2⟩ := isqrt_spec N
  have a : isqrt N < r + 1 := lt_of_lt_sq s1 h2
  have b : r < isqrt N + 1 := lt_of_lt_sq h1 s2
  omega

theorem halfFloor_eq (e : Int) : halfFloor e = e / 2 := by
  unfold halfFloor
  rw [Int.fdiv_eq_ediv_of_nonneg _ (by omega)]

/-- `sqrtD` on a positive number, with the parity case distinction made explicit: `p = e mod 2` -/
theorem sqrtD_unfold (mode : Mode) (c : Nat) (e : Int) (hc : c ≠ 0) (p : Nat) (hp : e % 2 = p) :
    sqrtD mode (.fin false c e) =
      if isqrt (c * 10 ^ p * 10 ^ 74) * isqrt (c * 10 ^ p * 10 ^ 74) = c * 10 ^ p * 10 ^ 74 then
        finish mode false (isqrt (c * 10 ^ p * 10 ^ 74)) 1 (e / 2 - 37) (e / 2)
      else finish mode false (4 * isqrt (c * 10 ^ p * 10 ^ 74) + 1) 4 (e / 2 - 37) (e / 2) := by
  have hp2 : p = 0 ∨ p = 1 := by omega
  simp only [sqrtD, hc, if_false, Bool.false_eq_true, halfFloor_eq]
  rcases hp2 with h0 | h1
  · subst h0
    have : (e % 2 != 0) = false := by rw [hp]; rfl
    simp only [this, Bool.false_eq_true, if_false, Nat.pow_zero, Nat.mul_one]
    rfl
  · subst h1
    have : (e % 2 != 0) = true := by rw [hp]; rfl
    have h2 : (e - 1) / 2 = e / 2 := by omega
    simp only [this, if_true, Nat.pow_one, h2]
    rfl

/-- **the exact case of `sqrtD`**: `c·10^(e mod 2) = n²` gives `n · 10^⌊e/2⌋`, no flag -/
theorem sqrtD_exact (mode : Mode) (c n p : Nat) (e : Int) (hc : c ≠ 0) (hp : e % 2 = p) (hn : c * 10 ^ p = n * n)
    (hn34 : n < P34) (he1 : -6176 ≤ e) (he2 : e ≤ 6111) :
    sqrtD mode (.fin false c e) = (.fin false n (e / 2), 0) := by
  have hn0 : n ≠ 0 := by
    intro h0; rw [h0] at hn
    have : 0 < c * 10 ^ p := Nat.mul_pos (Nat.pos_of_ne_zero hc) (Nat.pow_pos (by decide))
    omega
  have hN : c * 10 ^ p * 10 ^ 74 = (n * 10 ^ 37) * (n * 10 ^ 37) := by rw [hn]; ring
  have hr : isqrt (c * 10 ^ p * 10 ^ 74) = n * 10 ^ 37 := by
    apply isqrt_unique
    · rw [hN]
    · rw [hN]; apply Nat.mul_self_lt_mul_self; omega
  rw [sqrtD_unfold mode c e hc p hp, hr, if_pos hN.symm, finish_shift mode false n 37 _ _ (Nat.pos_of_ne_zero hn0)]
  have : e / 2 - 37 + ((37 : Nat) : Int) = e / 2 := by push_cast; ring
  rw [this]
  exact finish_representable mode false n (e / 2) hn0 hn34 (by simp only [eMin]; omega) (by simp only [eMax]; omega)

/-- **the inexact case of `sqrtD`**: for `C = c·10^sc` with `sc ≡ e (mod 2)`, `sc ≤ 67`, `C` a non-square whose integer root
`s` has 34 digits: the coefficient `pickM mode C s` at exponent `(e − sc)/2`, inexact. -/
theorem sqrtD_inexact (mode : Mode) (c sc s p : Nat) (e : Int) (hc : c ≠ 0) (hp : e % 2 = p) (hsc : (sc : Int) % 2 = p)
    (hsc67 : sc ≤ 67) (hs1 : s * s < c * 10 ^ sc) (hs2 : c * 10 ^ sc < (s + 1) * (s + 1))
    (hsl : 10 ^ 33 ≤ s) (hsu : s < 10 ^ 34) (he1 : -6176 ≤ e) (he2 : e ≤ 6111) :
    sqrtD mode (.fin false c e) =
      (if pickM mode (c * 10 ^ sc) s = P34 then Datum.fin false P33 ((e - sc) / 2 + 1)
       else Datum.fin false (pickM mode (c * 10 ^ sc) s) ((e - sc) / 2), fInexact) := by
  have hp2 : p = 0 ∨ p = 1 := by omega
  -- 2j = 74 + p − sc
  obtain ⟨j, hj⟩ : ∃ j, 74 + p = sc + 2 * j := ⟨(74 + p - sc) / 2, by omega⟩
  have hj1 : 1 ≤ j := by omega
  have hN : c * 10 ^ p * 10 ^ 74 = c * 10 ^ sc * 10 ^ (2 * j) := by
    rw [Nat.mul_assoc, Nat.mul_assoc, ← Nat.pow_add, ← Nat.pow_add]; congr 2; omega
  obtain ⟨r1, r2⟩ := isqrt_spec (c * 10 ^ p * 10 ^ 74)
  generalize hr : isqrt (c * 10 ^ p * 10 ^ 74) = r at *
  rw [sqrtD_unfold mode c e hc p hp, hr]
  -- N is not a square (C is not)
  have hns : ¬ r * r = c * 10 ^ p * 10 ^ 74 := by
    intro hsq
    rw [hN] at hsq r2
    obtain ⟨_, hlo, hhi⟩ := pickM_rounded .rtz (c * 10 ^ sc) s r j hj1 hs1 hs2 (by rw [hsq]) r2
    -- r = s·10^j would force C = s²
    have hPP : (10 : Nat) ^ (2 * j) = 10 ^ j * 10 ^ j := by rw [two_mul, Nat.pow_add]
    have h1 : s * 10 ^ j ≤ r := by
      have : s * (4 * 10 ^ j) = 4 * (s * 10 ^ j) := by ring
      omega
    have h2 : r < (s + 1) * 10 ^ j := by
      have : (s + 1) * (4 * 10 ^ j) = 4 * ((s + 1) * 10 ^ j) := by ring
      omega
    -- r² = C·P² with s·P ≤ r < (s+1)·P: then P | r (since P² | r²)… use squares: (s·P)² ≤ r² = C P² < ((s+1)P)²
    -- P² divides r², so P divides r: r = t·P with s ≤ t < s+1, so t = s and C = s², contradiction
    have hdvd : 10 ^ j ∣ r := by
      have : (10 ^ j) ^ 2 ∣ r ^ 2 := by
        rw [pow_two, pow_two, hsq, hPP]; exact Dvd.intro_left _ rfl
      exact (Nat.pow_dvd_pow_iff (by norm_num)).1 this
    obtain ⟨t, ht⟩ := hdvd
    have hP0 : 0 < 10 ^ j := Nat.pow_pos (by decide)
    rw [ht, Nat.mul_comm (10 ^ j) t] at h1 h2
    have ht1 : s ≤ t := Nat.le_of_mul_le_mul_right h1 hP0
    have ht2 : t < s + 1 := Nat.lt_of_mul_lt_mul_right h2
    have hts : t = s := by omega
    rw [ht, hts, hPP] at hsq
    have : s * s * (10 ^ j * 10 ^ j) = c * 10 ^ sc * (10 ^ j * 10 ^ j) := by rw [← hsq]; ring
    have := Nat.eq_of_mul_eq_mul_right (Nat.mul_pos hP0 hP0) this
    omega
  rw [if_neg hns]
  rw [hN] at r1 r2
  have hX : e / 2 - 37 + (j : Int) = (e - sc) / 2 := by omega
  have := finish_sqrt mode (c * 10 ^ sc) s r j (e / 2 - 37) (e / 2) hj1 hs1 hs2 r1 r2 hsl hsu
    (by simp only [eMin]; omega) (by simp only [eMax]; omega)
  rw [hX] at this
  exact this


open Dec.Rs Dec.Gen.Code
open Dec.C06GenFromInt (bitsOf ofBits)
open Dec.C12GenNaN
open Dec.C01GenMul


/-! ## 0. One more stepping tactic: merging the branches of an `if` without `else`

`if c then v := …` followed by the rest of the routine is translated to `if c then J v' else J v` with `J` the rest of
the routine (a join point).  `jp_merge` rewrites such a tree of tests, all of whose leaves call `J`, to the single call
`J (if c then v' else v)`; the equation is proved for an abstract `J`, so the size of the rest of the routine does not
matter. -/

namespace JP
open Lean Meta Elab Tactic

/-- peel leading `have`s (ζ only, no β) and metadata; `fuel` bounds the number of steps -/
def peelLets : Nat → Expr → Expr
  | 0, e => e
  | fuel + 1, e =>
    match e with
    | .mdata _ b => peelLets fuel b
    | .letE _ _ v b _ => peelLets fuel (b.instantiate1 v)
    | _ => e

inductive JTree where
  | leaf (args : Array Expr)
  | node (α c inst : Expr) (t e : JTree)
  deriving Inhabited

def findJ : Nat → Expr → Expr
  | 0, e => e.getAppFn
  | fuel + 1, e =>
    let e := peelLets 1000 e
    if e.isAppOfArity ``ite 5 then findJ fuel (e.getAppArgs[4]!) else e.getAppFn

def parseJ (J : Expr) : Nat → Expr → MetaM JTree
  | 0, _ => throwError "jp_merge: tree too deep"
  | fuel + 1, e => do
    let e := peelLets 1000 e
    if e.isAppOfArity ``ite 5 then
      let a := e.getAppArgs
      return .node a[0]! a[1]! a[2]! (← parseJ J fuel a[3]!) (← parseJ J fuel a[4]!)
    else
      unless e.getAppFn == J do throwError "jp_merge: a leaf is not a call of the join point{indentExpr e}"
      return .leaf e.getAppArgs

def mergeArgs : JTree → MetaM (Array Expr)
  | .leaf args => pure args
  | .node _ c inst t e => do
    let a1 ← mergeArgs t
    let a2 ← mergeArgs e
    (a1.zip a2).mapM fun (x, y) => do
      if x == y then pure x else
        let ty ← inferType x
        let u ← getLevel ty
        pure (mkApp5 (.const ``ite [u]) ty c inst x y)

def treeExpr (j : Expr) : JTree → MetaM Expr
  | .leaf args => pure (mkAppN j args)
  | .node α c inst t e => do
    let u ← getLevel α
    pure (mkApp5 (.const ``ite [u]) α c inst (← treeExpr j t) (← treeExpr j e))

/-- the left-hand side is a tree of tests whose leaves all call the same join point `J` (the rest of the routine) with
different arguments: rewrite it as one call of `J` with the tests moved into the arguments -/
elab "jp_merge" : tactic => do
  let g ← getMainGoal
  g.withContext do
    let t := (← instantiateMVars (← g.getType)).consumeMData
    let some (ty, lhs, rhs) := t.eq? | throwError "jp_merge: not an equation"
    let lhs ← whnfCore lhs
    let J := findJ 100 lhs
    let tree ← parseJ J 100 lhs
    let merged ← mergeArgs tree
    let Jty ← inferType J
    let stmt ← withLocalDeclD `j Jty fun j => do
      mkForallFVars #[j] (← mkEq (← treeExpr j tree) (mkAppN j merged))
    let pf ← mkFreshExprMVar stmt
    let rest ← Tactic.run pf.mvarId! (evalTactic (← `(tactic| (intro j; first | rfl | (split_ifs <;> rfl)))))
    unless rest.isEmpty do throwError "jp_merge: could not prove the merge"
    let lhs' ← treeExpr J tree
    let g' ← g.replaceTargetDefEq (← mkEq lhs' rhs)
    let newLhs := mkAppN J merged
    let gNew ← mkFreshExprSyntheticOpaqueMVar (← mkEq newLhs rhs)
    let u ← getLevel ty
    g'.assign (mkApp6 (.const ``Eq.trans [u]) ty lhs' newLhs rhs (mkApp pf J) gNew)
    replaceMainGoal [gNew.mvarId!]

end JP


/-! ## 1. The front end -/

theorem sgn_word (x : U128) : (x.w1 &&& 0x8000000000000000).toNat = if (dOf x).neg then 2^63 else 0 :=
  C06GenFromInt.sign_word x

theorem sgn_ne (x : U128) : ((x.w1 &&& 0x8000000000000000) != (0 : UInt64)) = (dOf x).neg := by
  have h := sgn_word x
  rw [Bool.eq_iff_iff, bne_iff_ne, ne_eq, ← UInt64.toNat_inj, h, UInt64.toNat_zero]
  cases (dOf x).neg <;> simp

/-- **√(−∞)**: invalid, the default NaN -/
theorem sqrt_neg_inf (x : U128) (m : RoundingMode) (f : UInt32) (hx : dOf x = .inf true) :
    bid128_sqrt x m f = .ok (ofBits (encode defaultNaN), f ||| 1) := by
  unfold bid128_sqrt
  take_call (unp_inf _ _ _ x hx)
  take_pos
  · rfl
  take_neg
  · rw [tNaN_lit, hx]; simp [Datum.isNaN]
  take_pos
  · rw [tSpec_lit, hx]; rfl
  take_pos
  · rw [sgn_ne, hx]; rfl
  have hc : canon (bitsOf x) = encode (.inf true) := by unfold canon; rw [show decode (bitsOf x) = .inf true from hx]
  rw [hc, ← ofBits_dnan]
  rfl

/-- **√(+∞) = +∞**, no flag -/
theorem sqrt_pos_inf (x : U128) (m : RoundingMode) (f : UInt32) (hx : dOf x = .inf false) :
    bid128_sqrt x m f = .ok (ofBits (encode (.inf false)), f) := by
  unfold bid128_sqrt
  take_call (unp_inf _ _ _ x hx)
  take_pos
  · rfl
  take_neg
  · rw [tNaN_lit, hx]; simp [Datum.isNaN]
  take_pos
  · rw [tSpec_lit, hx]; rfl
  take_neg
  · rw [sgn_ne, hx]; decide
  have hc : canon (bitsOf x) = encode (.inf false) := by unfold canon; rw [show decode (bitsOf x) = .inf false from hx]
  rw [hc]
  rfl

/-- **√(negative number)**: invalid, the default NaN -/
theorem sqrt_neg (x : U128) (m : RoundingMode) (f : UInt32) {c : Nat} {e : Int} (hx : dOf x = .fin true c e) (hc : c ≠ 0) :
    bid128_sqrt x m f = .ok (ofBits (encode defaultNaN), f ||| 1) := by
  unfold bid128_sqrt
  take_call (unp_fin _ _ _ x hx)
  take_neg
  · rw [ind_nonzero hc (fin_WF x hx).1]; decide
  take_pos
  · rw [sgn_ne, hx]; rfl
  rw [← ofBits_dnan]
  rfl

/-- **√(±0)** (canonical or not): the zero of the same sign with the exponent halved (floor), no flag -/
theorem sqrt_zero (x : U128) (m : RoundingMode) (f : UInt32) {s : Bool} {e : Int} (hx : dOf x = .fin s 0 e) :
    bid128_sqrt x m f = .ok (ofBits (encode (zeroAt s (halfFloor e))), f) := by
  obtain ⟨-, l1, u1⟩ := fin_WF x hx
  have k1 : (c_DECIMAL_EXPONENT_BIAS_128).toInt = 6176 := by decide
  have a1 : (Int32.ofInt (e + 6176)).toInt = e + 6176 := by
    rw [Int32.toInt_ofInt, show Int32.size = 2^32 from rfl]; exact bmod32 (by omega) (by omega)
  have hT : (Int32.ofInt (e + 6176) + c_DECIMAL_EXPONENT_BIAS_128).toInt = e + 12352 := by
    rw [Int32.toInt_add, a1, k1]; exact (bmod32 (by omega) (by omega)).trans (by omega)
  have hsg := sgn_word x
  rw [hx, neg_fin'] at hsg
  unfold bid128_sqrt
  take_call (unp_fin _ _ _ x hx)
  take_pos
  · exact ind_zero
  take_neg
  · rw [tNaN_lit, hx]; simp [Datum.isNaN]
  take_neg
  · rw [tSpec_lit, hx]; simp [Datum.isFin]
  head_step
  dsimp only
  generalize hTT : (Int32.ofInt (e + 6176) + c_DECIMAL_EXPONENT_BIAS_128) = T at hT ⊢
  have hp : ((UInt64.ofInt (toI T) >>> 1) <<< 49).toNat = (clampInt (-6176) 6111 (halfFloor e) + 6176).toNat * 2^49 := by
    show ((UInt64.ofInt T.toInt >>> 1) <<< 49).toNat = _
    rw [UInt64.toNat_shiftLeft, UInt64.toNat_shiftRight, toNat_ofInt64', hT, show (49 : UInt64).toNat % 64 = 49 from by decide,
      show (1 : UInt64).toNat % 64 = 1 from by decide, Nat.shiftLeft_eq, Nat.shiftRight_eq_div_pow, halfFloor_eq]
    unfold clampInt; rw [if_neg (by omega), if_neg (by omega)]
    omega
  rw [← ofBits_zeroAt s (x.w1 &&& 0x8000000000000000) ((UInt64.ofInt (toI T) >>> 1) <<< 49) (halfFloor e) hsg hp]
  rfl


/-! ## Word-level helpers -/

/-- `BID_POWER10_TABLE_128[i] = 10^i` for `i ≤ 38`, read from the generated table -/
theorem p10tab_check : Dec.Gen.BID_POWER10_TABLE_128.length = 78 ∧
    (List.range 39).all (fun i => decide (Dec.Gen.BID_POWER10_TABLE_128.getD (2 * i) 0 < 2 ^ 64 ∧
      Dec.Gen.BID_POWER10_TABLE_128.getD (2 * i + 1) 0 < 2 ^ 64 ∧
      Dec.Gen.BID_POWER10_TABLE_128.getD (2 * i) 0 + 2 ^ 64 * Dec.Gen.BID_POWER10_TABLE_128.getD (2 * i + 1) 0 = 10 ^ i)) = true := by
  decide +kernel

theorem p10tab_read (i : UInt64) (hi : i.toNat ≤ 38) :
    ∃ T : U128, tbl128 Dec.Gen.BID_POWER10_TABLE_128 i = .ok T ∧ T.toNat' = 10 ^ i.toNat := by
  obtain ⟨hlen, hall⟩ := p10tab_check
  rw [C13GenPack.tbl128_eq _ _ (by rw [hlen]; omega)]
  refine ⟨_, rfl, ?_⟩
  have := List.all_eq_true.1 hall i.toNat (List.mem_range.2 (by omega))
  simp only [decide_eq_true_eq] at this
  obtain ⟨a, b, c⟩ := this
  simp only [Rs.U128.toNat', UInt64.toNat_ofNat']
  rw [Nat.mod_eq_of_lt a, Nat.mod_eq_of_lt b]
  exact c

/-- `(hi << n) | (lo >> (64−n))`: the high word of a two-word left shift -/
theorem or_shl_shr (lo hi k k' : UInt64) (n : Nat) (hn1 : 1 ≤ n) (hn : n ≤ 63) (hk : k.toNat = n) (hk' : k'.toNat = 64 - n) :
    ((hi <<< k) ||| (lo >>> k')).toNat = hi.toNat * 2 ^ n % 2 ^ 64 + lo.toNat / 2 ^ (64 - n) := by
  rw [UInt64.toNat_or, UInt64.toNat_shiftLeft, UInt64.toNat_shiftRight, hk, hk', Nat.mod_eq_of_lt (by omega : n < 64),
    Nat.mod_eq_of_lt (by omega : 64 - n < 64), Nat.shiftLeft_eq, Nat.shiftRight_eq_div_pow]
  have hPQ : 2 ^ n * 2 ^ (64 - n) = 2 ^ 64 := by rw [← Nat.pow_add]; congr 1; omega
  have e1 : hi.toNat * 2 ^ n % 2 ^ 64 = 2 ^ n * (hi.toNat % 2 ^ (64 - n)) := by
    rw [← hPQ, Nat.mul_comm hi.toNat, Nat.mul_mod_mul_left]
  have e2 : lo.toNat / 2 ^ (64 - n) < 2 ^ n := by
    apply Nat.div_lt_of_lt_mul; rw [Nat.mul_comm, hPQ]; exact lo.toNat_lt
  rw [e1]
  exact (Nat.two_pow_add_eq_or_of_lt e2 _).symm

theorem shl_toNat (w k : UInt64) (n : Nat) (hn : n ≤ 63) (hk : k.toNat = n) : (w <<< k).toNat = w.toNat * 2 ^ n % 2 ^ 64 := by
  rw [UInt64.toNat_shiftLeft, hk, Nat.mod_eq_of_lt (by omega : n < 64), Nat.shiftLeft_eq]

/-- `10·CX` as the code forms it: `(CX << 3) + (CX << 1)` on word pairs -/
theorem times10 (CX : U128) (hC : CX.toNat' < 2 ^ 124) :
    ∃ A, add_128_128 ⟨CX.w0 <<< 3, (CX.w1 <<< 3) ||| (CX.w0 >>> 0x3d)⟩ ⟨CX.w0 <<< 1, (CX.w1 <<< 1) ||| (CX.w0 >>> 0x3f)⟩ = .ok A
      ∧ A.toNat' = 10 * CX.toNat' := by
  have h0 := CX.w0.toNat_lt
  have a8l := shl_toNat CX.w0 3 3 (by omega) rfl
  have a8h := or_shl_shr CX.w0 CX.w1 3 0x3d 3 (by omega) (by omega) rfl rfl
  have a2l := shl_toNat CX.w0 1 1 (by omega) rfl
  have a2h := or_shl_shr CX.w0 CX.w1 1 0x3f 1 (by omega) (by omega) rfl rfl
  simp only [Rs.U128.toNat'] at hC
  have v8 : (⟨CX.w0 <<< 3, (CX.w1 <<< 3) ||| (CX.w0 >>> 0x3d)⟩ : U128).toNat' = 8 * CX.toNat' := by
    simp only [Rs.U128.toNat', a8l, a8h]; omega
  have v2 : (⟨CX.w0 <<< 1, (CX.w1 <<< 1) ||| (CX.w0 >>> 0x3f)⟩ : U128).toNat' = 2 * CX.toNat' := by
    simp only [Rs.U128.toNat', a2l, a2h]; omega
  obtain ⟨A, hA, vA⟩ := C01GenArith.gen_add_128_128_exact ⟨CX.w0 <<< 3, (CX.w1 <<< 3) ||| (CX.w0 >>> 0x3d)⟩
    ⟨CX.w0 <<< 1, (CX.w1 <<< 1) ||| (CX.w0 >>> 0x3f)⟩ (by rw [v8, v2]; simp only [Rs.U128.toNat']; omega)
  exact ⟨A, hA, by rw [vA, v8, v2]; omega⟩

/-- the parity test on an `i32` -/
theorem i32_odd (n : Int32) : ((n &&& 1) == 1) = decide (n.toInt % 2 = 1) := by
  rw [Bool.eq_iff_iff, beq_iff_eq, decide_eq_true_eq, ← Int32.toBitVec_inj]
  have h1 : (n &&& 1).toBitVec = n.toBitVec &&& 1#32 := rfl
  have h2 : (1 : Int32).toBitVec = 1#32 := rfl
  rw [h1, h2]
  have ht : n.toInt = n.toBitVec.toInt := rfl
  rw [ht, BitVec.toInt_eq_toNat_cond]
  have hb : (n.toBitVec &&& 1#32) = 1#32 ↔ n.toBitVec.toNat % 2 = 1 := by
    rw [← BitVec.toNat_inj, BitVec.toNat_and]
    have : (1#32 : BitVec 32).toNat = 2 ^ 1 - 1 := rfl
    rw [this, Nat.and_two_pow_sub_one_eq_mod]
    rfl
  rw [hb]
  have := n.toBitVec.isLt
  split <;> omega

/-- one lexicographic step in base 2^64 -/
theorem lex_lt (x y a b : Nat) (hx : x < 2 ^ 64) (hy : y < 2 ^ 64) :
    (x + 2 ^ 64 * a < y + 2 ^ 64 * b) ↔ (a < b ∨ (a = b ∧ x < y)) := by omega
theorem lex_le (x y a b : Nat) (hx : x < 2 ^ 64) (hy : y < 2 ^ 64) :
    (x + 2 ^ 64 * a ≤ y + 2 ^ 64 * b) ↔ (a < b ∨ (a = b ∧ x ≤ y)) := by omega
theorem lex_eq (x y a b : Nat) (hx : x < 2 ^ 64) (hy : y < 2 ^ 64) :
    (x + 2 ^ 64 * a = y + 2 ^ 64 * b) ↔ (a = b ∧ x = y) := by omega

theorem horner256 (A : U256) :
    A.toNat' = A.w0.toNat + 2 ^ 64 * (A.w1.toNat + 2 ^ 64 * (A.w2.toNat + 2 ^ 64 * A.w3.toNat)) := by
  simp only [Rs.U256.toNat']; ring

/-- the four-word comparison chains of the code are the comparisons of the 256-bit integers -/
theorem gt256 (A B : U256) :
    (decide (A.w3 > B.w3) || (A.w3 == B.w3 && (decide (A.w2 > B.w2) || (A.w2 == B.w2 && (decide (A.w1 > B.w1) ||
      (A.w1 == B.w1 && decide (A.w0 > B.w0))))))) = decide (A.toNat' > B.toNat') := by
  have a0 := A.w0.toNat_lt; have a1 := A.w1.toNat_lt; have a2 := A.w2.toNat_lt
  have b0 := B.w0.toNat_lt; have b1 := B.w1.toNat_lt; have b2 := B.w2.toNat_lt
  rw [Bool.eq_iff_iff]
  simp only [Bool.or_eq_true, Bool.and_eq_true, decide_eq_true_eq, beq_iff_eq, gt_iff_lt, UInt64.lt_iff_toNat_lt,
    ← UInt64.toNat_inj]
  rw [horner256 A, horner256 B]
  simp only [lex_lt _ _ _ _ b0 a0, lex_lt _ _ _ _ b1 a1, lex_lt _ _ _ _ b2 a2, lex_eq _ _ _ _ b1 a1, lex_eq _ _ _ _ b2 a2]
  omega

theorem le256 (A B : U256) :
    (decide (A.w3 < B.w3) || (A.w3 == B.w3 && (decide (A.w2 < B.w2) || (A.w2 == B.w2 && (decide (A.w1 < B.w1) ||
      (A.w1 == B.w1 && decide (A.w0 ≤ B.w0))))))) = decide (A.toNat' ≤ B.toNat') := by
  have a0 := A.w0.toNat_lt; have a1 := A.w1.toNat_lt; have a2 := A.w2.toNat_lt
  have b0 := B.w0.toNat_lt; have b1 := B.w1.toNat_lt; have b2 := B.w2.toNat_lt
  rw [Bool.eq_iff_iff]
  simp only [Bool.or_eq_true, Bool.and_eq_true, decide_eq_true_eq, beq_iff_eq, UInt64.lt_iff_toNat_lt,
    UInt64.le_iff_toNat_le, ← UInt64.toNat_inj]
  rw [horner256 A, horner256 B]
  simp only [lex_le _ _ _ _ a0 b0, lex_lt _ _ _ _ a1 b1, lex_lt _ _ _ _ a2 b2, lex_eq _ _ _ _ a1 b1, lex_eq _ _ _ _ a2 b2]
  omega

/-- `4·C256` as the code forms it -/
def c4Of (C : U256) : U256 :=
  ⟨C.w0 <<< 2, (C.w1 <<< 2) ||| (C.w0 >>> 0x3e), (C.w2 <<< 2) ||| (C.w1 >>> 0x3e), (C.w3 <<< 2) ||| (C.w2 >>> 0x3e)⟩

theorem c4Of_val (C : U256) (h : C.toNat' < 2 ^ 254) : (c4Of C).toNat' = 4 * C.toNat' := by
  have a0 := C.w0.toNat_lt; have a1 := C.w1.toNat_lt; have a2 := C.w2.toNat_lt; have a3 := C.w3.toNat_lt
  have e0 := shl_toNat C.w0 2 2 (by omega) rfl
  have e1 := or_shl_shr C.w0 C.w1 2 0x3e 2 (by omega) (by omega) rfl rfl
  have e2 := or_shl_shr C.w1 C.w2 2 0x3e 2 (by omega) (by omega) rfl rfl
  have e3 := or_shl_shr C.w2 C.w3 2 0x3e 2 (by omega) (by omega) rfl rfl
  simp only [Rs.U256.toNat'] at h ⊢
  simp only [c4Of, e0, e1, e2, e3]
  omega

/-- `CS + 1` with the carry into the high word, as the code does it in the nearest branch and after `Upward` -/
def incCS (CS : U128) : U128 := ⟨CS.w0 + 1, if (CS.w0 + 1 == (0 : UInt64)) = true then CS.w1 + 1 else CS.w1⟩
/-- `CS − 1` with the borrow -/
def decCS (CS : U128) : U128 := ⟨CS.w0 - 1, if (CS.w0 == (0 : UInt64)) = true then CS.w1 - 1 else CS.w1⟩
/-- the increment of line 249 of bid128_sqrt.rs: the carry test is inverted (`!= 0` where the C original has `!CS.w[0]`) -/
def incBug (CS : U128) : U128 := ⟨CS.w0 + 1, if (CS.w0 + 1 != (0 : UInt64)) = true then CS.w1 + 1 else CS.w1⟩

theorem incCS_val (CS : U128) (h : CS.toNat' + 1 < 2 ^ 128) : (incCS CS).toNat' = CS.toNat' + 1 := by
  have a0 := CS.w0.toNat_lt; have a1 := CS.w1.toNat_lt
  simp only [Rs.U128.toNat'] at h ⊢
  unfold incCS
  by_cases hz : CS.w0.toNat + 1 = 2 ^ 64
  · have : (CS.w0 + 1 == (0 : UInt64)) = true := by
      rw [beq_iff_eq, ← UInt64.toNat_inj, UInt64.toNat_add, UInt64.toNat_one, UInt64.toNat_zero]; omega
    simp only [this, if_true, UInt64.toNat_add, UInt64.toNat_one]; omega
  · have : (CS.w0 + 1 == (0 : UInt64)) = false := by
      rw [Bool.eq_false_iff, ne_eq, beq_iff_eq, ← UInt64.toNat_inj, UInt64.toNat_add, UInt64.toNat_one, UInt64.toNat_zero]; omega
    simp only [this, Bool.false_eq_true, if_false, UInt64.toNat_add, UInt64.toNat_one]; omega

theorem decCS_val (CS : U128) (h : 0 < CS.toNat') : (decCS CS).toNat' = CS.toNat' - 1 := by
  have a0 := CS.w0.toNat_lt; have a1 := CS.w1.toNat_lt
  simp only [Rs.U128.toNat'] at h ⊢
  unfold decCS
  by_cases hz : CS.w0.toNat = 0
  · have : (CS.w0 == (0 : UInt64)) = true := by rw [beq_iff_eq, ← UInt64.toNat_inj, UInt64.toNat_zero]; exact hz
    simp only [this, if_true, UInt64.toNat_sub, UInt64.toNat_one]; omega
  · have : (CS.w0 == (0 : UInt64)) = false := by
      rw [Bool.eq_false_iff, ne_eq, beq_iff_eq, ← UInt64.toNat_inj, UInt64.toNat_zero]; exact hz
    simp only [this, Bool.false_eq_true, if_false, UInt64.toNat_sub, UInt64.toNat_one]; omega

/-- what the inverted carry test would do if it were ever reached: it adds 2^64 (unless the low word wraps) -/
example : (incBug ⟨5, 7⟩).toNat' = (⟨5, 7⟩ : U128).toNat' + 1 + 2 ^ 64 := by decide

/-- the mode test `(rnd_mode as u32) & 3 == 0`: true for the two nearest modes -/
theorem mode_test (m : RoundingMode) :
    ((((UInt32.ofInt (toI m))) &&& (3 : UInt32)) == (0 : UInt32)) = (m == .NearestEven || m == .NearestAway) := by
  cases m <;> decide

/-! ## The digit count of the coefficient (the f32 chain and the two tables) -/

open Dec.C11GenLogb in
/-- the index `((fx.bits >> 23) & 0xff) − 0x7f` cast `as i32` and then `as usize` -/
theorem idx_i32 (S : Nat) (hS : 0 < S) (hX : Nat.log2 (rn24 S) ≤ 126) :
    (UInt64.ofInt (toI (Int32.ofInt (toI (((UInt32.ofNat (fb S)) >>> 0x17 &&& 0xff) - 0x7f))))).toNat = Nat.log2 (rn24 S) := by
  have h := idx_toNat S hS hX
  have hv : ((((UInt32.ofNat (fb S)) >>> 23 &&& 255) - 127)).toNat = Nat.log2 (rn24 S) := by
    rw [C13GenPack.toNat_ofInt] at h
    simp only [toI, PackH.wordOfI32] at h
    have := ((((UInt32.ofNat (fb S)) >>> 23 &&& 255) - 127)).toNat_lt
    omega
  rw [toNat_ofInt64']
  show ((Int32.ofInt ((((((UInt32.ofNat (fb S)) >>> 23 &&& 255) - 127)).toNat : Nat) : Int)).toInt % 18446744073709551616).toNat = _
  rw [hv, Int32.toInt_ofInt, show Int32.size = 2 ^ 32 from rfl, bmod32 (by omega) (by omega)]
  omega

open Dec.C11GenLogb Dec.TF in
/-- **the digit count**: the f32 chain never fails, the two table reads are in range, and the tabulated estimate corrected by
the comparison with the tabulated power of ten is the number of decimal digits of the coefficient -/
theorem digits_stage (CX : U128) (hC0 : 0 < bitsOf CX) (hC : bitsOf CX < 10 ^ 34) :
    ∃ (P fx : F32U) (d : Int32) (T : U128),
      F32U.mul (F32U.ofU64 (UInt64.ofInt (toI CX.w1))) (⟨(0x5f800000 : UInt32)⟩ : F32U) = .ok P ∧
      F32U.add P (F32U.ofU64 (UInt64.ofInt (toI CX.w0))) = .ok fx ∧
      tblI32 Dec.Gen.BID_ESTIMATE_DECIMAL_DIGITS
        (UInt64.ofInt (toI (Int32.ofInt (toI (((fx.bits >>> 0x17) &&& 0xff) - 0x7f))))) = .ok d ∧
      tbl128 Dec.Gen.BID_POWER10_INDEX_BINEXP_128
        (UInt64.ofInt (toI (Int32.ofInt (toI (((fx.bits >>> 0x17) &&& 0xff) - 0x7f))))) = .ok T ∧
      T.w1.toNat < 2 ^ 63 ∧ 0 ≤ d.toInt ∧ d.toInt ≤ 40 ∧
      d.toInt + (if bitsOf CX ≥ T.w1.toNat * 2 ^ 64 + T.w0.toNat then 1 else 0) = ndigits (bitsOf CX) := by
  have hb : bitsOf CX = CX.w1.toNat * 2 ^ 64 + CX.w0.toNat := rfl
  rw [hb] at hC0 hC ⊢
  have hc1 : CX.w1.toNat < 2 ^ 60 := by
    have : (10 : Nat) ^ 34 < 2 ^ 113 := by norm_num
    omega
  obtain ⟨Pm, hmul, hadd⟩ := fx_bits CX.w1 CX.w0 hc1 (by omega)
  obtain ⟨hX, hdig⟩ := est_digits CX.w1.toNat CX.w0.toNat CX.w0.toNat_lt hC0 hC
  have hSpos : 0 < rn24 CX.w1.toNat * 2 ^ 64 + rn24 CX.w0.toNat := by
    rcases Nat.eq_zero_or_pos CX.w1.toNat with h1 | h1
    · have h0 : 0 < CX.w0.toNat := by omega
      have h2 := (rn24_binade _ h0).1
      have h3 := Nat.pow_pos (n := Nat.log2 CX.w0.toNat) (by decide : 0 < 2)
      exact Nat.add_pos_right _ (Nat.lt_of_lt_of_le h3 h2)
    · have := (rn24_binade _ h1).1
      have := Nat.pow_pos (n := Nat.log2 CX.w1.toNat) (by decide : 0 < 2)
      have hp : 0 < rn24 CX.w1.toNat := by omega
      exact Nat.add_pos_left (Nat.mul_pos hp (by norm_num)) _
  obtain ⟨S, hS⟩ : ∃ S, S = rn24 CX.w1.toNat * 2 ^ 64 + rn24 CX.w0.toNat := ⟨_, rfl⟩
  rw [← hS] at hadd hX hdig hSpos
  have hidx := idx_i32 S hSpos (by omega)
  refine ⟨Pm, ⟨UInt32.ofNat (fb S)⟩, ?_⟩
  generalize hI : UInt64.ofInt (toI (Int32.ofInt (toI (((UInt32.ofNat (fb S)) >>> 0x17 &&& 0xff) - 0x7f)))) = I at hidx
  obtain ⟨d, hd, hdv⟩ := est_read I (by omega)
  obtain ⟨T, hT, hTv, hT1⟩ := p10_read I (by omega)
  refine ⟨d, T, hmul, hadd, ?_, ?_, hT1, ?_⟩
  · exact hd
  · exact hT
  · rw [hidx] at hdv hTv
    unfold TableFacts.estDigitsAt at hdig
    rw [← hTv] at hdig
    have hnd : ndigits (CX.w1.toNat * 2 ^ 64 + CX.w0.toNat) ≤ 34 := (@ndigits_le_iff _ 34 hC0).2 hC
    rw [hdv]
    refine ⟨by omega, ?_, ?_⟩
    · split at hdig <;> omega
    · rw [← hdig]; push_cast
      split <;> simp


/-! ## Three suffixes of the routine, as texts of their own

`bid128_sqrt` is a single `do` block of 180 lines.  To treat it in pieces the three texts below repeat it verbatim from a
given line on, with every local variable of the routine turned into a parameter.  That they *are* the rest of the routine
is proved (`sqrt_to_test`, `test_to_d`, `d_to_tail`: by definitional unfolding, after the lines before have been run),
so nothing rests on the copies. -/

/-- the text of `bid128_sqrt` from the exact-root test on, every local variable a parameter -/
def sqrtFromTest (x_ : U128) (rnd_mode_ : RoundingMode) (pfpsf_ : UInt32) (M256_ : U256) (C256_ : U256) (C4_ : U256) (C8_ : U256) (CX_ : U128) (CX1_ : U128) (CX2_ : U128) (A10_ : U128) (S2_ : U128) (T128_ : U128) (TP128_ : U128) (CS_ : U128) (CSM_ : U128) (res_ : U128) (sign_x_ : UInt64) (Carry_ : UInt64) (D_ : Int64) (fx_ : F32U) (f64_ : F32U) (exponent_x_ : Int32) (bin_expon_cx_ : Int32) (digits_ : Int32) (scale_ : Int32) (exponent_q_ : Int32) : Except String (U128 × UInt32) := do
  let mut x : U128 := x_
  let mut rnd_mode : RoundingMode := rnd_mode_
  let mut pfpsf : UInt32 := pfpsf_
  let mut M256 : U256 := M256_
  let mut C256 : U256 := C256_
  let mut C4 : U256 := C4_
  let mut C8 : U256 := C8_
  let mut CX : U128 := CX_
  let mut CX1 : U128 := CX1_
  let mut CX2 : U128 := CX2_
  let mut A10 : U128 := A10_
  let mut S2 : U128 := S2_
  let mut T128 : U128 := T128_
  let mut TP128 : U128 := TP128_
  let mut CS : U128 := CS_
  let mut CSM : U128 := CSM_
  let mut res : U128 := res_
  let mut sign_x : UInt64 := sign_x_
  let mut Carry : UInt64 := Carry_
  let mut D : Int64 := D_
  let mut fx : F32U := fx_
  let mut f64 : F32U := f64_
  let mut exponent_x : Int32 := exponent_x_
  let mut bin_expon_cx : Int32 := bin_expon_cx_
  let mut digits : Int32 := digits_
  let mut scale : Int32 := scale_
  let mut exponent_q : Int32 := exponent_q_
  if ((CS.w0 * CS.w0) == A10.w0) then
    S2 := (← mul_64x64_to_128_fast CS.w0 CS.w0)
    if (S2.w1 == A10.w1) then
      res := (← bid_get_BID128_very_fast (0 : UInt64) (((exponent_x + c_DECIMAL_EXPONENT_BIAS_128)) >>> 1) CS)
      return (res, pfpsf)
  D := (Int64.ofInt (toI ((CX.w1 - (← tbl128 Dec.Gen.BID_POWER10_INDEX_BINEXP_128 (UInt64.ofInt (toI bin_expon_cx))).w1))))
  if (← (if (decide (D > (0 : Int64))) then pure true else (do pure ((← (if (D == (0 : Int64)) then (do pure (decide (CX.w0 ≥ (← tbl128 Dec.Gen.BID_POWER10_INDEX_BINEXP_128 (UInt64.ofInt (toI bin_expon_cx))).w0))) else pure false)))))) then
    digits := (digits + 1)
  scale := ((0x43 : Int32) - digits)
  exponent_q := (exponent_x - scale)
  scale := (scale + (exponent_q &&& (1 : Int32)))
  if (decide (scale > (0x26 : Int32))) then
    T128 := (← tbl128 Dec.Gen.BID_POWER10_TABLE_128 (UInt64.ofInt (toI ((scale - (0x25 : Int32))))))
    CX1 := (← mul_128x128_low CX T128)
    TP128 := (← tbl128 Dec.Gen.BID_POWER10_TABLE_128 (UInt64.ofInt (toI 0x25)))
    C256 := (← mul_128x128_to_256 CX1 TP128)
  else
    T128 := (← tbl128 Dec.Gen.BID_POWER10_TABLE_128 (UInt64.ofInt (toI scale)))
    C256 := (← mul_128x128_to_256 CX T128)
  C4 := { C4 with w3 := (((C256.w3 <<< 2)) ||| ((C256.w2 >>> 0x3e))) }
  C4 := { C4 with w2 := (((C256.w2 <<< 2)) ||| ((C256.w1 >>> 0x3e))) }
  C4 := { C4 with w1 := (((C256.w1 <<< 2)) ||| ((C256.w0 >>> 0x3e))) }
  C4 := { C4 with w0 := (C256.w0 <<< 2) }
  let t__5 ← bid_long_sqrt128 CS C256
  CS := t__5
  if (((((UInt32.ofInt (toI rnd_mode))) &&& (3 : UInt32))) == (0 : UInt32)) then
    CSM := { CSM with w1 := (((CS.w1 <<< 1)) ||| ((CS.w0 >>> 0x3f))) }
    CSM := { CSM with w0 := (((CS.w0 + CS.w0)) ||| (1 : UInt64)) }
    let t__6 ← sqr128_to_256 M256 CSM
    M256 := t__6
    if ((decide (C4.w3 > M256.w3)) || (((C4.w3 == M256.w3) && (((decide (C4.w2 > M256.w2)) || (((C4.w2 == M256.w2) && (((decide (C4.w1 > M256.w1)) || (((C4.w1 == M256.w1) && (decide (C4.w0 > M256.w0))))))))))))) then
      CS := { CS with w0 := (CS.w0 + 1) }
      if (CS.w0 == (0 : UInt64)) then
        CS := { CS with w1 := (CS.w1 + 1) }
    else
      C8 := { C8 with w1 := (((CS.w1 <<< 3)) ||| ((CS.w0 >>> 0x3d))) }
      C8 := { C8 with w0 := (CS.w0 <<< 3) }
      let t__7 := (← sub_borrow_out M256.w0 C8.w0)
      M256 := { M256 with w0 := t__7.1 }
      Carry := t__7.2
      let t__8 := (← sub_borrow_in_out M256.w1 C8.w1 Carry)
      M256 := { M256 with w1 := t__8.1 }
      Carry := t__8.2
      let t__9 := (← sub_borrow_in_out M256.w2 (0 : UInt64) Carry)
      M256 := { M256 with w2 := t__9.1 }
      Carry := t__9.2
      M256 := { M256 with w3 := (M256.w3 - Carry) }
      if ((decide (M256.w3 > C4.w3)) || (((M256.w3 == C4.w3) && (((decide (M256.w2 > C4.w2)) || (((M256.w2 == C4.w2) && (((decide (M256.w1 > C4.w1)) || (((M256.w1 == C4.w1) && (decide (M256.w0 > C4.w0))))))))))))) then
        if (CS.w0 == (0 : UInt64)) then
          CS := { CS with w1 := (CS.w1 - 1) }
        CS := { CS with w0 := (CS.w0 - 1) }
  else
    let t__10 ← sqr128_to_256 M256 CS
    M256 := t__10
    C8 := { C8 with w1 := (((CS.w1 <<< 1)) ||| ((CS.w0 >>> 0x3f))) }
    C8 := { C8 with w0 := (CS.w0 <<< 1) }
    if ((decide (M256.w3 > C256.w3)) || (((M256.w3 == C256.w3) && (((decide (M256.w2 > C256.w2)) || (((M256.w2 == C256.w2) && (((decide (M256.w1 > C256.w1)) || (((M256.w1 == C256.w1) && (decide (M256.w0 > C256.w0))))))))))))) then
      let t__11 := (← sub_borrow_out M256.w0 C8.w0)
      M256 := { M256 with w0 := t__11.1 }
      Carry := t__11.2
      let t__12 := (← sub_borrow_in_out M256.w1 C8.w1 Carry)
      M256 := { M256 with w1 := t__12.1 }
      Carry := t__12.2
      let t__13 := (← sub_borrow_in_out M256.w2 (0 : UInt64) Carry)
      M256 := { M256 with w2 := t__13.1 }
      Carry := t__13.2
      M256 := { M256 with w3 := (M256.w3 - Carry) }
      M256 := { M256 with w0 := (M256.w0 + 1) }
      if (M256.w0 == (0 : UInt64)) then
        M256 := { M256 with w1 := (M256.w1 + 1) }
        if (M256.w1 == (0 : UInt64)) then
          M256 := { M256 with w2 := (M256.w2 + 1) }
          if (M256.w2 == (0 : UInt64)) then
            M256 := { M256 with w3 := (M256.w3 + 1) }
      if (CS.w0 == (0 : UInt64)) then
        CS := { CS with w1 := (CS.w1 - 1) }
      CS := { CS with w0 := (CS.w0 - 1) }
      if ((decide (M256.w3 > C256.w3)) || (((M256.w3 == C256.w3) && (((decide (M256.w2 > C256.w2)) || (((M256.w2 == C256.w2) && (((decide (M256.w1 > C256.w1)) || (((M256.w1 == C256.w1) && (decide (M256.w0 > C256.w0))))))))))))) then
        if (CS.w0 == (0 : UInt64)) then
          CS := { CS with w1 := (CS.w1 - 1) }
        CS := { CS with w0 := (CS.w0 - 1) }
    else
      let t__14 := (← add_carry_out M256.w0 C8.w0)
      M256 := { M256 with w0 := t__14.1 }
      Carry := t__14.2
      let t__15 := (← add_carry_in_out M256.w1 C8.w1 Carry)
      M256 := { M256 with w1 := t__15.1 }
      Carry := t__15.2
      let t__16 := (← add_carry_in_out M256.w2 (0 : UInt64) Carry)
      M256 := { M256 with w2 := t__16.1 }
      Carry := t__16.2
      M256 := { M256 with w3 := (M256.w3 + Carry) }
      M256 := { M256 with w0 := (M256.w0 + 1) }
      if (M256.w0 == (0 : UInt64)) then
        M256 := { M256 with w1 := (M256.w1 + 1) }
        if (M256.w1 == (0 : UInt64)) then
          M256 := { M256 with w2 := (M256.w2 + 1) }
          if (M256.w2 == (0 : UInt64)) then
            M256 := { M256 with w3 := (M256.w3 + 1) }
      if ((decide (M256.w3 < C256.w3)) || (((M256.w3 == C256.w3) && (((decide (M256.w2 < C256.w2)) || (((M256.w2 == C256.w2) && (((decide (M256.w1 < C256.w1)) || (((M256.w1 == C256.w1) && (decide (M256.w0 ≤ C256.w0))))))))))))) then
        CS := { CS with w0 := (CS.w0 + 1) }
        if (CS.w0 != (0 : UInt64)) then
          CS := { CS with w1 := (CS.w1 + 1) }
    if ((rnd_mode) == RoundingMode.Upward) then
      CS := { CS with w0 := (CS.w0 + 1) }
      if (CS.w0 == (0 : UInt64)) then
        CS := { CS with w1 := (CS.w1 + 1) }
  let t__17 ← set_status_flags pfpsf c_StatusFlags_BID_INEXACT_EXCEPTION
  pfpsf := t__17
  let mut expon : Int32 := (((exponent_q + c_DECIMAL_EXPONENT_BIAS_128)) >>> 1)
  let t__18 ← bid_get_BID128_fast (0 : UInt64) expon CS
  expon := t__18.2.1
  CS := t__18.2.2
  res := t__18.1
  return (res, pfpsf)

/-- the text of `bid128_sqrt` from the digit correction (`D = CX.w[1] − T.w[1]`) on, every local variable a parameter -/
def sqrtFromD (x_ : U128) (rnd_mode_ : RoundingMode) (pfpsf_ : UInt32) (M256_ : U256) (C256_ : U256) (C4_ : U256) (C8_ : U256) (CX_ : U128) (CX1_ : U128) (CX2_ : U128) (A10_ : U128) (S2_ : U128) (T128_ : U128) (TP128_ : U128) (CS_ : U128) (CSM_ : U128) (res_ : U128) (sign_x_ : UInt64) (Carry_ : UInt64) (D_ : Int64) (fx_ : F32U) (f64_ : F32U) (exponent_x_ : Int32) (bin_expon_cx_ : Int32) (digits_ : Int32) (scale_ : Int32) (exponent_q_ : Int32) : Except String (U128 × UInt32) := do
  let mut x : U128 := x_
  let mut rnd_mode : RoundingMode := rnd_mode_
  let mut pfpsf : UInt32 := pfpsf_
  let mut M256 : U256 := M256_
  let mut C256 : U256 := C256_
  let mut C4 : U256 := C4_
  let mut C8 : U256 := C8_
  let mut CX : U128 := CX_
  let mut CX1 : U128 := CX1_
  let mut CX2 : U128 := CX2_
  let mut A10 : U128 := A10_
  let mut S2 : U128 := S2_
  let mut T128 : U128 := T128_
  let mut TP128 : U128 := TP128_
  let mut CS : U128 := CS_
  let mut CSM : U128 := CSM_
  let mut res : U128 := res_
  let mut sign_x : UInt64 := sign_x_
  let mut Carry : UInt64 := Carry_
  let mut D : Int64 := D_
  let mut fx : F32U := fx_
  let mut f64 : F32U := f64_
  let mut exponent_x : Int32 := exponent_x_
  let mut bin_expon_cx : Int32 := bin_expon_cx_
  let mut digits : Int32 := digits_
  let mut scale : Int32 := scale_
  let mut exponent_q : Int32 := exponent_q_
  D := (Int64.ofInt (toI ((CX.w1 - (← tbl128 Dec.Gen.BID_POWER10_INDEX_BINEXP_128 (UInt64.ofInt (toI bin_expon_cx))).w1))))
  if (← (if (decide (D > (0 : Int64))) then pure true else (do pure ((← (if (D == (0 : Int64)) then (do pure (decide (CX.w0 ≥ (← tbl128 Dec.Gen.BID_POWER10_INDEX_BINEXP_128 (UInt64.ofInt (toI bin_expon_cx))).w0))) else pure false)))))) then
    digits := (digits + 1)
  scale := ((0x43 : Int32) - digits)
  exponent_q := (exponent_x - scale)
  scale := (scale + (exponent_q &&& (1 : Int32)))
  if (decide (scale > (0x26 : Int32))) then
    T128 := (← tbl128 Dec.Gen.BID_POWER10_TABLE_128 (UInt64.ofInt (toI ((scale - (0x25 : Int32))))))
    CX1 := (← mul_128x128_low CX T128)
    TP128 := (← tbl128 Dec.Gen.BID_POWER10_TABLE_128 (UInt64.ofInt (toI 0x25)))
    C256 := (← mul_128x128_to_256 CX1 TP128)
  else
    T128 := (← tbl128 Dec.Gen.BID_POWER10_TABLE_128 (UInt64.ofInt (toI scale)))
    C256 := (← mul_128x128_to_256 CX T128)
  C4 := { C4 with w3 := (((C256.w3 <<< 2)) ||| ((C256.w2 >>> 0x3e))) }
  C4 := { C4 with w2 := (((C256.w2 <<< 2)) ||| ((C256.w1 >>> 0x3e))) }
  C4 := { C4 with w1 := (((C256.w1 <<< 2)) ||| ((C256.w0 >>> 0x3e))) }
  C4 := { C4 with w0 := (C256.w0 <<< 2) }
  let t__5 ← bid_long_sqrt128 CS C256
  CS := t__5
  if (((((UInt32.ofInt (toI rnd_mode))) &&& (3 : UInt32))) == (0 : UInt32)) then
    CSM := { CSM with w1 := (((CS.w1 <<< 1)) ||| ((CS.w0 >>> 0x3f))) }
    CSM := { CSM with w0 := (((CS.w0 + CS.w0)) ||| (1 : UInt64)) }
    let t__6 ← sqr128_to_256 M256 CSM
    M256 := t__6
    if ((decide (C4.w3 > M256.w3)) || (((C4.w3 == M256.w3) && (((decide (C4.w2 > M256.w2)) || (((C4.w2 == M256.w2) && (((decide (C4.w1 > M256.w1)) || (((C4.w1 == M256.w1) && (decide (C4.w0 > M256.w0))))))))))))) then
      CS := { CS with w0 := (CS.w0 + 1) }
      if (CS.w0 == (0 : UInt64)) then
        CS := { CS with w1 := (CS.w1 + 1) }
    else
      C8 := { C8 with w1 := (((CS.w1 <<< 3)) ||| ((CS.w0 >>> 0x3d))) }
      C8 := { C8 with w0 := (CS.w0 <<< 3) }
      let t__7 := (← sub_borrow_out M256.w0 C8.w0)
      M256 := { M256 with w0 := t__7.1 }
      Carry := t__7.2
      let t__8 := (← sub_borrow_in_out M256.w1 C8.w1 Carry)
      M256 := { M256 with w1 := t__8.1 }
      Carry := t__8.2
      let t__9 := (← sub_borrow_in_out M256.w2 (0 : UInt64) Carry)
      M256 := { M256 with w2 := t__9.1 }
      Carry := t__9.2
      M256 := { M256 with w3 := (M256.w3 - Carry) }
      if ((decide (M256.w3 > C4.w3)) || (((M256.w3 == C4.w3) && (((decide (M256.w2 > C4.w2)) || (((M256.w2 == C4.w2) && (((decide (M256.w1 > C4.w1)) || (((M256.w1 == C4.w1) && (decide (M256.w0 > C4.w0))))))))))))) then
        if (CS.w0 == (0 : UInt64)) then
          CS := { CS with w1 := (CS.w1 - 1) }
        CS := { CS with w0 := (CS.w0 - 1) }
  else
    let t__10 ← sqr128_to_256 M256 CS
    M256 := t__10
    C8 := { C8 with w1 := (((CS.w1 <<< 1)) ||| ((CS.w0 >>> 0x3f))) }
    C8 := { C8 with w0 := (CS.w0 <<< 1) }
    if ((decide (M256.w3 > C256.w3)) || (((M256.w3 == C256.w3) && (((decide (M256.w2 > C256.w2)) || (((M256.w2 == C256.w2) && (((decide (M256.w1 > C256.w1)) || (((M256.w1 == C256.w1) && (decide (M256.w0 > C256.w0))))))))))))) then
      let t__11 := (← sub_borrow_out M256.w0 C8.w0)
      M256 := { M256 with w0 := t__11.1 }
      Carry := t__11.2
      let t__12 := (← sub_borrow_in_out M256.w1 C8.w1 Carry)
      M256 := { M256 with w1 := t__12.1 }
      Carry := t__12.2
      let t__13 := (← sub_borrow_in_out M256.w2 (0 : UInt64) Carry)
      M256 := { M256 with w2 := t__13.1 }
      Carry := t__13.2
      M256 := { M256 with w3 := (M256.w3 - Carry) }
      M256 := { M256 with w0 := (M256.w0 + 1) }
      if (M256.w0 == (0 : UInt64)) then
        M256 := { M256 with w1 := (M256.w1 + 1) }
        if (M256.w1 == (0 : UInt64)) then
          M256 := { M256 with w2 := (M256.w2 + 1) }
          if (M256.w2 == (0 : UInt64)) then
            M256 := { M256 with w3 := (M256.w3 + 1) }
      if (CS.w0 == (0 : UInt64)) then
        CS := { CS with w1 := (CS.w1 - 1) }
      CS := { CS with w0 := (CS.w0 - 1) }
      if ((decide (M256.w3 > C256.w3)) || (((M256.w3 == C256.w3) && (((decide (M256.w2 > C256.w2)) || (((M256.w2 == C256.w2) && (((decide (M256.w1 > C256.w1)) || (((M256.w1 == C256.w1) && (decide (M256.w0 > C256.w0))))))))))))) then
        if (CS.w0 == (0 : UInt64)) then
          CS := { CS with w1 := (CS.w1 - 1) }
        CS := { CS with w0 := (CS.w0 - 1) }
    else
      let t__14 := (← add_carry_out M256.w0 C8.w0)
      M256 := { M256 with w0 := t__14.1 }
      Carry := t__14.2
      let t__15 := (← add_carry_in_out M256.w1 C8.w1 Carry)
      M256 := { M256 with w1 := t__15.1 }
      Carry := t__15.2
      let t__16 := (← add_carry_in_out M256.w2 (0 : UInt64) Carry)
      M256 := { M256 with w2 := t__16.1 }
      Carry := t__16.2
      M256 := { M256 with w3 := (M256.w3 + Carry) }
      M256 := { M256 with w0 := (M256.w0 + 1) }
      if (M256.w0 == (0 : UInt64)) then
        M256 := { M256 with w1 := (M256.w1 + 1) }
        if (M256.w1 == (0 : UInt64)) then
          M256 := { M256 with w2 := (M256.w2 + 1) }
          if (M256.w2 == (0 : UInt64)) then
            M256 := { M256 with w3 := (M256.w3 + 1) }
      if ((decide (M256.w3 < C256.w3)) || (((M256.w3 == C256.w3) && (((decide (M256.w2 < C256.w2)) || (((M256.w2 == C256.w2) && (((decide (M256.w1 < C256.w1)) || (((M256.w1 == C256.w1) && (decide (M256.w0 ≤ C256.w0))))))))))))) then
        CS := { CS with w0 := (CS.w0 + 1) }
        if (CS.w0 != (0 : UInt64)) then
          CS := { CS with w1 := (CS.w1 + 1) }
    if ((rnd_mode) == RoundingMode.Upward) then
      CS := { CS with w0 := (CS.w0 + 1) }
      if (CS.w0 == (0 : UInt64)) then
        CS := { CS with w1 := (CS.w1 + 1) }
  let t__17 ← set_status_flags pfpsf c_StatusFlags_BID_INEXACT_EXCEPTION
  pfpsf := t__17
  let mut expon : Int32 := (((exponent_q + c_DECIMAL_EXPONENT_BIAS_128)) >>> 1)
  let t__18 ← bid_get_BID128_fast (0 : UInt64) expon CS
  expon := t__18.2.1
  CS := t__18.2.2
  res := t__18.1
  return (res, pfpsf)

/-- the text of `bid128_sqrt` from the rounding-mode test on, every local variable a parameter -/
def sqrtTail (x_ : U128) (rnd_mode_ : RoundingMode) (pfpsf_ : UInt32) (M256_ : U256) (C256_ : U256) (C4_ : U256) (C8_ : U256) (CX_ : U128) (CX1_ : U128) (CX2_ : U128) (A10_ : U128) (S2_ : U128) (T128_ : U128) (TP128_ : U128) (CS_ : U128) (CSM_ : U128) (res_ : U128) (sign_x_ : UInt64) (Carry_ : UInt64) (D_ : Int64) (fx_ : F32U) (f64_ : F32U) (exponent_x_ : Int32) (bin_expon_cx_ : Int32) (digits_ : Int32) (scale_ : Int32) (exponent_q_ : Int32) : Except String (U128 × UInt32) := do
  let mut x : U128 := x_
  let mut rnd_mode : RoundingMode := rnd_mode_
  let mut pfpsf : UInt32 := pfpsf_
  let mut M256 : U256 := M256_
  let mut C256 : U256 := C256_
  let mut C4 : U256 := C4_
  let mut C8 : U256 := C8_
  let mut CX : U128 := CX_
  let mut CX1 : U128 := CX1_
  let mut CX2 : U128 := CX2_
  let mut A10 : U128 := A10_
  let mut S2 : U128 := S2_
  let mut T128 : U128 := T128_
  let mut TP128 : U128 := TP128_
  let mut CS : U128 := CS_
  let mut CSM : U128 := CSM_
  let mut res : U128 := res_
  let mut sign_x : UInt64 := sign_x_
  let mut Carry : UInt64 := Carry_
  let mut D : Int64 := D_
  let mut fx : F32U := fx_
  let mut f64 : F32U := f64_
  let mut exponent_x : Int32 := exponent_x_
  let mut bin_expon_cx : Int32 := bin_expon_cx_
  let mut digits : Int32 := digits_
  let mut scale : Int32 := scale_
  let mut exponent_q : Int32 := exponent_q_
  if (((((UInt32.ofInt (toI rnd_mode))) &&& (3 : UInt32))) == (0 : UInt32)) then
    CSM := { CSM with w1 := (((CS.w1 <<< 1)) ||| ((CS.w0 >>> 0x3f))) }
    CSM := { CSM with w0 := (((CS.w0 + CS.w0)) ||| (1 : UInt64)) }
    let t__6 ← sqr128_to_256 M256 CSM
    M256 := t__6
    if ((decide (C4.w3 > M256.w3)) || (((C4.w3 == M256.w3) && (((decide (C4.w2 > M256.w2)) || (((C4.w2 == M256.w2) && (((decide (C4.w1 > M256.w1)) || (((C4.w1 == M256.w1) && (decide (C4.w0 > M256.w0))))))))))))) then
      CS := { CS with w0 := (CS.w0 + 1) }
      if (CS.w0 == (0 : UInt64)) then
        CS := { CS with w1 := (CS.w1 + 1) }
    else
      C8 := { C8 with w1 := (((CS.w1 <<< 3)) ||| ((CS.w0 >>> 0x3d))) }
      C8 := { C8 with w0 := (CS.w0 <<< 3) }
      let t__7 := (← sub_borrow_out M256.w0 C8.w0)
      M256 := { M256 with w0 := t__7.1 }
      Carry := t__7.2
      let t__8 := (← sub_borrow_in_out M256.w1 C8.w1 Carry)
      M256 := { M256 with w1 := t__8.1 }
      Carry := t__8.2
      let t__9 := (← sub_borrow_in_out M256.w2 (0 : UInt64) Carry)
      M256 := { M256 with w2 := t__9.1 }
      Carry := t__9.2
      M256 := { M256 with w3 := (M256.w3 - Carry) }
      if ((decide (M256.w3 > C4.w3)) || (((M256.w3 == C4.w3) && (((decide (M256.w2 > C4.w2)) || (((M256.w2 == C4.w2) && (((decide (M256.w1 > C4.w1)) || (((M256.w1 == C4.w1) && (decide (M256.w0 > C4.w0))))))))))))) then
        if (CS.w0 == (0 : UInt64)) then
          CS := { CS with w1 := (CS.w1 - 1) }
        CS := { CS with w0 := (CS.w0 - 1) }
  else
    let t__10 ← sqr128_to_256 M256 CS
    M256 := t__10
    C8 := { C8 with w1 := (((CS.w1 <<< 1)) ||| ((CS.w0 >>> 0x3f))) }
    C8 := { C8 with w0 := (CS.w0 <<< 1) }
    if ((decide (M256.w3 > C256.w3)) || (((M256.w3 == C256.w3) && (((decide (M256.w2 > C256.w2)) || (((M256.w2 == C256.w2) && (((decide (M256.w1 > C256.w1)) || (((M256.w1 == C256.w1) && (decide (M256.w0 > C256.w0))))))))))))) then
      let t__11 := (← sub_borrow_out M256.w0 C8.w0)
      M256 := { M256 with w0 := t__11.1 }
      Carry := t__11.2
      let t__12 := (← sub_borrow_in_out M256.w1 C8.w1 Carry)
      M256 := { M256 with w1 := t__12.1 }
      Carry := t__12.2
      let t__13 := (← sub_borrow_in_out M256.w2 (0 : UInt64) Carry)
      M256 := { M256 with w2 := t__13.1 }
      Carry := t__13.2
      M256 := { M256 with w3 := (M256.w3 - Carry) }
      M256 := { M256 with w0 := (M256.w0 + 1) }
      if (M256.w0 == (0 : UInt64)) then
        M256 := { M256 with w1 := (M256.w1 + 1) }
        if (M256.w1 == (0 : UInt64)) then
          M256 := { M256 with w2 := (M256.w2 + 1) }
          if (M256.w2 == (0 : UInt64)) then
            M256 := { M256 with w3 := (M256.w3 + 1) }
      if (CS.w0 == (0 : UInt64)) then
        CS := { CS with w1 := (CS.w1 - 1) }
      CS := { CS with w0 := (CS.w0 - 1) }
      if ((decide (M256.w3 > C256.w3)) || (((M256.w3 == C256.w3) && (((decide (M256.w2 > C256.w2)) || (((M256.w2 == C256.w2) && (((decide (M256.w1 > C256.w1)) || (((M256.w1 == C256.w1) && (decide (M256.w0 > C256.w0))))))))))))) then
        if (CS.w0 == (0 : UInt64)) then
          CS := { CS with w1 := (CS.w1 - 1) }
        CS := { CS with w0 := (CS.w0 - 1) }
    else
      let t__14 := (← add_carry_out M256.w0 C8.w0)
      M256 := { M256 with w0 := t__14.1 }
      Carry := t__14.2
      let t__15 := (← add_carry_in_out M256.w1 C8.w1 Carry)
      M256 := { M256 with w1 := t__15.1 }
      Carry := t__15.2
      let t__16 := (← add_carry_in_out M256.w2 (0 : UInt64) Carry)
      M256 := { M256 with w2 := t__16.1 }
      Carry := t__16.2
      M256 := { M256 with w3 := (M256.w3 + Carry) }
      M256 := { M256 with w0 := (M256.w0 + 1) }
      if (M256.w0 == (0 : UInt64)) then
        M256 := { M256 with w1 := (M256.w1 + 1) }
        if (M256.w1 == (0 : UInt64)) then
          M256 := { M256 with w2 := (M256.w2 + 1) }
          if (M256.w2 == (0 : UInt64)) then
            M256 := { M256 with w3 := (M256.w3 + 1) }
      if ((decide (M256.w3 < C256.w3)) || (((M256.w3 == C256.w3) && (((decide (M256.w2 < C256.w2)) || (((M256.w2 == C256.w2) && (((decide (M256.w1 < C256.w1)) || (((M256.w1 == C256.w1) && (decide (M256.w0 ≤ C256.w0))))))))))))) then
        CS := { CS with w0 := (CS.w0 + 1) }
        if (CS.w0 != (0 : UInt64)) then
          CS := { CS with w1 := (CS.w1 + 1) }
    if ((rnd_mode) == RoundingMode.Upward) then
      CS := { CS with w0 := (CS.w0 + 1) }
      if (CS.w0 == (0 : UInt64)) then
        CS := { CS with w1 := (CS.w1 + 1) }
  let t__17 ← set_status_flags pfpsf c_StatusFlags_BID_INEXACT_EXCEPTION
  pfpsf := t__17
  let mut expon : Int32 := (((exponent_q + c_DECIMAL_EXPONENT_BIAS_128)) >>> 1)
  let t__18 ← bid_get_BID128_fast (0 : UInt64) expon CS
  expon := t__18.2.1
  CS := t__18.2.2
  res := t__18.1
  return (res, pfpsf)



/-! ## 3. From the entry to the exact-root test -/

theorem tn_bits (x : U128) : x.toNat' = bitsOf x := by
  unfold Rs.U128.toNat' bitsOf; omega

theorem tn_ofBits {n : Nat} (h : n < 2 ^ 128) : (ofBits n).toNat' = n := by
  rw [tn_bits, C06GenFromInt.bitsOf_ofBits h]

theorem eq_ofBits {A : U128} {n : Nat} (h : A.toNat' = n) : A = ofBits n := by
  rw [← h, tn_bits, C06GenFromInt.ofBits_bitsOf]

/-- the value of `bin_expon_cx` -/
abbrev binExp (fx : F32U) : Int32 := Int32.ofInt (toI (((fx.bits >>> 0x17) &&& 0xff) - 0x7f))

/-- what the digit-count stage leaves behind: the tabulated estimate `d`, the tabulated power `T` -/
def DigitsOK (c : Nat) (fx : F32U) (d : Int32) (T : U128) : Prop :=
  tbl128 Dec.Gen.BID_POWER10_INDEX_BINEXP_128 (UInt64.ofInt (toI (binExp fx))) = .ok T ∧
  T.w1.toNat < 2 ^ 63 ∧ 0 ≤ d.toInt ∧ d.toInt ≤ 40 ∧
  d.toInt + (if c ≥ T.w1.toNat * 2 ^ 64 + T.w0.toNat then 1 else 0) = ndigits c

/-- **a positive number, up to the exact-root test**: the routine runs (no step fails) to the line
`if CS.w[0] * CS.w[0] == A10.w[0]` with `A10 = c·10^(e mod 2)` and `CS = short_sqrt128 A10`. -/
theorem sqrt_to_test (x : U128) (m : RoundingMode) (f : UInt32) {c : Nat} {e : Int} (hx : dOf x = .fin false c e)
    (hc : c ≠ 0) (p : Nat) (hp : e % 2 = p) (cs : UInt64) (hcs : short_sqrt128 (ofBits (c * 10 ^ p)) = .ok cs) :
    ∃ (fx : F32U) (d : Int32) (T : U128), DigitsOK c fx d T ∧
      bid128_sqrt x m f = sqrtFromTest x m f default default default default (ofBits c) default default
        (ofBits (c * 10 ^ p)) default default default ⟨cs, 0⟩ default default (x.w1 &&& 0x8000000000000000) default default
        fx ⟨0x5f800000⟩ (Int32.ofInt (e + 6176)) (binExp fx) d default default := by
  obtain ⟨hl, l1, u1⟩ := fin_WF x hx
  have hl' : c < 10 ^ 34 := hl
  have h128 : c < 2 ^ 128 := by omega
  have hbc : bitsOf (ofBits c) = c := C06GenFromInt.bitsOf_ofBits h128
  obtain ⟨P, fx, d, T, hmul, hadd, hd, hT, hT1, hd0, hd1, hdig⟩ :=
    digits_stage (ofBits c) (by rw [hbc]; omega) (by rw [hbc]; exact hl')
  rw [hbc] at hdig
  refine ⟨fx, d, T, ⟨hT, hT1, hd0, hd1, hdig⟩, ?_⟩
  have a1 : (Int32.ofInt (e + 6176)).toInt = e + 6176 := by
    rw [Int32.toInt_ofInt, show Int32.size = 2^32 from rfl]; exact bmod32 (by omega) (by omega)
  unfold bid128_sqrt
  take_call (unp_fin _ _ _ x hx)
  take_neg
  · rw [ind_nonzero hc hl]; decide
  take_neg
  · rw [sgn_ne, hx]; simp [Datum.neg]
  take_call hmul
  take_call hadd
  take_call hd
  have hp2 : p = 0 ∨ p = 1 := by omega
  rcases hp2 with h0 | h1
  · subst h0
    rw [Nat.pow_zero, Nat.mul_one] at hcs ⊢
    take_neg
    · rw [i32_odd, a1]; simp only [decide_eq_true_eq]; omega
    take_call hcs
    rfl
  · subst h1
    rw [Nat.pow_one] at hcs ⊢
    take_pos
    · rw [i32_odd, a1]; simp only [decide_eq_true_eq]; omega
    obtain ⟨A, hA, hAv⟩ := times10 (ofBits c) (by rw [tn_ofBits h128]; omega)
    rw [tn_ofBits h128] at hAv
    have hAe : A = ofBits (c * 10) := eq_ofBits (by rw [hAv]; omega)
    subst hAe
    take_call hA
    take_call hcs
    rfl

/-! ## 4. The exact-root path -/

theorem i32_shr1 (n : Int32) : (n >>> 1).toInt = n.toInt / 2 := by
  have h : (n >>> 1).toInt = (n.toBitVec.sshiftRight' ((1 : Int32).toBitVec.smod 32)).toInt := rfl
  rw [h, BitVec.toInt_sshiftRight']
  have : ((1 : Int32).toBitVec.smod 32).toNat = 1 := by decide
  rw [this]
  show n.toInt >>> 1 = _
  rw [Int.shiftRight_eq_div_pow]; rfl

/-- the biased, halved exponent `(e + 6176 + 6176) >> 1` of the result -/
theorem half_expo {e : Int} (l1 : -6176 ≤ e) (u1 : e ≤ 6111) :
    ((Int32.ofInt (e + 6176) + c_DECIMAL_EXPONENT_BIAS_128) >>> 1).toInt = e / 2 + 6176 := by
  have k1 : (c_DECIMAL_EXPONENT_BIAS_128).toInt = 6176 := by decide
  have a1 : (Int32.ofInt (e + 6176)).toInt = e + 6176 := by
    rw [Int32.toInt_ofInt, show Int32.size = 2^32 from rfl]; exact bmod32 (by omega) (by omega)
  have hT : (Int32.ofInt (e + 6176) + c_DECIMAL_EXPONENT_BIAS_128).toInt = e + 12352 := by
    rw [Int32.toInt_add, a1, k1]; exact (bmod32 (by omega) (by omega)).trans (by omega)
  rw [i32_shr1, hT]; omega

/-- **the exact-root path**: if `short_sqrt128` returned an `n` with `n² = c·10^p`, the test passes (both halves) and
the result is `+n·10^(e div 2)`, canonical, no flag. -/
theorem test_exact (x : U128) (m : RoundingMode) (f : UInt32) {c : Nat} {e : Int} (l1 : -6176 ≤ e) (u1 : e ≤ 6111)
    (p : Nat) (cs : UInt64) (n : Nat) (hcs : cs.toNat = n) (hn : n * n = c * 10 ^ p) (h35 : c * 10 ^ p < 10 ^ 35)
    (M256 C256 C4 C8 : U256) (CX CX1 CX2 S2 T TP CSM res : U128) (sg Carry : UInt64) (D : Int64)
    (fx f64 : F32U) (be dg sc eq : Int32) :
    sqrtFromTest x m f M256 C256 C4 C8 CX CX1 CX2 (ofBits (c * 10 ^ p)) S2 T TP ⟨cs, 0⟩ CSM res sg Carry D fx f64
      (Int32.ofInt (e + 6176)) be dg sc eq = .ok (ofBits (encode (.fin false n (e / 2))), f) := by
  have hn18 : n < 10 ^ 18 := by
    by_contra hh
    have : 10 ^ 18 * 10 ^ 18 ≤ n * n := Nat.mul_le_mul (by omega) (by omega)
    omega
  have h128 : c * 10 ^ p < 2 ^ 128 := by omega
  have hA := tn_ofBits h128
  generalize hAd : ofBits (c * 10 ^ p) = A at hA
  have a0 := A.w0.toNat_lt
  unfold sqrtFromTest
  take_pos
  · rw [beq_iff_eq, ← UInt64.toNat_inj, UInt64.toNat_mul, hcs, hn, ← hA]
    unfold Rs.U128.toNat'; omega
  obtain ⟨S, hS, hSv⟩ := C01GenArith.gen_mul_64x64_to_128_fast cs cs (by omega) (by omega)
  take_call hS
  have hSA : S = A := C01GenArith.toNat'_inj128 (by rw [hSv, hcs, hn, hA])
  take_pos
  · rw [hSA]; exact beq_self_eq_true _
  have hb : C13GenPack.bitsOf (⟨cs, 0⟩ : U128) = n := by unfold C13GenPack.bitsOf; rw [hcs]; simp
  obtain ⟨r, hr, hrb, -⟩ := C13GenPack.get_very_fast_spec 0 ((Int32.ofInt (e + 6176) + c_DECIMAL_EXPONENT_BIAS_128) >>> 1)
    ⟨cs, 0⟩ (Or.inl rfl) (by rw [half_expo l1 u1]; omega) (by rw [half_expo l1 u1]; omega) (by rw [hb]; omega)
  take_call hr
  rw [hb, half_expo l1 u1] at hrb
  have : r = ofBits (encode (.fin false n (e / 2))) := by
    rw [← C06GenFromInt.ofBits_bitsOf r, show bitsOf r = C13GenPack.bitsOf r from rfl, hrb]
    simp
  rw [this]
  rfl



/-! ## 5. Not an exact root: the digit count, the scale factor, `C256 = c·10^scale` -/

/-- **from the failed exact-root test to the digit correction** -/
theorem test_to_d (x : U128) (m : RoundingMode) (f : UInt32) {c : Nat} (p : Nat) (cs : UInt64)
    (hcs : cs.toNat < 2 ^ 63) (hne : cs.toNat * cs.toNat ≠ c * 10 ^ p) (h35 : c * 10 ^ p < 10 ^ 35)
    (M256 C256 C4 C8 : U256) (CX CX1 CX2 S2 T TP CSM res : U128) (sg Carry : UInt64) (D : Int64)
    (fx f64 : F32U) (ex be dg sc eq : Int32) :
    sqrtFromTest x m f M256 C256 C4 C8 CX CX1 CX2 (ofBits (c * 10 ^ p)) S2 T TP ⟨cs, 0⟩ CSM res sg Carry D fx f64
      ex be dg sc eq =
    sqrtFromD x m f M256 C256 C4 C8 CX CX1 CX2 (ofBits (c * 10 ^ p)) S2 T TP ⟨cs, 0⟩ CSM res sg Carry D fx f64
      ex be dg sc eq := by
  have h128 : c * 10 ^ p < 2 ^ 128 := by omega
  have hA := tn_ofBits h128
  generalize hAd : ofBits (c * 10 ^ p) = A at hA
  unfold sqrtFromTest
  by_cases h0 : (cs * cs == A.w0) = true
  · take_pos
    · exact h0
    obtain ⟨S, hS, hSv⟩ := C01GenArith.gen_mul_64x64_to_128_fast cs cs hcs hcs
    take_call hS
    take_neg
    · intro h1
      apply hne
      rw [beq_iff_eq] at h0 h1
      rw [← hA, ← hSv]
      have a0 : (cs * cs).toNat = cs.toNat * cs.toNat % 2 ^ 64 := UInt64.toNat_mul _ _
      have s0 := S.w0.toNat_lt
      unfold Rs.U128.toNat' at hSv ⊢
      have : S.w0.toNat = A.w0.toNat := by rw [← h0, a0]; omega
      rw [h1, this]
    rfl
  · take_neg
    · exact h0
    rfl

/-- the number of digits the code arrives at: the tabulated estimate, plus one if `c ≥` the tabulated power of ten -/
abbrev digitsOf (c : Nat) (d : Int32) (T : U128) : Int32 :=
  if (decide (c ≥ T.w1.toNat * 2 ^ 64 + T.w0.toNat)) = true then d + 1 else d

theorem digitsOf_val {c : Nat} {fx : F32U} {d : Int32} {T : U128} (h : DigitsOK c fx d T) :
    (digitsOf c d T).toInt = ndigits c := by
  obtain ⟨-, -, h0, h1, h2⟩ := h
  unfold digitsOf
  split
  · rename_i hh
    rw [decide_eq_true_eq] at hh
    rw [if_pos hh] at h2
    rw [Int32.toInt_add, show (1 : Int32).toInt = 1 from rfl, bmod32 (by omega) (by omega)]
    exact h2
  · rename_i hh
    rw [decide_eq_true_eq] at hh
    rw [if_neg hh] at h2
    omega

/-- the three-way test on `D = (CX.w[1] − T.w[1]) as i64` and the low words is `c ≥ T` -/
theorem cond_eval (CX T : U128) (i : UInt64) (hT : tbl128 Dec.Gen.BID_POWER10_INDEX_BINEXP_128 i = .ok T)
    (hT1 : T.w1.toNat < 2 ^ 63) (hC1 : CX.w1.toNat < 2 ^ 63) :
    (if (decide ((Int64.ofInt (toI ((CX.w1 - T.w1)))) > (0 : Int64))) then pure true else (do pure ((← (if ((Int64.ofInt (toI ((CX.w1 - T.w1)))) == (0 : Int64)) then (do pure (decide (CX.w0 ≥ (← tbl128 Dec.Gen.BID_POWER10_INDEX_BINEXP_128 i).w0))) else pure false))))) =
      (.ok (decide (bitsOf CX ≥ T.w1.toNat * 2 ^ 64 + T.w0.toNat)) : Except String Bool) := by
  obtain ⟨t1, t2⟩ := C11GenLogb.d_tests CX.w1 T.w1 hC1 hT1
  have c0 := CX.w0.toNat_lt
  have t0 := T.w0.toNat_lt
  rw [t1, t2, hT]
  unfold bitsOf
  by_cases g1 : CX.w1.toNat > T.w1.toNat
  · rw [if_pos (by simpa using g1)]
    show Except.ok true = _
    congr 1
    symm; rw [decide_eq_true_eq]
    have : (T.w1.toNat + 1) * 2 ^ 64 ≤ CX.w1.toNat * 2 ^ 64 := Nat.mul_le_mul_right _ g1
    omega
  · rw [if_neg (by simpa using g1)]
    by_cases g2 : CX.w1.toNat = T.w1.toNat
    · rw [if_pos (by simpa using g2)]
      show Except.ok (decide (CX.w0 ≥ T.w0)) = _
      congr 1
      rw [Bool.eq_iff_iff, decide_eq_true_eq, decide_eq_true_eq, ge_iff_le, UInt64.le_iff_toNat_le, g2]
      omega
    · rw [if_neg (by simpa using g2)]
      show Except.ok false = _
      congr 1
      symm; rw [decide_eq_false_iff_not]
      have : (CX.w1.toNat + 1) * 2 ^ 64 ≤ T.w1.toNat * 2 ^ 64 := Nat.mul_le_mul_right _ (by omega)
      omega

theorem i32_and1 (n : Int32) : (n &&& 1).toInt = n.toInt % 2 := by
  have h1 : (n &&& 1).toBitVec = n.toBitVec &&& 1#32 := rfl
  have ht : n.toInt = n.toBitVec.toInt := rfl
  have ht' : (n &&& 1).toInt = (n &&& 1).toBitVec.toInt := rfl
  rw [ht', h1, ht, BitVec.toInt_eq_toNat_cond, BitVec.toInt_eq_toNat_cond, BitVec.toNat_and]
  have : (1#32 : BitVec 32).toNat = 2 ^ 1 - 1 := rfl
  rw [this, Nat.and_two_pow_sub_one_eq_mod]
  have := n.toBitVec.isLt
  split <;> split <;> omega

/-- the scale factor and the exponent of the scaled square root, from the digit count `nd` -/
theorem scale_vals (dg : Int32) (nd : Nat) (e : Int) (hdg : dg.toInt = nd) (h1 : 1 ≤ nd) (h34 : nd ≤ 34)
    (l1 : -6176 ≤ e) (u1 : e ≤ 6111) :
    (Int32.ofInt (e + 6176) - ((0x43 : Int32) - dg)).toInt = e + 6176 - (67 - nd) ∧
    (((0x43 : Int32) - dg) + ((Int32.ofInt (e + 6176) - ((0x43 : Int32) - dg)) &&& 1)).toInt
      = 67 - nd + (e - (67 - nd)) % 2 := by
  have a1 : (Int32.ofInt (e + 6176)).toInt = e + 6176 := by
    rw [Int32.toInt_ofInt, show Int32.size = 2^32 from rfl]; exact bmod32 (by omega) (by omega)
  have a2 : ((0x43 : Int32) - dg).toInt = 67 - nd := by
    rw [Int32.toInt_sub, hdg, show (0x43 : Int32).toInt = 67 from rfl]; exact bmod32 (by omega) (by omega)
  have a3 : (Int32.ofInt (e + 6176) - ((0x43 : Int32) - dg)).toInt = e + 6176 - (67 - nd) := by
    rw [Int32.toInt_sub, a1, a2]; exact bmod32 (by omega) (by omega)
  refine ⟨a3, ?_⟩
  rw [Int32.toInt_add, a2, i32_and1, a3, bmod32 (by omega) (by omega)]
  omega

/-- the power of ten the coefficient is scaled by: `67 − digits`, plus one if that leaves an odd exponent -/
def scaleOf (c : Nat) (e : Int) : Nat := (67 - (ndigits c : Int) + (e - (67 - (ndigits c : Int))) % 2).toNat

theorem idx_of_i32 (n : Int32) (h0 : 0 ≤ n.toInt) : (UInt64.ofInt (toI n)).toNat = n.toInt.toNat := by
  have := n.toInt_lt
  rw [toNat_ofInt64']
  show (n.toInt % 18446744073709551616).toNat = _
  rw [Int.emod_eq_of_lt h0 (by omega)]

theorem ndigits_bounds {c : Nat} (hc0 : 0 < c) (hl : c < 10 ^ 34) :
    1 ≤ ndigits c ∧ ndigits c ≤ 34 ∧ 10 ^ (ndigits c - 1) ≤ c ∧ c < 10 ^ ndigits c := by
  have h34 : ndigits c ≤ 34 := (@ndigits_le_iff _ 34 hc0).2 hl
  have hlt : c < 10 ^ ndigits c := (@ndigits_le_iff _ (ndigits c) hc0).1 (le_refl _)
  have h1 : 1 ≤ ndigits c := by
    by_contra hh
    have : ndigits c = 0 := by omega
    rw [this] at hlt; omega
  refine ⟨h1, h34, ?_, hlt⟩
  by_contra hh
  have := (@ndigits_le_iff _ (ndigits c - 1) hc0).2 (by omega)
  omega

/-- **from the digit correction to the rounding step**: the digit count is `ndigits c`, the scale factor is `scaleOf c e`,
`C256 = c·10^scale` exactly (both ways of computing it), `C4 = 4·C256`, and `bid_long_sqrt128` is called on `C256`. -/
theorem d_to_tail (x : U128) (m : RoundingMode) (f : UInt32) {c : Nat} {e : Int} (hc0 : 0 < c) (hl : c < 10 ^ 34)
    (l1 : -6176 ≤ e) (u1 : e ≤ 6111) (fx : F32U) (d : Int32) (T : U128) (hD : DigitsOK c fx d T)
    (M256 C256 C4 C8 : U256) (CX1 CX2 A10 S2 T128 TP CS CSM res : U128) (sg Carry : UInt64) (D : Int64)
    (f64 : F32U) (sc eq : Int32) :
    ∃ C : U256, C.toNat' = c * 10 ^ scaleOf c e ∧ ∀ r, bid_long_sqrt128 CS C = .ok r →
      sqrtFromD x m f M256 C256 C4 C8 (ofBits c) CX1 CX2 A10 S2 T128 TP CS CSM res sg Carry D fx f64
        (Int32.ofInt (e + 6176)) (binExp fx) d sc eq =
      sqrtTail x m f M256 C (c4Of C) C8 (ofBits c) CX1 CX2 A10 S2 T128 TP r CSM res sg Carry D fx f64
        (Int32.ofInt (e + 6176)) (binExp fx) d sc (Int32.ofInt (e + 6176) - ((0x43 : Int32) - digitsOf c d T)) := by
  have h128 : c < 2 ^ 128 := by omega
  have hbc : bitsOf (ofBits c) = c := C06GenFromInt.bitsOf_ofBits h128
  have htc : (ofBits c).toNat' = c := tn_ofBits h128
  obtain ⟨n1, n34, -, -⟩ := ndigits_bounds hc0 hl
  have hdv := digitsOf_val hD
  obtain ⟨hT, hT1, -, -, -⟩ := hD
  have hC1 : (ofBits c).w1.toNat < 2 ^ 63 := by
    have := (ofBits c).w0.toNat_lt
    unfold bitsOf at hbc; omega
  have hce := cond_eval (ofBits c) T _ hT hT1 hC1
  rw [hbc] at hce
  obtain ⟨-, hS⟩ := scale_vals (digitsOf c d T) (ndigits c) e hdv n1 n34 l1 u1
  have hsc : ((67 : Int) - (ndigits c : Int) + (e - (67 - (ndigits c : Int))) % 2) = (scaleOf c e : Nat) := by
    unfold scaleOf; omega
  rw [hsc] at hS
  have hsc33 : 33 ≤ scaleOf c e ∧ scaleOf c e ≤ 67 ∧ scaleOf c e + ndigits c ≤ 68 := by omega
  obtain ⟨S, hSd⟩ : ∃ S, ((0x43 : Int32) - digitsOf c d T) +
    ((Int32.ofInt (e + 6176) - ((0x43 : Int32) - digitsOf c d T)) &&& 1) = S := ⟨_, rfl⟩
  rw [hSd] at hS
  have hcond : decide (S > (0x26 : Int32)) = decide (scaleOf c e > 38) := by
    rw [Bool.eq_iff_iff, decide_eq_true_eq, decide_eq_true_eq, gt_iff_lt, Int32.lt_iff_toInt_lt, hS,
      show (0x26 : Int32).toInt = 38 from rfl]
    omega
  by_cases hbig : scaleOf c e > 38
  · -- two multiplications
    rw [decide_eq_true hbig] at hcond
    have hi0 : (S - (0x25 : Int32)).toInt = scaleOf c e - 37 := by
      rw [Int32.toInt_sub, hS, show (0x25 : Int32).toInt = 37 from rfl]; exact bmod32 (by omega) (by omega)
    have hi1 : (UInt64.ofInt (toI (S - (0x25 : Int32)))).toNat = scaleOf c e - 37 := by
      rw [idx_of_i32 _ (by omega), hi0]; omega
    have hi2 : ndigits c + (scaleOf c e - 37) ≤ 31 := by omega
    have hi3 : scaleOf c e - 37 + 37 = scaleOf c e := by omega
    obtain ⟨-, -, -, nhi⟩ := ndigits_bounds hc0 hl
    obtain ⟨T1, hT1r, hT1v⟩ := p10tab_read (UInt64.ofInt (toI (S - (0x25 : Int32)))) (by rw [hi1]; clear nhi; omega)
    rw [hi1] at hT1v
    have hfit : c * 10 ^ (scaleOf c e - 37) < 2 ^ 128 := by
      have : c * 10 ^ (scaleOf c e - 37) < 10 ^ ndigits c * 10 ^ (scaleOf c e - 37) :=
        Nat.mul_lt_mul_of_pos_right nhi (Nat.pow_pos (by decide))
      rw [← Nat.pow_add] at this
      have h31 : 10 ^ (ndigits c + (scaleOf c e - 37)) ≤ 10 ^ 31 := Nat.pow_le_pow_right (by decide) hi2
      exact lt_of_lt_of_le this (le_trans h31 (by norm_num))
    obtain ⟨X1, hX1, hX1v⟩ := C01GenArith.gen_mul_128x128_low_exact (ofBits c) T1 (by rw [htc, hT1v]; exact hfit)
    obtain ⟨T2, hT2r, hT2v⟩ := p10tab_read (UInt64.ofInt (toI 0x25)) (by decide)
    obtain ⟨C, hCr, hCv⟩ := C01GenArith.gen_mul_128x128_to_256 X1 T2
    refine ⟨C, ?_, fun r hr => ?_⟩
    · rw [hCv, hX1v, hT2v, htc, hT1v, show (UInt64.ofInt (toI 0x25)).toNat = 37 from by decide, Nat.mul_assoc, ← Nat.pow_add]
      rw [hi3]
    unfold sqrtFromD
    take_call hT
    take_call hce
    jp_merge
    subst hSd
    take_pos
    · exact hcond
    take_call hT1r
    take_call hX1
    take_call hT2r
    take_call hCr
    take_call hr
    rfl
  · rw [decide_eq_false hbig] at hcond
    have hi1 : (UInt64.ofInt (toI S)).toNat = scaleOf c e := by
      rw [idx_of_i32 _ (by omega), hS]; omega
    obtain ⟨T1, hT1r, hT1v⟩ := p10tab_read (UInt64.ofInt (toI S)) (by omega)
    rw [hi1] at hT1v
    obtain ⟨C, hCr, hCv⟩ := C01GenArith.gen_mul_128x128_to_256 (ofBits c) T1
    refine ⟨C, ?_, fun r hr => ?_⟩
    · rw [hCv, htc, hT1v]
    unfold sqrtFromD
    take_call hT
    take_call hce
    jp_merge
    subst hSd
    take_neg
    · rw [hcond]; decide
    take_call hT1r
    take_call hCr
    take_call hr
    rfl



/-! ## 6. The rounding step: word-level pieces -/

namespace JP
open Lean Meta Elab Tactic

/-- `set_arg i := t`: the left-hand side is an application `F a₀ … aₙ`; replace `aᵢ` by `t` (first goal: `aᵢ = t`) -/
elab "set_arg " i:num " := " t:term : tactic => do
  let g ← getMainGoal
  g.withContext do
    let tgt := (← instantiateMVars (← g.getType)).consumeMData
    let some (ty, lhs, rhs) := tgt.eq? | throwError "set_arg: not an equation"
    let F := lhs.getAppFn
    let args := lhs.getAppArgs
    let k := i.getNat
    unless k < args.size do throwError "set_arg: no such argument"
    let a := args[k]!
    let aty ← inferType a
    let tv ← Tactic.elabTermEnsuringType t aty
    let side ← mkFreshExprSyntheticOpaqueMVar (← mkEq a tv)
    let motive ← withLocalDeclD `v aty fun v => do
      mkLambdaFVars #[v] (mkAppN F (args.set! k v))
    let newLhs := mkAppN F (args.set! k tv)
    let gNew ← mkFreshExprSyntheticOpaqueMVar (← mkEq newLhs rhs)
    let cg ← mkCongrArg motive side
    let u ← getLevel ty
    g.assign (mkApp6 (.const ``Eq.trans [u]) ty lhs newLhs rhs cg gNew)
    replaceMainGoal [side.mvarId!, gNew.mvarId!]

end JP

theorem u64_inc (a : UInt64) : (a + 1).toNat = if a.toNat + 1 = 2 ^ 64 then 0 else a.toNat + 1 := by
  have := a.toNat_lt
  rw [UInt64.toNat_add, UInt64.toNat_one]; split <;> omega
theorem u64_inc_z (a : UInt64) : (a + 1 == (0 : UInt64)) = decide (a.toNat + 1 = 2 ^ 64) := by
  have := a.toNat_lt
  rw [Bool.eq_iff_iff, beq_iff_eq, decide_eq_true_eq, ← UInt64.toNat_inj, u64_inc, UInt64.toNat_zero]
  split <;> omega

/-- `M256 + 1` with the carries rippling, in the shape the code has it -/
def inc256 (M : U256) : U256 :=
  if (M.w0 + 1 == (0 : UInt64)) = true then
    if (M.w1 + 1 == (0 : UInt64)) = true then
      if (M.w2 + 1 == (0 : UInt64)) = true then ⟨M.w0 + 1, M.w1 + 1, M.w2 + 1, M.w3 + 1⟩
      else ⟨M.w0 + 1, M.w1 + 1, M.w2 + 1, M.w3⟩
    else ⟨M.w0 + 1, M.w1 + 1, M.w2, M.w3⟩
  else ⟨M.w0 + 1, M.w1, M.w2, M.w3⟩

theorem inc256_val (M : U256) (h : M.toNat' + 1 < 2 ^ 256) : (inc256 M).toNat' = M.toNat' + 1 := by
  have a0 := M.w0.toNat_lt; have a1 := M.w1.toNat_lt; have a2 := M.w2.toNat_lt; have a3 := M.w3.toNat_lt
  unfold inc256
  simp only [u64_inc_z, decide_eq_true_eq]
  simp only [Rs.U256.toNat'] at h ⊢
  split_ifs <;> simp only [u64_inc] <;> (repeat' split) <;> omega

/-- `CS + 1` / `CS − 1` in the shape the code has them -/
def incT (r : U128) : U128 :=
  if ((⟨r.w0 + 1, r.w1⟩ : U128).w0 == (0 : UInt64)) = true then ⟨r.w0 + 1, r.w1 + 1⟩ else ⟨r.w0 + 1, r.w1⟩
def decT (r : U128) : U128 :=
  ⟨(if (r.w0 == (0 : UInt64)) = true then (⟨r.w0, r.w1 - 1⟩ : U128) else r).w0 - 1,
   (if (r.w0 == (0 : UInt64)) = true then (⟨r.w0, r.w1 - 1⟩ : U128) else r).w1⟩

theorem incT_eq (r : U128) : incT r = incCS r := by unfold incT incCS; split <;> simp [*]
theorem decT_eq (r : U128) : decT r = decCS r := by unfold decT decCS; split <;> simp [*]
theorem incT_val (r : U128) (h : r.toNat' + 1 < 2 ^ 128) : (incT r).toNat' = r.toNat' + 1 := by
  rw [incT_eq, incCS_val r h]
theorem decT_val (r : U128) (h : 0 < r.toNat') : (decT r).toNat' = r.toNat' - 1 := by
  rw [decT_eq, decCS_val r h]

/-- `2·CS + 1`, `2·CS`, `8·CS` -/
theorem csm_val (r : U128) (h : r.toNat' < 2 ^ 127) :
    (⟨(r.w0 + r.w0) ||| 1, (r.w1 <<< 1) ||| (r.w0 >>> 0x3f)⟩ : U128).toNat' = 2 * r.toNat' + 1 := by
  have a0 := r.w0.toNat_lt
  have e1 := or_shl_shr r.w0 r.w1 1 0x3f 1 (by omega) (by omega) rfl rfl
  have e0 : ((r.w0 + r.w0) ||| 1).toNat = 2 * r.w0.toNat % 2 ^ 64 + 1 := by
    rw [UInt64.toNat_or, UInt64.toNat_add, UInt64.toNat_one]
    have hev : (r.w0.toNat + r.w0.toNat) % 2 ^ 64 % 2 = 0 := by omega
    have : ∀ n : Nat, n % 2 = 0 → n ||| 1 = n + 1 := by
      intro n hn
      apply Nat.eq_of_testBit_eq
      intro i
      rcases i with _ | i
      · simp [Nat.testBit_or, hn]; omega
      · rw [Nat.testBit_or]
        simp only [Nat.testBit_succ]
        have : (n + 1) / 2 = n / 2 := by omega
        rw [this]; simp
    rw [this _ hev]; omega
  simp only [Rs.U128.toNat'] at h ⊢
  rw [e0, e1]; omega

theorem c2_val (r : U128) (h : r.toNat' < 2 ^ 127) :
    (⟨r.w0 <<< 1, (r.w1 <<< 1) ||| (r.w0 >>> 0x3f)⟩ : U128).toNat' = 2 * r.toNat' := by
  have a0 := r.w0.toNat_lt
  have e1 := or_shl_shr r.w0 r.w1 1 0x3f 1 (by omega) (by omega) rfl rfl
  have e0 := shl_toNat r.w0 1 1 (by omega) rfl
  simp only [Rs.U128.toNat'] at h ⊢
  rw [e0, e1]; omega

theorem c8_val (r : U128) (h : r.toNat' < 2 ^ 125) :
    (⟨r.w0 <<< 3, (r.w1 <<< 3) ||| (r.w0 >>> 0x3d)⟩ : U128).toNat' = 8 * r.toNat' := by
  have a0 := r.w0.toNat_lt
  have e1 := or_shl_shr r.w0 r.w1 3 0x3d 3 (by omega) (by omega) rfl rfl
  have e0 := shl_toNat r.w0 3 3 (by omega) rfl
  simp only [Rs.U128.toNat'] at h ⊢
  rw [e0, e1]; omega

/-- the three-word subtraction `M256 − C8` (borrow chain) with the fourth word taking the last borrow -/
theorem sub3_val (M : U256) (a b : UInt64) (r7 r8 r9 : UInt64 × UInt64)
    (h7 : r7.1.toNat + a.toNat = M.w0.toNat + 2 ^ 64 * r7.2.toNat)
    (h8 : r8.1.toNat + b.toNat + r7.2.toNat = M.w1.toNat + 2 ^ 64 * r8.2.toNat)
    (h9 : r9.1.toNat + (0 : UInt64).toNat + r8.2.toNat = M.w2.toNat + 2 ^ 64 * r9.2.toNat) (c9 : r9.2.toNat ≤ 1)
    (hle : a.toNat + 2 ^ 64 * b.toNat ≤ M.toNat') :
    (⟨r7.1, r8.1, r9.1, M.w3 - r9.2⟩ : U256).toNat' = M.toNat' - (a.toNat + 2 ^ 64 * b.toNat) := by
  have x0 := r7.1.toNat_lt; have x1 := r8.1.toNat_lt; have x2 := r9.1.toNat_lt
  have a3 := M.w3.toNat_lt
  have hw : (M.w3 - r9.2).toNat = (2 ^ 64 - r9.2.toNat + M.w3.toNat) % 2 ^ 64 := UInt64.toNat_sub _ _
  simp only [Rs.U256.toNat', UInt64.toNat_zero] at hle h9 ⊢
  rw [hw]
  generalize r7.1.toNat = X0 at *; generalize r7.2.toNat = C0 at *
  generalize r8.1.toNat = X1 at *; generalize r8.2.toNat = C1 at *
  generalize r9.1.toNat = X2 at *; generalize r9.2.toNat = C2 at *
  generalize M.w0.toNat = m0 at *; generalize M.w1.toNat = m1 at *
  generalize M.w2.toNat = m2 at *; generalize M.w3.toNat = m3 at *
  generalize a.toNat = A at *; generalize b.toNat = B at *
  clear hw
  have : C2 = 0 ∨ C2 = 1 := by omega
  rcases this with h | h <;> subst h <;> omega

/-- the three-word addition `M256 + C8` (carry chain) with the fourth word taking the last carry -/
theorem add3_val (M : U256) (a b : UInt64) (r7 r8 r9 : UInt64 × UInt64)
    (h7 : r7.1.toNat + 2 ^ 64 * r7.2.toNat = M.w0.toNat + a.toNat)
    (h8 : r8.1.toNat + 2 ^ 64 * r8.2.toNat = M.w1.toNat + b.toNat + r7.2.toNat)
    (h9 : r9.1.toNat + 2 ^ 64 * r9.2.toNat = M.w2.toNat + (0 : UInt64).toNat + r8.2.toNat)
    (hlt : M.toNat' + (a.toNat + 2 ^ 64 * b.toNat) < 2 ^ 256) :
    (⟨r7.1, r8.1, r9.1, M.w3 + r9.2⟩ : U256).toNat' = M.toNat' + (a.toNat + 2 ^ 64 * b.toNat) := by
  have x0 := r7.1.toNat_lt; have x1 := r8.1.toNat_lt; have x2 := r9.1.toNat_lt
  have a3 := M.w3.toNat_lt
  have hw : (M.w3 + r9.2).toNat = (M.w3.toNat + r9.2.toNat) % 2 ^ 64 := UInt64.toNat_add _ _
  simp only [Rs.U256.toNat', UInt64.toNat_zero] at hlt h9 ⊢
  rw [hw]
  generalize r7.1.toNat = X0 at *; generalize r7.2.toNat = C0 at *
  generalize r8.1.toNat = X1 at *; generalize r8.2.toNat = C1 at *
  generalize r9.1.toNat = X2 at *; generalize r9.2.toNat = C2 at *
  generalize M.w0.toNat = m0 at *; generalize M.w1.toNat = m1 at *
  generalize M.w2.toNat = m2 at *; generalize M.w3.toNat = m3 at *
  generalize a.toNat = A at *; generalize b.toNat = B at *
  clear hw
  omega

/-- the last lines of the routine: the inexact flag, the biased exponent halved, `bid_get_BID128_fast` -/
def sqrtFin (pfpsf_ : UInt32) (exponent_q : Int32) (CS_ : U128) : Except String (U128 × UInt32) := do
  let mut pfpsf : UInt32 := pfpsf_
  let mut CS : U128 := CS_
  let mut res : U128 := default
  let t__17 ← set_status_flags pfpsf c_StatusFlags_BID_INEXACT_EXCEPTION
  pfpsf := t__17
  let mut expon : Int32 := (((exponent_q + c_DECIMAL_EXPONENT_BIAS_128)) >>> 1)
  let t__18 ← bid_get_BID128_fast (0 : UInt64) expon CS
  expon := t__18.2.1
  CS := t__18.2.2
  res := t__18.1
  return (res, pfpsf)

/-- the last lines deliver `+v·10^(E − 6176)` (with `10^34` renormalised to `10^33`, one exponent up), inexact -/
theorem fin_eval (f : UInt32) (qe : Int32) (CS : U128) (v : Nat) (E : Int) (hv : CS.toNat' = v) (hv34 : v ≤ 10 ^ 34)
    (hE : ((qe + c_DECIMAL_EXPONENT_BIAS_128) >>> 1).toInt = E) (hE0 : 0 ≤ E) (hE1 : E + 1 ≤ 12287) :
    sqrtFin f qe CS = .ok (ofBits (encode (if v = 10 ^ 34 then .fin false (10 ^ 33) (E + 1 - 6176)
      else .fin false v (E - 6176))), f ||| 0x20) := by
  have hb : C13GenPack.bitsOf CS = v := by rw [← hv]; unfold C13GenPack.bitsOf Rs.U128.toNat'; omega
  have hn : C13PackHelpers.norm34 v E = if v = 10 ^ 34 then (10 ^ 33, E + 1) else (v, E) := rfl
  obtain ⟨r, e', c', hr, -, -, hrb, -⟩ := C13GenPack.get_fast_spec 0 ((qe + c_DECIMAL_EXPONENT_BIAS_128) >>> 1) CS
    (Or.inl rfl) (by rw [hb]; exact hv34) (by rw [hb, hE, hn]; split <;> simp <;> omega)
    (by rw [hb, hE, hn]; split <;> simp <;> omega)
  rw [hb, hE, hn] at hrb
  unfold sqrtFin
  take_call (show set_status_flags f c_StatusFlags_BID_INEXACT_EXCEPTION = .ok (f ||| 0x20) from rfl)
  take_call hr
  have : r = ofBits (encode (if v = 10 ^ 34 then .fin false (10 ^ 33) (E + 1 - 6176) else .fin false v (E - 6176))) := by
    rw [← C06GenFromInt.ofBits_bitsOf r, show bitsOf r = C13GenPack.bitsOf r from rfl, hrb]
    split <;> simp
  rw [this]
  rfl



/-! ## 7. The rounding step -/

/-- the arithmetic of the nearest branch: `r` is `⌊√C⌋` or one more, `C` not a square -/
theorem near_arith (C s r : Nat) (hlo : s * s < C) (hhi : C < (s + 1) * (s + 1)) (hr : r = s ∨ r = s + 1)
    (hs1 : 1 ≤ s) :
    (4 * C > (2 * r + 1) * (2 * r + 1) → r + 1 = if (2 * s + 1) * (2 * s + 1) < 4 * C then s + 1 else s) ∧
    (¬ 4 * C > (2 * r + 1) * (2 * r + 1) → 8 * r ≤ (2 * r + 1) * (2 * r + 1) ∧
      ((2 * r + 1) * (2 * r + 1) - 8 * r > 4 * C → r - 1 = if (2 * s + 1) * (2 * s + 1) < 4 * C then s + 1 else s) ∧
      (¬ (2 * r + 1) * (2 * r + 1) - 8 * r > 4 * C → r = if (2 * s + 1) * (2 * s + 1) < 4 * C then s + 1 else s)) := by
  have e1 : (s + 1) * (s + 1) = s * s + 2 * s + 1 := by ring
  have e2 : (2 * s + 1) * (2 * s + 1) = 4 * (s * s) + 4 * s + 1 := by ring
  have e3 : (2 * (s + 1) + 1) * (2 * (s + 1) + 1) = 4 * (s * s) + 12 * s + 9 := by ring
  have e0 : s ≤ s * s := Nat.le_mul_self s
  rw [e1] at hhi
  rcases hr with h | h <;> rw [h]
  · rw [e2]; generalize s * s = q at *
    split_ifs <;> omega
  · rw [e3, e2]; generalize s * s = q at *
    split_ifs <;> omega

/-- the two nearest modes -/
theorem tail_nearest (x : U128) (m : RoundingMode) (f : UInt32) (hm : (m == .NearestEven || m == .NearestAway) = true)
    (C : U256) (r : U128) (s : Nat) (hlo : s * s < C.toNat') (hhi : C.toNat' < (s + 1) * (s + 1))
    (hr : r.toNat' = s ∨ r.toNat' = s + 1) (hs1 : 1 ≤ s) (hs : s < 2 ^ 120) (qe : Int32)
    (M256 C8 : U256) (CX CX1 CX2 A10 S2 T128 TP CSM res : U128) (sg Carry : UInt64) (D : Int64)
    (fx f64 : F32U) (ex be dg sc : Int32) :
    sqrtTail x m f M256 C (c4Of C) C8 CX CX1 CX2 A10 S2 T128 TP r CSM res sg Carry D fx f64 ex be dg sc qe =
      sqrtFin f qe (ofBits (if (2 * s + 1) * (2 * s + 1) < 4 * C.toNat' then s + 1 else s)) := by
  have hC254 : C.toNat' < 2 ^ 254 := by
    have : (s + 1) * (s + 1) ≤ 2 ^ 120 * 2 ^ 120 := Nat.mul_le_mul (by omega) (by omega)
    omega
  have hC4 := c4Of_val C hC254
  have hr125 : r.toNat' < 2 ^ 124 := by omega
  have hcsm := csm_val r (by omega)
  have hc8 := c8_val r (by omega)
  obtain ⟨M, hM, hMv⟩ := C01GenArith.gen_sqr128_to_256 M256 ⟨(r.w0 + r.w0) ||| 1, (r.w1 <<< 1) ||| (r.w0 >>> 0x3f)⟩
  rw [hcsm] at hMv
  obtain ⟨nA, nB⟩ := near_arith C.toNat' s r.toNat' hlo hhi hr hs1
  unfold sqrtTail
  take_pos
  · rw [mode_test]; exact hm
  take_call hM
  by_cases h1 : (c4Of C).toNat' > M.toNat'
  · take_pos
    · rw [gt256]; exact decide_eq_true h1
    jp_merge
    show sqrtFin f qe (incT r) = _
    congr 1
    apply eq_ofBits
    rw [incT_val r (by omega)]
    exact nA (by rw [← hC4, ← hMv]; exact h1)
  · take_neg
    · rw [gt256]; simpa using h1
    obtain ⟨nB0, nB1, nB2⟩ := nB (by rw [← hC4, ← hMv]; exact h1)
    obtain ⟨r7, hr7, e7, c7⟩ := C01GenArith.gen_sub_borrow_out M.w0 (r.w0 <<< 3)
    obtain ⟨r8, hr8, e8, c8⟩ := C01GenArith.gen_sub_borrow_in_out M.w1 ((r.w1 <<< 3) ||| (r.w0 >>> 0x3d)) r7.2 c7
    obtain ⟨r9, hr9, e9, c9⟩ := C01GenArith.gen_sub_borrow_in_out M.w2 0 r8.2 c8
    have hc8' : (r.w0 <<< 3).toNat + 2 ^ 64 * ((r.w1 <<< 3) ||| (r.w0 >>> 0x3d)).toNat = 8 * r.toNat' := hc8
    have hsub := sub3_val M (r.w0 <<< 3) ((r.w1 <<< 3) ||| (r.w0 >>> 0x3d)) r7 r8 r9 e7 e8 e9 c9
      (by rw [hc8', hMv]; exact nB0)
    rw [hc8', hMv] at hsub
    take_call hr7
    take_call hr8
    take_call hr9
    by_cases h2 : (⟨r7.1, r8.1, r9.1, M.w3 - r9.2⟩ : U256).toNat' > (c4Of C).toNat'
    · take_pos
      · rw [gt256]; exact decide_eq_true h2
      jp_merge
      show sqrtFin f qe (decT r) = _
      congr 1
      apply eq_ofBits
      rw [decT_val r (by omega)]
      exact nB1 (by rw [← hC4, ← hsub]; exact h2)
    · take_neg
      · rw [gt256]; simpa using h2
      show sqrtFin f qe r = _
      congr 1
      apply eq_ofBits
      exact nB2 (by rw [← hC4, ← hsub]; exact h2)

/-- the arithmetic of the directed branch -/
theorem dir_arith (C s r : Nat) (hlo : s * s < C) (hhi : C < (s + 1) * (s + 1)) (hr : r = s ∨ r = s + 1)
    (hs1 : 1 ≤ s) :
    (r * r > C → r = s + 1 ∧ 2 * r ≤ r * r ∧ r * r - 2 * r + 1 = s * s) ∧
    (¬ r * r > C → r = s ∧ r * r + 2 * r + 1 = (s + 1) * (s + 1)) := by
  have e1 : (s + 1) * (s + 1) = s * s + 2 * s + 1 := by ring
  have e0 : s ≤ s * s := Nat.le_mul_self s
  rw [e1] at hhi ⊢
  rcases hr with h | h <;> rw [h]
  · generalize s * s = q at *
    omega
  · rw [e1]; generalize s * s = q at *
    omega

/-- the three directed modes -/
theorem tail_directed (x : U128) (m : RoundingMode) (f : UInt32) (hm : (m == .NearestEven || m == .NearestAway) = false)
    (C : U256) (r : U128) (s : Nat) (hlo : s * s < C.toNat') (hhi : C.toNat' < (s + 1) * (s + 1))
    (hr : r.toNat' = s ∨ r.toNat' = s + 1) (hs1 : 1 ≤ s) (hs : s < 2 ^ 120) (qe : Int32)
    (M256 C8 : U256) (CX CX1 CX2 A10 S2 T128 TP CSM res : U128) (sg Carry : UInt64) (D : Int64)
    (fx f64 : F32U) (ex be dg sc : Int32) :
    sqrtTail x m f M256 C (c4Of C) C8 CX CX1 CX2 A10 S2 T128 TP r CSM res sg Carry D fx f64 ex be dg sc qe =
      sqrtFin f qe (ofBits (if m = .Upward then s + 1 else s)) := by
  have hC254 : C.toNat' < 2 ^ 254 := by
    have : (s + 1) * (s + 1) ≤ 2 ^ 120 * 2 ^ 120 := Nat.mul_le_mul (by omega) (by omega)
    omega
  have hr125 : r.toNat' < 2 ^ 124 := by omega
  have hc2 := c2_val r (by omega)
  have hc2' : (r.w0 <<< 1).toNat + 2 ^ 64 * ((r.w1 <<< 1) ||| (r.w0 >>> 0x3f)).toNat = 2 * r.toNat' := hc2
  obtain ⟨M, hM, hMv⟩ := C01GenArith.gen_sqr128_to_256 M256 r
  obtain ⟨dA, dB⟩ := dir_arith C.toNat' s r.toNat' hlo hhi hr hs1
  unfold sqrtTail
  take_neg
  · rw [mode_test, hm]; decide
  take_call hM
  by_cases h1 : M.toNat' > C.toNat'
  · take_pos
    · rw [gt256]; exact decide_eq_true h1
    obtain ⟨dA0, dA1, dA2⟩ := dA (by rw [← hMv]; exact h1)
    obtain ⟨r7, hr7, e7, c7⟩ := C01GenArith.gen_sub_borrow_out M.w0 (r.w0 <<< 1)
    obtain ⟨r8, hr8, e8, c8⟩ := C01GenArith.gen_sub_borrow_in_out M.w1 ((r.w1 <<< 1) ||| (r.w0 >>> 0x3f)) r7.2 c7
    obtain ⟨r9, hr9, e9, c9⟩ := C01GenArith.gen_sub_borrow_in_out M.w2 0 r8.2 c8
    have hsub := sub3_val M (r.w0 <<< 1) ((r.w1 <<< 1) ||| (r.w0 >>> 0x3f)) r7 r8 r9 e7 e8 e9 c9
      (by rw [hc2', hMv]; exact dA1)
    rw [hc2', hMv] at hsub
    take_call hr7
    take_call hr8
    take_call hr9
    jp_merge
    set_arg 1 := inc256 ⟨r7.1, r8.1, r9.1, M.w3 - r9.2⟩
    · rfl
    have hinc := inc256_val ⟨r7.1, r8.1, r9.1, M.w3 - r9.2⟩ (by rw [hsub]; omega)
    rw [hsub, dA2] at hinc
    head_step
    jp_merge
    take_neg
    · rw [gt256, hinc]; simp only [decide_eq_true_eq]; omega
    have hdec := decT_val r (by omega)
    by_cases hu : m = .Upward
    · take_pos
      · rw [hu]; rfl
      jp_merge
      show sqrtFin f qe (incT (decT r)) = _
      congr 1
      apply eq_ofBits
      rw [incT_val _ (by omega), hdec, if_pos hu]; omega
    · take_neg
      · simpa using hu
      show sqrtFin f qe (decT r) = _
      congr 1
      apply eq_ofBits
      rw [hdec, if_neg hu]; omega
  · take_neg
    · rw [gt256]; simpa using h1
    obtain ⟨dB0, dB1⟩ := dB (by rw [← hMv]; exact h1)
    obtain ⟨r7, hr7, e7, c7⟩ := C01GenArith.gen_add_carry_out M.w0 (r.w0 <<< 1)
    obtain ⟨r8, hr8, e8, c8⟩ := C01GenArith.gen_add_carry_in_out M.w1 ((r.w1 <<< 1) ||| (r.w0 >>> 0x3f)) r7.2 c7
    obtain ⟨r9, hr9, e9, c9⟩ := C01GenArith.gen_add_carry_in_out M.w2 0 r8.2 c8
    have hsq : r.toNat' * r.toNat' ≤ 2 ^ 124 * 2 ^ 124 := Nat.mul_le_mul (by omega) (by omega)
    have hadd := add3_val M (r.w0 <<< 1) ((r.w1 <<< 1) ||| (r.w0 >>> 0x3f)) r7 r8 r9 e7 e8 e9
      (by rw [hc2', hMv]; omega)
    rw [hc2', hMv] at hadd
    take_call hr7
    take_call hr8
    take_call hr9
    jp_merge
    set_arg 1 := inc256 ⟨r7.1, r8.1, r9.1, M.w3 + r9.2⟩
    · rfl
    have hinc := inc256_val ⟨r7.1, r8.1, r9.1, M.w3 + r9.2⟩ (by rw [hadd]; omega)
    rw [hadd, dB1] at hinc
    take_neg
    · rw [le256, hinc]; simp only [decide_eq_true_eq]; omega
    by_cases hu : m = .Upward
    · take_pos
      · rw [hu]; rfl
      jp_merge
      show sqrtFin f qe (incT r) = _
      congr 1
      apply eq_ofBits
      rw [incT_val _ (by omega), if_pos hu]; omega
    · take_neg
      · simpa using hu
      show sqrtFin f qe r = _
      congr 1
      apply eq_ofBits
      rw [if_neg hu]; omega



/-! ## 8. Assembly: a positive number -/

/-- what the routine needs of `short_sqrt128` on `A10 = A`: it does not fail, its result is below 2^63, and it is the
exact root whenever `A` is a perfect square -/
def ShortOK (A : Nat) : Prop :=
  ∃ cs, short_sqrt128 (ofBits A) = .ok cs ∧ cs.toNat < 2 ^ 63 ∧ ∀ n, n * n = A → cs.toNat = n

/-- what the routine needs of `bid_long_sqrt128` on `C256 = C` (its first argument is overwritten, not read): it does
not fail and returns `⌊√C⌋` or `⌊√C⌋ + 1` -/
def LongOK (C : Nat) : Prop :=
  ∀ (CS0 : U128) (C256 : U256), C256.toNat' = C →
    ∃ r, bid_long_sqrt128 CS0 C256 = .ok r ∧ (r.toNat' = isqrt C ∨ r.toNat' = isqrt C + 1)

/-- a square times an even power of ten is a square only if … -/
theorem sq_of_sq_mul (a k s : Nat) (h : a * (10 ^ k * 10 ^ k) = s * s) : ∃ n, n * n = a := by
  have hk : 0 < 10 ^ k := Nat.pow_pos (by decide)
  have hd : (10 ^ k) ^ 2 ∣ s ^ 2 := ⟨a, by rw [pow_two, pow_two, ← h]; ring⟩
  have hd' : 10 ^ k ∣ s := (Nat.pow_dvd_pow_iff (by decide)).1 hd
  obtain ⟨n, hn⟩ := hd'
  refine ⟨n, ?_⟩
  subst hn
  have : a * (10 ^ k * 10 ^ k) = n * n * (10 ^ k * 10 ^ k) := by rw [h]; ring
  exact (Nat.eq_of_mul_eq_mul_right (Nat.mul_pos hk hk) this).symm

/-- the scaled coefficient has 67 or 68 digits, the scale factor has the parity of the exponent -/
theorem scaled_bounds {c : Nat} (e : Int) (hc0 : 0 < c) (hl : c < 10 ^ 34) :
    10 ^ 66 ≤ c * 10 ^ scaleOf c e ∧ c * 10 ^ scaleOf c e < 10 ^ 68 ∧ (scaleOf c e : Int) % 2 = e % 2 ∧
    33 ≤ scaleOf c e ∧ scaleOf c e ≤ 67 ∧
    (scaleOf c e : Int) = 67 - (ndigits c : Int) + (e - (67 - (ndigits c : Int))) % 2 := by
  obtain ⟨n1, n34, nlo, nhi⟩ := ndigits_bounds hc0 hl
  have hsc : (scaleOf c e : Int) = 67 - (ndigits c : Int) + (e - (67 - (ndigits c : Int))) % 2 := by
    clear nlo nhi; unfold scaleOf; omega
  have h1 : 66 ≤ ndigits c - 1 + scaleOf c e := by clear nlo nhi; omega
  have h2 : ndigits c + scaleOf c e ≤ 68 := by clear nlo nhi; omega
  have h3 : (scaleOf c e : Int) % 2 = e % 2 := by clear nlo nhi; omega
  have h4 : 33 ≤ scaleOf c e ∧ scaleOf c e ≤ 67 := by clear nlo nhi; omega
  refine ⟨?_, ?_, h3, h4.1, h4.2, hsc⟩
  · calc 10 ^ 66 ≤ 10 ^ (ndigits c - 1 + scaleOf c e) := Nat.pow_le_pow_right (by decide) h1
      _ = 10 ^ (ndigits c - 1) * 10 ^ scaleOf c e := Nat.pow_add _ _ _
      _ ≤ c * 10 ^ scaleOf c e := Nat.mul_le_mul_right _ nlo
  · calc c * 10 ^ scaleOf c e < 10 ^ ndigits c * 10 ^ scaleOf c e :=
          Nat.mul_lt_mul_of_pos_right nhi (Nat.pow_pos (by decide))
      _ = 10 ^ (ndigits c + scaleOf c e) := (Nat.pow_add _ _ _).symm
      _ ≤ 10 ^ 68 := Nat.pow_le_pow_right (by decide) h2

theorem md_pick (m : RoundingMode) (C s : Nat) :
    pickM (C13GenPack.md m) C s =
      if (m == .NearestEven || m == .NearestAway) = true then
        (if (2 * s + 1) * (2 * s + 1) < 4 * C then s + 1 else s)
      else (if m = .Upward then s + 1 else s) := by
  cases m <;> simp [pickM, C13GenPack.md]

/-- **√ of a positive number** (canonical or not), all five modes, relative to the two helper properties: the routine
returns the canonical encoding of `sqrtD`'s datum and ORs `sqrtD`'s flags (nothing, or inexact) into the status word. -/
theorem sqrt_pos_partial (x : U128) (m : RoundingMode) (f : UInt32) {c : Nat} {e : Int} (hx : dOf x = .fin false c e)
    (hc : c ≠ 0) (hS : ShortOK (c * 10 ^ (e % 2).toNat)) (hL : LongOK (c * 10 ^ scaleOf c e)) :
    bid128_sqrt x m f = .ok (ofBits (encode (sqrtD (C13GenPack.md m) (.fin false c e)).1),
      f ||| UInt32.ofNat (sqrtD (C13GenPack.md m) (.fin false c e)).2) := by
  obtain ⟨hl, l1, u1⟩ := fin_WF x hx
  have hl' : c < 10 ^ 34 := hl
  have hc0 : 0 < c := Nat.pos_of_ne_zero hc
  obtain ⟨p, hp⟩ : ∃ p : Nat, e % 2 = p := ⟨(e % 2).toNat, by omega⟩
  have hpe : (e % 2).toNat = p := by omega
  rw [hpe] at hS
  have hp2 : p = 0 ∨ p = 1 := by omega
  have h35 : c * 10 ^ p < 10 ^ 35 := by rcases hp2 with h | h <;> subst h <;> omega
  obtain ⟨cs, hcs, hcs63, hcsq⟩ := hS
  obtain ⟨fx, d, T, hD, eq1⟩ := sqrt_to_test x m f hx hc p hp cs hcs
  rw [eq1]
  by_cases hsq : cs.toNat * cs.toNat = c * 10 ^ p
  · -- exact
    have hn18 : cs.toNat < 10 ^ 18 := by
      by_contra hh
      have : 10 ^ 18 * 10 ^ 18 ≤ cs.toNat * cs.toNat := Nat.mul_le_mul (by omega) (by omega)
      omega
    rw [test_exact x m f l1 u1 p cs cs.toNat rfl hsq h35,
      sqrtD_exact (C13GenPack.md m) c cs.toNat p e hc hp hsq.symm (by unfold P34; omega) l1 u1]
    show _ = Except.ok (_, f ||| UInt32.ofNat 0)
    rw [or0]
  · -- inexact
    rw [test_to_d x m f p cs hcs63 hsq h35]
    obtain ⟨C, hCv, hstep⟩ := d_to_tail x m f hc0 hl' l1 u1 fx d T hD default default default default default default
      (ofBits (c * 10 ^ p)) default default default ⟨cs, 0⟩ default default (x.w1 &&& 0x8000000000000000) default default
      ⟨0x5f800000⟩ default default
    obtain ⟨r, hr, hrv⟩ := hL ⟨cs, 0⟩ C hCv
    rw [hstep r hr]
    obtain ⟨n1, n34, -, -⟩ := ndigits_bounds hc0 hl'
    have hdv := digitsOf_val hD
    obtain ⟨hqe, -⟩ := scale_vals (digitsOf c d T) (ndigits c) e hdv n1 n34 l1 u1
    obtain ⟨b66, b68, hpar, sc33, sc67, hscv⟩ := scaled_bounds e hc0 hl'
    generalize hscd : scaleOf c e = sc at *
    generalize hqd : Int32.ofInt (e + 6176) - ((0x43 : Int32) - digitsOf c d T) = qe at *
    obtain ⟨s1, s2⟩ := isqrt_spec (c * 10 ^ sc)
    generalize hsd : isqrt (c * 10 ^ sc) = s at *
    -- not a square
    have hns : s * s ≠ c * 10 ^ sc := by
      intro hh
      obtain ⟨k, hk⟩ : ∃ k, sc = p + 2 * k := ⟨(sc - p) / 2, by omega⟩
      have : c * 10 ^ sc = c * 10 ^ p * (10 ^ k * 10 ^ k) := by
        rw [hk, Nat.pow_add, two_mul, Nat.pow_add, Nat.mul_assoc]
      obtain ⟨n, hn⟩ := sq_of_sq_mul (c * 10 ^ p) k s (by rw [← this, hh])
      apply hsq
      rw [hcsq n hn]; exact hn
    have hs1 : s * s < c * 10 ^ sc := lt_of_le_of_ne s1 hns
    have hsl : 10 ^ 33 ≤ s := by
      by_contra hh
      have : (s + 1) * (s + 1) ≤ 10 ^ 33 * 10 ^ 33 := Nat.mul_le_mul (by omega) (by omega)
      omega
    have hsu : s < 10 ^ 34 := by
      by_contra hh
      have : 10 ^ 34 * 10 ^ 34 ≤ s * s := Nat.mul_le_mul (by omega) (by omega)
      omega
    have hE : ((qe + c_DECIMAL_EXPONENT_BIAS_128) >>> 1).toInt = (e - sc) / 2 + 6176 := by
      rw [i32_shr1, Int32.toInt_add, hqe, C11GenLogb.bias_toInt, bmod32 (by omega) (by omega)]
      omega
    have hpick : pickM (C13GenPack.md m) (c * 10 ^ sc) s ≤ 10 ^ 34 := by
      rw [md_pick]; split_ifs <;> omega
    rw [sqrtD_inexact (C13GenPack.md m) c sc s p e hc hp (by omega) sc67 hs1 s2 hsl hsu l1 u1]
    have htail : sqrtTail x m f default C (c4Of C) default (ofBits c) default default (ofBits (c * 10 ^ p)) default
        default default r default default (x.w1 &&& 0x8000000000000000) default default fx ⟨0x5f800000⟩
        (Int32.ofInt (e + 6176)) (binExp fx) d default qe =
        sqrtFin f qe (ofBits (pickM (C13GenPack.md m) (c * 10 ^ sc) s)) := by
      rw [md_pick, ← hCv]
      by_cases hm : (m == .NearestEven || m == .NearestAway) = true
      · rw [if_pos hm]
        exact tail_nearest x m f hm C r s (by rw [hCv]; exact hs1) (by rw [hCv]; exact s2) hrv (by omega) (by omega) qe ..
      · rw [if_neg hm]
        exact tail_directed x m f (by simpa using hm) C r s (by rw [hCv]; exact hs1) (by rw [hCv]; exact s2) hrv
          (by omega) (by omega) qe ..
    rw [htail, fin_eval f qe _ _ _ (tn_ofBits (by omega)) hpick hE (by omega) (by omega)]
    have e1 : (e - ↑sc) / 2 + 6176 + 1 - 6176 = (e - ↑sc) / 2 + 1 := by omega
    have e2 : (e - ↑sc) / 2 + 6176 - 6176 = (e - ↑sc) / 2 := by omega
    rw [e1, e2]
    rfl



/-! ## 9. All operands that are not NaN -/

/-- **`bid128_sqrt` = `sqrtD`** for every operand that is not a NaN (canonical or not), every rounding mode and status
word, relative to the two helper properties on the call-site domains: the routine does not fail, returns the canonical
encoding of the datum `sqrtD` gives, and ORs `sqrtD`'s flags into the status word.  (NaN operands: `C12GenNaN.sqrt_nan`.) -/
theorem sqrt_spec_partial (x : U128) (m : RoundingMode) (f : UInt32) (hn : (dOf x).isNaN = false)
    (hS : ∀ A, 0 < A → A < 10 ^ 35 → ShortOK A) (hL : ∀ C, 10 ^ 66 ≤ C → C < 10 ^ 68 → LongOK C) :
    bid128_sqrt x m f = .ok (ofBits (encode (sqrtD (C13GenPack.md m) (dOf x)).1),
      f ||| UInt32.ofNat (sqrtD (C13GenPack.md m) (dOf x)).2) := by
  cases hx : dOf x with
  | nan a b c => rw [hx] at hn; simp [Datum.isNaN] at hn
  | inf s =>
    cases s with
    | true => rw [sqrt_neg_inf x m f hx]; rfl
    | false =>
      rw [sqrt_pos_inf x m f hx]
      show _ = Except.ok (_, f ||| UInt32.ofNat 0)
      rw [or0]; rfl
  | fin s c e =>
    by_cases hc : c = 0
    · subst hc
      rw [sqrt_zero x m f hx]
      show _ = Except.ok (_, f ||| UInt32.ofNat 0)
      rw [or0]; simp [sqrtD]
    · cases s with
      | true =>
        rw [sqrt_neg x m f hx hc]
        simp only [sqrtD, hc, if_false, if_true]
        rfl
      | false =>
        obtain ⟨hl, l1, u1⟩ := fin_WF x hx
        have hl' : c < 10 ^ 34 := hl
        have hc0 : 0 < c := Nat.pos_of_ne_zero hc
        obtain ⟨b66, b68, -⟩ := scaled_bounds e hc0 hl'
        have hp2 : (e % 2).toNat = 0 ∨ (e % 2).toNat = 1 := by omega
        exact sqrt_pos_partial x m f hx hc
          (hS _ (Nat.mul_pos hc0 (Nat.pow_pos (by decide))) (by rcases hp2 with h | h <;> rw [h] <;> omega))
          (hL _ b66 b68)

/-! ## 10. The flagged line `if CS.w[0] != 0 { CS.w[1] += 1 }`

In the directed-rounding branch, after `M256 = CS² ≤ C256`, the code forms `M256 + 2·CS + 1 = (CS+1)²` and, if that is
still `≤ C256`, increments `CS` — with the carry test inverted with respect to the C original (`if (!CS.w[0]) CS.w[1]++`).
As written the line is wrong: it adds `2^64` to `CS` whenever the incremented low word is not zero (`incBug`, example
below).  It is unreachable as long as `bid_long_sqrt128` returns `⌊√C256⌋` or `⌊√C256⌋ + 1` (`LongOK`): the guard
`(CS+1)² ≤ C256` is then false (`flagged_guard_false`; in `tail_directed` the branch is skipped with exactly this fact).
It would be reached if `bid_long_sqrt128` ever returned `⌊√C256⌋ − 1` or less (`flagged_guard_true`). -/

theorem flagged_guard_false (C s r : Nat) (hlo : s * s < C) (hhi : C < (s + 1) * (s + 1)) (hr : r = s ∨ r = s + 1)
    (hs1 : 1 ≤ s) (h : ¬ r * r > C) : ¬ (r * r + 2 * r + 1 ≤ C) := by
  obtain ⟨-, h2⟩ := (dir_arith C s r hlo hhi hr hs1).2 h
  omega

theorem flagged_guard_true (C s r : Nat) (hlo : s * s ≤ C) (hr : r + 1 ≤ s) : r * r + 2 * r + 1 ≤ C := by
  have : (r + 1) * (r + 1) ≤ s * s := Nat.mul_le_mul hr hr
  have e : (r + 1) * (r + 1) = r * r + 2 * r + 1 := by ring
  omega

/-- what the flagged line does to `CS = 5 + 7·2^64`: `+1` and `+2^64` -/
example : (incBug ⟨5, 7⟩).toNat' = (⟨5, 7⟩ : U128).toNat' + 1 + 2 ^ 64 := by decide

/-! ## 11. Concrete inputs -/

-- front end
example : bid128_sqrt ⟨0, 0xf800000000000000⟩ .NearestEven 0 = .ok (⟨0, 0x7c00000000000000⟩, 1) := by rfl   -- √(−∞)
example : bid128_sqrt ⟨0, 0x7800000000000000⟩ .NearestEven 0 = .ok (⟨0, 0x7800000000000000⟩, 0) := by rfl   -- √(+∞)
example : bid128_sqrt ⟨4, 0xb040000000000000⟩ .NearestEven 0 = .ok (⟨0, 0x7c00000000000000⟩, 1) := by rfl   -- √(−4)
example : bid128_sqrt ⟨0, 0xb042000000000000⟩ .NearestEven 0 = .ok (⟨0, 0xb040000000000000⟩, 0) := by rfl   -- √(−0E+1) = −0E+0
-- exact root: √4 = 2, √(16E+2) = 4E+1, √(1E+1) is not exact
example : bid128_sqrt ⟨4, 0x3040000000000000⟩ .NearestEven 0 = .ok (⟨2, 0x3040000000000000⟩, 0) := by decide +kernel
example : bid128_sqrt ⟨16, 0x3044000000000000⟩ .Upward 0 = .ok (⟨4, 0x3042000000000000⟩, 0) := by decide +kernel
-- √2 in three modes
example : bid128_sqrt ⟨2, 0x3040000000000000⟩ .NearestEven 0 = .ok (⟨12987834932751794210, 3458278228537953784⟩, 32) := by decide +kernel
example : bid128_sqrt ⟨2, 0x3040000000000000⟩ .Upward 0 = .ok (⟨12987834932751794211, 3458278228537953784⟩, 32) := by decide +kernel
example : bid128_sqrt ⟨2, 0x3040000000000000⟩ .Downward 0 = .ok (⟨12987834932751794210, 3458278228537953784⟩, 32) := by decide +kernel
-- the helpers
example : short_sqrt128 ⟨4, 0⟩ = .ok 2 := by decide +kernel
example : short_sqrt128 ⟨0, 0x13426172c74d8⟩ = .ok 79056941504209467 := by decide +kernel
example : bid_long_sqrt128 ⟨0, 0⟩ ⟨0, 0, 0, 0x13426172c74d8⟩ = .ok ⟨8793143350783169676, 79056941504209467⟩ := by decide +kernel



/-! ## 12. The integer square root of the float model (`natSqrt`, Newton's iteration with fuel) -/

/-- one Newton step from above: stays `≥ ⌊√n⌋`, decreases, and the excess `x² − n` is at least quartered -/
theorem newton_step (n x r : Nat) (hx : 0 < x) (hr : r * r ≤ n) (hgt : n < x * x) :
    r ≤ (x + n / x) / 2 ∧ (x + n / x) / 2 < x ∧
      4 * ((x + n / x) / 2 * ((x + n / x) / 2)) ≤ 4 * n + (x * x - n) := by
  have hd := Nat.div_add_mod n x
  have hm := Nat.mod_lt n hx
  generalize hq : n / x = q at *
  generalize n % x = ρ at *
  have hqx : q < x := by
    by_contra hh
    have : x * x ≤ x * q := Nat.mul_le_mul_left x (by omega)
    omega
  generalize hy : (x + q) / 2 = y
  have hy2 : 2 * y ≤ x + q ∧ x + q < 2 * y + 2 := by omega
  refine ⟨?_, by omega, ?_⟩
  · -- AM-GM
    by_contra hh
    have h1 : y + 1 ≤ r := by omega
    -- x + q ≤ 2y + 1 ≤ 2r − 1, so q ≤ 2r − 1 − x; n < x(q+1) ≤ x(2r − x) ≤ r²
    have h2 : x + q + 1 ≤ 2 * r := by omega
    have h3 : n < x * (q + 1) := by rw [Nat.mul_add, Nat.mul_one]; omega
    have h4 : x * (q + 1) + x * x ≤ x * (2 * r) := by
      rw [← Nat.mul_add]; exact Nat.mul_le_mul_left x (by omega)
    have h5 : x * (2 * r) ≤ r * r + x * x := by nlinarith [sq_nonneg ((x : Int) - r)]
    omega
  · -- 4y² ≤ (x+q)² = x² + 2xq + q² ≤ x² + 3n   (xq ≤ n, q² ≤ xq)
    have h1 : 4 * (y * y) ≤ (x + q) * (x + q) := by nlinarith
    have h2 : x * q ≤ n := by omega
    have h3 : q * q ≤ x * q := Nat.mul_le_mul_right q (by omega)
    have h4 : (x + q) * (x + q) = x * x + 2 * (x * q) + q * q := by ring
    omega

/-- the iteration with enough fuel: from `x ≥ ⌊√n⌋` with `x² < n + 4^f` it returns `⌊√n⌋` -/
theorem natSqrt_go (n r : Nat) (hn : 0 < n) (hr1 : r * r ≤ n) (hr2 : n < (r + 1) * (r + 1)) :
    ∀ (f x : Nat), 0 < x → r ≤ x → x * x < n + 4 ^ f → natSqrt.go n (f + 1) x = r := by
  have stop : ∀ (f x : Nat), 0 < x → r ≤ x → x * x ≤ n → natSqrt.go n (f + 1) x = r := by
    intro f x hx hrx hle
    have hxr : x = r := by
      by_contra hh
      have : (r + 1) * (r + 1) ≤ x * x := Nat.mul_le_mul (by omega) (by omega)
      omega
    have hq : x ≤ n / x := (Nat.le_div_iff_mul_le hx).2 hle
    unfold natSqrt.go
    simp only
    rw [if_neg (by omega)]
    exact hxr
  intro f
  induction f with
  | zero => intro x hx hrx h; exact stop 0 x hx hrx (by omega)
  | succ f ih =>
    intro x hx hrx h
    by_cases hle : x * x ≤ n
    · exact stop (f + 1) x hx hrx hle
    · obtain ⟨a, b, c⟩ := newton_step n x r hx hr1 (by omega)
      unfold natSqrt.go
      simp only
      rw [if_pos b]
      have hy0 : 0 < (x + n / x) / 2 := by
        rcases Nat.eq_zero_or_pos r with h0 | h0
        · subst h0; omega
        · omega
      apply ih _ hy0 a
      have : (4 : Nat) ^ (f + 1) = 4 * 4 ^ f := by rw [Nat.pow_succ]; ring
      omega

/-- **`natSqrt n = ⌊√n⌋`** -/
theorem natSqrt_spec (n : Nat) : natSqrt n * natSqrt n ≤ n ∧ n < (natSqrt n + 1) * (natSqrt n + 1) := by
  by_cases h2 : n < 2
  · have : natSqrt n = n := by unfold natSqrt; rw [if_pos h2]
    rw [this]
    have : n = 0 ∨ n = 1 := by omega
    rcases this with rfl | rfl <;> decide
  · obtain ⟨r1, r2⟩ := isqrt_spec n
    have hgo : natSqrt n = natSqrt.go n (Nat.log2 n + 2) (2 ^ (Nat.log2 n / 2 + 1)) := by
      unfold natSqrt; rw [if_neg h2]
    have hn0 : n ≠ 0 := by omega
    have hL1 : 2 ^ Nat.log2 n ≤ n := Nat.log2_self_le hn0
    have hL2 : n < 2 ^ (Nat.log2 n + 1) := Nat.lt_log2_self
    generalize Nat.log2 n = L at *
    have hx0 : n < 2 ^ (L / 2 + 1) * 2 ^ (L / 2 + 1) := by
      rw [← Nat.pow_add]
      exact lt_of_lt_of_le hL2 (Nat.pow_le_pow_right (by decide) (by omega))
    have hrx : isqrt n ≤ 2 ^ (L / 2 + 1) := by
      by_contra hh
      have : 2 ^ (L / 2 + 1) * 2 ^ (L / 2 + 1) ≤ isqrt n * isqrt n := Nat.mul_le_mul (by omega) (by omega)
      omega
    have hfuel : 2 ^ (L / 2 + 1) * 2 ^ (L / 2 + 1) < n + 4 ^ (L + 1) := by
      rw [← Nat.pow_add, show (4 : Nat) ^ (L + 1) = 2 ^ (2 * (L + 1)) from by rw [Nat.pow_mul]]
      have : 2 ^ (L / 2 + 1 + (L / 2 + 1)) ≤ 2 ^ (2 * (L + 1)) := Nat.pow_le_pow_right (by decide) (by omega)
      omega
    have := natSqrt_go n (isqrt n) (by omega) r1 r2 (L + 1) _ (Nat.pow_pos (by decide)) hrx hfuel
    rw [hgo, this]
    exact ⟨r1, r2⟩

example : natSqrt 1000000 = 1000 ∧ natSqrt 99 = 9 ∧ natSqrt (2 ^ 164) = 2 ^ 82 := by decide +kernel



open Dec.C10GenRem (Rep rn53 fd fpRound_rep fpRound_sticky rn53_le rn53_ge decode_normal lval)
open Dec.C11GenLogb (log2_unique)

/-! ## 13. The `f64` operations of `short_sqrt128`: one rounding, the square root, the reciprocal -/

/-- **one rounding with or without a sticky bit**, significand of at least 55 bits, normal range: the result represents
a `W` between `(1 − 2^-53)·M` and `(1 + 2^-53)·(M+1)` units `U = 2^(E+1074)` -/
theorem fpRound_bracket (M : Nat) (v : Nat) (st : Bool) (hM : 2 ^ 54 ≤ M) (hv : 1 ≤ v)
    (hlo : -1021 ≤ (v : Int) - 1074 + Nat.log2 M) (hhi : (v : Int) - 1074 + Nat.log2 M ≤ 1020) :
    ∃ c W, fpRound 52 11 M ((v : Int) - 1074) st = some c ∧ Rep c W ∧
      (2 ^ 53 - 1) * (M * 2 ^ v) ≤ 2 ^ 53 * W ∧
      2 ^ 53 * W ≤ (2 ^ 53 + 1) * ((M + 1) * 2 ^ v) := by
  obtain ⟨E, hEd⟩ : ∃ E : Int, E = (v : Int) - 1074 := ⟨_, rfl⟩
  have hE : -1073 ≤ E := by omega
  have hvE : (E + 1074).toNat = v := by omega
  rw [← hEd] at hlo hhi ⊢
  rw [← hvE]
  have hM0 : 0 < M := lt_of_lt_of_le (by norm_num) hM
  obtain ⟨u, hu⟩ : ∃ u : Nat, (E + 1074).toNat = u + 1 := ⟨(E + 1074).toNat - 1, by omega⟩
  rw [hu]
  have hp : (2 : Nat) ^ (u + 1) = 2 * 2 ^ u := by rw [Nat.pow_succ]; ring
  cases st with
  | false =>
    obtain ⟨c, hc, hr⟩ := fpRound_rep M E hM0 (by omega) (by omega) (by omega)
    rw [hu] at hr
    refine ⟨c, _, hc, hr, ?_, ?_⟩
    · have := rn53_ge M
      calc (2 ^ 53 - 1) * (M * 2 ^ (u + 1)) = ((2 ^ 53 - 1) * M) * 2 ^ (u + 1) := by ring
        _ ≤ (2 ^ 53 * rn53 M) * 2 ^ (u + 1) := Nat.mul_le_mul_right _ this
        _ = 2 ^ 53 * (rn53 M * 2 ^ (u + 1)) := by ring
    · have := rn53_le M
      calc 2 ^ 53 * (rn53 M * 2 ^ (u + 1)) = (2 ^ 53 * rn53 M) * 2 ^ (u + 1) := by ring
        _ ≤ ((2 ^ 53 + 1) * M) * 2 ^ (u + 1) := Nat.mul_le_mul_right _ this
        _ ≤ ((2 ^ 53 + 1) * (M + 1)) * 2 ^ (u + 1) := Nat.mul_le_mul_right _ (Nat.mul_le_mul_left _ (by omega))
        _ = (2 ^ 53 + 1) * ((M + 1) * 2 ^ (u + 1)) := by ring
  | true =>
    have hl := C10GenRem.log2_double_succ M hM0
    obtain ⟨c, hc, hr⟩ := fpRound_rep (2 * M + 1) (E - 1) (by omega) (by rw [hl]; push_cast; omega)
      (by rw [hl]; push_cast; omega) (by omega)
    have hu' : (E - 1 + 1074).toNat = u := by omega
    rw [hu'] at hr
    refine ⟨c, _, by rw [fpRound_sticky M E hM]; exact hc, hr, ?_, ?_⟩
    · have := rn53_ge (2 * M + 1)
      calc (2 ^ 53 - 1) * (M * 2 ^ (u + 1)) = ((2 ^ 53 - 1) * (2 * M)) * 2 ^ u := by rw [hp]; ring
        _ ≤ ((2 ^ 53 - 1) * (2 * M + 1)) * 2 ^ u := Nat.mul_le_mul_right _ (Nat.mul_le_mul_left _ (by omega))
        _ ≤ (2 ^ 53 * rn53 (2 * M + 1)) * 2 ^ u := Nat.mul_le_mul_right _ this
        _ = 2 ^ 53 * (rn53 (2 * M + 1) * 2 ^ u) := by ring
    · have := rn53_le (2 * M + 1)
      calc 2 ^ 53 * (rn53 (2 * M + 1) * 2 ^ u) = (2 ^ 53 * rn53 (2 * M + 1)) * 2 ^ u := by ring
        _ ≤ ((2 ^ 53 + 1) * (2 * M + 1)) * 2 ^ u := Nat.mul_le_mul_right _ this
        _ ≤ ((2 ^ 53 + 1) * (2 * (M + 1))) * 2 ^ u := Nat.mul_le_mul_right _ (Nat.mul_le_mul_left _ (by omega))
        _ = (2 ^ 53 + 1) * ((M + 1) * 2 ^ (u + 1)) := by rw [hp]; ring

theorem fpSqrt_of_decode (b m k s c : Nat) (e E : Int) (hd : fpDecode 52 11 b = some (m, e))
    (hkv : (2 * 52 + 8 + (if (e % 2 != 0) = true then 1 else 0) : Nat) = k) (hs : natSqrt (m * 2 ^ k) = s)
    (hE : (e - (k : Nat)) / 2 = E) (hc : fpRound 52 11 s E (s * s != m * 2 ^ k) = some c) :
    fpSqrt 52 11 b = .ok c := by
  subst hkv hs hE
  unfold fpSqrt
  rw [hd]
  simp only
  rw [hc]

theorem sqrt_size (n s : Nat) (r1 : s * s ≤ n) (r2 : n < (s + 1) * (s + 1)) (hn1 : 2 ^ 164 ≤ n) (hn2 : n < 2 ^ 166) :
    2 ^ 82 ≤ s ∧ s < 2 ^ 83 := by
  constructor
  · by_contra hh
    have : (s + 1) * (s + 1) ≤ 2 ^ 82 * 2 ^ 82 := Nat.mul_le_mul (by omega) (by omega)
    omega
  · by_contra hh
    have : 2 ^ 83 * 2 ^ 83 ≤ s * s := Nat.mul_le_mul (by omega) (by omega)
    omega

theorem sig_scaled (m k : Nat) (h1 : 2 ^ 52 ≤ m) (h2 : m < 2 ^ 53) (hk : k = 112 ∨ k = 113) :
    2 ^ 164 ≤ m * 2 ^ k ∧ m * 2 ^ k < 2 ^ 166 := by
  rcases hk with rfl | rfl <;> constructor <;> omega

theorem pow_split (m K k u : Nat) (hu : K + 1074 = k + 2 * u) :
    m * 2 ^ K * 2 ^ 1074 = (m * 2 ^ k) * (2 ^ u * 2 ^ u) := by
  rw [Nat.mul_assoc, ← Nat.pow_add, hu, ← Nat.pow_add, Nat.mul_assoc, ← Nat.pow_add]
  congr 2; omega

theorem sqrt_parity (K : Nat) : ∃ k : Nat, (k = 112 ∨ k = 113) ∧
    (2 * 52 + 8 + (if (((K : Int) - 1074) % 2 != 0) = true then 1 else 0) : Nat) = k ∧ (K + k) % 2 = 0 := by
  by_cases hp : K % 2 = 0
  · refine ⟨112, Or.inl rfl, ?_, by omega⟩
    have : (((K : Int) - 1074) % 2 != 0) = false := by
      rw [bne_eq_false_iff_eq]; omega
    rw [this]; rfl
  · refine ⟨113, Or.inr rfl, ?_, by omega⟩
    have : (((K : Int) - 1074) % 2 != 0) = true := by
      rw [bne_iff_ne]; omega
    rw [this]; rfl

/-- **`fpSqrt` on a normal number** `m·2^(K−1074)`: never fails; with `s = ⌊√(m·2^k)⌋` (`k` = 112 or 113, so that
`K + 1074 − k = 2u` is even) the result represents a `W` between `(1 − 2^-53)·s` and `(1 + 2^-53)·(s+1)` units `2^u`,
while the exact root lies between `s` and `s + 1` of them -/
theorem fpSqrt_spec (K m : Nat) (h1 : 2 ^ 52 ≤ m) (h2 : m < 2 ^ 53) (hK : K ≤ 2045) :
    ∃ c W s u : Nat, fpSqrt 52 11 (K * 2 ^ 52 + m) = .ok c ∧ Rep c W ∧
      (2 ^ 53 - 1) * (s * 2 ^ u) ≤ 2 ^ 53 * W ∧ 2 ^ 53 * W ≤ (2 ^ 53 + 1) * ((s + 1) * 2 ^ u) ∧
      (s * 2 ^ u) * (s * 2 ^ u) ≤ m * 2 ^ K * 2 ^ 1074 ∧
      m * 2 ^ K * 2 ^ 1074 < ((s + 1) * 2 ^ u) * ((s + 1) * 2 ^ u) ∧ 2 ^ 82 ≤ s := by
  have hd := decode_normal K m h1 h2 hK
  obtain ⟨k, hk, hkv, hK2⟩ := sqrt_parity K
  obtain ⟨r1, r2⟩ := natSqrt_spec (m * 2 ^ k)
  obtain ⟨hn1, hn2⟩ := sig_scaled m k h1 h2 hk
  generalize hs : natSqrt (m * 2 ^ k) = s at r1 r2
  obtain ⟨hs1, hs2⟩ := sqrt_size _ s r1 r2 hn1 hn2
  have hlog : Nat.log2 s = 82 := log2_unique s 82 hs1 hs2
  have hk' : k ≤ 113 ∧ 112 ≤ k := by rcases hk with rfl | rfl <;> omega
  clear hn1 hn2
  obtain ⟨u, hu⟩ : ∃ u : Nat, K + 1074 = k + 2 * u := ⟨(K + 1074 - k) / 2, by clear r1 r2 hs hd; omega⟩
  have hE : ((K : Int) - 1074 - (k : Nat)) / 2 = (u : Int) - 1074 := by clear r1 r2 hs hd; omega
  have hsplit := pow_split m K k u hu
  have hu2 : u ≤ 1600 := by clear r1 r2 hs hd hsplit; omega
  have hu1 : 1 ≤ u := by clear r1 r2 hs hd hsplit; omega
  obtain ⟨c, W, hc, hr, b1, b2⟩ := fpRound_bracket s u (s * s != m * 2 ^ k)
    (le_trans (by norm_num) hs1) hu1 (by rw [hlog]; clear r1 r2 hs hd hsplit; omega)
    (by rw [hlog]; clear r1 r2 hs hd hsplit; omega)
  refine ⟨c, W, s, u, ?_, hr, b1, b2, ?_, ?_, hs1⟩
  · exact fpSqrt_of_decode _ m k s c _ _ hd hkv hs hE hc
  · rw [hsplit]
    calc (s * 2 ^ u) * (s * 2 ^ u) = (s * s) * (2 ^ u * 2 ^ u) := by ring
      _ ≤ (m * 2 ^ k) * (2 ^ u * 2 ^ u) := Nat.mul_le_mul_right _ r1
  · rw [hsplit]
    have hpu : 0 < 2 ^ u * 2 ^ u := Nat.mul_pos (Nat.pow_pos (by decide)) (Nat.pow_pos (by decide))
    calc (m * 2 ^ k) * (2 ^ u * 2 ^ u) < ((s + 1) * (s + 1)) * (2 ^ u * 2 ^ u) := Nat.mul_lt_mul_of_pos_right r2 hpu
      _ = ((s + 1) * 2 ^ u) * ((s + 1) * 2 ^ u) := by ring

/-- **`1.0 / y`** for a normal `y = m·2^(K−1074)`: never fails; with `q = ⌊2^164 / m⌋` and `v = 1984 − K` the result
represents a `Y` between `(1 − 2^-53)·q` and `(1 + 2^-53)·(q+1)` units `2^v`, while the exact reciprocal lies between `q`
and `q + 1` of them -/
theorem fpRecip_spec (K m : Nat) (h1 : 2 ^ 52 ≤ m) (h2 : m < 2 ^ 53) (hK1 : 10 ≤ K) (hK2 : K ≤ 1980) :
    ∃ c Y q v : Nat, fpDiv 52 11 (fd 1) (K * 2 ^ 52 + m) = .ok c ∧ Rep c Y ∧
      (2 ^ 53 - 1) * (q * 2 ^ v) ≤ 2 ^ 53 * Y ∧ 2 ^ 53 * Y ≤ (2 ^ 53 + 1) * ((q + 1) * 2 ^ v) ∧
      (q * 2 ^ v) * (m * 2 ^ K) ≤ 2 ^ 1074 * 2 ^ 1074 ∧
      2 ^ 1074 * 2 ^ 1074 < ((q + 1) * 2 ^ v) * (m * 2 ^ K) ∧ 2 ^ 111 ≤ q := by
  have hd2 := decode_normal K m h1 h2 (by omega)
  have hd1 : fpDecode 52 11 (fd 1) = some (2 ^ 52, ((1022 : Nat) : Int) - 1074) := by
    have : fd 1 = 1022 * 2 ^ 52 + 2 ^ 52 := by decide +kernel
    rw [this]; exact decode_normal 1022 (2 ^ 52) (le_refl _) (by norm_num) (by norm_num)
  have hm0 : 0 < m := by omega
  have hdm := Nat.div_add_mod (2 ^ 52 * 2 ^ 112) m
  have hml := Nat.mod_lt (2 ^ 52 * 2 ^ 112) hm0
  generalize hq : 2 ^ 52 * 2 ^ 112 / m = q at *
  generalize hρ : 2 ^ 52 * 2 ^ 112 % m = ρ at *
  have hq1 : 2 ^ 111 ≤ q := by
    by_contra hh
    have : m * q ≤ 2 ^ 53 * (2 ^ 111 - 1) := Nat.mul_le_mul (by omega) (by omega)
    omega
  have hq2 : q ≤ 2 ^ 112 := by
    by_contra hh
    have : 2 ^ 52 * (2 ^ 112 + 1) ≤ m * q := Nat.mul_le_mul h1 (by omega)
    omega
  have hlog : Nat.log2 q = 111 ∨ Nat.log2 q = 112 := by
    by_cases h : q < 2 ^ 112
    · left; exact log2_unique q 111 hq1 h
    · right; exact log2_unique q 112 (by omega) (by omega)
  obtain ⟨v, hv⟩ : ∃ v : Nat, v + K = 1984 := ⟨1984 - K, by omega⟩
  have hE : ((1022 : Nat) : Int) - 1074 - ((K : Int) - 1074) - 112 = (v : Int) - 1074 := by omega
  obtain ⟨c, Y, hc, hr, b1, b2⟩ := fpRound_bracket q v (ρ != 0) (le_trans (by norm_num) hq1) (by omega)
    (by rcases hlog with h | h <;> rw [h] <;> omega) (by rcases hlog with h | h <;> rw [h] <;> omega)
  refine ⟨c, Y, q, v, ?_, hr, b1, b2, ?_, ?_, hq1⟩
  · apply C10GenRem.fpDiv_of_decode _ _ _ _ _ _ _ hd1 hd2 (by omega)
    rw [hq, hρ, hE]; exact hc
  · have e : (2 : Nat) ^ 1074 * 2 ^ 1074 = (2 ^ 52 * 2 ^ 112) * (2 ^ v * 2 ^ K) := by
      rw [← Nat.pow_add, ← Nat.pow_add, ← Nat.pow_add, hv, ← Nat.pow_add]
    rw [e]
    calc (q * 2 ^ v) * (m * 2 ^ K) = (m * q) * (2 ^ v * 2 ^ K) := by ring
      _ ≤ (2 ^ 52 * 2 ^ 112) * (2 ^ v * 2 ^ K) := Nat.mul_le_mul_right _ (by omega)
  · have e : (2 : Nat) ^ 1074 * 2 ^ 1074 = (2 ^ 52 * 2 ^ 112) * (2 ^ v * 2 ^ K) := by
      rw [← Nat.pow_add, ← Nat.pow_add, ← Nat.pow_add, hv, ← Nat.pow_add]
    rw [e]
    have hp : 0 < 2 ^ v * 2 ^ K := Nat.mul_pos (Nat.pow_pos (by decide)) (Nat.pow_pos (by decide))
    calc (2 ^ 52 * 2 ^ 112) * (2 ^ v * 2 ^ K) < (m * (q + 1)) * (2 ^ v * 2 ^ K) :=
          Nat.mul_lt_mul_of_pos_right (by rw [Nat.mul_add]; omega) hp
      _ = ((q + 1) * 2 ^ v) * (m * 2 ^ K) := by ring



/-! ## 14. Composing the three roundings (rational arithmetic) -/

/-- composing bounds: from `a·BB ≤ a'·(Y·W)`, `b·W ≤ b'·S`, `S² ≤ L·BB`, `c·L ≤ c'·A` conclude
`c·a²·b²·BB ≤ c'·a'²·b'²·(Y²·A)` -/
theorem compose_lower (A L W Y BB S a a' b b' c c' : ℚ) (hA : 0 < A) (hL : 0 < L) (hW : 0 < W) (hY : 0 < Y)
    (hBB : 0 < BB) (hS : 0 < S) (ha : 0 < a) (ha' : 0 < a') (hb : 0 < b) (hb' : 0 < b') (hc : 0 < c) (hc' : 0 < c')
    (e2 : a * BB ≤ a' * (Y * W)) (e3 : b * W ≤ b' * S) (s1 : S * S ≤ L * BB) (n1 : c * L ≤ c' * A) :
    c * a ^ 2 * b ^ 2 * BB ≤ c' * a' ^ 2 * b' ^ 2 * (Y * Y * A) := by
  have E2 : (a * BB) ^ 2 ≤ (a' * (Y * W)) ^ 2 := pow_le_pow_left₀ (by positivity) e2 2
  have E3 : (b * W) ^ 2 ≤ (b' * S) ^ 2 := pow_le_pow_left₀ (by positivity) e3 2
  have key : (c * a ^ 2 * b ^ 2 * BB) * BB ≤ (c' * a' ^ 2 * b' ^ 2 * (Y * Y * A)) * BB := by
    calc (c * a ^ 2 * b ^ 2 * BB) * BB = c * (b ^ 2 * (a * BB) ^ 2) := by ring
      _ ≤ c * (b ^ 2 * (a' * (Y * W)) ^ 2) := by gcongr
      _ = c * (a' ^ 2 * (Y * Y) * (b * W) ^ 2) := by ring
      _ ≤ c * (a' ^ 2 * (Y * Y) * (b' * S) ^ 2) := by gcongr
      _ = c * (a' ^ 2 * (Y * Y) * b' ^ 2 * (S * S)) := by ring
      _ ≤ c * (a' ^ 2 * (Y * Y) * b' ^ 2 * (L * BB)) := by gcongr
      _ = a' ^ 2 * (Y * Y) * b' ^ 2 * BB * (c * L) := by ring
      _ ≤ a' ^ 2 * (Y * Y) * b' ^ 2 * BB * (c' * A) := by gcongr
      _ = (c' * a' ^ 2 * b' ^ 2 * (Y * Y * A)) * BB := by ring
  exact le_of_mul_le_mul_right key hBB

/-- the other direction: from `a'·(Y·W) ≤ a·BB`, `b'·S' ≤ b·W`, `L·BB ≤ S'²`, `c'·A ≤ c·L` conclude
`c'·a'²·b'²·(Y²·A) ≤ c·a²·b²·BB` -/
theorem compose_upper (A L W Y BB S' a a' b b' c c' : ℚ) (hA : 0 < A) (hL : 0 < L) (hW : 0 < W) (hY : 0 < Y)
    (hBB : 0 < BB) (hS : 0 < S') (ha : 0 < a) (ha' : 0 < a') (hb : 0 < b) (hb' : 0 < b') (hc : 0 < c) (hc' : 0 < c')
    (e2 : a' * (Y * W) ≤ a * BB) (e3 : b' * S' ≤ b * W) (s2 : L * BB ≤ S' * S') (n2 : c' * A ≤ c * L) :
    c' * a' ^ 2 * b' ^ 2 * (Y * Y * A) ≤ c * a ^ 2 * b ^ 2 * BB := by
  have E2 : (a' * (Y * W)) ^ 2 ≤ (a * BB) ^ 2 := pow_le_pow_left₀ (by positivity) e2 2
  have E3 : (b' * S') ^ 2 ≤ (b * W) ^ 2 := pow_le_pow_left₀ (by positivity) e3 2
  have key : (c' * a' ^ 2 * b' ^ 2 * (Y * Y * A)) * BB ≤ (c * a ^ 2 * b ^ 2 * BB) * BB := by
    calc (c' * a' ^ 2 * b' ^ 2 * (Y * Y * A)) * BB = a' ^ 2 * (Y * Y) * b' ^ 2 * BB * (c' * A) := by ring
      _ ≤ a' ^ 2 * (Y * Y) * b' ^ 2 * BB * (c * L) := by gcongr
      _ = c * (a' ^ 2 * (Y * Y) * b' ^ 2 * (L * BB)) := by ring
      _ ≤ c * (a' ^ 2 * (Y * Y) * b' ^ 2 * (S' * S')) := by gcongr
      _ = c * (a' ^ 2 * (Y * Y) * (b' * S') ^ 2) := by ring
      _ ≤ c * (a' ^ 2 * (Y * Y) * (b * W) ^ 2) := by gcongr
      _ = c * (b ^ 2 * (a' * (Y * W)) ^ 2) := by ring
      _ ≤ c * (b ^ 2 * (a * BB) ^ 2) := by gcongr
      _ = (c * a ^ 2 * b ^ 2 * BB) * BB := by ring
  exact le_of_mul_le_mul_right key hBB

/-- the three roundings (`lx`, `√`, `1/·`) together, on rationals: `Y² · A` is within `2^-40` of `B²` -/
theorem recip_sqrt_bounds (A L W Y B S S' Q Q' : ℚ) (hA : 0 < A) (hL : 0 < L) (hW : 0 < W) (hY : 0 < Y) (hB : 0 < B)
    (hS : 0 < S) (hQ : 0 < Q)
    (n1 : (2 ^ 52 - 1) * L ≤ 2 ^ 52 * A) (n2 : (2 ^ 52 - 2) * A ≤ (2 ^ 52 - 1) * L)
    (w1 : (2 ^ 53 - 1) * S ≤ 2 ^ 53 * W) (w2 : 2 ^ 53 * W ≤ (2 ^ 53 + 1) * S')
    (s1 : S * S ≤ L * (B * B)) (s2 : L * (B * B) < S' * S') (s3 : 2 ^ 82 * S' ≤ (2 ^ 82 + 1) * S)
    (y1 : (2 ^ 53 - 1) * Q ≤ 2 ^ 53 * Y) (y2 : 2 ^ 53 * Y ≤ (2 ^ 53 + 1) * Q')
    (q1 : Q * W ≤ B * B) (q2 : B * B < Q' * W) (q3 : 2 ^ 111 * Q' ≤ (2 ^ 111 + 1) * Q) :
    (2 ^ 40 - 1) * (B * B) ≤ 2 ^ 40 * (Y * Y * A) ∧ 2 ^ 40 * (Y * Y * A) ≤ (2 ^ 40 + 1) * (B * B) := by
  have hS' : 0 < S' := by nlinarith
  have hQ' : 0 < Q' := by nlinarith
  have hBB : 0 < B * B := by positivity
  constructor
  · -- Y ≥ (1−2^-53) Q ≥ (1−2^-53)/(1+2^-111) Q' ;  Q' W > B² ;  W ≤ (1+2^-53) S' ≤ (1+2^-53)(1+2^-82) S
    have e2 : ((2 ^ 53 - 1) * 2 ^ 111) * (B * B) ≤ (2 ^ 53 * (2 ^ 111 + 1)) * (Y * W) := by nlinarith
    have e3 : (2 ^ 53 * 2 ^ 82) * W ≤ ((2 ^ 53 + 1) * (2 ^ 82 + 1)) * S := by nlinarith
    have := compose_lower A L W Y (B * B) S _ _ _ _ _ _ hA hL hW hY hBB hS (by norm_num) (by norm_num) (by norm_num)
      (by norm_num) (by norm_num) (by norm_num) e2 e3 s1 n1
    -- numbers
    have hX : 0 < Y * Y * A := by positivity
    norm_num at this ⊢
    linarith
  · have e2 : ((2 ^ 53 - 1) * 2 ^ 111) * (Y * W) ≤ ((2 ^ 53 + 1) * (2 ^ 111 + 1)) * (B * B) := by
      have : 2 ^ 53 * 2 ^ 111 * Y ≤ (2 ^ 53 + 1) * (2 ^ 111 + 1) * Q := by nlinarith
      have : (2 ^ 53 * 2 ^ 111) * (Y * W) ≤ ((2 ^ 53 + 1) * (2 ^ 111 + 1)) * (B * B) := by nlinarith
      nlinarith
    have e3 : (2 ^ 53 - 1) * 2 ^ 82 * S' ≤ (2 ^ 53 * (2 ^ 82 + 1)) * W := by nlinarith
    have := compose_upper A L W Y (B * B) S' _ _ _ _ _ _ hA hL hW hY hBB hS' (by norm_num) (by norm_num) (by norm_num)
      (by norm_num) (by norm_num) (by norm_num) e2 e3 (le_of_lt s2) n2
    have hX : 0 < Y * Y * A := by positivity
    norm_num at this ⊢
    linarith



/-! ## 15. The float estimate of `short_sqrt128` -/

theorem rep_normal {b V : Nat} (h : Rep b V) (hV : 0 < V) :
    ∃ m k, 2 ^ 52 ≤ m ∧ m < 2 ^ 53 ∧ k ≤ 2045 ∧ b = k * 2 ^ 52 + m ∧ m * 2 ^ k = V := by
  rcases h with ⟨h0, -⟩ | h
  · omega
  · exact h

theorem rep_lt {b V : Nat} (h : Rep b V) : b < 2 ^ 64 := by
  obtain ⟨_, _, _, _, h⟩ := C10GenRem.rep_decode b V h; exact h

/-- where the exponent of a normal number lies, from its size -/
theorem exp_range (m K lo hi : Nat) (h1 : 2 ^ 52 ≤ m) (h2 : m < 2 ^ 53) (hlo : 2 ^ lo ≤ m * 2 ^ K) (hhi : m * 2 ^ K < 2 ^ hi) :
    lo < K + 53 ∧ K + 52 < hi := by
  have hp : 0 < 2 ^ K := Nat.pow_pos (by decide)
  constructor
  · have : 2 ^ lo < 2 ^ (53 + K) := by
      rw [Nat.pow_add]; exact lt_of_le_of_lt hlo (Nat.mul_lt_mul_of_pos_right h2 hp)
    have := (Nat.pow_lt_pow_iff_right (by decide : 1 < 2)).1 this
    omega
  · have : 2 ^ (52 + K) < 2 ^ hi := by
      rw [Nat.pow_add]; exact lt_of_le_of_lt (Nat.mul_le_mul_right _ h1) hhi
    have := (Nat.pow_lt_pow_iff_right (by decide : 1 < 2)).1 this
    omega

/-- the size of the square root: `B/4 ≤ W < 2^68·B` for `1 ≤ L < 2^130` -/
theorem sqrtW_size (L B W S S' : Nat) (hL1 : 1 ≤ L) (hL2 : L < 2 ^ 130) (hB : 0 < B)
    (b1 : (2 ^ 53 - 1) * S ≤ 2 ^ 53 * W) (b2 : 2 ^ 53 * W ≤ (2 ^ 53 + 1) * S')
    (hs1 : S * S ≤ L * (B * B)) (hs2 : L * (B * B) < S' * S') (h3 : S' ≤ 2 * S) :
    B ≤ 4 * W ∧ W < 2 ^ 68 * B := by
  have hS'B : B < S' := by
    by_contra hh
    have : S' * S' ≤ B * B := Nat.mul_le_mul (by omega) (by omega)
    have : B * B ≤ L * (B * B) := Nat.le_mul_of_pos_left _ hL1
    omega
  have hSB : S < 2 ^ 65 * B := by
    by_contra hh
    have h : (2 ^ 65 * B) * (2 ^ 65 * B) ≤ S * S := Nat.mul_le_mul (by omega) (by omega)
    have e : (2 ^ 65 * B) * (2 ^ 65 * B) = 2 ^ 130 * (B * B) := by ring
    have hBB : 0 < B * B := Nat.mul_pos hB hB
    have : L * (B * B) < 2 ^ 130 * (B * B) := Nat.mul_lt_mul_of_pos_right hL2 hBB
    omega
  constructor <;> omega

/-- the four `f64` operations of `short_sqrt128`, with the result `Y = ly·2^1074` in normal form and `Y²·A` within
`2^-40` of `B² = 2^2148` -/
theorem short_float_core (A : U128) (hA0 : 0 < A.toNat') (hA : A.toNat' < 2 ^ 117) :
    ∃ (P lx : F64U) (c c' Y MY k B : Nat),
      F64U.mul (F64U.ofU64 (UInt64.ofInt (toI A.w1))) (⟨(0x43f0000000000000 : UInt64)⟩ : F64U) = .ok P ∧
      F64U.add P (F64U.ofU64 (UInt64.ofInt (toI A.w0))) = .ok lx ∧
      F64U.sqrt lx = .ok ⟨UInt64.ofNat c⟩ ∧ F64U.div (F64U.ofU64 1) ⟨UInt64.ofNat c⟩ = .ok ⟨UInt64.ofNat c'⟩ ∧
      c' < 2 ^ 64 ∧ 2 ^ 52 ≤ MY ∧ MY < 2 ^ 53 ∧ c' = k * 2 ^ 52 + MY ∧ MY * 2 ^ k = Y ∧ B = 2 ^ 1074 ∧
      2 ^ 40 * (B * B) ≤ 2 ^ 40 * (Y * Y * A.toNat') + B * B ∧
      2 ^ 40 * (Y * Y * A.toNat') ≤ (2 ^ 40 + 1) * (B * B) := by
  obtain ⟨P, lx, hmul, hadd, hrep⟩ := C10GenRem.lx_rep A.w1 A.w0
  obtain ⟨nb1, nb2⟩ := C10GenRem.lval_bounds A.w1.toNat A.w0.toNat
  have hAv : A.w1.toNat * 2 ^ 64 + A.w0.toNat = A.toNat' := by unfold Rs.U128.toNat'; omega
  rw [hAv] at nb1 nb2
  have hL0 : 0 < lval A.w1.toNat A.w0.toNat := C10GenRem.lval_pos _ _ (by omega)
  have hL2 := C10GenRem.lval_lt A.w1.toNat A.w0.toNat A.w1.toNat_lt A.w0.toNat_lt
  generalize hLd : lval A.w1.toNat A.w0.toNat = L at *
  obtain ⟨B, hBd⟩ : ∃ B : Nat, B = 2 ^ 1074 := ⟨_, rfl⟩
  have hB0 : 0 < B := by rw [hBd]; exact Nat.pow_pos (by decide)
  have hB4 : B = 4 * 2 ^ 1072 := by rw [hBd, show (1074 : Nat) = 2 + 1072 from rfl, Nat.pow_add]
  have hB68 : 2 ^ 1142 = 2 ^ 68 * B := by rw [hBd, ← Nat.pow_add]
  rw [← hBd] at hrep
  -- lx is normal
  obtain ⟨m, K, m1, m2, hK, hb, hV⟩ := rep_normal hrep (Nat.mul_pos hL0 hB0)
  -- the square root
  obtain ⟨c, W, s, u, hsq, hrW, b1, b2, hs1, hs2, hs82⟩ := fpSqrt_spec K m m1 m2 hK
  rw [hV, ← hBd, Nat.mul_assoc L B B] at hs1 hs2
  have hcl := rep_lt hrW
  have hsqrt : F64U.sqrt lx = .ok ⟨UInt64.ofNat c⟩ := by
    unfold F64U.sqrt; rw [hb, hsq]; rfl
  have e3 : (s + 1) * 2 ^ u ≤ 2 * (s * 2 ^ u) := by
    have : s + 1 ≤ 2 * s := by omega
    calc (s + 1) * 2 ^ u ≤ (2 * s) * 2 ^ u := Nat.mul_le_mul_right _ this
      _ = 2 * (s * 2 ^ u) := by ring
  obtain ⟨hW1, hW2⟩ := sqrtW_size L B W (s * 2 ^ u) ((s + 1) * 2 ^ u) hL0 hL2 hB0 b1 b2 hs1 hs2 e3
  have hW0 : 0 < W := by omega
  obtain ⟨m', K', m1', m2', hK', hb', hV'⟩ := rep_normal hrW hW0
  obtain ⟨k1, k2⟩ := exp_range m' K' 1072 1142 m1' m2' (by rw [hV']; omega) (by rw [hV', hB68]; exact hW2)
  -- the reciprocal
  obtain ⟨c', Y, q, v, hdiv, hrY, y1, y2, hq1, hq2, hq111⟩ := fpRecip_spec K' m' m1' m2' (by omega) (by omega)
  rw [hV', ← hBd] at hq1 hq2
  have hcl' := rep_lt hrY
  have hone : (F64U.ofU64 1).bits.toNat = fd 1 := by decide +kernel
  have hfdiv : F64U.div (F64U.ofU64 1) ⟨UInt64.ofNat c⟩ = .ok ⟨UInt64.ofNat c'⟩ := by
    unfold F64U.div
    rw [hone]
    show Except.map _ (fpDiv 52 11 (fd 1) (UInt64.ofNat c).toNat) = _
    rw [C10GenRem.ofNat_toNat_lt c hcl, hb', hdiv]; rfl
  have hY0 : 0 < Y := by
    have : 0 < q * 2 ^ v := Nat.mul_pos (by omega) (Nat.pow_pos (by decide))
    omega
  obtain ⟨MY, k, my1, my2, hk, hbY, hVY⟩ := rep_normal hrY hY0
  -- the bounds, over ℚ
  have hbound := recip_sqrt_bounds (A.toNat' : ℚ) L W Y B ((s * 2 ^ u : Nat) : ℚ) (((s + 1) * 2 ^ u : Nat) : ℚ)
    ((q * 2 ^ v : Nat) : ℚ) (((q + 1) * 2 ^ v : Nat) : ℚ) (by exact_mod_cast hA0) (by exact_mod_cast hL0)
    (by exact_mod_cast hW0) (by exact_mod_cast hY0) (by exact_mod_cast hB0)
    (by have : 0 < s * 2 ^ u := Nat.mul_pos (by omega) (Nat.pow_pos (by decide)); exact_mod_cast this)
    (by have : 0 < q * 2 ^ v := Nat.mul_pos (by omega) (Nat.pow_pos (by decide)); exact_mod_cast this)
    (by have : 2 ^ 52 * L ≤ 2 ^ 52 * A.toNat' + L := by omega
        have : (2 ^ 52 * L : ℚ) ≤ 2 ^ 52 * A.toNat' + L := by exact_mod_cast this
        linarith)
    (by have : 2 ^ 52 * A.toNat' + L ≤ 2 ^ 52 * L + 2 * A.toNat' := by omega
        have : (2 ^ 52 * A.toNat' + L : ℚ) ≤ 2 ^ 52 * L + 2 * A.toNat' := by exact_mod_cast this
        linarith)
    (by have : 2 ^ 53 * (s * 2 ^ u) ≤ 2 ^ 53 * W + s * 2 ^ u := by omega
        have : (2 ^ 53 * ((s * 2 ^ u : Nat) : ℚ)) ≤ 2 ^ 53 * W + ((s * 2 ^ u : Nat) : ℚ) := by exact_mod_cast this
        linarith)
    (by have : (2 ^ 53 * W : ℚ) ≤ (2 ^ 53 + 1) * (((s + 1) * 2 ^ u : Nat) : ℚ) := by exact_mod_cast b2
        exact this)
    (by exact_mod_cast hs1) (by exact_mod_cast hs2)
    (by have : 2 ^ 82 * ((s + 1) * 2 ^ u) ≤ (2 ^ 82 + 1) * (s * 2 ^ u) := by
          have : 2 ^ 82 * (s + 1) ≤ (2 ^ 82 + 1) * s := by omega
          calc 2 ^ 82 * ((s + 1) * 2 ^ u) = (2 ^ 82 * (s + 1)) * 2 ^ u := by ring
            _ ≤ ((2 ^ 82 + 1) * s) * 2 ^ u := Nat.mul_le_mul_right _ this
            _ = (2 ^ 82 + 1) * (s * 2 ^ u) := by ring
        exact_mod_cast this)
    (by have : 2 ^ 53 * (q * 2 ^ v) ≤ 2 ^ 53 * Y + q * 2 ^ v := by omega
        have : (2 ^ 53 * ((q * 2 ^ v : Nat) : ℚ)) ≤ 2 ^ 53 * Y + ((q * 2 ^ v : Nat) : ℚ) := by exact_mod_cast this
        linarith)
    (by have : (2 ^ 53 * Y : ℚ) ≤ (2 ^ 53 + 1) * (((q + 1) * 2 ^ v : Nat) : ℚ) := by exact_mod_cast y2
        exact this)
    (by exact_mod_cast hq1) (by exact_mod_cast hq2)
    (by have : 2 ^ 111 * ((q + 1) * 2 ^ v) ≤ (2 ^ 111 + 1) * (q * 2 ^ v) := by
          have : 2 ^ 111 * (q + 1) ≤ (2 ^ 111 + 1) * q := by omega
          calc 2 ^ 111 * ((q + 1) * 2 ^ v) = (2 ^ 111 * (q + 1)) * 2 ^ v := by ring
            _ ≤ ((2 ^ 111 + 1) * q) * 2 ^ v := Nat.mul_le_mul_right _ this
            _ = (2 ^ 111 + 1) * (q * 2 ^ v) := by ring
        exact_mod_cast this)
  obtain ⟨hbl, hbu⟩ := hbound
  have hblN : 2 ^ 40 * (B * B) ≤ 2 ^ 40 * (Y * Y * A.toNat') + B * B := by
    have : (2 ^ 40 * ((B : ℚ) * B)) ≤ 2 ^ 40 * ((Y : ℚ) * Y * A.toNat') + (B : ℚ) * B := by linarith
    exact_mod_cast this
  have hbuN : 2 ^ 40 * (Y * Y * A.toNat') ≤ (2 ^ 40 + 1) * (B * B) := by exact_mod_cast hbu
  exact ⟨P, lx, c, c', Y, MY, k, B, hmul, hadd, hsqrt, hfdiv, hcl', my1, my2, hbY, hVY, hBd, hblN, hbuN⟩

/-- **the float estimate**: the four `f64` operations of `short_sqrt128` never fail on `1 ≤ A < 2^117`, and the result
`ly = MY·2^(−ey−52)` (`2^52 ≤ MY < 2^53`, exponent field `1023 − ey`, `0 ≤ ey ≤ 59`) satisfies `ly²·A = 1 ± 2^-40` -/
theorem short_float (A : U128) (hA0 : 0 < A.toNat') (hA : A.toNat' < 2 ^ 117) :
    ∃ (P lx ls ly : F64U) (MY ey : Nat),
      F64U.mul (F64U.ofU64 (UInt64.ofInt (toI A.w1))) (⟨(0x43f0000000000000 : UInt64)⟩ : F64U) = .ok P ∧
      F64U.add P (F64U.ofU64 (UInt64.ofInt (toI A.w0))) = .ok lx ∧
      F64U.sqrt lx = .ok ls ∧ F64U.div (F64U.ofU64 1) ls = .ok ly ∧
      2 ^ 52 ≤ MY ∧ MY < 2 ^ 53 ∧ ey ≤ 59 ∧ ly.bits.toNat = (1022 - ey) * 2 ^ 52 + MY ∧
      (2 ^ 40 - 1) * 2 ^ (2 * ey + 104) ≤ 2 ^ 40 * (MY * MY * A.toNat') ∧
      2 ^ 40 * (MY * MY * A.toNat') ≤ (2 ^ 40 + 1) * 2 ^ (2 * ey + 104) := by
  obtain ⟨P, lx, c, c', Y, MY, k, B, hmul, hadd, hsqrt, hfdiv, hcl', my1, my2, hbY, hVY, hBd, hblN, hbuN⟩ :=
    short_float_core A hA0 hA
  have hB0 : 0 < B := by rw [hBd]; exact Nat.pow_pos (by decide)
  have hBB0 : 0 < B * B := Nat.mul_pos hB0 hB0
  -- the exponent of ly
  have hYu : Y < 2 * B := by
    by_contra hh
    have h4 : (2 * B) * (2 * B) ≤ Y * Y := Nat.mul_le_mul (by omega) (by omega)
    have e4 : (2 * B) * (2 * B) = 4 * (B * B) := by ring
    have : Y * Y ≤ Y * Y * A.toNat' := Nat.le_mul_of_pos_right _ hA0
    omega
  have hYl : 2 ^ 1015 ≤ Y := by
    by_contra hh
    have h4 : Y * Y ≤ 2 ^ 1015 * 2 ^ 1015 := Nat.mul_le_mul (by omega) (by omega)
    have e4 : (2 : Nat) ^ 1015 * 2 ^ 1015 * 2 ^ 118 = B * B := by rw [hBd, ← Nat.pow_add, ← Nat.pow_add, ← Nat.pow_add]
    have h5 : Y * Y * A.toNat' ≤ Y * Y * 2 ^ 117 := Nat.mul_le_mul_left _ (by omega)
    have h6 : Y * Y * 2 ^ 117 ≤ 2 ^ 1015 * 2 ^ 1015 * 2 ^ 117 := Nat.mul_le_mul_right _ h4
    have e5 : (2 : Nat) ^ 1015 * 2 ^ 1015 * 2 ^ 118 = 2 * (2 ^ 1015 * 2 ^ 1015 * 2 ^ 117) := by ring
    omega
  obtain ⟨k1', k2'⟩ := exp_range MY k 1015 1075 my1 my2 (by rw [hVY]; exact hYl)
    (by rw [hVY]; have : (2 : Nat) ^ 1075 = 2 * B := by rw [hBd, show (1075 : Nat) = 1 + 1074 from rfl, Nat.pow_add]
        omega)
  refine ⟨P, lx, ⟨UInt64.ofNat c⟩, ⟨UInt64.ofNat c'⟩, MY, 1022 - k, hmul, hadd, hsqrt, hfdiv, my1, my2, by omega, ?_, ?_, ?_⟩
  · show (UInt64.ofNat c').toNat = _
    have : 1022 - (1022 - k) = k := by omega
    rw [C10GenRem.ofNat_toNat_lt c' hcl', hbY, this]
  all_goals
    have ek : 2 * (1022 - k) + 104 + 2 * k = 2148 := by omega
    have ek' : 1074 + 1074 = 2 * (1022 - k) + 104 + (k + k) := by omega
    have eB : B * B = 2 ^ (2 * (1022 - k) + 104) * (2 ^ k * 2 ^ k) := by
      calc B * B = 2 ^ 1074 * 2 ^ 1074 := by rw [← hBd]
        _ = 2 ^ (1074 + 1074) := (Nat.pow_add 2 1074 1074).symm
        _ = 2 ^ (2 * (1022 - k) + 104 + (k + k)) := congrArg (fun x => 2 ^ x) ek'
        _ = 2 ^ (2 * (1022 - k) + 104) * (2 ^ k * 2 ^ k) := by
            rw [Nat.pow_add (2) (2 * (1022 - k) + 104) (k + k), Nat.pow_add 2 k k]
    have eY : Y * Y * A.toNat' = (MY * MY * A.toNat') * (2 ^ k * 2 ^ k) := by rw [← hVY]; ring
    have hkk : 0 < 2 ^ k * 2 ^ k := Nat.mul_pos (Nat.pow_pos (by decide)) (Nat.pow_pos (by decide))
    rw [eB, eY] at hblN hbuN
    apply Nat.le_of_mul_le_mul_right _ hkk
  · have : 2 ^ 40 * (2 ^ (2 * (1022 - k) + 104) * (2 ^ k * 2 ^ k)) =
        (2 ^ 40 - 1) * 2 ^ (2 * (1022 - k) + 104) * (2 ^ k * 2 ^ k) + 2 ^ (2 * (1022 - k) + 104) * (2 ^ k * 2 ^ k) := by
      have : (2 : Nat) ^ 40 = (2 ^ 40 - 1) + 1 := by norm_num
      conv_lhs => rw [this]
      ring
    rw [Nat.mul_assoc (2 ^ 40) _ _]
    omega
  · rw [Nat.mul_assoc (2 ^ 40) _ _, Nat.mul_assoc (2 ^ 40 + 1) _ _]
    exact hbuN



/-! ## 16. `short_sqrt128`: two suffixes of its text (as for `bid128_sqrt` above) -/

/-- the text of `short_sqrt128` from the halving of `ES` on, every local variable a parameter -/
def shortFromES (A10_ : U128) (ARS_ : U256) (ARS0_ : U256) (AE0_ : U256) (AE_ : U256) (S_ : U256) (MY_ : UInt64) (ES_ : UInt64) (CY_ : UInt64) (lx_ : F64U) (l64_ : F64U) (f64_ : F64U) (ly_ : F64U) (ey_ : Int32) (k_ : Int32) : Except String UInt64 := do
  let mut A10 : U128 := A10_
  let mut ARS : U256 := ARS_
  let mut ARS0 : U256 := ARS0_
  let mut AE0 : U256 := AE0_
  let mut AE : U256 := AE_
  let mut S : U256 := S_
  let mut MY : UInt64 := MY_
  let mut ES : UInt64 := ES_
  let mut CY : UInt64 := CY_
  let mut lx : F64U := lx_
  let mut l64 : F64U := l64_
  let mut f64 : F64U := f64_
  let mut ly : F64U := ly_
  let mut ey : Int32 := ey_
  let mut k : Int32 := k_
  ES := (UInt64.ofInt (toI ((((Int64.ofInt (toI ES))) >>> 1))))
  if (decide (((Int64.ofInt (toI ES))) < (0 : Int64))) then
    ES := (UInt64.ofInt (toI (-((Int64.ofInt (toI ES))))))
    AE0 := (← mul_64x256_to_256 ES ARS0)
    AE := { AE with w0 := AE0.w1 }
    AE := { AE with w1 := AE0.w2 }
    AE := { AE with w2 := AE0.w3 }
    let t__1 := (← add_carry_out ARS0.w0 AE.w0)
    S := { S with w0 := t__1.1 }
    CY := t__1.2
    let t__2 := (← add_carry_in_out ARS0.w1 AE.w1 CY)
    S := { S with w1 := t__2.1 }
    CY := t__2.2
    S := { S with w2 := ((ARS0.w2 + AE.w2) + CY) }
  else
    AE0 := (← mul_64x256_to_256 ES ARS0)
    AE := { AE with w0 := AE0.w1 }
    AE := { AE with w1 := AE0.w2 }
    AE := { AE with w2 := AE0.w3 }
    let t__3 := (← sub_borrow_out ARS0.w0 AE.w0)
    S := { S with w0 := t__3.1 }
    CY := t__3.2
    let t__4 := (← sub_borrow_in_out ARS0.w1 AE.w1 CY)
    S := { S with w1 := t__4.1 }
    CY := t__4.2
    S := { S with w2 := ((ARS0.w2 - AE.w2) - CY) }
  k := (ey + (0x33 : Int32))
  if (decide (k ≥ (0x40 : Int32))) then
    if (decide (k ≥ (0x80 : Int32))) then
      S := { S with w0 := S.w2 }
      S := { S with w1 := (0 : UInt64) }
      k := (k - 0x80)
    else
      S := { S with w0 := S.w1 }
      S := { S with w1 := S.w2 }
    k := (k - 0x40)
  if (k != (0 : Int32)) then
    S := (← shr_256 S k)
  return ((((S.w0 + (1 : UInt64))) >>> 1))

/-- the text of `short_sqrt128` from the final shift on, every local variable a parameter -/
def shortFromS (A10_ : U128) (ARS_ : U256) (ARS0_ : U256) (AE0_ : U256) (AE_ : U256) (S_ : U256) (MY_ : UInt64) (ES_ : UInt64) (CY_ : UInt64) (lx_ : F64U) (l64_ : F64U) (f64_ : F64U) (ly_ : F64U) (ey_ : Int32) (k_ : Int32) : Except String UInt64 := do
  let mut A10 : U128 := A10_
  let mut ARS : U256 := ARS_
  let mut ARS0 : U256 := ARS0_
  let mut AE0 : U256 := AE0_
  let mut AE : U256 := AE_
  let mut S : U256 := S_
  let mut MY : UInt64 := MY_
  let mut ES : UInt64 := ES_
  let mut CY : UInt64 := CY_
  let mut lx : F64U := lx_
  let mut l64 : F64U := l64_
  let mut f64 : F64U := f64_
  let mut ly : F64U := ly_
  let mut ey : Int32 := ey_
  let mut k : Int32 := k_
  k := (ey + (0x33 : Int32))
  if (decide (k ≥ (0x40 : Int32))) then
    if (decide (k ≥ (0x80 : Int32))) then
      S := { S with w0 := S.w2 }
      S := { S with w1 := (0 : UInt64) }
      k := (k - 0x80)
    else
      S := { S with w0 := S.w1 }
      S := { S with w1 := S.w2 }
    k := (k - 0x40)
  if (k != (0 : Int32)) then
    S := (← shr_256 S k)
  return ((((S.w0 + (1 : UInt64))) >>> 1))




/-! ## 17. `short_sqrt128`: from the entry to the error term `ES` -/

theorem i32_shl1 (n : Int32) (h0 : 0 ≤ n.toInt) (h1 : n.toInt < 2 ^ 30) : (n <<< 1).toInt = 2 * n.toInt := by
  have h : (n <<< 1).toInt = (n.toBitVec <<< ((1 : Int32).toBitVec.smod 32)).toInt := rfl
  have e : ((1 : Int32).toBitVec.smod 32) = 1#32 := by decide
  rw [h, e]
  have ht : n.toInt = n.toBitVec.toInt := rfl
  rw [ht] at h0 h1 ⊢
  rw [BitVec.shiftLeft_eq', show (1#32 : BitVec 32).toNat = 1 from rfl, BitVec.toInt_shiftLeft]
  rw [BitVec.toInt_eq_toNat_cond] at h0 h1 ⊢
  have := n.toBitVec.isLt
  split at h0 <;> rename_i hh
  · rw [Nat.shiftLeft_eq, Int.bmod_def]; split <;> omega
  · omega

/-- the significand and the exponent read off the bits of `ly` -/
theorem my_bits (b : UInt64) (MY ey : Nat) (h1 : 2 ^ 52 ≤ MY) (h2 : MY < 2 ^ 53) (he : ey ≤ 59)
    (hb : b.toNat = (1022 - ey) * 2 ^ 52 + MY) :
    ((b &&& 0xfffffffffffff) ||| 0x10000000000000).toNat = MY ∧
    (Int32.ofInt (toI ((0x3ff : UInt64) - (b >>> 0x34)))).toInt = ey := by
  constructor
  · rw [UInt64.toNat_or, UInt64.toNat_and, hb]
    have : (0xfffffffffffff : UInt64).toNat = 2 ^ 52 - 1 := rfl
    rw [this, Nat.and_two_pow_sub_one_eq_mod]
    have e1 : ((1022 - ey) * 2 ^ 52 + MY) % 2 ^ 52 = MY - 2 ^ 52 := by omega
    rw [e1, show (0x10000000000000 : UInt64).toNat = 2 ^ 52 from rfl]
    have hlt : MY - 2 ^ 52 < 2 ^ 52 := by omega
    rw [Nat.or_comm]
    have := Nat.two_pow_add_eq_or_of_lt hlt 1
    rw [Nat.mul_one] at this
    rw [← this]; omega
  · have e1 : (b >>> 0x34).toNat = 1023 - ey := by
      rw [UInt64.toNat_shiftRight, hb, show (0x34 : UInt64).toNat % 64 = 52 from rfl, Nat.shiftRight_eq_div_pow]
      omega
    have e2 : ((0x3ff : UInt64) - (b >>> 0x34)).toNat = ey := by
      rw [UInt64.toNat_sub, e1, show (0x3ff : UInt64).toNat = 1023 from rfl]; omega
    show (Int32.ofInt ((((0x3ff : UInt64) - (b >>> 0x34)).toNat : Nat) : Int)).toInt = _
    rw [e2, Int32.toInt_ofInt, show Int32.size = 2 ^ 32 from rfl, bmod32 (by omega) (by omega)]

/-- bits `[n, n+64)` of a two-word number as the code extracts them -/
theorem shr_or_word (lo hi ka kb : UInt64) (n : Nat) (hn1 : 1 ≤ n) (hn : n ≤ 63) (hka : ka.toNat = n)
    (hkb : kb.toNat = 64 - n) :
    ((lo >>> ka) ||| (hi <<< kb)).toNat = ((lo.toNat + 2 ^ 64 * hi.toNat) / 2 ^ n) % 2 ^ 64 := by
  obtain ⟨e, l⟩ := @C01ArithHelpers.shr_pair lo.toNat hi.toNat n lo.toNat_lt hn1 hn
  rw [UInt64.toNat_or, UInt64.toNat_shiftRight, UInt64.toNat_shiftLeft, hka, hkb, Nat.mod_eq_of_lt (by omega : n < 64),
    Nat.mod_eq_of_lt (by omega : 64 - n < 64), Nat.shiftRight_eq_div_pow, Nat.shiftLeft_eq]
  rw [C01GenArith.W1] at e l
  rw [← e]
  generalize lo.toNat / 2 ^ n ||| hi.toNat * 2 ^ (64 - n) % 2 ^ 64 = X at *
  omega

theorem u256_div128 (X : U256) : X.toNat' / 2 ^ 128 = X.w2.toNat + 2 ^ 64 * X.w3.toNat := by
  have a0 := X.w0.toNat_lt; have a1 := X.w1.toNat_lt
  unfold Rs.U256.toNat'; omega
theorem u256_div64 (X : U256) : X.toNat' / 2 ^ 64 = X.w1.toNat + 2 ^ 64 * X.w2.toNat + 2 ^ 128 * X.w3.toNat := by
  have a0 := X.w0.toNat_lt
  unfold Rs.U256.toNat'; omega

/-- the word the code takes out of `ARS` at bit `kv = 128 + n` (`1 ≤ n ≤ 63`) -/
theorem es_case_a (ARS : U256) (k : Int32) (kv : Nat) (hk : k.toInt = kv) (h1 : 128 < kv) (h2 : kv < 192) :
    ((ARS.w2 >>> UInt64.ofInt (toI (k - (0x80 : Int32)))) ||| (ARS.w3 <<< UInt64.ofInt (toI ((0xc0 : Int32) - k)))).toNat
      = (ARS.toNat' / 2 ^ kv) % 2 ^ 64 := by
  have e1 : (k - (0x80 : Int32)).toInt = kv - 128 := by
    rw [Int32.toInt_sub, hk, show (0x80 : Int32).toInt = 128 from rfl]; exact bmod32 (by omega) (by omega)
  have e2 : ((0xc0 : Int32) - k).toInt = 192 - kv := by
    rw [Int32.toInt_sub, hk, show (0xc0 : Int32).toInt = 192 from rfl]; exact bmod32 (by omega) (by omega)
  rw [shr_or_word ARS.w2 ARS.w3 _ _ (kv - 128) (by omega) (by omega)
    (by rw [idx_of_i32 _ (by omega), e1]; omega) (by rw [idx_of_i32 _ (by omega), e2]; omega), ← u256_div128,
    Nat.div_div_eq_div_mul, ← Nat.pow_add]
  have : 128 + (kv - 128) = kv := by omega
  rw [this]

theorem low_bits (X i : Nat) (hi : i ≤ 64) : (X / 2 ^ i) % 2 ^ 64 = ((X % 2 ^ 128) / 2 ^ i) % 2 ^ 64 := by
  obtain ⟨j, hj⟩ : ∃ j, 128 = i + j := ⟨128 - i, by omega⟩
  have h64 : 64 ≤ j := by omega
  obtain ⟨t, ht⟩ : ∃ t, j = 64 + t := ⟨j - 64, by omega⟩
  have hd := Nat.div_add_mod X (2 ^ 128)
  generalize X / 2 ^ 128 = q at *
  generalize X % 2 ^ 128 = r at *
  rw [← hd, hj, Nat.pow_add, Nat.mul_assoc, Nat.mul_comm (2 ^ i) (2 ^ j * q), Nat.add_comm, Nat.add_mul_div_right _ _ (Nat.pow_pos (by decide)),
    ht, Nat.pow_add, Nat.mul_assoc, Nat.add_mul_mod_self_left]

/-- … at bit `kv = 64 + n` (`1 ≤ n ≤ 63`): after the word move, `__shr_256` (which shifts two words) -/
theorem es_case_c (ARS : U256) (k : Int32) (kv : Nat) (hk : k.toInt = kv) (h1 : 64 < kv) (h2 : kv < 128) :
    ∃ r, shr_256 ⟨ARS.w1, ARS.w2, ARS.w2, ARS.w3⟩ (k - 0x40) = .ok r ∧ r.w0.toNat = (ARS.toNat' / 2 ^ kv) % 2 ^ 64 := by
  have e1 : (k - (0x40 : Int32)).toInt = kv - 64 := by
    rw [Int32.toInt_sub, hk, show (0x40 : Int32).toInt = 64 from rfl]; exact bmod32 (by omega) (by omega)
  obtain ⟨r, hr, -, -, -, h0⟩ := C01GenArith.gen_shr_256 ⟨ARS.w1, ARS.w2, ARS.w2, ARS.w3⟩ (k - 0x40) (by omega) (by omega)
  refine ⟨r, hr, ?_⟩
  rw [h0, e1]
  have e2 : ((kv : Int) - 64).toNat = kv - 64 := by omega
  rw [e2, low_bits _ _ (by omega)]
  have e3 : kv = 64 + (kv - 64) := by omega
  conv_rhs => rw [e3, Nat.pow_add, ← Nat.div_div_eq_div_mul, low_bits _ _ (by omega), u256_div64]
  have a1 := ARS.w1.toNat_lt; have a2 := ARS.w2.toNat_lt
  have : (⟨ARS.w1, ARS.w2, ARS.w2, ARS.w3⟩ : U256).toNat' % 2 ^ 128 =
      (ARS.w1.toNat + 2 ^ 64 * ARS.w2.toNat + 2 ^ 128 * ARS.w3.toNat) % 2 ^ 128 := by
    simp only [Rs.U256.toNat']; omega
  rw [this]

theorem es_case_d (ARS : U256) (k : Int32) (kv : Nat) (hk : k.toInt = kv) (h1 : 1 ≤ kv) (h2 : kv < 64) :
    ∃ r, shr_256 ARS k = .ok r ∧ r.w0.toNat = (ARS.toNat' / 2 ^ kv) % 2 ^ 64 := by
  obtain ⟨r, hr, -, -, -, h0⟩ := C01GenArith.gen_shr_256 ARS k (by omega) (by omega)
  refine ⟨r, hr, ?_⟩
  rw [h0, hk]; rfl

theorem short_to_es (A : U128) (hA0 : 0 < A.toNat') (hA : A.toNat' < 2 ^ 117) :
    ∃ (ES0 : UInt64) (eyw : Int32) (ARS0 : U256) (MY ey : Nat),
      2 ^ 52 ≤ MY ∧ MY < 2 ^ 53 ∧ ey ≤ 59 ∧
      (2 ^ 40 - 1) * 2 ^ (2 * ey + 104) ≤ 2 ^ 40 * (MY * MY * A.toNat') ∧
      2 ^ 40 * (MY * MY * A.toNat') ≤ (2 ^ 40 + 1) * 2 ^ (2 * ey + 104) ∧
      eyw.toInt = ey ∧ ARS0.toNat' = MY * A.toNat' ∧ ARS0.w3 = 0 ∧
      ES0.toNat = (MY * MY * A.toNat' / 2 ^ (2 * ey + 40)) % 2 ^ 64 ∧
      short_sqrt128 A = shortFromES A default ARS0 default default default default ES0 default default default default
        default eyw default := by
  obtain ⟨P, lx, ls, ly, MY, ey, hmul, hadd, hsqrt, hdiv, my1, my2, hey, hbits, bl, bu⟩ := short_float A hA0 hA
  obtain ⟨hMYw, heyw⟩ := my_bits ly.bits MY ey my1 my2 hey hbits
  obtain ⟨ARS0, hARS0, hARS0v, hARS0w3⟩ := C01GenArith.gen_mul_64x128_to_256
    ((ly.bits &&& 0xfffffffffffff) ||| 0x10000000000000) A
  obtain ⟨ARS, hARS, hARSv⟩ := C01GenArith.gen_mul_64x256_to_256_exact
    ((ly.bits &&& 0xfffffffffffff) ||| 0x10000000000000) ARS0 hARS0w3
  rw [hMYw] at hARS0v hARSv
  rw [hARS0v] at hARSv
  generalize hMd : (ly.bits &&& 0xfffffffffffff) ||| 0x10000000000000 = MYw at *
  generalize hed : Int32.ofInt (toI ((0x3ff : UInt64) - (ly.bits >>> 0x34))) = eyw at *
  have hk0 : ((eyw <<< 1) + (0x68 : Int32)).toInt = 2 * ey + 104 := by
    rw [Int32.toInt_add, i32_shl1 eyw (by omega) (by omega), heyw, show (0x68 : Int32).toInt = 104 from rfl]
    exact bmod32 (by omega) (by omega)
  have hk : (((eyw <<< 1) + (0x68 : Int32)) - (0x40 : Int32)).toInt = ((2 * ey + 40 : Nat) : Int) := by
    rw [Int32.toInt_sub, hk0, show (0x40 : Int32).toInt = 64 from rfl, bmod32 (by omega) (by omega)]
    push_cast; omega
  generalize hkd : ((eyw <<< 1) + (0x68 : Int32)) - (0x40 : Int32) = kw at hk
  have hN : ARS.toNat' = MY * MY * A.toNat' := by rw [hARSv]; ring
  have c80 : (0x80 : Int32).toInt = 128 := rfl
  have c40 : (0x40 : Int32).toInt = 64 := rfl
  have pre : ∀ (ES0 : UInt64), ES0.toNat = (ARS.toNat' / 2 ^ (2 * ey + 40)) % 2 ^ 64 →
      ES0.toNat = (MY * MY * A.toNat' / 2 ^ (2 * ey + 40)) % 2 ^ 64 := by
    intro ES0 h; rw [h, hN]
  by_cases ha : 128 < 2 * ey + 40
  · -- k > 128
    refine ⟨_, eyw, ARS0, MY, ey, my1, my2, hey, bl, bu, heyw, hARS0v, hARS0w3,
      pre _ (es_case_a ARS kw (2 * ey + 40) hk ha (by omega)), ?_⟩
    unfold short_sqrt128
    take_call hmul
    take_call hadd
    take_call hsqrt
    take_call hdiv
    head_step
    rw [hMd, hed]
    take_call hARS0
    take_call hARS
    rw [hkd]
    take_pos
    · rw [decide_eq_true_eq, ge_iff_le, Int32.le_iff_toInt_le, hk, c80]; omega
    take_pos
    · rw [decide_eq_true_eq, gt_iff_lt, Int32.lt_iff_toInt_lt, hk, c80]; omega
    rfl
  by_cases hb : 2 * ey + 40 = 128
  · -- k = 128
    refine ⟨ARS.w2, eyw, ARS0, MY, ey, my1, my2, hey, bl, bu, heyw, hARS0v, hARS0w3, pre _ ?_, ?_⟩
    · rw [hb, u256_div128]; have := ARS.w2.toNat_lt; omega
    unfold short_sqrt128
    take_call hmul
    take_call hadd
    take_call hsqrt
    take_call hdiv
    head_step
    rw [hMd, hed]
    take_call hARS0
    take_call hARS
    rw [hkd]
    take_pos
    · rw [decide_eq_true_eq, ge_iff_le, Int32.le_iff_toInt_le, hk, c80]; omega
    take_neg
    · rw [decide_eq_true_eq, gt_iff_lt, Int32.lt_iff_toInt_lt, hk, c80]; omega
    rfl
  by_cases hc : 64 < 2 * ey + 40
  · -- 64 < k < 128
    obtain ⟨r, hr, hrv⟩ := es_case_c ARS kw (2 * ey + 40) hk hc (by omega)
    refine ⟨r.w0, eyw, ARS0, MY, ey, my1, my2, hey, bl, bu, heyw, hARS0v, hARS0w3, pre _ hrv, ?_⟩
    have e1 : (kw - (0x40 : Int32)).toInt = ((2 * ey + 40 : Nat) : Int) - 64 := by
      rw [Int32.toInt_sub, hk, c40]; exact bmod32 (by omega) (by omega)
    unfold short_sqrt128
    take_call hmul
    take_call hadd
    take_call hsqrt
    take_call hdiv
    head_step
    rw [hMd, hed]
    take_call hARS0
    take_call hARS
    rw [hkd]
    take_neg
    · rw [decide_eq_true_eq, ge_iff_le, Int32.le_iff_toInt_le, hk, c80]; omega
    take_pos
    · rw [decide_eq_true_eq, ge_iff_le, Int32.le_iff_toInt_le, hk, c40]; omega
    take_pos
    · rw [bne_iff_ne, ne_eq, ← Int32.toInt_inj, e1]; show ¬ _ = (0 : Int); omega
    take_call hr
    rfl
  by_cases hc0 : 2 * ey + 40 = 64
  · -- k = 64
    refine ⟨ARS.w1, eyw, ARS0, MY, ey, my1, my2, hey, bl, bu, heyw, hARS0v, hARS0w3, pre _ ?_, ?_⟩
    · rw [hc0, u256_div64]; have := ARS.w1.toNat_lt; omega
    have e1 : (kw - (0x40 : Int32)).toInt = 0 := by
      rw [Int32.toInt_sub, hk, c40]; exact (bmod32 (by omega) (by omega)).trans (by omega)
    unfold short_sqrt128
    take_call hmul
    take_call hadd
    take_call hsqrt
    take_call hdiv
    head_step
    rw [hMd, hed]
    take_call hARS0
    take_call hARS
    rw [hkd]
    take_neg
    · rw [decide_eq_true_eq, ge_iff_le, Int32.le_iff_toInt_le, hk, c80]; omega
    take_pos
    · rw [decide_eq_true_eq, ge_iff_le, Int32.le_iff_toInt_le, hk, c40]; omega
    take_neg
    · rw [bne_iff_ne, ne_eq, not_not, ← Int32.toInt_inj, e1]; rfl
    rfl
  · -- k < 64
    obtain ⟨r, hr, hrv⟩ := es_case_d ARS kw (2 * ey + 40) hk (by omega) (by omega)
    refine ⟨r.w0, eyw, ARS0, MY, ey, my1, my2, hey, bl, bu, heyw, hARS0v, hARS0w3, pre _ hrv, ?_⟩
    unfold short_sqrt128
    take_call hmul
    take_call hadd
    take_call hsqrt
    take_call hdiv
    head_step
    rw [hMd, hed]
    take_call hARS0
    take_call hARS
    rw [hkd]
    take_neg
    · rw [decide_eq_true_eq, ge_iff_le, Int32.le_iff_toInt_le, hk, c80]; omega
    take_neg
    · rw [decide_eq_true_eq, ge_iff_le, Int32.le_iff_toInt_le, hk, c40]; omega
    take_pos
    · rw [bne_iff_ne, ne_eq, ← Int32.toInt_inj, hk]; show ¬ _ = (0 : Int); omega
    take_call hr
    rfl



/-! ## 18. `short_sqrt128`: the first-order correction -/

theorem i64_shr1 (n : Int64) : (n >>> 1).toInt = n.toInt / 2 := by
  have h : (n >>> 1).toInt = (n.toBitVec.sshiftRight' ((1 : Int64).toBitVec.smod 64)).toInt := rfl
  rw [h, BitVec.toInt_sshiftRight']
  have : ((1 : Int64).toBitVec.smod 64).toNat = 1 := by decide
  rw [this]
  show n.toInt >>> 1 = _
  rw [Int.shiftRight_eq_div_pow]; rfl

/-- a `u64` read as `i64` -/
def sg64 (w : UInt64) : Int := if w.toNat < 2 ^ 63 then (w.toNat : Int) else (w.toNat : Int) - 2 ^ 64

theorem sg64_eq (w : UInt64) : (Int64.ofInt (toI w)).toInt = sg64 w := by
  show (Int64.ofInt ((w.toNat : Nat) : Int)).toInt = _
  have := w.toNat_lt
  rw [Int64.toInt_ofInt, show Int64.size = 2 ^ 64 from rfl, Int.bmod_def]
  unfold sg64
  split <;> split <;> omega

theorem bmod64 {x : Int} (h1 : -2 ^ 63 ≤ x) (h2 : x < 2 ^ 63) : x.bmod (2 ^ 64) = x := by
  rw [Int.bmod_def]; split <;> omega

/-- the halving of the error term, its sign test and its negation -/
theorem es_halve (ES0 : UInt64) :
    (Int64.ofInt (toI (UInt64.ofInt (toI ((Int64.ofInt (toI ES0)) >>> 1))))).toInt = sg64 ES0 / 2 ∧
    (0 ≤ sg64 ES0 / 2 → (UInt64.ofInt (toI ((Int64.ofInt (toI ES0)) >>> 1))).toNat = (sg64 ES0 / 2).toNat) ∧
    (sg64 ES0 / 2 < 0 →
      (UInt64.ofInt (toI (-(Int64.ofInt (toI (UInt64.ofInt (toI ((Int64.ofInt (toI ES0)) >>> 1)))))))).toNat
        = (-(sg64 ES0 / 2)).toNat) := by
  have hy : ((Int64.ofInt (toI ES0)) >>> 1).toInt = sg64 ES0 / 2 := by rw [i64_shr1, sg64_eq]
  have hr : -2 ^ 62 ≤ sg64 ES0 / 2 ∧ sg64 ES0 / 2 < 2 ^ 62 := by
    have := ES0.toNat_lt
    unfold sg64; split <;> omega
  generalize (Int64.ofInt (toI ES0)) >>> 1 = y at hy
  generalize sg64 ES0 / 2 = E at *
  have hu : (UInt64.ofInt (toI y)).toNat = (E % 2 ^ 64).toNat := by
    rw [toNat_ofInt64']; show (y.toInt % 18446744073709551616).toNat = _; rw [hy]; rfl
  have hback : (Int64.ofInt (toI (UInt64.ofInt (toI y)))).toInt = E := by
    show (Int64.ofInt (((UInt64.ofInt (toI y)).toNat : Nat) : Int)).toInt = _
    rw [hu, Int64.toInt_ofInt, show Int64.size = 2 ^ 64 from rfl]
    have : ((E % 2 ^ 64).toNat : Int) = E % 2 ^ 64 := Int.toNat_of_nonneg (Int.emod_nonneg _ (by norm_num))
    rw [this, Int.bmod_def]
    split <;> omega
  refine ⟨hback, ?_, ?_⟩
  · intro h0; rw [hu, Int.emod_eq_of_lt h0 (by omega)]
  · intro h0
    have hneg : (-(Int64.ofInt (toI (UInt64.ofInt (toI y))))).toInt = -E := by
      rw [Int64.toInt_neg, hback]; exact bmod64 (by omega) (by omega)
    rw [toNat_ofInt64']
    show ((-(Int64.ofInt (toI (UInt64.ofInt (toI y))))).toInt % 18446744073709551616).toNat = _
    rw [hneg, Int.emod_eq_of_lt (by omega) (by omega)]

/-- three-word addition as the code does it (two carry steps, the third word wrapping) -/
theorem add192_val (X : U256) (y0 y1 y2 : UInt64) (r1 r2 : UInt64 × UInt64)
    (h1 : r1.1.toNat + 2 ^ 64 * r1.2.toNat = X.w0.toNat + y0.toNat)
    (h2 : r2.1.toNat + 2 ^ 64 * r2.2.toNat = X.w1.toNat + y1.toNat + r1.2.toNat)
    (hX3 : X.w3 = 0) (hlt : X.toNat' + (y0.toNat + 2 ^ 64 * y1.toNat + 2 ^ 128 * y2.toNat) < 2 ^ 192) :
    (⟨r1.1, r2.1, (X.w2 + y2) + r2.2, 0⟩ : U256).toNat' =
      X.toNat' + (y0.toNat + 2 ^ 64 * y1.toNat + 2 ^ 128 * y2.toNat) := by
  have x0 := r1.1.toNat_lt; have x1 := r2.1.toNat_lt
  have hw : ((X.w2 + y2) + r2.2).toNat = ((X.w2.toNat + y2.toNat) % 2 ^ 64 + r2.2.toNat) % 2 ^ 64 := by
    rw [UInt64.toNat_add, UInt64.toNat_add]
  have h3 : X.w3.toNat = 0 := by rw [hX3]; rfl
  simp only [Rs.U256.toNat', UInt64.toNat_zero] at hlt ⊢
  rw [hw]
  generalize r1.1.toNat = X0 at *; generalize r1.2.toNat = C0 at *
  generalize r2.1.toNat = X1 at *; generalize r2.2.toNat = C1 at *
  generalize X.w0.toNat = m0 at *; generalize X.w1.toNat = m1 at *
  generalize X.w2.toNat = m2 at *; generalize X.w3.toNat = m3 at *
  generalize y0.toNat = a at *; generalize y1.toNat = b at *; generalize y2.toNat = c at *
  clear hw
  omega

/-- three-word subtraction as the code does it -/
theorem sub192_val (X : U256) (y0 y1 y2 : UInt64) (r1 r2 : UInt64 × UInt64)
    (h1 : r1.1.toNat + y0.toNat = X.w0.toNat + 2 ^ 64 * r1.2.toNat)
    (h2 : r2.1.toNat + y1.toNat + r1.2.toNat = X.w1.toNat + 2 ^ 64 * r2.2.toNat) (c2 : r2.2.toNat ≤ 1)
    (hX3 : X.w3 = 0) (hle : y0.toNat + 2 ^ 64 * y1.toNat + 2 ^ 128 * y2.toNat ≤ X.toNat') :
    (⟨r1.1, r2.1, (X.w2 - y2) - r2.2, 0⟩ : U256).toNat' =
      X.toNat' - (y0.toNat + 2 ^ 64 * y1.toNat + 2 ^ 128 * y2.toNat) := by
  have x0 := r1.1.toNat_lt; have x1 := r2.1.toNat_lt
  have a2 := X.w2.toNat_lt; have b2 := y2.toNat_lt
  have hw : ((X.w2 - y2) - r2.2).toNat = (2 ^ 64 - r2.2.toNat + (2 ^ 64 - y2.toNat + X.w2.toNat) % 2 ^ 64) % 2 ^ 64 := by
    rw [UInt64.toNat_sub, UInt64.toNat_sub]
  have h3 : X.w3.toNat = 0 := by rw [hX3]; rfl
  simp only [Rs.U256.toNat', UInt64.toNat_zero] at hle ⊢
  rw [hw]
  generalize r1.1.toNat = X0 at *; generalize r1.2.toNat = C0 at *
  generalize r2.1.toNat = X1 at *; generalize r2.2.toNat = C1 at *
  generalize X.w0.toNat = m0 at *; generalize X.w1.toNat = m1 at *
  generalize X.w2.toNat = m2 at *; generalize X.w3.toNat = m3 at *
  generalize y0.toNat = a at *; generalize y1.toNat = b at *; generalize y2.toNat = c at *
  clear hw
  have : C1 = 0 ∨ C1 = 1 := by omega
  rcases this with h | h <;> subst h <;> omega

theorem u256_hi192 (X : U256) : X.w1.toNat + 2 ^ 64 * X.w2.toNat + 2 ^ 128 * X.w3.toNat = X.toNat' / 2 ^ 64 := by
  rw [u256_div64]

/-- **from the error term to the corrected root estimate** `S = ARS0 ∓ ⌊|E|·ARS0 / 2^64⌋`, `E = ⌊sg64(ES) / 2⌋` -/
theorem es_to_s (A : U128) (ARS ARS0 AE0 : U256) (MY ES0 CY : UInt64) (lx l64 f64 ly : F64U) (eyw k : Int32)
    (hw3 : ARS0.w3 = 0) (ha : ARS0.toNat' < 2 ^ 170) :
    ∃ S : U256, S.w3 = 0 ∧
      S.toNat' = (if sg64 ES0 / 2 < 0 then ARS0.toNat' + (-(sg64 ES0 / 2)).toNat * ARS0.toNat' / 2 ^ 64
                  else ARS0.toNat' - (sg64 ES0 / 2).toNat * ARS0.toNat' / 2 ^ 64) ∧
      shortFromES A ARS ARS0 AE0 default default MY ES0 CY lx l64 f64 ly eyw k =
        shortFromS A ARS ARS0 AE0 default S MY ES0 CY lx l64 f64 ly eyw k := by
  obtain ⟨hsign, hpos, hneg⟩ := es_halve ES0
  have hr : -2 ^ 62 ≤ sg64 ES0 / 2 ∧ sg64 ES0 / 2 < 2 ^ 62 := by
    have := ES0.toNat_lt
    unfold sg64; split <;> omega
  by_cases hs : sg64 ES0 / 2 < 0
  · have hv := hneg hs
    obtain ⟨AE0', hAE0, hAE0v⟩ := C01GenArith.gen_mul_64x256_to_256_exact
      (UInt64.ofInt (toI (-(Int64.ofInt (toI (UInt64.ofInt (toI ((Int64.ofInt (toI ES0)) >>> 1)))))))) ARS0 hw3
    rw [hv] at hAE0v
    obtain ⟨r1, hr1, e1, c1⟩ := C01GenArith.gen_add_carry_out ARS0.w0 AE0'.w1
    obtain ⟨r2, hr2, e2, c2⟩ := C01GenArith.gen_add_carry_in_out ARS0.w1 AE0'.w2 r1.2 c1
    have hq : AE0'.w1.toNat + 2 ^ 64 * AE0'.w2.toNat + 2 ^ 128 * AE0'.w3.toNat =
        (-(sg64 ES0 / 2)).toNat * ARS0.toNat' / 2 ^ 64 := by rw [u256_hi192, hAE0v]
    have hEs : (-(sg64 ES0 / 2)).toNat ≤ 2 ^ 62 := by omega
    have hprod : (-(sg64 ES0 / 2)).toNat * ARS0.toNat' / 2 ^ 64 ≤ ARS0.toNat' := by
      apply Nat.div_le_of_le_mul
      exact Nat.mul_le_mul_right _ (by omega)
    have hval := add192_val ARS0 AE0'.w1 AE0'.w2 AE0'.w3 r1 r2 e1 e2 hw3 (by rw [hq]; omega)
    rw [hq] at hval
    refine ⟨⟨r1.1, r2.1, (ARS0.w2 + AE0'.w3) + r2.2, 0⟩, rfl, by rw [if_pos hs]; exact hval, ?_⟩
    unfold shortFromES
    take_pos
    · rw [decide_eq_true_eq, Int64.lt_iff_toInt_lt, hsign]; exact hs
    take_call hAE0
    take_call hr1
    take_call hr2
    rfl
  · have hv := hpos (by omega)
    obtain ⟨AE0', hAE0, hAE0v⟩ := C01GenArith.gen_mul_64x256_to_256_exact
      (UInt64.ofInt (toI ((Int64.ofInt (toI ES0)) >>> 1))) ARS0 hw3
    rw [hv] at hAE0v
    obtain ⟨r1, hr1, e1, c1⟩ := C01GenArith.gen_sub_borrow_out ARS0.w0 AE0'.w1
    obtain ⟨r2, hr2, e2, c2⟩ := C01GenArith.gen_sub_borrow_in_out ARS0.w1 AE0'.w2 r1.2 c1
    have hq : AE0'.w1.toNat + 2 ^ 64 * AE0'.w2.toNat + 2 ^ 128 * AE0'.w3.toNat =
        (sg64 ES0 / 2).toNat * ARS0.toNat' / 2 ^ 64 := by rw [u256_hi192, hAE0v]
    have hprod : (sg64 ES0 / 2).toNat * ARS0.toNat' / 2 ^ 64 ≤ ARS0.toNat' := by
      apply Nat.div_le_of_le_mul
      exact Nat.mul_le_mul_right _ (by omega)
    have hval := sub192_val ARS0 AE0'.w1 AE0'.w2 AE0'.w3 r1 r2 e1 e2 c2 hw3 (by rw [hq]; exact hprod)
    rw [hq] at hval
    refine ⟨⟨r1.1, r2.1, (ARS0.w2 - AE0'.w3) - r2.2, 0⟩, rfl, by rw [if_neg hs]; exact hval, ?_⟩
    unfold shortFromES
    take_neg
    · rw [decide_eq_true_eq, Int64.lt_iff_toInt_lt, hsign]; exact hs
    take_call hAE0
    take_call hr1
    take_call hr2
    rfl

/-! ## 19. `short_sqrt128`: the final shift -/

/-- **the last lines**: `S` shifted right by `ey + 51` (low word), plus one, halved -/
theorem s_to_result (A : U128) (ARS ARS0 AE0 AE S : U256) (MY ES CY : UInt64) (lx l64 f64 ly : F64U) (eyw k : Int32)
    (ey : Nat) (hey : eyw.toInt = ey) (h59 : ey ≤ 59) :
    ∃ w : UInt64, w.toNat = (S.toNat' / 2 ^ (ey + 51)) % 2 ^ 64 ∧
      shortFromS A ARS ARS0 AE0 AE S MY ES CY lx l64 f64 ly eyw k = .ok ((w + 1) >>> 1) := by
  have hk : (eyw + (0x33 : Int32)).toInt = ((ey + 51 : Nat) : Int) := by
    rw [Int32.toInt_add, hey, show (0x33 : Int32).toInt = 51 from rfl, bmod32 (by omega) (by omega)]; push_cast; rfl
  have c80 : (0x80 : Int32).toInt = 128 := rfl
  have c40 : (0x40 : Int32).toInt = 64 := rfl
  generalize hkd : eyw + (0x33 : Int32) = kw at hk
  by_cases h1 : ey + 51 < 64
  · obtain ⟨r, hr, hrv⟩ := es_case_d S kw (ey + 51) hk (by omega) h1
    refine ⟨r.w0, hrv, ?_⟩
    unfold shortFromS
    head_step
    rw [hkd]
    take_neg
    · rw [decide_eq_true_eq, ge_iff_le, Int32.le_iff_toInt_le, hk, c40]; omega
    take_pos
    · rw [bne_iff_ne, ne_eq, ← Int32.toInt_inj, hk]; show ¬ _ = (0 : Int); omega
    take_call hr
    rfl
  by_cases h2 : ey + 51 = 64
  · refine ⟨S.w1, ?_, ?_⟩
    · rw [h2, u256_div64]; have := S.w1.toNat_lt; omega
    have e1 : (kw - (0x40 : Int32)).toInt = 0 := by
      rw [Int32.toInt_sub, hk, c40]; exact (bmod32 (by omega) (by omega)).trans (by omega)
    unfold shortFromS
    head_step
    rw [hkd]
    take_pos
    · rw [decide_eq_true_eq, ge_iff_le, Int32.le_iff_toInt_le, hk, c40]; omega
    take_neg
    · rw [decide_eq_true_eq, ge_iff_le, Int32.le_iff_toInt_le, hk, c80]; omega
    take_neg
    · rw [bne_iff_ne, ne_eq, not_not, ← Int32.toInt_inj, e1]; rfl
    rfl
  · obtain ⟨r, hr, hrv⟩ := es_case_c S kw (ey + 51) hk (by omega) (by omega)
    refine ⟨r.w0, hrv, ?_⟩
    have e1 : (kw - (0x40 : Int32)).toInt = ((ey + 51 : Nat) : Int) - 64 := by
      rw [Int32.toInt_sub, hk, c40]; exact bmod32 (by omega) (by omega)
    unfold shortFromS
    head_step
    rw [hkd]
    take_pos
    · rw [decide_eq_true_eq, ge_iff_le, Int32.le_iff_toInt_le, hk, c40]; omega
    take_neg
    · rw [decide_eq_true_eq, ge_iff_le, Int32.le_iff_toInt_le, hk, c80]; omega
    take_pos
    · rw [bne_iff_ne, ne_eq, ← Int32.toInt_inj, e1]; show ¬ _ = (0 : Int); omega
    take_call hr
    rfl



/-! ## 20. `short_sqrt128` on a perfect square: the arithmetic (over ℚ) -/

/-- preliminaries: `u` within 10 % of `Q`, `(u − Q)² ≤ 2^-80·Q²`, and the bracket of `1 − e` -/
theorem short_q_prelim (u Q e : ℚ) (hu : 0 < u) (hQ0 : 0 < Q)
    (hb1 : (2 ^ 40 - 1) * (Q * Q) ≤ 2 ^ 40 * (u * u)) (hb2 : 2 ^ 40 * (u * u) ≤ (2 ^ 40 + 1) * (Q * Q))
    (he1 : 2 * e * (Q * Q) ≤ u * u - Q * Q) (he2 : u * u - Q * Q < (2 * e + 1 / 2 ^ 63) * (Q * Q)) :
    u ≤ 11 / 10 * Q ∧ 9 / 10 * Q ≤ u ∧ (u - Q) * (u - Q) ≤ 1 / 2 ^ 80 * (Q * Q) ∧
    3 * (Q * Q) - u * u ≤ 2 * (Q * Q) * (1 - e) ∧
    2 * (Q * Q) * (1 - e) < 3 * (Q * Q) - u * u + 1 / 2 ^ 63 * (Q * Q) := by
  have hQQ : 0 < Q * Q := by positivity
  have hu11 : u ≤ 11 / 10 * Q := by
    by_contra hh
    rw [not_le] at hh
    have : (11 / 10 * Q) * (11 / 10 * Q) < u * u := mul_self_lt_mul_self (by positivity) hh
    have e : (11 / 10 * Q) * (11 / 10 * Q) = 121 / 100 * (Q * Q) := by ring
    linarith
  have hu09 : 9 / 10 * Q ≤ u := by
    by_contra hh
    rw [not_le] at hh
    have : u * u < (9 / 10 * Q) * (9 / 10 * Q) := mul_self_lt_mul_self (le_of_lt hu) hh
    have e : (9 / 10 * Q) * (9 / 10 * Q) = 81 / 100 * (Q * Q) := by ring
    linarith
  refine ⟨hu11, hu09, ?_, ?_, ?_⟩
  · have h1 : (u * u - Q * Q) ≤ 1 / 2 ^ 40 * (Q * Q) := by linarith
    have h2 : -(1 / 2 ^ 40 * (Q * Q)) ≤ (u * u - Q * Q) := by linarith
    have h3 : (u * u - Q * Q) * (u * u - Q * Q) ≤ (1 / 2 ^ 40 * (Q * Q)) * (1 / 2 ^ 40 * (Q * Q)) := by
      apply mul_self_le_mul_self_of_le_of_neg_le <;> linarith
    have h4 : (u * u - Q * Q) * (u * u - Q * Q) = ((u - Q) * (u - Q)) * ((u + Q) * (u + Q)) := by ring
    have h5 : Q * Q ≤ (u + Q) * (u + Q) := by
      have e : (u + Q) * (u + Q) = u * u + 2 * (u * Q) + Q * Q := by ring
      have := mul_pos hu hQ0
      have := mul_self_nonneg u
      linarith
    have h6 : 0 ≤ (u - Q) * (u - Q) := mul_self_nonneg _
    have h7 : ((u - Q) * (u - Q)) * (Q * Q) ≤ (1 / 2 ^ 80 * (Q * Q)) * (Q * Q) := by
      calc ((u - Q) * (u - Q)) * (Q * Q) ≤ ((u - Q) * (u - Q)) * ((u + Q) * (u + Q)) := by gcongr
        _ = (u * u - Q * Q) * (u * u - Q * Q) := h4.symm
        _ ≤ (1 / 2 ^ 40 * (Q * Q)) * (1 / 2 ^ 40 * (Q * Q)) := h3
        _ = (1 / 2 ^ 80 * (Q * Q)) * (Q * Q) := by ring
    exact le_of_mul_le_mul_right h7 hQQ
  · have e : 2 * (Q * Q) * (1 - e) = 2 * (Q * Q) - 2 * e * (Q * Q) := by ring
    rw [e]; linarith
  · have e1 : 2 * (Q * Q) * (1 - e) = 2 * (Q * Q) - 2 * e * (Q * Q) := by ring
    have e2 : (2 * e + 1 / 2 ^ 63) * (Q * Q) = 2 * e * (Q * Q) + 1 / 2 ^ 63 * (Q * Q) := by ring
    rw [e1]; rw [e2] at he2; linarith

/-- with `u = MY·n`, `Q = 2^(ey+52)` (so `u/Q = ly·n = 1 + δ`), `e ≈ ((u/Q)² − 1)/2` the scaled error term and
`S ≈ u·n·(1 − e)` the corrected estimate: `S` is within `Q/2` of `n·Q` — the lower half -/
theorem short_exact_q_lo (u Q n e S : ℚ) (hu : 0 < u) (hQ : 2 ^ 52 ≤ Q) (hn1 : 1 ≤ n) (hn : n ≤ 2 ^ 59)
    (hb1 : (2 ^ 40 - 1) * (Q * Q) ≤ 2 ^ 40 * (u * u)) (hb2 : 2 ^ 40 * (u * u) ≤ (2 ^ 40 + 1) * (Q * Q))
    (he1 : 2 * e * (Q * Q) ≤ u * u - Q * Q) (he2 : u * u - Q * Q < (2 * e + 1 / 2 ^ 63) * (Q * Q))
    (hS1 : u * n * (1 - e) - 1 < S) : (2 * n - 1) * Q ≤ 2 * S := by
  have hQ0 : 0 < Q := lt_of_lt_of_le (by norm_num) hQ
  have hQQ : 0 < Q * Q := by positivity
  obtain ⟨hu11, hu09, hd, ht1, ht2⟩ := short_q_prelim u Q e hu hQ0 hb1 hb2 he1 he2
  have hcub : u * (3 * (Q * Q) - u * u) = 2 * (Q * Q * Q) - (u - Q) * (u - Q) * (u + 2 * Q) := by ring
  have hun : 0 < u * n := by positivity
  have h1 : u * n * (3 * (Q * Q) - u * u) ≤ 2 * (Q * Q) * (u * n * (1 - e)) := by
    have := mul_le_mul_of_nonneg_left ht1 (le_of_lt hun)
    have e : u * n * (2 * (Q * Q) * (1 - e)) = 2 * (Q * Q) * (u * n * (1 - e)) := by ring
    rw [e] at this; exact this
  have h2 : n * ((u - Q) * (u - Q) * (u + 2 * Q)) ≤ 2 ^ 59 * (1 / 2 ^ 80 * (Q * Q) * (4 * Q)) := by
    have : (u - Q) * (u - Q) * (u + 2 * Q) ≤ 1 / 2 ^ 80 * (Q * Q) * (4 * Q) := by
      apply mul_le_mul hd (by linarith) (by linarith) (by positivity)
    have h0 : 0 ≤ (u - Q) * (u - Q) * (u + 2 * Q) := by
      apply mul_nonneg (mul_self_nonneg _) (by linarith)
    calc n * ((u - Q) * (u - Q) * (u + 2 * Q)) ≤ 2 ^ 59 * ((u - Q) * (u - Q) * (u + 2 * Q)) := by gcongr
      _ ≤ 2 ^ 59 * (1 / 2 ^ 80 * (Q * Q) * (4 * Q)) := by gcongr
  have h3 : (2 * n - 1) * Q * (Q * Q) ≤ 2 * S * (Q * Q) := by
    have e1 : u * n * (3 * (Q * Q) - u * u) = n * (2 * (Q * Q * Q) - (u - Q) * (u - Q) * (u + 2 * Q)) := by
      rw [← hcub]; ring
    have hQ3 : 2 ^ 52 * (Q * Q) ≤ Q * Q * Q := by
      have := mul_le_mul_of_nonneg_right hQ (le_of_lt hQQ)
      linarith
    have hS1' : (u * n * (1 - e) - 1) * (Q * Q) < S * (Q * Q) := mul_lt_mul_of_pos_right hS1 hQQ
    have e2 : n * (2 * (Q * Q * Q) - (u - Q) * (u - Q) * (u + 2 * Q)) =
        2 * n * (Q * Q * Q) - n * ((u - Q) * (u - Q) * (u + 2 * Q)) := by ring
    have e3 : (2 : ℚ) ^ 59 * (1 / 2 ^ 80 * (Q * Q) * (4 * Q)) = 1 / 2 ^ 19 * (Q * Q * Q) := by ring
    have e4 : (u * n * (1 - e) - 1) * (Q * Q) = (Q * Q) * (u * n * (1 - e)) - Q * Q := by ring
    have e5 : (2 * n - 1) * Q * (Q * Q) = 2 * n * (Q * Q * Q) - Q * Q * Q := by ring
    rw [e5]
    rw [e1, e2] at h1
    rw [e3] at h2
    rw [e4] at hS1'
    linarith
  exact le_of_mul_le_mul_right h3 hQQ

/-- … the upper half -/
theorem short_exact_q_hi (u Q n e S : ℚ) (hu : 0 < u) (hQ : 2 ^ 52 ≤ Q) (hn1 : 1 ≤ n) (hn : n ≤ 2 ^ 59)
    (hb1 : (2 ^ 40 - 1) * (Q * Q) ≤ 2 ^ 40 * (u * u)) (hb2 : 2 ^ 40 * (u * u) ≤ (2 ^ 40 + 1) * (Q * Q))
    (he1 : 2 * e * (Q * Q) ≤ u * u - Q * Q) (he2 : u * u - Q * Q < (2 * e + 1 / 2 ^ 63) * (Q * Q))
    (hS2 : S < u * n * (1 - e) + 1) : 2 * S < (2 * n + 1) * Q := by
  have hQ0 : 0 < Q := lt_of_lt_of_le (by norm_num) hQ
  have hQQ : 0 < Q * Q := by positivity
  obtain ⟨hu11, hu09, hd, ht1, ht2⟩ := short_q_prelim u Q e hu hQ0 hb1 hb2 he1 he2
  have hcub : u * (3 * (Q * Q) - u * u) = 2 * (Q * Q * Q) - (u - Q) * (u - Q) * (u + 2 * Q) := by ring
  have hun : 0 < u * n := by positivity
  have h1 : 2 * (Q * Q) * (u * n * (1 - e)) ≤ u * n * (3 * (Q * Q) - u * u + 1 / 2 ^ 63 * (Q * Q)) := by
    have := mul_le_mul_of_nonneg_left (le_of_lt ht2) (le_of_lt hun)
    have e : u * n * (2 * (Q * Q) * (1 - e)) = 2 * (Q * Q) * (u * n * (1 - e)) := by ring
    rw [e] at this; exact this
  have h0 : 0 ≤ (u - Q) * (u - Q) * (u + 2 * Q) := by
    apply mul_nonneg (mul_self_nonneg _) (by linarith)
  have e1 : u * n * (3 * (Q * Q) - u * u) = n * (2 * (Q * Q * Q) - (u - Q) * (u - Q) * (u + 2 * Q)) := by
    rw [← hcub]; ring
  have h2 : u * n * (3 * (Q * Q) - u * u) ≤ 2 * n * (Q * Q * Q) := by
    rw [e1]
    have : 0 ≤ n * ((u - Q) * (u - Q) * (u + 2 * Q)) := mul_nonneg (by linarith) h0
    have e : n * (2 * (Q * Q * Q) - (u - Q) * (u - Q) * (u + 2 * Q)) =
        2 * n * (Q * Q * Q) - n * ((u - Q) * (u - Q) * (u + 2 * Q)) := by ring
    rw [e]; linarith
  have h4 : u * n ≤ 11 / 10 * Q * 2 ^ 59 := mul_le_mul hu11 hn (by linarith) (by linarith)
  have h3 : 2 * S * (Q * Q) < (2 * n + 1) * Q * (Q * Q) := by
    have hQ3 : 2 ^ 52 * (Q * Q) ≤ Q * Q * Q := by
      have := mul_le_mul_of_nonneg_right hQ (le_of_lt hQQ)
      linarith
    have hS2' : S * (Q * Q) < (u * n * (1 - e) + 1) * (Q * Q) := mul_lt_mul_of_pos_right hS2 hQQ
    have e4 : (u * n * (1 - e) + 1) * (Q * Q) = (Q * Q) * (u * n * (1 - e)) + Q * Q := by ring
    have e5 : (2 * n + 1) * Q * (Q * Q) = 2 * n * (Q * Q * Q) + Q * Q * Q := by ring
    have e6 : u * n * (3 * (Q * Q) - u * u + 1 / 2 ^ 63 * (Q * Q)) =
        u * n * (3 * (Q * Q) - u * u) + 1 / 2 ^ 63 * ((u * n) * (Q * Q)) := by ring
    have h5 : (u * n) * (Q * Q) ≤ (11 / 10 * Q * 2 ^ 59) * (Q * Q) := mul_le_mul_of_nonneg_right h4 (le_of_lt hQQ)
    have e7 : (11 / 10 * Q * 2 ^ 59) * (Q * Q) = 11 / 10 * 2 ^ 59 * (Q * Q * Q) := by ring
    rw [e5]
    rw [e4] at hS2'
    rw [e6] at h1
    rw [e7] at h5
    linarith
  exact lt_of_mul_lt_mul_right h3 (le_of_lt hQQ)

theorem short_exact_q (u Q n e S : ℚ) (hu : 0 < u) (hQ : 2 ^ 52 ≤ Q) (hn1 : 1 ≤ n) (hn : n ≤ 2 ^ 59)
    (hb1 : (2 ^ 40 - 1) * (Q * Q) ≤ 2 ^ 40 * (u * u)) (hb2 : 2 ^ 40 * (u * u) ≤ (2 ^ 40 + 1) * (Q * Q))
    (he1 : 2 * e * (Q * Q) ≤ u * u - Q * Q) (he2 : u * u - Q * Q < (2 * e + 1 / 2 ^ 63) * (Q * Q))
    (hS1 : u * n * (1 - e) - 1 < S) (hS2 : S < u * n * (1 - e) + 1) :
    (2 * n - 1) * Q ≤ 2 * S ∧ 2 * S < (2 * n + 1) * Q :=
  ⟨short_exact_q_lo u Q n e S hu hQ hn1 hn hb1 hb2 he1 he2 hS1, short_exact_q_hi u Q n e S hu hQ hn1 hn hb1 hb2 he1 he2 hS2⟩

/-- a floor between its rational bounds -/
theorem floor_sandwich (x : Nat) : ((x : ℚ) / 2 ^ 64 - 1 < ((x / 2 ^ 64 : Nat) : ℚ)) ∧ (((x / 2 ^ 64 : Nat) : ℚ) ≤ (x : ℚ) / 2 ^ 64) := by
  have hd2 := Nat.div_add_mod x (2 ^ 64)
  have hl2 := Nat.mod_lt x (by norm_num : 0 < 2 ^ 64)
  generalize x / 2 ^ 64 = f at *
  generalize x % 2 ^ 64 = r at *
  have hfq : (2 ^ 64 * (f : ℚ) + r = (x : ℚ)) := by exact_mod_cast hd2
  have hrq : (r : ℚ) < 2 ^ 64 := by exact_mod_cast hl2
  have hr0 : (0 : ℚ) ≤ r := by exact_mod_cast Nat.zero_le r
  rw [← hfq]
  have e2 : (2 ^ 64 * (f : ℚ) + r) / 2 ^ 64 = f + r / 2 ^ 64 := by ring
  rw [e2]
  have h1 : (r : ℚ) / 2 ^ 64 < 1 := by rw [div_lt_one (by norm_num)]; exact hrq
  have h2 : (0 : ℚ) ≤ r / 2 ^ 64 := div_nonneg hr0 (by norm_num)
  constructor <;> linarith

/-- `S = a ∓ ⌊|E|·a / 2^64⌋` is within 1 of `a·(1 − E/2^64)` -/
theorem s_sandwich (a S : Nat) (E : Int) (hE : -2 ^ 24 ≤ E ∧ E ≤ 2 ^ 24)
    (hS : S = (if E < 0 then a + (-E).toNat * a / 2 ^ 64 else a - E.toNat * a / 2 ^ 64)) :
    ((a : ℚ) * (1 - (E : ℚ) / 2 ^ 64) - 1 < (S : ℚ)) ∧ ((S : ℚ) < (a : ℚ) * (1 - (E : ℚ) / 2 ^ 64) + 1) := by
  by_cases hs : E < 0
  · rw [if_pos hs] at hS
    obtain ⟨m, hm⟩ : ∃ m : Nat, (m : Int) = -E := ⟨(-E).toNat, by omega⟩
    have hmt : (-E).toNat = m := by omega
    rw [hmt] at hS
    obtain ⟨f1, f2⟩ := floor_sandwich (m * a)
    have hEq : (E : ℚ) = -(m : ℚ) := by
      have : ((m : Int) : ℚ) = ((-E : Int) : ℚ) := by rw [hm]
      push_cast at this; linarith
    have hSq' : (S : ℚ) = a + ((m * a / 2 ^ 64 : Nat) : ℚ) := by rw [hS]; push_cast; ring
    rw [hSq', hEq]
    have e1 : (a : ℚ) * (1 - -(m : ℚ) / 2 ^ 64) = a + ((m * a : Nat) : ℚ) / 2 ^ 64 := by push_cast; ring
    rw [e1]
    constructor <;> linarith
  · rw [if_neg hs] at hS
    obtain ⟨m, hm⟩ : ∃ m : Nat, (m : Int) = E := ⟨E.toNat, by omega⟩
    have hmt : E.toNat = m := by omega
    rw [hmt] at hS
    have hm24 : m ≤ 2 ^ 24 := by omega
    have hfa : m * a / 2 ^ 64 ≤ a := by
      apply Nat.div_le_of_le_mul
      exact Nat.mul_le_mul_right _ (by omega)
    obtain ⟨f1, f2⟩ := floor_sandwich (m * a)
    have hEq : (E : ℚ) = (m : ℚ) := by
      have : ((m : Int) : ℚ) = ((E : Int) : ℚ) := by rw [hm]
      push_cast at this; linarith
    have hSq' : (S : ℚ) = a - ((m * a / 2 ^ 64 : Nat) : ℚ) := by rw [hS, Nat.cast_sub hfa]
    rw [hSq', hEq]
    have e1 : (a : ℚ) * (1 - (m : ℚ) / 2 ^ 64) = a - ((m * a : Nat) : ℚ) / 2 ^ 64 := by push_cast; ring
    rw [e1]
    constructor <;> linarith

open Dec.Rs in
/-- the error term read as a signed number and halved: `E = ⌊(G − 2^64)/2⌋` with `G = ⌊u² / D⌋`, and its two bounds -/
theorem short_nat_E (u D : Nat) (ES0 : UInt64) (hD0 : 0 < D)
    (bl : (2 ^ 40 - 1) * (2 ^ 64 * D) ≤ 2 ^ 40 * (u * u)) (bu : 2 ^ 40 * (u * u) ≤ (2 ^ 40 + 1) * (2 ^ 64 * D))
    (hES : ES0.toNat = (u * u / D) % 2 ^ 64) :
    ∃ E : Int, E = sg64 ES0 / 2 ∧ (-2 ^ 24 ≤ E ∧ E ≤ 2 ^ 24) ∧
      2 * E * (D : Int) ≤ (u : Int) * u - 2 ^ 64 * D ∧ (u : Int) * u - 2 ^ 64 * D < (2 * E + 2) * (D : Int) := by
  -- the quotient G
  have hdm := Nat.div_add_mod (u * u) D
  have hml := Nat.mod_lt (u * u) hD0
  generalize hG : u * u / D = G at *
  generalize u * u % D = ρ at *
  have hG1 : 2 ^ 64 - 2 ^ 24 ≤ G := by
    by_contra hh
    have : D * G ≤ D * (2 ^ 64 - 2 ^ 24 - 1) := Nat.mul_le_mul_left _ (by omega)
    have e : 2 ^ 40 * (D * (2 ^ 64 - 2 ^ 24 - 1)) + 2 ^ 40 * D = (2 ^ 40 - 1) * (2 ^ 64 * D) := by ring
    omega
  have hG2 : G ≤ 2 ^ 64 + 2 ^ 24 := by
    by_contra hh
    have : D * (2 ^ 64 + 2 ^ 24 + 1) ≤ D * G := Nat.mul_le_mul_left _ (by omega)
    have e : 2 ^ 40 * (D * (2 ^ 64 + 2 ^ 24 + 1)) = (2 ^ 40 + 1) * (2 ^ 64 * D) + 2 ^ 40 * D := by ring
    omega
  have hg : sg64 ES0 = (G : Int) - 2 ^ 64 := by
    unfold sg64; rw [hES]
    by_cases h : G < 2 ^ 64
    · rw [Nat.mod_eq_of_lt h, if_neg (by omega)]
    · have : G % 2 ^ 64 = G - 2 ^ 64 := by omega
      rw [this, if_pos (by omega)]; omega
  obtain ⟨E, hE⟩ : ∃ E : Int, E = sg64 ES0 / 2 := ⟨_, rfl⟩
  have hE1 : 2 * E ≤ (G : Int) - 2 ^ 64 ∧ (G : Int) - 2 ^ 64 ≤ 2 * E + 1 := by rw [hE, hg]; omega
  have hEr : -2 ^ 24 ≤ E ∧ E ≤ 2 ^ 24 := by omega
  -- the two facts about E, on integers
  have hDi : (0 : Int) ≤ (D : Int) := by exact_mod_cast Nat.zero_le D
  have i1 : 2 * E * (D : Int) ≤ (u : Int) * u - 2 ^ 64 * D := by
    have h1 : 2 * E * (D : Int) ≤ ((G : Int) - 2 ^ 64) * D := mul_le_mul_of_nonneg_right hE1.1 hDi
    have h2 : (D : Int) * G + ρ = (u : Int) * u := by exact_mod_cast hdm
    nlinarith
  have i2 : (u : Int) * u - 2 ^ 64 * D < (2 * E + 2) * (D : Int) := by
    have h1 : ((G : Int) - 2 ^ 64 + 1) * D ≤ (2 * E + 2) * (D : Int) := mul_le_mul_of_nonneg_right (by omega) hDi
    have h2 : (D : Int) * G + ρ = (u : Int) * u := by exact_mod_cast hdm
    have h3 : (ρ : Int) < D := by exact_mod_cast hml
    nlinarith
  exact ⟨E, hE, hEr, i1, i2⟩

open Dec.Rs in
/-- the same on the integers of the routine -/
theorem short_exact_nat (MY ey n : Nat) (ES0 : UInt64) (S : Nat) (hn1 : 1 ≤ n) (hn : n * n < 2 ^ 117)
    (my1 : 2 ^ 52 ≤ MY) (my2 : MY < 2 ^ 53) (hey : ey ≤ 59)
    (bl : (2 ^ 40 - 1) * 2 ^ (2 * ey + 104) ≤ 2 ^ 40 * (MY * MY * (n * n)))
    (bu : 2 ^ 40 * (MY * MY * (n * n)) ≤ (2 ^ 40 + 1) * 2 ^ (2 * ey + 104))
    (hES : ES0.toNat = (MY * MY * (n * n) / 2 ^ (2 * ey + 40)) % 2 ^ 64)
    (hS : S = (if sg64 ES0 / 2 < 0 then MY * (n * n) + (-(sg64 ES0 / 2)).toNat * (MY * (n * n)) / 2 ^ 64
                  else MY * (n * n) - (sg64 ES0 / 2).toNat * (MY * (n * n)) / 2 ^ 64)) :
    (2 * n - 1) * 2 ^ (ey + 51) ≤ S ∧ S < (2 * n + 1) * 2 ^ (ey + 51) := by
  -- names
  obtain ⟨D, hD⟩ : ∃ D, D = 2 ^ (2 * ey + 40) := ⟨_, rfl⟩
  obtain ⟨H, hH⟩ : ∃ H, H = 2 ^ (ey + 51) := ⟨_, rfl⟩
  have hD0 : 0 < D := by rw [hD]; exact Nat.pow_pos (by decide)
  have hH51 : 2 ^ 51 ≤ H := by rw [hH]; exact Nat.pow_le_pow_right (by decide) (by omega)
  have hQQ : 2 ^ (2 * ey + 104) = 2 ^ 64 * D := by
    rw [hD, ← Nat.pow_add]; exact congrArg (fun x => 2 ^ x) (by omega)
  have hQH : 2 ^ 64 * D = (2 * H) * (2 * H) := by
    have e1 : (2 : Nat) * 2 ^ (ey + 51) = 2 ^ (ey + 52) := by rw [Nat.pow_succ]; ring
    rw [hD, hH, ← Nat.pow_add, e1, ← Nat.pow_add]
    exact congrArg (fun x => 2 ^ x) (by omega)
  rw [hQQ] at bl bu
  rw [← hD] at hES
  rw [← hH]
  have hn59 : n < 2 ^ 59 := by
    by_contra hh
    have : 2 ^ 59 * 2 ^ 59 ≤ n * n := Nat.mul_le_mul (by omega) (by omega)
    omega
  obtain ⟨u, hu⟩ : ∃ u, u = MY * n := ⟨_, rfl⟩
  have hN : MY * MY * (n * n) = u * u := by rw [hu]; ring
  have ha : MY * (n * n) = u * n := by rw [hu]; ring
  rw [hN] at bl bu hES
  rw [ha] at hS
  have hu0 : 0 < u := by rw [hu]; exact Nat.mul_pos (by omega) (by omega)
  obtain ⟨E, hE, hEr, i1, i2⟩ := short_nat_E u D ES0 hD0 bl bu hES
  rw [← hE] at hS
  have hQHq : ((2 * H : ℚ)) * (2 * H) = 2 ^ 64 * (D : ℚ) := by
    have : ((2 * H * (2 * H) : Nat) : ℚ) = ((2 ^ 64 * D : Nat) : ℚ) := by rw [hQH]
    push_cast at this; linarith
  -- S against a(1 − e)
  obtain ⟨a, haa⟩ : ∃ a, a = u * n := ⟨_, rfl⟩
  rw [← haa] at hS
  have hSq := s_sandwich a S E hEr hS
  have haq : (a : ℚ) = (u : ℚ) * n := by rw [haa]; push_cast; ring
  rw [haq] at hSq
  -- over ℚ
  have key := short_exact_q (u : ℚ) (2 * H : ℚ) (n : ℚ) ((E : ℚ) / 2 ^ 64) (S : ℚ) (by exact_mod_cast hu0)
    (by have : 2 ^ 52 ≤ 2 * H := by omega
        exact_mod_cast this)
    (by exact_mod_cast hn1) (by have : n ≤ 2 ^ 59 := by omega
                                exact_mod_cast this)
    (by have h : 2 ^ 40 * (2 ^ 64 * D) ≤ 2 ^ 40 * (u * u) + 2 ^ 64 * D := by omega
        rw [hQH] at h
        have : (2 ^ 40 * ((2 * H : ℚ) * (2 * H))) ≤ 2 ^ 40 * ((u : ℚ) * u) + (2 * H : ℚ) * (2 * H) := by exact_mod_cast h
        linarith)
    (by rw [hQH] at bu
        exact_mod_cast bu)
    (by rw [hQHq]
        have : (2 * (E : ℚ) * D ≤ (u : ℚ) * u - 2 ^ 64 * D) := by exact_mod_cast i1
        have e : 2 * ((E : ℚ) / 2 ^ 64) * (2 ^ 64 * (D : ℚ)) = 2 * (E : ℚ) * D := by ring
        rw [e]; exact this)
    (by rw [hQHq]
        have : ((u : ℚ) * u - 2 ^ 64 * D < (2 * (E : ℚ) + 2) * D) := by exact_mod_cast i2
        have e : (2 * ((E : ℚ) / 2 ^ 64) + 1 / 2 ^ 63) * (2 ^ 64 * (D : ℚ)) = (2 * (E : ℚ) + 2) * D := by ring
        rw [e]; exact this)
    hSq.1 hSq.2
  obtain ⟨k1, k2⟩ := key
  constructor
  · have : (2 * (n : ℚ)) * H ≤ S + H := by linarith
    have : 2 * n * H ≤ S + H := by exact_mod_cast this
    have e : (2 * n - 1) * H + H = 2 * n * H := by
      have : 2 * n - 1 + 1 = 2 * n := by omega
      rw [← this, Nat.add_mul]; simp
    omega
  · have : (S : ℚ) < (2 * (n : ℚ) + 1) * H := by linarith
    exact_mod_cast this



/-! ## 21. `short_sqrt128`: the property the square root routine needs -/

/-- **`short_sqrt128` on its call-site domain** `1 ≤ A < 10^35` (in fact `< 2^117`): it does not fail, its result is
below `2^63`, and it is the exact root whenever `A` is a perfect square. -/
theorem short_ok (A : Nat) (hA0 : 0 < A) (hA : A < 10 ^ 35) : ShortOK A := by
  have h117 : A < 2 ^ 117 := by omega
  have hAv : (ofBits A).toNat' = A := tn_ofBits (by omega)
  obtain ⟨ES0, eyw, ARS0, MY, ey, my1, my2, hey, bl, bu, heyw, hARS0v, hARS0w3, hES, eq1⟩ :=
    short_to_es (ofBits A) (by rw [hAv]; exact hA0) (by rw [hAv]; exact h117)
  rw [hAv] at bl bu hARS0v hES
  have ha170 : ARS0.toNat' < 2 ^ 170 := by
    rw [hARS0v]
    calc MY * A < 2 ^ 53 * 2 ^ 117 := Nat.mul_lt_mul'' my2 h117
      _ = 2 ^ 170 := by norm_num
  obtain ⟨S, hS3, hSv, eq2⟩ := es_to_s (ofBits A) default ARS0 default default ES0 default default default default
    default eyw default hARS0w3 ha170
  obtain ⟨w, hw, eq3⟩ := s_to_result (ofBits A) default ARS0 default default S default ES0 default default default
    default default eyw default ey heyw hey
  refine ⟨(w + 1) >>> 1, by rw [eq1, eq2, eq3], ?_, ?_⟩
  · rw [UInt64.toNat_shiftRight, show (1 : UInt64).toNat % 64 = 1 from rfl, Nat.shiftRight_eq_div_pow]
    have := (w + 1).toNat_lt
    omega
  · intro n hn
    have hn1 : 1 ≤ n := by
      rcases Nat.eq_zero_or_pos n with h | h
      · subst h; omega
      · exact h
    rw [hARS0v] at hSv
    subst hn
    obtain ⟨s1, s2⟩ := short_exact_nat MY ey n ES0 S.toNat' hn1 h117 my1 my2 hey bl bu hES hSv
    have hn59 : n < 2 ^ 59 := by
      by_contra hh
      have : 2 ^ 59 * 2 ^ 59 ≤ n * n := Nat.mul_le_mul (by omega) (by omega)
      omega
    -- S / 2^(ey+51) is 2n − 1 or 2n
    have hp : 0 < 2 ^ (ey + 51) := Nat.pow_pos (by decide)
    have hq1 : 2 * n - 1 ≤ S.toNat' / 2 ^ (ey + 51) := (Nat.le_div_iff_mul_le hp).2 s1
    have hq2 : S.toNat' / 2 ^ (ey + 51) < 2 * n + 1 := (Nat.div_lt_iff_lt_mul hp).2 s2
    generalize S.toNat' / 2 ^ (ey + 51) = t at *
    rw [UInt64.toNat_shiftRight, show (1 : UInt64).toNat % 64 = 1 from rfl, Nat.shiftRight_eq_div_pow, UInt64.toNat_add,
      hw, UInt64.toNat_one]
    omega

example : ShortOK (123456789 * 123456789) := short_ok _ (by norm_num) (by norm_num)



/-! ## 22. The results with `short_sqrt128` discharged -/

/-- **the exact-root path, unconditionally**: a positive operand `c·10^e` (canonical or not) whose coefficient, times 10
if `e` is odd, is a perfect square `n²`: the routine returns `+n·10^(e div 2)` in canonical form and raises nothing —
in every rounding mode.  This is `sqrtD`. -/
theorem sqrt_exact_root (x : U128) (m : RoundingMode) (f : UInt32) {c : Nat} {e : Int} (hx : dOf x = .fin false c e)
    (hc : c ≠ 0) (n : Nat) (hn : n * n = c * 10 ^ (e % 2).toNat) :
    bid128_sqrt x m f = .ok (ofBits (encode (.fin false n (e / 2))), f) ∧
    sqrtD (C13GenPack.md m) (.fin false c e) = (.fin false n (e / 2), 0) := by
  obtain ⟨hl, l1, u1⟩ := fin_WF x hx
  have hl' : c < 10 ^ 34 := hl
  have hc0 : 0 < c := Nat.pos_of_ne_zero hc
  obtain ⟨p, hp⟩ : ∃ p : Nat, e % 2 = p := ⟨(e % 2).toNat, by omega⟩
  have hpe : (e % 2).toNat = p := by omega
  rw [hpe] at hn
  have hp2 : p = 0 ∨ p = 1 := by omega
  have h35 : c * 10 ^ p < 10 ^ 35 := by rcases hp2 with h | h <;> subst h <;> omega
  obtain ⟨cs, hcs, hcs63, hcsq⟩ := short_ok (c * 10 ^ p) (Nat.mul_pos hc0 (Nat.pow_pos (by decide))) h35
  obtain ⟨fx, d, T, hD, eq1⟩ := sqrt_to_test x m f hx hc p hp cs hcs
  have hcn := hcsq n hn
  have hn18 : n < 10 ^ 18 := by
    by_contra hh
    have : 10 ^ 18 * 10 ^ 18 ≤ n * n := Nat.mul_le_mul (by omega) (by omega)
    omega
  constructor
  · rw [eq1, test_exact x m f l1 u1 p cs n hcn hn h35]
  · exact sqrtD_exact (C13GenPack.md m) c n p e hc hp hn.symm (by unfold P34; omega) l1 u1

/-- **√ of a positive number**, relative to the one remaining helper property (`bid_long_sqrt128` on `c·10^scale`) -/
theorem sqrt_pos_long_partial (x : U128) (m : RoundingMode) (f : UInt32) {c : Nat} {e : Int}
    (hx : dOf x = .fin false c e) (hc : c ≠ 0) (hL : LongOK (c * 10 ^ scaleOf c e)) :
    bid128_sqrt x m f = .ok (ofBits (encode (sqrtD (C13GenPack.md m) (.fin false c e)).1),
      f ||| UInt32.ofNat (sqrtD (C13GenPack.md m) (.fin false c e)).2) := by
  obtain ⟨hl, l1, u1⟩ := fin_WF x hx
  have hl' : c < 10 ^ 34 := hl
  have hc0 : 0 < c := Nat.pos_of_ne_zero hc
  have hp2 : (e % 2).toNat = 0 ∨ (e % 2).toNat = 1 := by omega
  exact sqrt_pos_partial x m f hx hc
    (short_ok _ (Nat.mul_pos hc0 (Nat.pow_pos (by decide))) (by rcases hp2 with h | h <;> rw [h] <;> omega)) hL

/-- **`bid128_sqrt` = `sqrtD`** for every operand that is not a NaN, relative to the one remaining helper property:
`bid_long_sqrt128` returns `⌊√C⌋` or `⌊√C⌋ + 1` for `10^66 ≤ C < 10^68`.  (NaN operands: `C12GenNaN.sqrt_nan`.) -/
theorem sqrt_spec_long_partial (x : U128) (m : RoundingMode) (f : UInt32) (hn : (dOf x).isNaN = false)
    (hL : ∀ C, 10 ^ 66 ≤ C → C < 10 ^ 68 → LongOK C) :
    bid128_sqrt x m f = .ok (ofBits (encode (sqrtD (C13GenPack.md m) (dOf x)).1),
      f ||| UInt32.ofNat (sqrtD (C13GenPack.md m) (dOf x)).2) :=
  sqrt_spec_partial x m f hn short_ok hL

-- √(1.44) = 1.2 by the theorem (144E-2 ↦ 12E-1)
example : bid128_sqrt ⟨144, 0x303c000000000000⟩ .TowardZero 0 = .ok (⟨12, 0x303e000000000000⟩, 0) := by decide +kernel


end Dec.C01GenSqrt
