/-
  C19 (generated code) — the DPD <-> BID re-encoders of /repo/src/bid_dpd.rs, as machine-translated into
  `DecGen/Code.lean` (`Dec.Gen.Code.bid_to_dpd128`, `Dec.Gen.Code.bid_dpd_to_bid128`), compute the specification-level
  conversions `Dec.toDpd` / `Dec.fromDpd` of `DecModel/Dpd.lean` on every one of the 2^128 input patterns, and never
  panic.  With the spec-level round-trip theorems of `C19RoundTrip` this gives the round-trip facts for the code.
-/
import DecGen.Code
import DecModel.Dpd
import DecProofs.TableFacts.F_BID_B2D
import DecProofs.TableFacts.F_BID_D2B
import DecProofs.Properties.C19RoundTrip
import Mathlib.Tactic.Ring

set_option linter.unusedSimpArgs false
set_option linter.unusedVariables false

namespace Dec.C19GenDpd
open Dec.Rs Dec.Gen.Code

/-! ## 1. 128-bit words as numbers; the multi-word primitives of bid_internal.rs are exact -/

def bitsOf (x : U128) : Nat := x.w1.toNat * 2^64 + x.w0.toNat
def ofBits (n : Nat) : U128 := ⟨UInt64.ofNat n, UInt64.ofNat (n / 2^64)⟩

theorem bitsOf_lt (x : U128) : bitsOf x < 2^128 := by
  have h0 := x.w0.toNat_lt; have h1 := x.w1.toNat_lt
  unfold bitsOf; omega

theorem bitsOf_ofBits (n : Nat) : bitsOf (ofBits n) = n % 2^128 := by
  simp only [bitsOf, ofBits, UInt64.toNat_ofNat']; omega

theorem bitsOf_ofBits_of_lt {n : Nat} (h : n < 2^128) : bitsOf (ofBits n) = n := by
  rw [bitsOf_ofBits, Nat.mod_eq_of_lt h]

theorem ofBits_w0 (n : Nat) : (ofBits n).w0.toNat = n % 2^64 := by
  simp only [ofBits, UInt64.toNat_ofNat']
theorem ofBits_w1 (n : Nat) : (ofBits n).w1.toNat = n / 2^64 % 2^64 := by
  simp only [ofBits, UInt64.toNat_ofNat']

theorem U128.ext' {a b : U128} (h0 : a.w0.toNat = b.w0.toNat) (h1 : a.w1.toNat = b.w1.toNat) : a = b := by
  cases a; cases b; simp only at h0 h1
  rw [UInt64.toNat_inj.mp h0, UInt64.toNat_inj.mp h1]

theorem ok_ext {a b : U128} (h0 : a.w0.toNat = b.w0.toNat) (h1 : a.w1.toNat = b.w1.toNat) :
    (Except.ok a : Except String U128) = Except.ok b := by rw [U128.ext' h0 h1]

theorem ofBits_bitsOf (x : U128) : ofBits (bitsOf x) = x := by
  have h0 := x.w0.toNat_lt; have h1 := x.w1.toNat_lt
  apply U128.ext'
  · rw [ofBits_w0]; unfold bitsOf; omega
  · rw [ofBits_w1]; unfold bitsOf; omega

theorem eq_ofBits {x : U128} {n : Nat} (h : bitsOf x = n) : x = ofBits n := by
  rw [← h, ofBits_bitsOf]

theorem u64_ofInt_nat (n : Nat) : (UInt64.ofInt (n : Int)).toNat = n % 2^64 := by
  unfold UInt64.ofInt
  rw [UInt64.toNat_ofNat']
  have : ((n : Int) % 2^64).toNat = n % 2^64 := by omega
  rw [this]; omega

theorem u32_ofInt_nat (n : Nat) : (UInt32.ofInt (n : Int)).toNat = n % 2^32 := by
  unfold UInt32.ofInt
  rw [UInt32.toNat_ofNat']
  have : ((n : Int) % 2^32).toNat = n % 2^32 := by omega
  rw [this]; omega

theorem toI_u64 (x : UInt64) : toI x = (x.toNat : Int) := rfl
theorem toI_u32 (x : UInt32) : toI x = (x.toNat : Int) := rfl

/-- `x as u32 as u64` is the low half -/
theorem lo32 (x : UInt64) : (UInt64.ofInt (toI (UInt32.ofInt (toI x)))).toNat = x.toNat % 2^32 := by
  rw [toI_u32, u64_ofInt_nat, toI_u64, u32_ofInt_nat]; omega

/-- `__mul_64x64_to_128` is the exact product -/
theorem mul_64x64_to_128_eq (a b : UInt64) : mul_64x64_to_128 a b = .ok (ofBits (a.toNat * b.toNat)) := by
  unfold mul_64x64_to_128
  simp only [pure, Except.pure]
  have ha := a.toNat_lt; have hb := b.toNat_lt
  obtain ⟨a1, a0, hA, ha1, ha0⟩ : ∃ a1 a0, a.toNat = 4294967296 * a1 + a0 ∧ a1 < 4294967296 ∧ a0 < 4294967296 :=
    ⟨a.toNat / 4294967296, a.toNat % 4294967296, by omega, by omega, by omega⟩
  obtain ⟨b1, b0, hB, hb1, hb0⟩ : ∃ b1 b0, b.toNat = 4294967296 * b1 + b0 ∧ b1 < 4294967296 ∧ b0 < 4294967296 :=
    ⟨b.toNat / 4294967296, b.toNat % 4294967296, by omega, by omega, by omega⟩
  have e1 : (a >>> 32).toNat = a1 := by
    rw [UInt64.toNat_shiftRight, Nat.shiftRight_eq_div_pow]; simp only [UInt64.toNat_ofNat, Nat.reduceMod, Nat.reducePow]; omega
  have e2 : (b >>> 32).toNat = b1 := by
    rw [UInt64.toNat_shiftRight, Nat.shiftRight_eq_div_pow]; simp only [UInt64.toNat_ofNat, Nat.reduceMod, Nat.reducePow]; omega
  have e3 : (UInt64.ofInt (toI (UInt32.ofInt (toI a)))).toNat = a0 := by rw [lo32]; omega
  have e4 : (UInt64.ofInt (toI (UInt32.ofInt (toI b)))).toNat = b0 := by rw [lo32]; omega
  have h11 : a1 * b1 ≤ 4294967295 * 4294967295 := Nat.mul_le_mul (by omega) (by omega)
  have h10 : a1 * b0 ≤ 4294967295 * 4294967295 := Nat.mul_le_mul (by omega) (by omega)
  have h01 : a0 * b1 ≤ 4294967295 * 4294967295 := Nat.mul_le_mul (by omega) (by omega)
  have h00 : a0 * b0 ≤ 4294967295 * 4294967295 := Nat.mul_le_mul (by omega) (by omega)
  have hprod : a.toNat * b.toNat
      = 18446744073709551616 * (a1 * b1) + 4294967296 * (a1 * b0) + 4294967296 * (a0 * b1) + a0 * b0 := by
    rw [hA, hB]; ring
  generalize a >>> 32 = ah at e1 ⊢
  generalize b >>> 32 = bh at e2 ⊢
  generalize UInt64.ofInt (toI (UInt32.ofInt (toI a))) = al at e3 ⊢
  generalize UInt64.ofInt (toI (UInt32.ofInt (toI b))) = bl at e4 ⊢
  congr 1
  apply U128.ext'
  · simp only [ofBits_w0, UInt64.toNat_add, UInt64.toNat_mul, UInt64.toNat_shiftLeft, UInt64.toNat_shiftRight, lo32,
      e1, e2, e3, e4, Nat.shiftRight_eq_div_pow, Nat.shiftLeft_eq, hprod, UInt64.toNat_ofNat, Nat.reduceMod, Nat.reducePow]
    generalize a1 * b1 = P11 at *
    generalize a1 * b0 = P10 at *
    generalize a0 * b1 = P01 at *
    generalize a0 * b0 = P00 at *
    omega
  · simp only [ofBits_w1, UInt64.toNat_add, UInt64.toNat_mul, UInt64.toNat_shiftLeft, UInt64.toNat_shiftRight, lo32,
      e1, e2, e3, e4, Nat.shiftRight_eq_div_pow, Nat.shiftLeft_eq, hprod, UInt64.toNat_ofNat, Nat.reduceMod, Nat.reducePow]
    generalize a1 * b1 = P11 at *
    generalize a1 * b0 = P10 at *
    generalize a0 * b1 = P01 at *
    generalize a0 * b0 = P00 at *
    omega

/-- `__add_128_64`: the sum modulo 2^128 -/
theorem add_128_64_eq (A : U128) (b : UInt64) : add_128_64 A b = .ok (ofBits (bitsOf A + b.toNat)) := by
  unfold add_128_64
  have h0 := A.w0.toNat_lt; have h1 := A.w1.toNat_lt; have hb := b.toNat_lt
  simp only [pure, Except.pure, bind, Except.bind]
  by_cases h : b + A.w0 < b
  · simp only [h, decide_true, if_true]
    rw [UInt64.lt_iff_toNat_lt, UInt64.toNat_add] at h
    apply ok_ext
    · simp only [ofBits_w0, UInt64.toNat_add, bitsOf]; omega
    · simp only [ofBits_w1, UInt64.toNat_add, bitsOf, UInt64.toNat_ofNat]; omega
  · simp only [h, decide_false, if_false, Bool.false_eq_true]
    rw [UInt64.lt_iff_toNat_lt, UInt64.toNat_add] at h
    apply ok_ext
    · simp only [ofBits_w0, UInt64.toNat_add, bitsOf]; omega
    · simp only [ofBits_w1, UInt64.toNat_add, bitsOf, UInt64.toNat_ofNat]; omega

/-- `__add_128_128`: the sum modulo 2^128 -/
theorem add_128_128_eq (A B : U128) : add_128_128 A B = .ok (ofBits (bitsOf A + bitsOf B)) := by
  unfold add_128_128
  have h0 := A.w0.toNat_lt; have h1 := A.w1.toNat_lt; have h2 := B.w0.toNat_lt; have h3 := B.w1.toNat_lt
  simp only [pure, Except.pure, bind, Except.bind]
  by_cases h : B.w0 + A.w0 < B.w0
  · simp only [h, decide_true, if_true]
    rw [UInt64.lt_iff_toNat_lt, UInt64.toNat_add] at h
    apply ok_ext
    · simp only [ofBits_w0, UInt64.toNat_add, bitsOf]; omega
    · simp only [ofBits_w1, UInt64.toNat_add, bitsOf, UInt64.toNat_ofNat]; omega
  · simp only [h, decide_false, if_false, Bool.false_eq_true]
    rw [UInt64.lt_iff_toNat_lt, UInt64.toNat_add] at h
    apply ok_ext
    · simp only [ofBits_w0, UInt64.toNat_add, bitsOf]; omega
    · simp only [ofBits_w1, UInt64.toNat_add, bitsOf, UInt64.toNat_ofNat]; omega

/-- `__sub_128_128`: the difference modulo 2^128 -/
theorem sub_128_128_eq (A B : U128) : sub_128_128 A B = .ok (ofBits (bitsOf A + 2^128 - bitsOf B)) := by
  unfold sub_128_128
  have h0 := A.w0.toNat_lt; have h1 := A.w1.toNat_lt; have h2 := B.w0.toNat_lt; have h3 := B.w1.toNat_lt
  simp only [pure, Except.pure, bind, Except.bind]
  by_cases h : A.w0 < B.w0
  · simp only [h, decide_true, if_true]
    rw [UInt64.lt_iff_toNat_lt] at h
    apply ok_ext
    · simp only [ofBits_w0, UInt64.toNat_sub, bitsOf]; omega
    · simp only [ofBits_w1, UInt64.toNat_sub, bitsOf, UInt64.toNat_ofNat]; omega
  · simp only [h, decide_false, if_false, Bool.false_eq_true]
    rw [UInt64.lt_iff_toNat_lt] at h
    apply ok_ext
    · simp only [ofBits_w0, UInt64.toNat_sub, bitsOf]; omega
    · simp only [ofBits_w1, UInt64.toNat_sub, bitsOf, UInt64.toNat_ofNat]; omega

theorem ok_bind {ε α β : Type} (v : α) (f : α → Except ε β) : (Except.ok v >>= f) = f v := rfl

/-- `__mul_64x128_full`: the exact 192-bit product, low 128 bits and the carry word -/
theorem mul_64x128_full_eq (a : UInt64) (B : U128) :
    mul_64x128_full a B = .ok (UInt64.ofNat (a.toNat * bitsOf B / 2^128), ofBits (a.toNat * bitsOf B)) := by
  unfold mul_64x128_full
  simp only [mul_64x64_to_128_eq, add_128_64_eq, ok_bind, pure, Except.pure]
  have ha := a.toNat_lt; have h2 := B.w0.toNat_lt; have h3 := B.w1.toNat_lt
  have hp1 : a.toNat * B.w1.toNat ≤ (2^64-1) * (2^64-1) := Nat.mul_le_mul (by omega) (by omega)
  have hp0 : a.toNat * B.w0.toNat ≤ (2^64-1) * (2^64-1) := Nat.mul_le_mul (by omega) (by omega)
  have hprod : a.toNat * bitsOf B = a.toNat * B.w1.toNat * 2^64 + a.toNat * B.w0.toNat := by
    unfold bitsOf; ring
  rw [hprod]
  generalize a.toNat * B.w1.toNat = P1 at *
  generalize a.toNat * B.w0.toNat = P0 at *
  refine congrArg Except.ok (Prod.ext ?_ ?_)
  · apply UInt64.toNat_inj.mp
    simp only [ofBits_w1, ofBits_w0, bitsOf_ofBits, UInt64.toNat_ofNat']; omega
  · apply U128.ext'
    · simp only [ofBits_w1, ofBits_w0, bitsOf_ofBits]; omega
    · simp only [ofBits_w1, ofBits_w0, bitsOf_ofBits]; omega

/-- `__mul_128x128_high`: the high 128 bits of the 256-bit product, provided the middle sum `ALBH + AHBL`
(which the code adds without a carry-out) fits 128 bits — true when both factors are below `2^127`. -/
theorem mul_128x128_high_eq (A B : U128) (hA : bitsOf A < 2^127) (hB : bitsOf B < 2^127) :
    mul_128x128_high A B = .ok (ofBits (bitsOf A * bitsOf B / 2^128)) := by
  unfold mul_128x128_high
  simp only [mul_64x64_to_128_eq, add_128_64_eq, add_128_128_eq, ok_bind, pure, Except.pure]
  have h0 := A.w0.toNat_lt; have h1 : A.w1.toNat < 2^63 := by unfold bitsOf at hA; omega
  have h2 := B.w0.toNat_lt; have h3 : B.w1.toNat < 2^63 := by unfold bitsOf at hB; omega
  have hp01 : A.w0.toNat * B.w1.toNat ≤ (2^64-1) * (2^63-1) := Nat.mul_le_mul (by omega) (by omega)
  have hp10 : B.w0.toNat * A.w1.toNat ≤ (2^64-1) * (2^63-1) := Nat.mul_le_mul (by omega) (by omega)
  have hp00 : A.w0.toNat * B.w0.toNat ≤ (2^64-1) * (2^64-1) := Nat.mul_le_mul (by omega) (by omega)
  have hp11 : A.w1.toNat * B.w1.toNat ≤ (2^63-1) * (2^63-1) := Nat.mul_le_mul (by omega) (by omega)
  have hprod : bitsOf A * bitsOf B = A.w1.toNat * B.w1.toNat * 2^128 + A.w0.toNat * B.w1.toNat * 2^64
      + B.w0.toNat * A.w1.toNat * 2^64 + A.w0.toNat * B.w0.toNat := by
    unfold bitsOf; ring
  rw [hprod]
  generalize A.w0.toNat * B.w1.toNat = P01 at *
  generalize B.w0.toNat * A.w1.toNat = P10 at *
  generalize A.w0.toNat * B.w0.toNat = P00 at *
  generalize A.w1.toNat * B.w1.toNat = P11 at *
  refine congrArg (fun n => Except.ok (ofBits n)) ?_
  simp only [ofBits_w1, ofBits_w0, bitsOf_ofBits]
  omega

/-! ## 2. The declet tables -/

theorem tab_one (n : Nat) (f : Nat → Nat) : Dec.TF.tab 1 n f = (List.range n).map (fun i => f i % 2^64) := by
  unfold Dec.TF.tab
  have hw : ∀ v, Dec.TF.words 1 v = [v % 2^64] := by
    intro v; simp [Dec.TF.words, List.range_succ]
  simp only [hw]
  induction n with
  | zero => rfl
  | succ n ih =>
    rw [List.range_succ, List.flatMap_append, List.map_append, ih]
    simp

theorem tab_one_get (n : Nat) (f : Nat → Nat) (i : Nat) (h : i < n) : (Dec.TF.tab 1 n f)[i]? = some (f i % 2^64) := by
  rw [tab_one, List.getElem?_map, List.getElem?_range h]; rfl

theorem tbl_D2B (i : UInt64) (h : i.toNat < 1024) :
    tbl64 Dec.Gen.BID_D2B i = .ok (UInt64.ofNat (declDec i.toNat)) := by
  unfold tbl64
  rw [Dec.TableFacts.BID_D2B_def, tab_one_get _ _ _ h]
  have := Dec.C19.declet_total ⟨i.toNat, h⟩
  simp only at this
  rw [Nat.mod_eq_of_lt (by omega)]

theorem tbl_B2D (i : UInt64) (h : i.toNat < 1000) :
    tbl64 Dec.Gen.BID_B2D i = .ok (UInt64.ofNat (declEnc i.toNat)) := by
  unfold tbl64
  rw [Dec.TableFacts.BID_B2D_def, tab_one_get _ _ _ h]
  have := Dec.C19.declEnc_lt' _ h
  rw [Nat.mod_eq_of_lt (by omega)]
/-! ## 3. Bit-field helpers -/

theorem and_mask (x k l : Nat) : x &&& ((2^l - 1) * 2^k) = x / 2^k % 2^l * 2^k := by
  have hk : 0 < 2^k := Nat.pow_pos (by decide)
  have h1 : (x &&& ((2^l - 1) * 2^k)) % 2^k = 0 := by
    rw [Nat.and_mod_two_pow, Nat.mul_mod_left, Nat.and_zero]
  have h2 : (x &&& ((2^l - 1) * 2^k)) / 2^k = x / 2^k % 2^l := by
    rw [Nat.and_div_two_pow, Nat.mul_div_cancel _ hk, Nat.and_two_pow_sub_one_eq_mod]
  have h3 := Nat.div_add_mod (x &&& ((2^l - 1) * 2^k)) (2^k)
  rw [h1, h2, Nat.add_zero, Nat.mul_comm] at h3
  exact h3.symm

/-- `x &&& M` for a mask `M` of `l` ones starting at bit `k` -/
theorem and_mask' (x M k l : Nat) (h : M = (2^l - 1) * 2^k) : x &&& M = x / 2^k % 2^l * 2^k := by
  rw [h, and_mask]

theorem or_add {a k : Nat} (b : Nat) (ha : a < 2^k) : b * 2^k ||| a = b * 2^k + a := by
  rw [Nat.mul_comm, Nat.two_pow_add_eq_or_of_lt ha]

theorem or_add' {a k : Nat} (b : Nat) (ha : a < 2^k) : a ||| b * 2^k = a + b * 2^k := by
  rw [Nat.or_comm, or_add b ha, Nat.add_comm]

theorem u64_beq (a b : UInt64) : (a == b) = decide (a.toNat = b.toNat) := by
  by_cases h : a = b
  · subst h; simp
  · have : a.toNat ≠ b.toNat := fun e => h (UInt64.toNat_inj.mp e)
    simp [h, this]

theorem u32_beq (a b : UInt32) : (a == b) = decide (a.toNat = b.toNat) := by
  by_cases h : a = b
  · subst h; simp
  · have : a.toNat ≠ b.toNat := fun e => h (UInt32.toNat_inj.mp e)
    simp [h, this]

/-- one monadic step: the bound computation succeeds with `v0`, continue with a fresh name for it -/
theorem bind_ok' {α β : Type} {m : Except String α} {v0 : α} {K : α → Except String β} {R : Except String β}
    (h : m = .ok v0) (h2 : ∀ v, v = v0 → K v = R) : (m >>= K) = R := by
  subst h; exact h2 v0 rfl

example : and_mask' 0xdeadbeef 0xff00 8 8 (by decide) = (by decide : 0xdeadbeef &&& 0xff00 = 0xdeadbeef / 2^8 % 2^8 * 2^8) := rfl

theorem and_low (x M l : Nat) (h : M = 2^l - 1) : x &&& M = x % 2^l := by
  rw [h, Nat.and_two_pow_sub_one_eq_mod]

/-- push `toNat` through the word operations and turn shifts into `/` and `*` by literals -/
macro "bits_norm" : tactic => `(tactic|
  simp only [UInt64.toNat_and, UInt64.toNat_or, UInt64.toNat_shiftRight, UInt64.toNat_shiftLeft, UInt64.toNat_ofNat,
    UInt32.toNat_and, UInt32.toNat_or, UInt32.toNat_shiftRight, UInt32.toNat_shiftLeft, UInt32.toNat_ofNat,
    UInt64.toNat_add, UInt64.toNat_mul, UInt32.toNat_add,
    Nat.shiftRight_eq_div_pow, Nat.shiftLeft_eq, Nat.reduceMod, Nat.reducePow])

/-! ## 4. The decoder `bid_dpd_to_bid128` -/

section DecoderIndices
variable (t : U128)

theorem idx11 : (t.w0 &&& 1023).toNat = bitsOf t % 1024 := by
  have h0 := t.w0.toNat_lt
  bits_norm; rw [and_low _ 1023 10 (by decide)]; unfold bitsOf; omega
theorem idx10 : (t.w0 >>> 10 &&& 1023).toNat = bitsOf t / 1024 % 1024 := by
  have h0 := t.w0.toNat_lt
  bits_norm; rw [and_low _ 1023 10 (by decide)]; unfold bitsOf; omega
theorem idx9 : (t.w0 >>> 20 &&& 1023).toNat = bitsOf t / 1024 / 1024 % 1024 := by
  have h0 := t.w0.toNat_lt
  bits_norm; rw [and_low _ 1023 10 (by decide)]; unfold bitsOf; omega
theorem idx8 : (t.w0 >>> 30 &&& 1023).toNat = bitsOf t / 1024 / 1024 / 1024 % 1024 := by
  have h0 := t.w0.toNat_lt
  bits_norm; rw [and_low _ 1023 10 (by decide)]; unfold bitsOf; omega
theorem idx7 : (t.w0 >>> 40 &&& 1023).toNat = bitsOf t / 1024 / 1024 / 1024 / 1024 % 1024 := by
  have h0 := t.w0.toNat_lt
  bits_norm; rw [and_low _ 1023 10 (by decide)]; unfold bitsOf; omega
theorem idx6 : (t.w0 >>> 50 &&& 1023).toNat = bitsOf t / 1024 / 1024 / 1024 / 1024 / 1024 % 1024 := by
  have h0 := t.w0.toNat_lt
  bits_norm; rw [and_low _ 1023 10 (by decide)]; unfold bitsOf; omega
theorem idx5 : (t.w0 >>> 60 ||| (t.w1 &&& 63) <<< 4).toNat = bitsOf t / 1024 / 1024 / 1024 / 1024 / 1024 / 1024 % 1024 := by
  have h0 := t.w0.toNat_lt
  bits_norm; rw [and_low _ 63 6 (by decide)]
  have e : t.w1.toNat % 2^6 * 16 % 18446744073709551616 = (t.w1.toNat % 2^6) * 2^4 := by omega
  rw [e, or_add' _ (by omega)]; unfold bitsOf; omega
theorem idx4 : (t.w1 >>> 6 &&& 1023).toNat = bitsOf t / 1024 / 1024 / 1024 / 1024 / 1024 / 1024 / 1024 % 1024 := by
  have h0 := t.w0.toNat_lt
  bits_norm; rw [and_low _ 1023 10 (by decide)]; unfold bitsOf; omega
theorem idx3 : (t.w1 >>> 16 &&& 1023).toNat = bitsOf t / 1024 / 1024 / 1024 / 1024 / 1024 / 1024 / 1024 / 1024 % 1024 := by
  have h0 := t.w0.toNat_lt
  bits_norm; rw [and_low _ 1023 10 (by decide)]; unfold bitsOf; omega
theorem idx2 : (t.w1 >>> 26 &&& 1023).toNat = bitsOf t / 1024 / 1024 / 1024 / 1024 / 1024 / 1024 / 1024 / 1024 / 1024 % 1024 := by
  have h0 := t.w0.toNat_lt
  bits_norm; rw [and_low _ 1023 10 (by decide)]; unfold bitsOf; omega
theorem idx1 : (t.w1 >>> 36 &&& 1023).toNat = bitsOf t / 1024 / 1024 / 1024 / 1024 / 1024 / 1024 / 1024 / 1024 / 1024 / 1024 % 1024 := by
  have h0 := t.w0.toNat_lt
  bits_norm; rw [and_low _ 1023 10 (by decide)]; unfold bitsOf; omega

end DecoderIndices

theorem declDec_lt (n : Nat) : declDec (n % 1024) < 1000 :=
  Dec.C19.declet_total ⟨n % 1024, Nat.mod_lt _ (by decide)⟩

theorem d2b_step {i v : UInt64} {n : Nat} (hi : i.toNat = n % 1024) (hv : v = UInt64.ofNat (declDec i.toNat)) :
    v.toNat = declDec (n % 1024) ∧ v.toNat < 1000 := by
  have := declDec_lt n
  rw [hv, hi, UInt64.toNat_ofNat', Nat.mod_eq_of_lt (by omega)]
  exact ⟨rfl, this⟩

theorem tbl_D2B' {i : UInt64} {n : Nat} (hi : i.toNat = n % 1024) :
    tbl64 Dec.Gen.BID_D2B i = .ok (UInt64.ofNat (declDec i.toNat)) :=
  tbl_D2B i (by rw [hi]; exact Nat.mod_lt _ (by decide))

theorem ite_bit (n K : Nat) : (if (n % 2 == 1) = true then K else 0) = n % 2 * K := by
  rcases Nat.mod_two_eq_zero_or_one n with h | h <;> simp [h]

theorem or_disj (a b K k : Nat) (hK : K = 2^k) (ha : a < K) (hb : b % K = 0) : b ||| a = b + a := by
  subst hK
  have h := Nat.div_add_mod b (2^k)
  rw [hb, Nat.add_zero] at h
  rw [← h, Nat.two_pow_add_eq_or_of_lt ha]

theorem or_disj' (a b K k : Nat) (hK : K = 2^k) (ha : a < K) (hb : b % K = 0) : a ||| b = a + b := by
  rw [Nat.or_comm, or_disj a b K k hK ha hb, Nat.add_comm]

theorem or_sign_nan (X : Nat) : X / 2^63 % 2 * 2^63 ||| X / 2^57 % 2^7 * 2^57 = X / 2^57 % 2^7 * 2^57 := by
  have h := and_mask' X 9223372036854775808 63 1 (by decide)
  rw [Nat.pow_one] at h
  rw [← h, ← and_mask' X 18302628885633695744 57 7 (by decide), ← Nat.and_or_distrib_left]
  rfl

theorem or3 (S C N : Nat) (h : S ||| N = N) : (S ||| C) ||| N = C ||| N := by
  rw [Nat.or_comm S C, Nat.or_assoc, h]

/-- `if c & M == M { 1 } else { 0 }` for a one-bit mask `M = 2^k` is bit `k` of `c` -/
theorem bit_ite (c M : UInt64) (k : Nat) (hM : M.toNat = 2^k) :
    (if (c &&& M == M) = true then (1 : UInt64) else 0).toNat = c.toNat / 2^k % 2 := by
  have hk : 0 < 2^k := Nat.pow_pos (by decide)
  have h1 : (c &&& M).toNat = c.toNat / 2^k % 2 * 2^k := by
    rw [UInt64.toNat_and, hM]
    have := and_mask c.toNat k 1
    simpa using this
  rw [u64_beq, h1, hM]
  rcases Nat.mod_two_eq_zero_or_one (c.toNat / 2^k) with h | h
  · rw [h, Nat.zero_mul, if_neg]; · rfl
    simp only [decide_eq_true_eq]; omega
  · rw [h, Nat.one_mul, if_pos]; · rfl
    simp only [decide_eq_true_eq]

/-- the word a finite result is assembled into: sign ||| biased exponent << 49 ||| coefficient -/
theorem fin_result (e sg : UInt64) (c s : Nat) (he : e.toNat < 2^14) (hs : sg.toNat = s * 2^63) (hs2 : s < 2)
    (hc : c < 2^113) :
    bitsOf ⟨UInt64.ofNat c, (e <<< 49 ||| sg ||| UInt64.ofNat (c / 2^64)) ||| 0⟩
      = s * 2^127 + e.toNat * 2^113 + c := by
  simp only [bitsOf]
  bits_norm
  simp only [UInt64.toNat_ofNat', Nat.or_zero]
  simp only [Nat.reducePow] at *
  have h2 : e.toNat * 562949953421312 ||| s * 9223372036854775808 = e.toNat * 562949953421312 + s * 9223372036854775808 :=
    or_disj' _ _ 9223372036854775808 63 (by decide) (by omega) (by omega)
  have h3 : (e.toNat * 562949953421312 + s * 9223372036854775808) ||| c / 18446744073709551616 % 18446744073709551616
      = (e.toNat * 562949953421312 + s * 9223372036854775808) + c / 18446744073709551616 % 18446744073709551616 :=
    or_disj _ _ 562949953421312 49 (by decide) (by omega) (by omega)
  rw [hs, Nat.mod_eq_of_lt (show e.toNat * 562949953421312 < 18446744073709551616 by omega), h2, h3]
  omega

/-- the word a NaN result is assembled into: the sign / NaN / signalling bits of the input ||| payload -/
theorem nan_result (X1 t : Nat) (sg nb : UInt64) (hs : sg.toNat = X1 / 2^63 % 2 * 2^63)
    (hn : nb.toNat = X1 / 2^57 % 2^7 * 2^57) (ht : t < 2^110) :
    bitsOf ⟨UInt64.ofNat t, ((0 : UInt64) <<< 49 ||| sg ||| UInt64.ofNat (t / 2^64)) ||| nb⟩
      = X1 / 2^57 % 2^7 * 2^121 + t := by
  simp only [bitsOf]
  bits_norm
  simp only [UInt64.toNat_ofNat', Nat.zero_mul, Nat.zero_mod, Nat.zero_or]
  rw [hs, hn, or3 _ _ _ (or_sign_nan _), or_disj' _ _ 144115188075855872 57 (by decide) (by omega) (by omega)]
  omega

theorem exp_hi_arith (K : Nat) (h : K < 2^17) :
    K / 2^14 % 2 * 8192 + K / 2^13 % 2 * 4096 + K % 4096 = K / 4096 / 2 % 4 * 4096 + K % 4096 := by omega

theorem exp_lo_arith (K : Nat) (h : K < 2^17) :
    K / 2^16 % 2 * 8192 + K / 2^15 % 2 * 4096 + K % 4096 = K / 4096 / 8 * 4096 + K % 4096 := by omega

theorem toNat_bias (n : Nat) : ((n : Int) - 6176 + 6176).toNat = n := by omega

/-- the coefficient the decoder assembles from the eleven declet values and the leading digit -/
theorem dec_value (T : Nat) (d0 d1 d2 d3 d4 d5 d6 d7 d8 d9 d10 d11 : UInt64) (hd0 : d0.toNat < 10)
    (e11 : d11.toNat = declDec (T % 1024))
    (e10 : d10.toNat = declDec (T / 1024 % 1024))
    (e9 : d9.toNat = declDec (T / 1024 / 1024 % 1024))
    (e8 : d8.toNat = declDec (T / 1024 / 1024 / 1024 % 1024))
    (e7 : d7.toNat = declDec (T / 1024 / 1024 / 1024 / 1024 % 1024))
    (e6 : d6.toNat = declDec (T / 1024 / 1024 / 1024 / 1024 / 1024 % 1024))
    (e5 : d5.toNat = declDec (T / 1024 / 1024 / 1024 / 1024 / 1024 / 1024 % 1024))
    (e4 : d4.toNat = declDec (T / 1024 / 1024 / 1024 / 1024 / 1024 / 1024 / 1024 % 1024))
    (e3 : d3.toNat = declDec (T / 1024 / 1024 / 1024 / 1024 / 1024 / 1024 / 1024 / 1024 % 1024))
    (e2 : d2.toNat = declDec (T / 1024 / 1024 / 1024 / 1024 / 1024 / 1024 / 1024 / 1024 / 1024 % 1024))
    (e1 : d1.toNat = declDec (T / 1024 / 1024 / 1024 / 1024 / 1024 / 1024 / 1024 / 1024 / 1024 / 1024 % 1024)) :
    bitsOf (ofBits ((d5 + d4 * 1000 + d3 * 1000000 + d2 * 1000000000 + d1 * 1000000000000
          + d0 * 1000000000000000).toNat * (1000000000000000000 : UInt64).toNat))
        + (d11 + d10 * 1000 + d9 * 1000000 + d8 * 1000000000 + d7 * 1000000000000 + d6 * 1000000000000000).toNat
      = d0.toNat * P33 + undeclets 11 T := by
  have b11 := declDec_lt T; rw [← e11] at b11
  have b10 := declDec_lt (T / 1024); rw [← e10] at b10
  have b9 := declDec_lt (T / 1024 / 1024); rw [← e9] at b9
  have b8 := declDec_lt (T / 1024 / 1024 / 1024); rw [← e8] at b8
  have b7 := declDec_lt (T / 1024 / 1024 / 1024 / 1024); rw [← e7] at b7
  have b6 := declDec_lt (T / 1024 / 1024 / 1024 / 1024 / 1024); rw [← e6] at b6
  have b5 := declDec_lt (T / 1024 / 1024 / 1024 / 1024 / 1024 / 1024); rw [← e5] at b5
  have b4 := declDec_lt (T / 1024 / 1024 / 1024 / 1024 / 1024 / 1024 / 1024); rw [← e4] at b4
  have b3 := declDec_lt (T / 1024 / 1024 / 1024 / 1024 / 1024 / 1024 / 1024 / 1024); rw [← e3] at b3
  have b2 := declDec_lt (T / 1024 / 1024 / 1024 / 1024 / 1024 / 1024 / 1024 / 1024 / 1024); rw [← e2] at b2
  have b1 := declDec_lt (T / 1024 / 1024 / 1024 / 1024 / 1024 / 1024 / 1024 / 1024 / 1024 / 1024); rw [← e1] at b1
  have hth : (d5 + d4 * 1000 + d3 * 1000000 + d2 * 1000000000 + d1 * 1000000000000 + d0 * 1000000000000000).toNat
      = d5.toNat + d4.toNat * 1000 + d3.toNat * 1000000 + d2.toNat * 1000000000 + d1.toNat * 1000000000000
        + d0.toNat * 1000000000000000 := by
    bits_norm; omega
  have htl : (d11 + d10 * 1000 + d9 * 1000000 + d8 * 1000000000 + d7 * 1000000000000 + d6 * 1000000000000000).toNat
      = d11.toNat + d10.toNat * 1000 + d9.toNat * 1000000 + d8.toNat * 1000000000 + d7.toNat * 1000000000000
        + d6.toNat * 1000000000000000 := by
    bits_norm; omega
  rw [hth, htl, bitsOf_ofBits]
  simp only [undeclets, P33, ← e11, ← e10, ← e9, ← e8, ← e7, ← e6, ← e5, ← e4, ← e3, ← e2, ← e1, UInt64.toNat_ofNat,
    Nat.reduceMod, Nat.reducePow]
  omega

/-! ### The bit fields both routines cut their argument into -/

/-- the 17 combination + exponent-continuation bits 126..110, as the routines extract them -/
abbrev cmb (x : U128) : UInt64 := (x.w1 &&& 9223301668110598144) >>> 46

section Fields
variable (x : U128)

theorem fld_comb : (cmb x).toNat = bitsOf x / 2^110 % 2^17 := by
  have hX1 := x.w1.toNat_lt; have hX0 := x.w0.toNat_lt
  unfold cmb bitsOf
  bits_norm; rw [and_mask' _ 9223301668110598144 46 17 (by decide)]; omega

theorem fld_sign : (x.w1 &&& 9223372036854775808).toNat = bitsOf x / 2^127 % 2 * 2^63 := by
  have hX1 := x.w1.toNat_lt; have hX0 := x.w0.toNat_lt
  unfold bitsOf
  bits_norm; rw [and_mask' _ 9223372036854775808 63 1 (by decide)]; omega

theorem fld_trailing : bitsOf ⟨x.w0, x.w1 &&& 70368744177663⟩ = bitsOf x % 2^110 := by
  have hX1 := x.w1.toNat_lt; have hX0 := x.w0.toNat_lt
  simp only [bitsOf]; bits_norm; rw [and_low _ 70368744177663 46 (by decide)]; omega

theorem fld_nanb : (x.w1 &&& 18302628885633695744).toNat = bitsOf x / 2^121 % 2^7 * 2^57 := by
  have hX1 := x.w1.toNat_lt; have hX0 := x.w0.toNat_lt
  unfold bitsOf
  bits_norm; rw [and_mask' _ 18302628885633695744 57 7 (by decide)]; omega

theorem fld_inf : bitsOf ⟨0, x.w1 &&& 17870283321406128128⟩ = bitsOf x / 2^123 % 2^5 * 2^123 := by
  have hX1 := x.w1.toNat_lt; have hX0 := x.w0.toNat_lt
  simp only [bitsOf]; bits_norm; rw [and_mask' _ 17870283321406128128 59 5 (by decide)]; omega

theorem cmb_c5 : (cmb x &&& 126976).toNat = bitsOf x / 2^122 % 32 * 4096 := by
  rw [UInt64.toNat_and, fld_comb]; bits_norm; rw [and_mask' _ 126976 12 5 (by decide)]; omega

theorem cond30 : (cmb x &&& 126976 == 122880) = decide (bitsOf x / 2^122 % 32 = 30) := by
  rw [u64_beq, cmb_c5]; simp only [UInt64.toNat_ofNat, Nat.reduceMod, Nat.reducePow]
  apply decide_eq_decide.mpr; omega

theorem cond31 : (cmb x &&& 126976 == 126976) = decide (bitsOf x / 2^122 % 32 = 31) := by
  rw [u64_beq, cmb_c5]; simp only [UInt64.toNat_ofNat, Nat.reduceMod, Nat.reducePow]
  apply decide_eq_decide.mpr; omega

theorem cond24 : (cmb x &&& 98304 == 98304) = decide (24 ≤ bitsOf x / 2^122 % 32) := by
  rw [u64_beq, UInt64.toNat_and, fld_comb]; bits_norm; rw [and_mask' _ 98304 15 2 (by decide)]
  apply decide_eq_decide.mpr; omega

theorem nanb_ne (h31 : bitsOf x / 2^122 % 32 = 31) : ((x.w1 &&& 18302628885633695744) == 0) = false := by
  rw [u64_beq, fld_nanb]; simp only [UInt64.toNat_ofNat, Nat.reduceMod, Nat.reducePow]
  apply decide_eq_false; omega

theorem cmb_low : (cmb x &&& 4095).toNat = bitsOf x / 2^110 % 4096 := by
  rw [UInt64.toNat_and, fld_comb]; bits_norm; rw [and_low _ 4095 12 (by decide)]; omega

theorem cmb_bit (M : UInt64) (k : Nat) (hM : M.toNat = 2^k) :
    (if (cmb x &&& M == M) = true then (1 : UInt64) else 0).toNat = bitsOf x / 2^110 % 2^17 / 2^k % 2 := by
  rw [bit_ite _ _ k hM, fld_comb]

/-- the leading digit 8 or 9 of the decoder's `11xxx` branch -/
theorem d0hi_val : (8 + if (cmb x &&& 4096 == 4096) = true then 1 else 0 : UInt64).toNat
    = 8 + bitsOf x / 2^122 % 32 % 2 := by
  rw [UInt64.toNat_add, cmb_bit x 4096 12 (by decide)]; simp only [UInt64.toNat_ofNat]; omega

/-- the biased exponent of the decoder's `11xxx` branch -/
theorem exphi_val : ((if (cmb x &&& 16384 == 16384) = true then 1 else 0) * 8192
      + (if (cmb x &&& 8192 == 8192) = true then 1 else 0) * 4096 + (cmb x &&& 4095) : UInt64).toNat
    = bitsOf x / 2^122 % 32 / 2 % 4 * 4096 + bitsOf x / 2^110 % 4096 := by
  have hK : bitsOf x / 2^110 % 2^17 < 2^17 := Nat.mod_lt _ (by decide)
  have a1 : bitsOf x / 2^122 % 32 = bitsOf x / 2^110 % 2^17 / 4096 := by omega
  have a2 : bitsOf x / 2^110 % 4096 = bitsOf x / 2^110 % 2^17 % 4096 := by omega
  rw [UInt64.toNat_add, UInt64.toNat_add, UInt64.toNat_mul, UInt64.toNat_mul, cmb_bit x 16384 14 (by decide),
    cmb_bit x 8192 13 (by decide), cmb_low, a1, a2]
  generalize bitsOf x / 2^110 % 2^17 = K at hK ⊢
  simp only [UInt64.toNat_ofNat]; rw [← exp_hi_arith K hK]; omega

/-- the leading digit 0..7 of the decoder's ordinary branch -/
theorem d0lo_val : (4 * (if (cmb x &&& 16384 == 16384) = true then 1 else 0)
      + 2 * (if (cmb x &&& 8192 == 8192) = true then 1 else 0)
      + (if (cmb x &&& 4096 == 4096) = true then 1 else 0) : UInt64).toNat = bitsOf x / 2^122 % 32 % 8 := by
  rw [UInt64.toNat_add, UInt64.toNat_add, UInt64.toNat_mul, UInt64.toNat_mul, cmb_bit x 16384 14 (by decide),
    cmb_bit x 8192 13 (by decide), cmb_bit x 4096 12 (by decide)]
  simp only [UInt64.toNat_ofNat]; omega

/-- the biased exponent of the decoder's ordinary branch -/
theorem explo_val : ((if (cmb x &&& 65536 == 65536) = true then 1 else 0) * 8192
      + (if (cmb x &&& 32768 == 32768) = true then 1 else 0) * 4096 + (cmb x &&& 4095) : UInt64).toNat
    = bitsOf x / 2^122 % 32 / 8 * 4096 + bitsOf x / 2^110 % 4096 := by
  have hK : bitsOf x / 2^110 % 2^17 < 2^17 := Nat.mod_lt _ (by decide)
  have a1 : bitsOf x / 2^122 % 32 = bitsOf x / 2^110 % 2^17 / 4096 := by omega
  have a2 : bitsOf x / 2^110 % 4096 = bitsOf x / 2^110 % 2^17 % 4096 := by omega
  rw [UInt64.toNat_add, UInt64.toNat_add, UInt64.toNat_mul, UInt64.toNat_mul, cmb_bit x 65536 16 (by decide),
    cmb_bit x 32768 15 (by decide), cmb_low, a1, a2]
  generalize bitsOf x / 2^110 % 2^17 = K at hK ⊢
  simp only [UInt64.toNat_ofNat]; rw [← exp_lo_arith K hK]; omega

/-- the infinity branch (both routines): sign and the five combination bits `11110` are kept, all else cleared -/
theorem inf_case (h30 : bitsOf x / 2^122 % 32 = 30) :
    bitsOf ⟨0, x.w1 &&& 17870283321406128128⟩ = encode (.inf (bitsOf x / 2^127 % 2 == 1)) := by
  have := bitsOf_lt x
  rw [fld_inf, encode, signBit_beq]; omega

/-- the NaN branch of the decoder -/
theorem dec_nan_case (h31 : bitsOf x / 2^122 % 32 = 31) (t : Nat) (ht : t < P33) :
    bitsOf ⟨UInt64.ofNat t, ((0 : UInt64) <<< 49 ||| (x.w1 &&& 9223372036854775808) ||| UInt64.ofNat (t / 2^64))
        ||| (x.w1 &&& 18302628885633695744)⟩
      = encode (.nan (bitsOf x / 2^127 % 2 == 1) (bitsOf x / 2^121 % 2 == 1) t) := by
  have := bitsOf_lt x
  have hs : (x.w1 &&& 9223372036854775808).toNat = (bitsOf x / 2^64) / 2^63 % 2 * 2^63 := by
    rw [fld_sign]; omega
  have hn : (x.w1 &&& 18302628885633695744).toNat = (bitsOf x / 2^64) / 2^57 % 2^7 * 2^57 := by
    rw [fld_nanb]; omega
  rw [nan_result (bitsOf x / 2^64) t _ _ hs hn (by simp only [P33] at ht; omega)]
  simp only [encode, signBit_beq, ite_bit]
  omega

/-- a finite result of the decoder -/
theorem dec_fin_case (e : UInt64) (c E : Nat) (he : e.toNat = E) (hE : E < 2^14) (hc : c < 2^113) :
    bitsOf ⟨UInt64.ofNat c, (e <<< 49 ||| (x.w1 &&& 9223372036854775808) ||| UInt64.ofNat (c / 2^64)) ||| 0⟩
      = encode (.fin (bitsOf x / 2^127 % 2 == 1) c ((E : Int) - 6176)) := by
  rw [fin_result _ _ _ (bitsOf x / 2^127 % 2) (by omega) (fld_sign x) (by omega) hc, encode, signBit_beq, toNat_bias, he]

end Fields

/-- **DPD → BID, the translated routine.**  For every 128-bit word `x`, `bid_dpd_to_bid128 x` returns (never panics) the
BID pattern `Dec.fromDpd (bitsOf x)`: the canonical BID encoding of the datum the DPD word denotes (redundant declets,
junk bits of infinities / NaNs, everything included). -/
theorem bid_dpd_to_bid128_eq (x : U128) : bid_dpd_to_bid128 x = .ok (ofBits (fromDpd (bitsOf x))) := by
  unfold bid_dpd_to_bid128
  extract_lets da res exp0 nanb0 da' sign1 sign comb tr1 trailing jp res1 resInf nanb d0hi exphi d0lo explo
  have hT : ∀ (res : U128) (exp d0 nanb : UInt64), d0.toNat < 10 →
      jp () res exp d0 nanb = .ok ⟨UInt64.ofNat (d0.toNat * P33 + undeclets 11 (bitsOf trailing)),
        ((if nanb == 0 then exp + (comb &&& 4095) else exp) <<< 49 ||| sign.w1
          ||| UInt64.ofNat ((d0.toNat * P33 + undeclets 11 (bitsOf trailing)) / 2^64)) ||| nanb⟩ := by
    intro res exp d0 nanb hd0
    simp only [jp]
    refine bind_ok' (tbl_D2B' (idx11 _)) ?_; intro d11 hd11; have e11 := (d2b_step (idx11 _) hd11).1
    refine bind_ok' (tbl_D2B' (idx10 _)) ?_; intro d10 hd10; have e10 := (d2b_step (idx10 _) hd10).1
    refine bind_ok' (tbl_D2B' (idx9 _)) ?_; intro d9 hd9; have e9 := (d2b_step (idx9 _) hd9).1
    refine bind_ok' (tbl_D2B' (idx8 _)) ?_; intro d8 hd8; have e8 := (d2b_step (idx8 _) hd8).1
    refine bind_ok' (tbl_D2B' (idx7 _)) ?_; intro d7 hd7; have e7 := (d2b_step (idx7 _) hd7).1
    refine bind_ok' (tbl_D2B' (idx6 _)) ?_; intro d6 hd6; have e6 := (d2b_step (idx6 _) hd6).1
    refine bind_ok' (tbl_D2B' (idx5 _)) ?_; intro d5 hd5; have e5 := (d2b_step (idx5 _) hd5).1
    refine bind_ok' (tbl_D2B' (idx4 _)) ?_; intro d4 hd4; have e4 := (d2b_step (idx4 _) hd4).1
    refine bind_ok' (tbl_D2B' (idx3 _)) ?_; intro d3 hd3; have e3 := (d2b_step (idx3 _) hd3).1
    refine bind_ok' (tbl_D2B' (idx2 _)) ?_; intro d2 hd2; have e2 := (d2b_step (idx2 _) hd2).1
    refine bind_ok' (tbl_D2B' (idx1 _)) ?_; intro d1 hd1; have e1 := (d2b_step (idx1 _) hd1).1
    simp only [mul_64x64_to_128_eq, add_128_64_eq, ok_bind]
    rw [dec_value (bitsOf trailing) d0 d1 d2 d3 d4 d5 d6 d7 d8 d9 d10 d11 hd0 e11 e10 e9 e8 e7 e6 e5 e4 e3 e2 e1]
    split <;> rfl
  clear_value jp
  have ht := Dec.C19RoundTrip.undeclets11_lt (bitsOf x % 2^110)
  have htr : bitsOf trailing = bitsOf x % 2^110 := fld_trailing x
  have hc30 : (comb &&& 126976 == 122880) = _ := cond30 x
  have hc31 : (comb &&& 126976 == 126976) = _ := cond31 x
  have hc24 : (comb &&& 98304 == 98304) = _ := cond24 x
  rw [hc30, hc31, hc24, Dec.C19RoundTrip.fromDpd_eq]
  clear hc30 hc31 hc24
  by_cases h30 : bitsOf x / 2^122 % 32 = 30
  · rw [if_pos (decide_eq_true h30), Dec.C19RoundTrip.dpdDatum_inf _ h30]
    exact congrArg Except.ok (eq_ofBits (inf_case x h30))
  rw [if_neg (by simpa using h30)]
  by_cases h31 : bitsOf x / 2^122 % 32 = 31
  · rw [if_pos (decide_eq_true h31), Dec.C19RoundTrip.dpdDatum_nan _ h31, hT _ _ _ _ (by decide), htr]
    have hnz : (nanb == 0) = false := nanb_ne x h31
    generalize undeclets 11 (bitsOf x % 2^110) = t at ht ⊢
    refine congrArg Except.ok (eq_ofBits ?_)
    simp only [hnz, nanb0, Bool.false_eq_true, if_false, UInt64.toNat_zero, Nat.zero_mul, Nat.zero_add]
    exact dec_nan_case x h31 t ht
  rw [if_neg (by simpa using h31)]
  have hz : (nanb0 == 0) = true := by simp only [nanb0]; rfl
  by_cases h24 : 24 ≤ bitsOf x / 2^122 % 32
  · have hd0 : d0hi.toNat = 8 + bitsOf x / 2^122 % 32 % 2 := d0hi_val x
    have hexp : (exphi + (comb &&& 4095)).toNat = _ := exphi_val x
    rw [if_pos (decide_eq_true h24), Dec.C19RoundTrip.dpdDatum_hi _ h24 (by omega), hT _ _ _ _ (by omega), htr]
    generalize undeclets 11 (bitsOf x % 2^110) = t at ht ⊢
    refine congrArg Except.ok (eq_ofBits ?_)
    simp only [hz, if_true, nanb0]
    rw [hd0]
    exact dec_fin_case x _ _ _ hexp (by omega) (by simp only [P33] at ht ⊢; omega)
  · have hd0 : d0lo.toNat = bitsOf x / 2^122 % 32 % 8 := d0lo_val x
    have hexp : (explo + (comb &&& 4095)).toNat = _ := explo_val x
    rw [if_neg (by simpa using h24), Dec.C19RoundTrip.dpdDatum_lo _ (by omega), hT _ _ _ _ (by omega), htr]
    generalize undeclets 11 (bitsOf x % 2^110) = t at ht ⊢
    refine congrArg Except.ok (eq_ofBits ?_)
    simp only [hz, if_true, nanb0]
    rw [hd0]
    exact dec_fin_case x _ _ _ hexp (by omega) (by simp only [P33] at ht ⊢; omega)

/-! ## 5. The encoder `bid_to_dpd128` -/

/-- the reciprocal multiplication the encoder divides by 1000 with is exact on the whole coefficient range -/
theorem div1000 (n : Nat) (h : n < 2^113) :
    n * (18446744073709551 * 2^64 + 11363194349405083796) / 2^128 = n / 1000 := by omega

/-- `__mul_128x128_high(A, ⌈2^128/1000⌉)` is `⌊A / 1000⌋` for `A < 2^113` -/
theorem mulhi_d1000 (A : U128) (hA : bitsOf A < 2^113) :
    mul_128x128_high A ⟨11363194349405083796, 18446744073709551⟩ = .ok (ofBits (bitsOf A / 1000)) := by
  have hB : bitsOf ⟨11363194349405083796, 18446744073709551⟩ = 18446744073709551 * 2^64 + 11363194349405083796 := rfl
  rw [mul_128x128_high_eq A _ (by omega) (by rw [hB]; omega), hB, div1000 _ hA]

theorem mulhi_step {A v : U128} {n : Nat} (hA : bitsOf A = n) (hn : n < 2^113) (hv : v = ofBits (bitsOf A / 1000)) :
    bitsOf v = n / 1000 := by
  rw [hv, hA, bitsOf_ofBits_of_lt (by omega)]

/-- one three-digit group: `A - 1000 * ⌊A/1000⌋` computed on 128-bit words -/
theorem digit_step {A B d : U128} {p : UInt64 × U128} {n : Nat} (hA : bitsOf A = n) (hB : bitsOf B = n / 1000)
    (hn : n < 2^113)
    (hp : p = (UInt64.ofNat ((1000 : UInt64).toNat * bitsOf B / 2^128), ofBits ((1000 : UInt64).toNat * bitsOf B)))
    (hd : d = ofBits (bitsOf A + 2^128 - bitsOf p.snd)) : d.w0.toNat = n % 1000 := by
  have h1000 : (1000 : UInt64).toNat = 1000 := rfl
  rw [hd, hp, hA, hB, h1000, ofBits_w0]
  simp only
  rw [bitsOf_ofBits_of_lt (by omega)]
  omega

theorem tbl_B2D' {i : UInt64} {n : Nat} (hi : i.toNat = n % 1000) :
    tbl64 Dec.Gen.BID_B2D i = .ok (UInt64.ofNat (declEnc i.toNat)) :=
  tbl_B2D i (by rw [hi]; exact Nat.mod_lt _ (by decide))

theorem b2d_step {i v : UInt64} {n : Nat} (hi : i.toNat = n % 1000) (hv : v = UInt64.ofNat (declEnc i.toNat)) :
    v.toNat = declEnc (n % 1000) := by
  have := Dec.C19.declEnc_lt' (n % 1000) (Nat.mod_lt _ (by decide))
  rw [hv, hi, UInt64.toNat_ofNat', Nat.mod_eq_of_lt (by omega)]

theorem declets_mod (k n : Nat) : declets k (n % 1000 ^ k) = declets k n := by
  induction k generalizing n with
  | zero => rfl
  | succ k ih =>
    simp only [declets]
    have h1 : n % 1000 ^ (k + 1) % 1000 = n % 1000 := by
      rw [Nat.pow_succ, Nat.mul_comm]; exact Nat.mod_mul_right_mod _ _ _
    have h2 : n % 1000 ^ (k + 1) / 1000 = n / 1000 % 1000 ^ k := by
      rw [Nat.pow_succ, Nat.mul_comm, Nat.mod_mul_right_div_self]
    rw [h1, h2, ih]

theorem declets11_mod (n : Nat) : declets 11 (n % P33) = declets 11 n := by
  rw [← Dec.C19RoundTrip.pow1000, declets_mod]

/-- eleven declets packed into the 110 trailing bits, as the encoder ORs them together -/
theorem dcoeff_value (e1 e2 e3 e4 e5 e6 e7 e8 e9 e10 e11 : UInt64)
    (h1 : e1.toNat < 1024) (h2 : e2.toNat < 1024) (h3 : e3.toNat < 1024) (h4 : e4.toNat < 1024)
    (h5 : e5.toNat < 1024) (h6 : e6.toNat < 1024) (h7 : e7.toNat < 1024) (h8 : e8.toNat < 1024)
    (h9 : e9.toNat < 1024) (h10 : e10.toNat < 1024) (h11 : e11.toNat < 1024) :
    bitsOf ⟨e11 ||| e10 <<< 10 ||| e9 <<< 20 ||| e8 <<< 30 ||| e7 <<< 40 ||| e6 <<< 50 ||| e5 <<< 60,
        e5 >>> 4 ||| e4 <<< 6 ||| e3 <<< 16 ||| e2 <<< 26 ||| e1 <<< 36⟩
      = e11.toNat + 1024 * (e10.toNat + 1024 * (e9.toNat + 1024 * (e8.toNat + 1024 * (e7.toNat + 1024 * (e6.toNat
        + 1024 * (e5.toNat + 1024 * (e4.toNat + 1024 * (e3.toNat + 1024 * (e2.toNat + 1024 * e1.toNat))))))))) := by
  simp only [bitsOf]
  bits_norm
  generalize e1.toNat = v1 at *
  generalize e2.toNat = v2 at *
  generalize e3.toNat = v3 at *
  generalize e4.toNat = v4 at *
  generalize e5.toNat = v5 at *
  generalize e6.toNat = v6 at *
  generalize e7.toNat = v7 at *
  generalize e8.toNat = v8 at *
  generalize e9.toNat = v9 at *
  generalize e10.toNat = v10 at *
  generalize e11.toNat = v11 at *
  have a10 : (v11) ||| v10 * 1024 % 18446744073709551616 = v11 + v10 * 1024 := by
    rw [Nat.mod_eq_of_lt (by omega)]; exact or_disj' _ _ 1024 10 (by decide) (by omega) (by omega)
  have a9 : (v11 + v10 * 1024) ||| v9 * 1048576 % 18446744073709551616 = v11 + v10 * 1024 + v9 * 1048576 := by
    rw [Nat.mod_eq_of_lt (by omega)]; exact or_disj' _ _ 1048576 20 (by decide) (by omega) (by omega)
  have a8 : (v11 + v10 * 1024 + v9 * 1048576) ||| v8 * 1073741824 % 18446744073709551616 = v11 + v10 * 1024 + v9 * 1048576 + v8 * 1073741824 := by
    rw [Nat.mod_eq_of_lt (by omega)]; exact or_disj' _ _ 1073741824 30 (by decide) (by omega) (by omega)
  have a7 : (v11 + v10 * 1024 + v9 * 1048576 + v8 * 1073741824) ||| v7 * 1099511627776 % 18446744073709551616 = v11 + v10 * 1024 + v9 * 1048576 + v8 * 1073741824 + v7 * 1099511627776 := by
    rw [Nat.mod_eq_of_lt (by omega)]; exact or_disj' _ _ 1099511627776 40 (by decide) (by omega) (by omega)
  have a6 : (v11 + v10 * 1024 + v9 * 1048576 + v8 * 1073741824 + v7 * 1099511627776) ||| v6 * 1125899906842624 % 18446744073709551616 = v11 + v10 * 1024 + v9 * 1048576 + v8 * 1073741824 + v7 * 1099511627776 + v6 * 1125899906842624 := by
    rw [Nat.mod_eq_of_lt (by omega)]; exact or_disj' _ _ 1125899906842624 50 (by decide) (by omega) (by omega)
  have a5 : (v11 + v10 * 1024 + v9 * 1048576 + v8 * 1073741824 + v7 * 1099511627776 + v6 * 1125899906842624) ||| v5 * 1152921504606846976 % 18446744073709551616 = v11 + v10 * 1024 + v9 * 1048576 + v8 * 1073741824 + v7 * 1099511627776 + v6 * 1125899906842624 + v5 % 16 * 1152921504606846976 := by
    rw [show v5 * 1152921504606846976 % 18446744073709551616 = v5 % 16 * 1152921504606846976 by omega]; exact or_disj' _ _ 1152921504606846976 60 (by decide) (by omega) (by omega)
  have a4 : (v5 / 16) ||| v4 * 64 % 18446744073709551616 = v5 / 16 + v4 * 64 := by
    rw [Nat.mod_eq_of_lt (by omega)]; exact or_disj' _ _ 64 6 (by decide) (by omega) (by omega)
  have a3 : (v5 / 16 + v4 * 64) ||| v3 * 65536 % 18446744073709551616 = v5 / 16 + v4 * 64 + v3 * 65536 := by
    rw [Nat.mod_eq_of_lt (by omega)]; exact or_disj' _ _ 65536 16 (by decide) (by omega) (by omega)
  have a2 : (v5 / 16 + v4 * 64 + v3 * 65536) ||| v2 * 67108864 % 18446744073709551616 = v5 / 16 + v4 * 64 + v3 * 65536 + v2 * 67108864 := by
    rw [Nat.mod_eq_of_lt (by omega)]; exact or_disj' _ _ 67108864 26 (by decide) (by omega) (by omega)
  have a1 : (v5 / 16 + v4 * 64 + v3 * 65536 + v2 * 67108864) ||| v1 * 68719476736 % 18446744073709551616 = v5 / 16 + v4 * 64 + v3 * 65536 + v2 * 67108864 + v1 * 68719476736 := by
    rw [Nat.mod_eq_of_lt (by omega)]; exact or_disj' _ _ 68719476736 36 (by decide) (by omega) (by omega)
  rw [a10, a9, a8, a7, a6, a5, a4, a3, a2, a1]
  omega

/-- the 17 bits (5 combination bits + 12 exponent-continuation bits) of a finite DPD number with biased exponent `E`
and leading digit `d0` -/
def comb17 (E d0 : Nat) : Nat :=
  if d0 ≥ 8 then 98304 + E / 4096 * 8192 + d0 % 2 * 4096 + E % 4096 else E / 4096 * 32768 + d0 * 4096 + E % 4096

/-- the same 17 bits as the encoder assembles them (shifted to bit 46 of the high word) -/
def combWord (exp : UInt32) (d : UInt64) : UInt64 :=
  if d ≥ 8 then
    UInt64.ofInt (toI ((98304 : UInt32) ||| exp >>> 12 <<< 13 ||| UInt32.ofInt (toI ((d &&& 1) <<< 12)) ||| exp &&& 4095))
      <<< 46
  else UInt64.ofInt (toI (exp >>> 12 <<< 15 ||| UInt32.ofInt (toI (d <<< 12)) ||| exp &&& 4095)) <<< 46

theorem combWord_toNat (exp : UInt32) (d : UInt64) (hE : exp.toNat < 12288) (hd : d.toNat < 10) :
    (combWord exp d).toNat = comb17 exp.toNat d.toNat * 2^46 := by
  unfold combWord comb17
  by_cases h8 : d ≥ 8
  · have h8' : d.toNat ≥ 8 := h8
    rw [if_pos h8, if_pos h8']
    simp only [toI_u32, toI_u64, UInt64.toNat_shiftLeft, u64_ofInt_nat, UInt32.toNat_or, UInt32.toNat_and,
      UInt32.toNat_shiftLeft, UInt32.toNat_shiftRight, u32_ofInt_nat, UInt64.toNat_and, UInt32.toNat_ofNat,
      UInt64.toNat_ofNat, Nat.shiftRight_eq_div_pow, Nat.shiftLeft_eq, Nat.reduceMod, Nat.reducePow]
    rw [and_low _ 1 1 (by decide), and_low _ 4095 12 (by decide)]
    generalize exp.toNat = E at hE ⊢
    generalize d.toNat = n at hd h8' ⊢
    have a1 : 98304 ||| E / 4096 * 8192 % 4294967296 = 98304 + E / 4096 * 8192 := by
      rw [Nat.mod_eq_of_lt (by omega)]; exact or_disj _ _ 32768 15 (by decide) (by omega) (by omega)
    have a2 : (98304 + E / 4096 * 8192) ||| n % 2 ^ 1 * 4096 % 18446744073709551616 % 4294967296
        = 98304 + E / 4096 * 8192 + n % 2 * 4096 := by
      rw [show n % 2 ^ 1 * 4096 % 18446744073709551616 % 4294967296 = n % 2 * 4096 by omega]
      exact or_disj _ _ 8192 13 (by decide) (by omega) (by omega)
    have a3 : (98304 + E / 4096 * 8192 + n % 2 * 4096) ||| E % 2 ^ 12
        = 98304 + E / 4096 * 8192 + n % 2 * 4096 + E % 4096 := by
      rw [show E % 2 ^ 12 = E % 4096 by omega]
      exact or_disj _ _ 4096 12 (by decide) (by omega) (by omega)
    rw [a1, a2, a3]
    omega
  · have h8' : ¬ d.toNat ≥ 8 := h8
    rw [if_neg h8, if_neg h8']
    simp only [toI_u32, toI_u64, UInt64.toNat_shiftLeft, u64_ofInt_nat, UInt32.toNat_or, UInt32.toNat_and,
      UInt32.toNat_shiftLeft, UInt32.toNat_shiftRight, u32_ofInt_nat, UInt64.toNat_and, UInt32.toNat_ofNat,
      UInt64.toNat_ofNat, Nat.shiftRight_eq_div_pow, Nat.shiftLeft_eq, Nat.reduceMod, Nat.reducePow]
    rw [and_low _ 4095 12 (by decide)]
    generalize exp.toNat = E at hE ⊢
    generalize d.toNat = n at hd h8' ⊢
    have a1 : E / 4096 * 32768 % 4294967296 ||| n * 4096 % 18446744073709551616 % 4294967296
        = E / 4096 * 32768 + n * 4096 := by
      rw [Nat.mod_eq_of_lt (show E / 4096 * 32768 < 4294967296 by omega),
        show n * 4096 % 18446744073709551616 % 4294967296 = n * 4096 by omega]
      exact or_disj _ _ 32768 15 (by decide) (by omega) (by omega)
    have a2 : (E / 4096 * 32768 + n * 4096) ||| E % 2 ^ 12 = E / 4096 * 32768 + n * 4096 + E % 4096 := by
      rw [show E % 2 ^ 12 = E % 4096 by omega]
      exact or_disj _ _ 4096 12 (by decide) (by omega) (by omega)
    rw [a1, a2]
    omega

/-- the high word of a finite result of the encoder: sign ||| 17 combination/exponent bits ||| declets -/
theorem enc_fin_result (sg CW : UInt64) (D s K : Nat) (hs : sg.toNat = s * 2^63) (hs2 : s < 2)
    (hCW : CW.toNat = K * 2^46) (hK : K < 2^17) (hD : D < 2^110) :
    bitsOf ⟨UInt64.ofNat D, (sg ||| CW ||| UInt64.ofNat (D / 2^64)) ||| 0⟩ = s * 2^127 + K * 2^110 + D := by
  simp only [bitsOf]
  bits_norm
  simp only [UInt64.toNat_ofNat', Nat.or_zero]
  simp only [Nat.reducePow] at *
  have h2 : s * 9223372036854775808 ||| K * 70368744177664 = s * 9223372036854775808 + K * 70368744177664 :=
    or_disj _ _ 9223372036854775808 63 (by decide) (by omega) (by omega)
  have h3 : (s * 9223372036854775808 + K * 70368744177664) ||| D / 18446744073709551616 % 18446744073709551616
      = (s * 9223372036854775808 + K * 70368744177664) + D / 18446744073709551616 % 18446744073709551616 :=
    or_disj _ _ 70368744177664 46 (by decide) (by omega) (by omega)
  rw [hs, hCW, h2, h3]
  omega

/-- the high word of a NaN result of the encoder (`CW = 0`: exponent and leading digit are zero) -/
theorem enc_nan_result (X1 D : Nat) (sg CW nb : UInt64) (hs : sg.toNat = X1 / 2^63 % 2 * 2^63) (hCW : CW.toNat = 0)
    (hn : nb.toNat = X1 / 2^57 % 2^7 * 2^57) (hD : D < 2^110) :
    bitsOf ⟨UInt64.ofNat D, (sg ||| CW ||| UInt64.ofNat (D / 2^64)) ||| nb⟩ = X1 / 2^57 % 2^7 * 2^121 + D := by
  simp only [bitsOf]
  bits_norm
  simp only [UInt64.toNat_ofNat', hCW, Nat.or_zero]
  rw [hs, hn, or3 _ _ _ (or_sign_nan _), or_disj' _ _ 144115188075855872 57 (by decide) (by omega) (by omega)]
  omega

theorem comb17_lt (E d0 : Nat) (hE : E < 12288) (hd : d0 < 10) : comb17 E d0 < 2^17 := by
  unfold comb17; split <;> omega

/-- `hi:lo` compared with a 128-bit constant the way the encoder does it -/
theorem ge128 (t : U128) (h1 h0 : UInt64) :
    (decide (t.w1 > h1) || t.w1 == h1 && decide (t.w0 ≥ h0)) = decide (bitsOf t ≥ h1.toNat * 2^64 + h0.toNat) := by
  have a0 := t.w0.toNat_lt; have b0 := h0.toNat_lt
  rw [u64_beq]
  have e1 : (t.w1 > h1) = (t.w1.toNat > h1.toNat) := rfl
  have e2 : (t.w0 ≥ h0) = (t.w0.toNat ≥ h0.toNat) := rfl
  rw [Bool.eq_iff_iff, decide_eq_true_iff]
  simp only [e1, e2, bitsOf, Bool.or_eq_true, Bool.and_eq_true, decide_eq_true_eq]
  omega

/-- the leading digit: the eleventh quotient by 1000 -/
theorem b1_digit (b1 : U128) (c : Nat) (hc : c < P34)
    (n1 : bitsOf b1 = c / 1000 / 1000 / 1000 / 1000 / 1000 / 1000 / 1000 / 1000 / 1000 / 1000 / 1000) :
    b1.w0 = UInt64.ofNat (c / P33) := by
  apply UInt64.toNat_inj.mp
  have h0 := b1.w0.toNat_lt
  have h1 : c / 1000 / 1000 / 1000 / 1000 / 1000 / 1000 / 1000 / 1000 / 1000 / 1000 / 1000 = c / P33 := by
    simp only [Nat.div_div_eq_div_mul, P33]
  rw [h1] at n1
  have h2 : c / P33 < 10 := by simp only [P33, P34] at hc ⊢; omega
  rw [UInt64.toNat_ofNat', Nat.mod_eq_of_lt (by omega), ← n1]
  unfold bitsOf at n1 ⊢
  omega

theorem dcoeff_declets (c : Nat) (e1 e2 e3 e4 e5 e6 e7 e8 e9 e10 e11 : UInt64)
    (v11 : e11.toNat = declEnc (c % 1000))
    (v10 : e10.toNat = declEnc (c / 1000 % 1000))
    (v9 : e9.toNat = declEnc (c / 1000 / 1000 % 1000))
    (v8 : e8.toNat = declEnc (c / 1000 / 1000 / 1000 % 1000))
    (v7 : e7.toNat = declEnc (c / 1000 / 1000 / 1000 / 1000 % 1000))
    (v6 : e6.toNat = declEnc (c / 1000 / 1000 / 1000 / 1000 / 1000 % 1000))
    (v5 : e5.toNat = declEnc (c / 1000 / 1000 / 1000 / 1000 / 1000 / 1000 % 1000))
    (v4 : e4.toNat = declEnc (c / 1000 / 1000 / 1000 / 1000 / 1000 / 1000 / 1000 % 1000))
    (v3 : e3.toNat = declEnc (c / 1000 / 1000 / 1000 / 1000 / 1000 / 1000 / 1000 / 1000 % 1000))
    (v2 : e2.toNat = declEnc (c / 1000 / 1000 / 1000 / 1000 / 1000 / 1000 / 1000 / 1000 / 1000 % 1000))
    (v1 : e1.toNat = declEnc (c / 1000 / 1000 / 1000 / 1000 / 1000 / 1000 / 1000 / 1000 / 1000 / 1000 % 1000)) :
    e11 ||| e10 <<< 10 ||| e9 <<< 20 ||| e8 <<< 30 ||| e7 <<< 40 ||| e6 <<< 50 ||| e5 <<< 60
        = UInt64.ofNat (declets 11 c) ∧
      e5 >>> 4 ||| e4 <<< 6 ||| e3 <<< 16 ||| e2 <<< 26 ||| e1 <<< 36 = UInt64.ofNat (declets 11 c / 2^64) := by
  have hlt : ∀ n, declEnc (n % 1000) < 1024 := fun n => Dec.C19.declEnc_lt' _ (Nat.mod_lt _ (by decide))
  have hdc := dcoeff_value e1 e2 e3 e4 e5 e6 e7 e8 e9 e10 e11
    (by rw [v1]; exact hlt _) (by rw [v2]; exact hlt _) (by rw [v3]; exact hlt _) (by rw [v4]; exact hlt _)
    (by rw [v5]; exact hlt _) (by rw [v6]; exact hlt _) (by rw [v7]; exact hlt _) (by rw [v8]; exact hlt _)
    (by rw [v9]; exact hlt _) (by rw [v10]; exact hlt _) (by rw [v11]; exact hlt _)
  have hD : declets 11 c = e11.toNat + 1024 * (e10.toNat + 1024 * (e9.toNat + 1024 * (e8.toNat + 1024 * (e7.toNat
      + 1024 * (e6.toNat + 1024 * (e5.toNat + 1024 * (e4.toNat + 1024 * (e3.toNat + 1024 * (e2.toNat
      + 1024 * e1.toNat))))))))) := by
    simp only [declets, v1, v2, v3, v4, v5, v6, v7, v8, v9, v10, v11, Nat.mul_zero, Nat.add_zero]
  rw [← hD] at hdc
  have hdc' := eq_ofBits hdc
  exact ⟨congrArg U128.w0 hdc', congrArg U128.w1 hdc'⟩

theorem combWord_ge (exp : UInt32) (d : UInt64) (h : d ≥ 8) : combWord exp d =
    UInt64.ofInt (toI ((98304 : UInt32) ||| exp >>> 12 <<< 13 ||| UInt32.ofInt (toI ((d &&& 1) <<< 12)) ||| exp &&& 4095))
      <<< 46 := if_pos h

theorem combWord_lt (exp : UInt32) (d : UInt64) (h : ¬ d ≥ 8) : combWord exp d =
    UInt64.ofInt (toI (exp >>> 12 <<< 15 ||| UInt32.ofInt (toI (d <<< 12)) ||| exp &&& 4095)) <<< 46 := if_neg h

/-- the same 17 bits as the encoder holds them (a `u32`) -/
abbrev cmb32 (x : U128) : UInt32 := UInt32.ofInt (toI (cmb x))

section EncFields
variable (x : U128)

theorem fld_comb32 : (cmb32 x).toNat = bitsOf x / 2^110 % 2^17 := by
  unfold cmb32
  rw [toI_u64, u32_ofInt_nat, fld_comb]; omega

theorem cmb32_c5 : (cmb32 x &&& 126976).toNat = bitsOf x / 2^122 % 32 * 4096 := by
  rw [UInt32.toNat_and, fld_comb32]; bits_norm; rw [and_mask' _ 126976 12 5 (by decide)]; omega

theorem cond30' : (cmb32 x &&& 126976 == 122880) = decide (bitsOf x / 2^122 % 32 = 30) := by
  rw [u32_beq, cmb32_c5]; simp only [UInt32.toNat_ofNat, Nat.reduceMod, Nat.reducePow]
  apply decide_eq_decide.mpr; omega

theorem cond31' : (cmb32 x &&& 126976 == 126976) = decide (bitsOf x / 2^122 % 32 = 31) := by
  rw [u32_beq, cmb32_c5]; simp only [UInt32.toNat_ofNat, Nat.reduceMod, Nat.reducePow]
  apply decide_eq_decide.mpr; omega

theorem cond24' : (cmb32 x &&& 98304 == 98304) = decide (24 ≤ bitsOf x / 2^122 % 32) := by
  rw [u32_beq, UInt32.toNat_and, fld_comb32]; bits_norm; rw [and_mask' _ 98304 15 2 (by decide)]
  apply decide_eq_decide.mpr; omega

/-- biased exponent of the large-coefficient (`11…`) BID form: bits 124..111 -/
theorem exphi32_val : (cmb32 x >>> 1 &&& 16383).toNat = bitsOf x / 2^111 % 2^14 := by
  rw [UInt32.toNat_and, UInt32.toNat_shiftRight, fld_comb32]; bits_norm
  rw [and_low _ 16383 14 (by decide)]; omega

/-- biased exponent of the ordinary BID form: bits 126..113 -/
theorem explo32_val : (cmb32 x >>> 3 &&& 16383).toNat = bitsOf x / 2^113 % 2^14 := by
  rw [UInt32.toNat_and, UInt32.toNat_shiftRight, fld_comb32]; bits_norm
  rw [and_low _ 16383 14 (by decide)]; omega

/-- coefficient field of the large-coefficient BID form: `100x` followed by the 110 trailing bits (always ≥ 2^113) -/
theorem bchi_val : bitsOf ⟨x.w0, UInt64.ofInt (toI (8 + (cmb32 x &&& 1))) <<< 46 ||| (x.w1 &&& 70368744177663)⟩
    = (8 + bitsOf x / 2^110 % 2) * 2^110 + bitsOf x % 2^110 := by
  have hX1 := x.w1.toNat_lt; have hX0 := x.w0.toNat_lt
  unfold bitsOf
  have h1 : (8 + (cmb32 x &&& 1)).toNat = 8 + x.w1.toNat / 2^46 % 2 := by
    rw [UInt32.toNat_add, UInt32.toNat_and, fld_comb32]; bits_norm; rw [and_low _ 1 1 (by decide)]
    unfold bitsOf; omega
  rw [UInt64.toNat_or, UInt64.toNat_shiftLeft, toI_u32, u64_ofInt_nat, h1, UInt64.toNat_and]
  bits_norm
  rw [and_low _ 70368744177663 46 (by decide)]
  rw [show (8 + x.w1.toNat / 70368744177664 % 2) % 18446744073709551616 * 70368744177664 % 18446744073709551616
      = (8 + x.w1.toNat / 70368744177664 % 2) * 70368744177664 by omega,
    or_disj _ _ 70368744177664 46 (by decide) (by omega) (by omega)]
  omega

/-- coefficient field of the ordinary BID form: the low 113 bits -/
theorem bclo_val : bitsOf ⟨x.w0, UInt64.ofInt (toI (cmb32 x &&& 7)) <<< 46 ||| (x.w1 &&& 70368744177663)⟩
    = bitsOf x % 2^113 := by
  have hX1 := x.w1.toNat_lt; have hX0 := x.w0.toNat_lt
  unfold bitsOf
  have h1 : (cmb32 x &&& 7).toNat = x.w1.toNat / 2^46 % 8 := by
    rw [UInt32.toNat_and, fld_comb32]; bits_norm; rw [and_low _ 7 3 (by decide)]
    unfold bitsOf; omega
  rw [UInt64.toNat_or, UInt64.toNat_shiftLeft, toI_u32, u64_ofInt_nat, h1, UInt64.toNat_and]
  bits_norm
  rw [and_low _ 70368744177663 46 (by decide)]
  rw [show x.w1.toNat / 70368744177664 % 8 % 18446744073709551616 * 70368744177664 % 18446744073709551616
      = x.w1.toNat / 70368744177664 % 8 * 70368744177664 by omega,
    or_disj _ _ 70368744177664 46 (by decide) (by omega) (by omega)]
  omega

end EncFields

theorem ge128_P33 (t : U128) : (decide (t.w1 > 54210108624275) || t.w1 == 54210108624275
    && decide (t.w0 ≥ 4089650035136921600)) = decide (bitsOf t ≥ P33) := ge128 t _ _

theorem ge128_P34 (t : U128) : (decide (t.w1 > 542101086242752) || t.w1 == 542101086242752
    && decide (t.w0 ≥ 4003012203950112768)) = decide (bitsOf t ≥ P34) := ge128 t _ _


open Dec.C19RoundTrip in
/-- the infinity branch of the encoder -/
theorem enc_inf_case (x : U128) (h30 : bitsOf x / 2^122 % 32 = 30) :
    bitsOf ⟨0, x.w1 &&& 17870283321406128128⟩ = toDpd (bitsOf x) := by
  rw [toDpd_eq, decode_inf _ (by omega) (by omega)]
  exact inf_case x h30

open Dec.C19RoundTrip in
/-- the NaN branch of the encoder -/
theorem enc_nan_case (x : U128) (h31 : bitsOf x / 2^122 % 32 = 31) (c : Nat)
    (hc : c = if bitsOf x % 2^110 < P33 then bitsOf x % 2^110 else 0) :
    bitsOf ⟨UInt64.ofNat (declets 11 c), ((x.w1 &&& 9223372036854775808) ||| combWord 0 (UInt64.ofNat (c / P33))
        ||| UInt64.ofNat (declets 11 c / 2^64)) ||| (x.w1 &&& 18302628885633695744)⟩ = toDpd (bitsOf x) := by
  have := bitsOf_lt x
  have hcl : c < P33 := by rw [hc]; split <;> simp only [P33] at * <;> omega
  have hs : (x.w1 &&& 9223372036854775808).toNat = (bitsOf x / 2^64) / 2^63 % 2 * 2^63 := by
    rw [fld_sign]; omega
  have hn : (x.w1 &&& 18302628885633695744).toNat = (bitsOf x / 2^64) / 2^57 % 2^7 * 2^57 := by
    rw [fld_nanb]; omega
  have hcw : (combWord 0 (UInt64.ofNat (c / P33))).toNat = 0 := by
    rw [Nat.div_eq_of_lt hcl]; rfl
  rw [enc_nan_result (bitsOf x / 2^64) _ _ _ _ hs hcw hn (declets11_lt c), toDpd_eq,
    decode_nan _ (by omega) (by omega), ← hc]
  simp only [dpdOf, signBit_beq, ite_bit]
  omega

open Dec.C19RoundTrip in
/-- a finite result of the encoder -/
theorem enc_fin_case (x : U128) (exp : UInt32) (E c : Nat) (hexp : exp.toNat = E) (hE : E < 12288) (hc : c < P34) :
    bitsOf ⟨UInt64.ofNat (declets 11 c), ((x.w1 &&& 9223372036854775808) ||| combWord exp (UInt64.ofNat (c / P33))
        ||| UInt64.ofNat (declets 11 c / 2^64)) ||| 0⟩
      = dpdOf (.fin (bitsOf x / 2^127 % 2 == 1) c ((E : Int) - 6176)) := by
  have hd : c / P33 < 10 := by simp only [P33, P34] at hc ⊢; omega
  have hd' : (UInt64.ofNat (c / P33)).toNat = c / P33 := by
    rw [UInt64.toNat_ofNat', Nat.mod_eq_of_lt (by omega)]
  have hcw := combWord_toNat exp (UInt64.ofNat (c / P33)) (by omega) (by omega)
  rw [hd', hexp] at hcw
  rw [enc_fin_result _ _ _ (bitsOf x / 2^127 % 2) _ (fld_sign x) (by omega) hcw (comb17_lt _ _ hE hd) (declets11_lt c)]
  simp only [dpdOf, signBit_beq, toNat_bias, declets11_mod]
  unfold comb17
  generalize c / P33 = d0 at hd ⊢
  generalize declets 11 c = D
  split <;> omega

/-- **BID → DPD, the translated routine.**  For every 128-bit pattern `x` (canonical or not), `bid_to_dpd128 x` returns
(never panics) the DPD word `Dec.toDpd (bitsOf x)` of the datum `x` denotes: non-canonical finite encodings become the zero
of the same sign and exponent, NaN payloads ≥ 10^33 become 0, the junk bits of infinities / NaNs are dropped. -/
theorem bid_to_dpd128_eq (x : U128) : bid_to_dpd128 x = .ok (ofBits (toDpd (bitsOf x))) := by
  unfold bid_to_dpd128
  extract_lets ba res comb0 nanb0 sign1 sign comb tr1 trailing t2 d1000a d1000 jp res1 resInf nanb exp0 jpNan trz1 trz
    jpFin exphi bchi1 bchi explo bclo1 bclo
  have hT : ∀ (res : U128) (exp : UInt32) (trailing bcoeff : U128) (nanb : UInt64), bitsOf bcoeff < P34 →
      jp () res exp trailing bcoeff nanb = .ok ⟨UInt64.ofNat (declets 11 (bitsOf bcoeff)),
        (sign.w1 ||| combWord exp (UInt64.ofNat (bitsOf bcoeff / P33))
          ||| UInt64.ofNat (declets 11 (bitsOf bcoeff) / 2^64)) ||| nanb⟩ := by
    intro res exp trailing bcoeff nanb hc
    simp only [jp]
    have hc' : bitsOf bcoeff < 2^113 := by simp only [P34] at hc; omega
    generalize hcc : bitsOf bcoeff = c at hc hc'
    refine bind_ok' (mulhi_d1000 _ (by omega)) ?_; intro b11 h; have n11 := mulhi_step hcc hc' h; clear h
    refine bind_ok' (mulhi_d1000 _ (by omega)) ?_; intro b10 h; have n10 := mulhi_step n11 (by omega) h; clear h
    refine bind_ok' (mulhi_d1000 _ (by omega)) ?_; intro b9 h; have n9 := mulhi_step n10 (by omega) h; clear h
    refine bind_ok' (mulhi_d1000 _ (by omega)) ?_; intro b8 h; have n8 := mulhi_step n9 (by omega) h; clear h
    refine bind_ok' (mulhi_d1000 _ (by omega)) ?_; intro b7 h; have n7 := mulhi_step n8 (by omega) h; clear h
    refine bind_ok' (mulhi_d1000 _ (by omega)) ?_; intro b6 h; have n6 := mulhi_step n7 (by omega) h; clear h
    refine bind_ok' (mulhi_d1000 _ (by omega)) ?_; intro b5 h; have n5 := mulhi_step n6 (by omega) h; clear h
    refine bind_ok' (mulhi_d1000 _ (by omega)) ?_; intro b4 h; have n4 := mulhi_step n5 (by omega) h; clear h
    refine bind_ok' (mulhi_d1000 _ (by omega)) ?_; intro b3 h; have n3 := mulhi_step n4 (by omega) h; clear h
    refine bind_ok' (mulhi_d1000 _ (by omega)) ?_; intro b2 h; have n2 := mulhi_step n3 (by omega) h; clear h
    refine bind_ok' (mulhi_d1000 _ (by omega)) ?_; intro b1 h; have n1 := mulhi_step n2 (by omega) h; clear h
    refine bind_ok' (mul_64x128_full_eq _ _) ?_; intro p hp
    refine bind_ok' (sub_128_128_eq _ _) ?_; intro d11 hd
    have g11 := digit_step hcc n11 hc' hp hd; clear hp hd p
    refine bind_ok' (mul_64x128_full_eq _ _) ?_; intro p hp
    refine bind_ok' (sub_128_128_eq _ _) ?_; intro d10 hd
    have g10 := digit_step n11 n10 (by omega) hp hd; clear hp hd p
    refine bind_ok' (mul_64x128_full_eq _ _) ?_; intro p hp
    refine bind_ok' (sub_128_128_eq _ _) ?_; intro d9 hd
    have g9 := digit_step n10 n9 (by omega) hp hd; clear hp hd p
    refine bind_ok' (mul_64x128_full_eq _ _) ?_; intro p hp
    refine bind_ok' (sub_128_128_eq _ _) ?_; intro d8 hd
    have g8 := digit_step n9 n8 (by omega) hp hd; clear hp hd p
    refine bind_ok' (mul_64x128_full_eq _ _) ?_; intro p hp
    refine bind_ok' (sub_128_128_eq _ _) ?_; intro d7 hd
    have g7 := digit_step n8 n7 (by omega) hp hd; clear hp hd p
    refine bind_ok' (mul_64x128_full_eq _ _) ?_; intro p hp
    refine bind_ok' (sub_128_128_eq _ _) ?_; intro d6 hd
    have g6 := digit_step n7 n6 (by omega) hp hd; clear hp hd p
    refine bind_ok' (mul_64x128_full_eq _ _) ?_; intro p hp
    refine bind_ok' (sub_128_128_eq _ _) ?_; intro d5 hd
    have g5 := digit_step n6 n5 (by omega) hp hd; clear hp hd p
    refine bind_ok' (mul_64x128_full_eq _ _) ?_; intro p hp
    refine bind_ok' (sub_128_128_eq _ _) ?_; intro d4 hd
    have g4 := digit_step n5 n4 (by omega) hp hd; clear hp hd p
    refine bind_ok' (mul_64x128_full_eq _ _) ?_; intro p hp
    refine bind_ok' (sub_128_128_eq _ _) ?_; intro d3 hd
    have g3 := digit_step n4 n3 (by omega) hp hd; clear hp hd p
    refine bind_ok' (mul_64x128_full_eq _ _) ?_; intro p hp
    refine bind_ok' (sub_128_128_eq _ _) ?_; intro d2 hd
    have g2 := digit_step n3 n2 (by omega) hp hd; clear hp hd p
    refine bind_ok' (mul_64x128_full_eq _ _) ?_; intro p hp
    refine bind_ok' (sub_128_128_eq _ _) ?_; intro d1 hd
    have g1 := digit_step n2 n1 (by omega) hp hd; clear hp hd p
    refine bind_ok' (tbl_B2D' g11) ?_; intro e11 he; have v11 := b2d_step g11 he; clear he
    refine bind_ok' (tbl_B2D' g10) ?_; intro e10 he; have v10 := b2d_step g10 he; clear he
    refine bind_ok' (tbl_B2D' g9) ?_; intro e9 he; have v9 := b2d_step g9 he; clear he
    refine bind_ok' (tbl_B2D' g8) ?_; intro e8 he; have v8 := b2d_step g8 he; clear he
    refine bind_ok' (tbl_B2D' g7) ?_; intro e7 he; have v7 := b2d_step g7 he; clear he
    refine bind_ok' (tbl_B2D' g6) ?_; intro e6 he; have v6 := b2d_step g6 he; clear he
    refine bind_ok' (tbl_B2D' g5) ?_; intro e5 he; have v5 := b2d_step g5 he; clear he
    refine bind_ok' (tbl_B2D' g5) ?_; intro e5' he; have v5' := b2d_step g5 he; clear he
    refine bind_ok' (tbl_B2D' g4) ?_; intro e4 he; have v4 := b2d_step g4 he; clear he
    refine bind_ok' (tbl_B2D' g3) ?_; intro e3 he; have v3 := b2d_step g3 he; clear he
    refine bind_ok' (tbl_B2D' g2) ?_; intro e2 he; have v2 := b2d_step g2 he; clear he
    refine bind_ok' (tbl_B2D' g1) ?_; intro e1 he; have v1 := b2d_step g1 he; clear he
    have he5 : e5' = e5 := UInt64.toNat_inj.mp (v5'.trans v5.symm)
    have hb1 := b1_digit b1 c hc n1
    obtain ⟨hw0, hw1⟩ := dcoeff_declets c e1 e2 e3 e4 e5 e6 e7 e8 e9 e10 e11 v11 v10 v9 v8 v7 v6 v5 v4 v3 v2 v1
    rw [he5, hw0, hw1, hb1]
    by_cases h8 : UInt64.ofNat (c / P33) ≥ 8
    · rw [if_pos (decide_eq_true h8), combWord_ge _ _ h8]; rfl
    · rw [if_neg (by simpa using h8), combWord_lt _ _ h8]; rfl
  clear_value jp
  simp only [jpNan, jpFin]
  have hc30 : (comb &&& 126976 == 122880) = _ := cond30' x
  have hc31 : (comb &&& 126976 == 126976) = _ := cond31' x
  have hc24 : (comb &&& 98304 == 98304) = _ := cond24' x
  rw [hc30, hc31, hc24, ge128_P33, ge128_P34, ge128_P34]
  clear hc30 hc31 hc24
  have htr : bitsOf trailing = bitsOf x % 2^110 := fld_trailing x
  have hz : bitsOf (⟨0, 0⟩ : U128) = 0 := rfl
  by_cases h30 : bitsOf x / 2^122 % 32 = 30
  · rw [if_pos (decide_eq_true h30)]
    exact congrArg Except.ok (eq_ofBits (enc_inf_case x h30))
  rw [if_neg (by simpa using h30)]
  by_cases h31 : bitsOf x / 2^122 % 32 = 31
  · rw [if_pos (decide_eq_true h31)]
    by_cases hp : bitsOf trailing ≥ P33
    · have hz' : bitsOf (⟨trz.w0, trz.w1⟩ : U128) = 0 := hz
      have hlt : bitsOf (⟨trz.w0, trz.w1⟩ : U128) < P34 := by rw [hz']; decide
      have hcc : bitsOf (⟨trz.w0, trz.w1⟩ : U128) = if bitsOf x % 2^110 < P33 then bitsOf x % 2^110 else 0 := by
        rw [← htr, if_neg (Nat.not_lt.mpr hp), hz']
      rw [if_pos (decide_eq_true hp), hT _ _ _ _ _ hlt]
      exact congrArg Except.ok (eq_ofBits (enc_nan_case x h31 _ hcc))
    · have hp' : bitsOf trailing < P33 := Nat.lt_of_not_le hp
      have hlt : bitsOf (⟨trailing.w0, trailing.w1⟩ : U128) < P34 :=
        Nat.lt_trans hp' (by decide)
      have hcc : bitsOf (⟨trailing.w0, trailing.w1⟩ : U128)
          = if bitsOf x % 2^110 < P33 then bitsOf x % 2^110 else 0 := by
        rw [← htr, if_pos hp']
      rw [if_neg (by simpa using hp), hT _ _ _ _ _ hlt]
      exact congrArg Except.ok (eq_ofBits (enc_nan_case x h31 _ hcc))
  rw [if_neg (by simpa using h31), Dec.C19RoundTrip.toDpd_eq]
  by_cases h24 : 24 ≤ bitsOf x / 2^122 % 32
  · have hb : bitsOf bchi = _ := bchi_val x
    have he : exphi.toNat = _ := exphi32_val x
    have hp : bitsOf bchi ≥ P34 := by rw [hb]; simp only [P34]; omega
    rw [if_pos (decide_eq_true h24), if_pos (decide_eq_true hp), hT _ _ _ _ _ (by decide),
      decode_large _ (by omega) (by omega)]
    refine congrArg Except.ok (eq_ofBits ?_)
    exact enc_fin_case x _ _ _ he (by omega) (by decide)
  · have hb : bitsOf bclo = _ := bclo_val x
    have he : explo.toNat = _ := explo32_val x
    rw [if_neg (by simpa using h24), decode_small _ (by omega) (by omega)]
    by_cases hp : bitsOf bclo ≥ P34
    · rw [if_pos (decide_eq_true hp), hT _ _ _ _ _ (by decide), if_neg (by rw [← hb]; omega)]
      refine congrArg Except.ok (eq_ofBits ?_)
      exact enc_fin_case x _ _ _ he (by omega) (by decide)
    · rw [if_neg (by simpa using hp), hT _ _ _ _ _ (by omega), if_pos (by rw [← hb]; omega), ← hb]
      refine congrArg Except.ok (eq_ofBits ?_)
      exact enc_fin_case x _ _ _ he (by omega) (by omega)

/-! ## 6. Statements in the `bitsOf r = spec (bitsOf x)` form, and what the spec-level round-trip theorems give for the code -/

open Dec.C19RoundTrip

theorem fromDpd_lt (w : Nat) : fromDpd w < 2^128 := by
  rw [fromDpd_eq]; exact encode_lt (dpdDatum_WF w)

/-- BID → DPD (code): total, and the result is the spec-level DPD word of the argument -/
theorem bid_to_dpd128_spec (x : U128) : ∃ r, bid_to_dpd128 x = .ok r ∧ bitsOf r = toDpd (bitsOf x) :=
  ⟨_, bid_to_dpd128_eq x, bitsOf_ofBits_of_lt (toDpd_lt _)⟩

/-- DPD → BID (code): total, and the result is the spec-level BID pattern of the argument -/
theorem bid_dpd_to_bid128_spec (x : U128) : ∃ r, bid_dpd_to_bid128 x = .ok r ∧ bitsOf r = fromDpd (bitsOf x) :=
  ⟨_, bid_dpd_to_bid128_eq x, bitsOf_ofBits_of_lt (fromDpd_lt _)⟩

/-- the encoder never changes the datum: its result, read as a DPD word, denotes what the BID argument denoted -/
theorem bid_to_dpd128_datum (x r : U128) (h : bid_to_dpd128 x = .ok r) : dpdDatum (bitsOf r) = decode (bitsOf x) := by
  rw [bid_to_dpd128_eq] at h; cases h
  rw [bitsOf_ofBits_of_lt (toDpd_lt _), dpdDatum_toDpd]

/-- the decoder never changes the datum: its result decodes to what the DPD argument denoted -/
theorem bid_dpd_to_bid128_datum (x r : U128) (h : bid_dpd_to_bid128 x = .ok r) :
    decode (bitsOf r) = dpdDatum (bitsOf x) := by
  rw [bid_dpd_to_bid128_eq] at h; cases h
  rw [bitsOf_ofBits_of_lt (fromDpd_lt _), decode_fromDpd]

/-- the encoder always produces a canonical DPD word (no redundant declet, no junk bits) -/
theorem bid_to_dpd128_canonical (x r : U128) (h : bid_to_dpd128 x = .ok r) : DpdCanonical (bitsOf r) := by
  rw [bid_to_dpd128_eq] at h; cases h
  rw [bitsOf_ofBits_of_lt (toDpd_lt _)]; exact toDpd_canonical _

/-- the decoder always produces a canonical BID pattern -/
theorem bid_dpd_to_bid128_canonical (x r : U128) (h : bid_dpd_to_bid128 x = .ok r) : isCanonical (bitsOf r) = true := by
  rw [bid_dpd_to_bid128_eq] at h; cases h
  rw [bitsOf_ofBits_of_lt (fromDpd_lt _)]; exact fromDpd_canonical _

/-- **Round trip BID → DPD → BID (code).**  For every pattern the two translated routines compose (no panic) to the
canonical BID pattern of the same datum. -/
theorem roundtrip_bid (x : U128) :
    (bid_to_dpd128 x >>= bid_dpd_to_bid128) = .ok (ofBits (canon (bitsOf x))) := by
  rw [bid_to_dpd128_eq, ok_bind, bid_dpd_to_bid128_eq, bitsOf_ofBits_of_lt (toDpd_lt _), fromDpd_toDpd]

/-- … so on a canonical BID pattern the round trip is the identity -/
theorem roundtrip_bid_of_canonical (x : U128) (h : isCanonical (bitsOf x) = true) :
    (bid_to_dpd128 x >>= bid_dpd_to_bid128) = .ok x := by
  rw [roundtrip_bid, ((isCanonical_iff _).1 h).2, ofBits_bitsOf]

/-- **Round trip DPD → BID → DPD (code)** is the identity on canonical DPD words -/
theorem roundtrip_dpd_of_canonical (w : U128) (h : DpdCanonical (bitsOf w)) :
    (bid_dpd_to_bid128 w >>= bid_to_dpd128) = .ok w := by
  rw [bid_dpd_to_bid128_eq, ok_bind, bid_to_dpd128_eq, bitsOf_ofBits_of_lt (fromDpd_lt _), toDpd_fromDpd h,
    ofBits_bitsOf]

/-- … and on an arbitrary word it yields the canonical DPD word of the same datum -/
theorem roundtrip_dpd (w : U128) :
    (bid_dpd_to_bid128 w >>= bid_to_dpd128) = .ok (ofBits (toDpd (fromDpd (bitsOf w)))) := by
  rw [bid_dpd_to_bid128_eq, ok_bind, bid_to_dpd128_eq, bitsOf_ofBits_of_lt (fromDpd_lt _)]

/-- the encoder is injective on canonical BID patterns -/
theorem bid_to_dpd128_injective (x y : U128) (hx : isCanonical (bitsOf x) = true) (hy : isCanonical (bitsOf y) = true)
    (h : bid_to_dpd128 x = bid_to_dpd128 y) : x = y := by
  rw [bid_to_dpd128_eq, bid_to_dpd128_eq] at h
  have h' := congrArg (fun r => match r with | Except.ok v => bitsOf v | Except.error _ => 0) h
  simp only [bitsOf_ofBits_of_lt (toDpd_lt _)] at h'
  have := toDpd_injective hx hy h'
  rw [← ofBits_bitsOf x, ← ofBits_bitsOf y, this]

/-! ### Non-vacuity: the theorems instantiated on concrete inputs -/

-- the largest finite number 9.99…9E+6144, both ways
example : bid_to_dpd128 ⟨0x378D8E63FFFFFFFF, 0x5FFFED09BEAD87C0⟩ = .ok ⟨0xF3FCFF3FCFF3FCFF, 0x77FFCFF3FCFF3FCF⟩ :=
  (bid_to_dpd128_eq _).trans (congrArg Except.ok (by decide +kernel))
example : bid_dpd_to_bid128 ⟨0xF3FCFF3FCFF3FCFF, 0x77FFCFF3FCFF3FCF⟩ = .ok ⟨0x378D8E63FFFFFFFF, 0x5FFFED09BEAD87C0⟩ :=
  (bid_dpd_to_bid128_eq _).trans (congrArg Except.ok (by decide +kernel))
-- −1024 is −"1 024" in DPD; a signalling NaN with payload 291
example : bid_to_dpd128 ⟨0x400, 0xB040000000000000⟩ = .ok ⟨0x424, 0xA208000000000000⟩ :=
  (bid_to_dpd128_eq _).trans (congrArg Except.ok (by decide +kernel))
example : bid_to_dpd128 ⟨0x123, 0xFE00000000000000⟩ = .ok ⟨0x11B, 0xFE00000000000000⟩ :=
  (bid_to_dpd128_eq _).trans (congrArg Except.ok (by decide +kernel))
-- a non-canonical BID pattern (large-coefficient form) comes back from the round trip as its canonical form (a zero)
example : (bid_to_dpd128 ⟨5, 0x6c00000000000000⟩ >>= bid_dpd_to_bid128) = .ok ⟨0, 0x3000000000000000⟩ :=
  (roundtrip_bid _).trans (congrArg Except.ok (by decide +kernel))
-- a canonical one comes back unchanged
example : (bid_to_dpd128 ⟨0x400, 0xB040000000000000⟩ >>= bid_dpd_to_bid128) = .ok ⟨0x400, 0xB040000000000000⟩ :=
  roundtrip_bid_of_canonical _ (by decide +kernel)
-- the redundant declet 0x16E (a second spelling of 888) is decoded, and re-encoded as the canonical 0x06E
example : bid_dpd_to_bid128 ⟨0x16E, 0x2208000000000000⟩ = .ok ⟨888, 0x3040000000000000⟩ :=
  (bid_dpd_to_bid128_eq _).trans (congrArg Except.ok (by decide +kernel))
example : (bid_dpd_to_bid128 ⟨0x16E, 0x2208000000000000⟩ >>= bid_to_dpd128) = .ok ⟨0x06E, 0x2208000000000000⟩ :=
  (roundtrip_dpd _).trans (congrArg Except.ok (by decide +kernel))
example : (bid_dpd_to_bid128 ⟨0x06E, 0x2208000000000000⟩ >>= bid_to_dpd128) = .ok ⟨0x06E, 0x2208000000000000⟩ :=
  roundtrip_dpd_of_canonical _ (by decide +kernel)
-- helper level: the reciprocal division and the exact products on concrete words
example : mul_128x128_high ⟨0x378D8E63FFFFFFFF, 0x1ED09BEAD87C0⟩ ⟨11363194349405083796, 18446744073709551⟩
    = .ok (ofBits (9999999999999999999999999999999999 / 1000)) := mulhi_d1000 _ (by decide +kernel)
example : mul_64x64_to_128 0xFFFFFFFFFFFFFFFF 0xFFFFFFFFFFFFFFFF = .ok ⟨1, 0xFFFFFFFFFFFFFFFE⟩ :=
  (mul_64x64_to_128_eq _ _).trans (congrArg Except.ok (by decide +kernel))

end Dec.C19GenDpd
