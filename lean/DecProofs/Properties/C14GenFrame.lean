/-
  C14 (generated-code level) — the FRAME property of the status word, for the routines of `DecGen/Code.lean` (the machine
  translation of the Rust source) that take and return it:

      Framed (fun pf => R args pf)  :=  ∀ f g,  R args (f ||| g) = (R args g).map (fun (r, h) => (r, f ||| h))

  i.e. the result does not depend on the incoming word, the outgoing word is the incoming one OR-ed with a set that does
  not depend on it, and neither does a panic.  With `g = 0` this is the form `R args f = (R args 0).map (fun (r, g) =>
  (r, f ||| g))` (`Framed.frame`, `frameLaw`).

  * §1: the property and its closure lemmas (let, if, join point, call, return, `for` loop, save/restore section).
  * §2: `frame_auto`, a metaprogram that proves `Framed (fun pf => R … pf)` by ONE pass over the translated `do` block of
    `R` — no functional specification, no case split on tests (each `if` is entered once per branch, join points and loops
    are generalised over their arguments / states), so the 2400-line `bid128_add` takes 8 s and the 3900-line
    `bid128_ext_fma` 15 s, kernel check included.  It keeps the invariant "all variables agree in the two runs except the
    word, where left = f ||| right" and never needs the value of anything.  The sub-goals it cannot discharge are
    genuine reads of the word (`is_inexact(*pfpsc)`) or shapes it does not know; it then fails with a message.
  * §3: the theorems — 100 routines: add, sub, mul, fma, ext_fma (which saves, clears and ORs back), div, sqrt, rem, fmod,
    quantize, the round-to-integral family, nearbyint, nextup/nextdown/nextafter/nexttoward (nextafter: save, two calls,
    restore), fdim, logb, ilogb, scalbn/ldexp/scalbln (wrappers), modf, quantexp/llquantexp, min/max (4), the 20
    comparison predicates, the 40 `to_(u)int{32,64}_*` conversions, lrint/llrint/lround/llround, `bid_add_and_round`,
    `bid_rounding_correction`.
  * §4: the exceptions, exactly.  `handle_UF_128`, `bid_handle_UF_128_rem` READ the incoming inexact bit; with them
    `bid_get_BID128` and the three `*_clear_status` routines.  For these `Framed` is FALSE (witnesses `…_not_framed`:
    incoming 0x20 gives outgoing 0x30 where the frame would give 0x20) and what holds is `FramedNI`: the frame for every
    extra word without the inexact flag (`…_frameNI`).  Their public callers `bid128_div`, `bid128_scalbn`, `bid128_ldexp`,
    `bid128_scalbln` run them from a clear word and OR — they are in §3.
  Imports nothing but `DecGen/Code.lean`.
-/
import Lean.Elab.Tactic
import DecGen.Code

namespace Dec.C14GenFrame
open Dec.Rs Dec.Gen.Code

/-! ## 1. The property, compositionally -/

/-- where the status word sits in a result: the last component of a (right-nested) tuple -/
class HasFlags (β : Type) where
  upd : (UInt32 → UInt32) → β → β

instance : HasFlags UInt32 := ⟨fun φ w => φ w⟩
instance {α β : Type} [HasFlags β] : HasFlags (α × β) := ⟨fun φ p => (p.1, HasFlags.upd φ p.2)⟩

/-- `B`, a computation as a function of the incoming status word, is framed — for the extra words `f` allowed by `P` — with
respect to the updater `U` (which says where status words sit in the result): running it from `f ||| g` is running it
from `g` and OR-ing `f` into the outgoing word(s); result and panics do not depend on `f`. -/
def FramedP {β : Type} (P : UInt32 → Prop) (U : (UInt32 → UInt32) → β → β) (B : UInt32 → Except String β) : Prop :=
  ∀ f g : UInt32, P f → B (f ||| g) = (B g).map (U (fun h => f ||| h))

/-- no restriction on the extra word -/
abbrev Any : UInt32 → Prop := fun _ => True

/-- the extra word does not contain the inexact flag -/
def NoInexact : UInt32 → Prop := fun f => f &&& c_StatusFlags_BID_INEXACT_EXCEPTION = 0

abbrev FramedU {β : Type} (U : (UInt32 → UInt32) → β → β) (B : UInt32 → Except String β) : Prop := FramedP Any U B

/-- THE FRAME PROPERTY of a routine whose result has the status word as last component -/
abbrev Framed {β : Type} [HasFlags β] (B : UInt32 → Except String β) : Prop := FramedP Any HasFlags.upd B

/-- the frame property for incoming words without the inexact flag -/
abbrev FramedNI {β : Type} [HasFlags β] (B : UInt32 → Except String β) : Prop := FramedP NoInexact HasFlags.upd B

variable {α α₁ α₂ α₃ α₄ β γ σ ρ C : Type} {P : UInt32 → Prop} {U : (UInt32 → UInt32) → β → β}

theorem framed_weaken (B : UInt32 → Except String β) (h : FramedP Any U B) : FramedP P U B := fun f g _ => h f g trivial

theorem framed_let (v : α) (b : α → UInt32 → Except String β) (h : ∀ x, FramedP P U (b x)) :
    FramedP P U (fun pf => have x := v; b x pf) := h v

theorem framed_jp (J : γ) (b : γ → UInt32 → Except String β) (H : γ → Prop) (hJ : H J)
    (hb : ∀ jp, H jp → FramedP P U (b jp)) : FramedP P U (fun pf => have jp := J; b jp pf) := hb J hJ

theorem framed_jp' (J : UInt32 → γ) (b : γ → UInt32 → Except String β) (H : (UInt32 → γ) → Prop) (hJ : H J)
    (hb : ∀ jp, H jp → FramedP P U (fun pf => b (jp pf) pf)) : FramedP P U (fun pf => have jp := J pf; b jp pf) :=
  hb J hJ

theorem framed_or_let (c : UInt32) (K : UInt32 → Except String β) (h : FramedP P U K) :
    FramedP P U (fun pf => have p := pf ||| c; K p) := by
  intro f g hP
  show K (f ||| g ||| c) = _
  rw [UInt32.or_assoc]; exact h f (g ||| c) hP

theorem framed_or_let' (c : UInt32) (K : UInt32 → Except String β) (h : FramedP P U K) :
    FramedP P U (fun pf => have p := c ||| pf; K p) := by
  intro f g hP
  show K (c ||| (f ||| g)) = _
  rw [← UInt32.or_assoc, UInt32.or_comm c f, UInt32.or_assoc]; exact h f (c ||| g) hP

theorem framed_ite (c : Prop) [Decidable c] (A B : UInt32 → Except String β) (hA : FramedP P U A)
    (hB : FramedP P U B) : FramedP P U (fun pf => if c then A pf else B pf) := by
  intro f g hP
  by_cases h : c
  · simp only [h, if_true]; exact hA f g hP
  · simp only [h, if_false]; exact hB f g hP

theorem framed_bind_pure (m : Except String α) (K : α → UInt32 → Except String β) (h : ∀ t, FramedP P U (K t)) :
    FramedP P U (fun pf => m >>= fun t => K t pf) := by
  intro f g hP
  cases m with
  | error e => rfl
  | ok v => exact h v f g hP

theorem framed_error (m : Except String β) (e : String) (h : m = .error e) : FramedP P U (fun _ => m) := by
  subst h; exact fun _ _ _ => rfl

/-- a sub-computation that is framed with respect to some updater `V`, followed by a continuation that respects it and
may also use the word of the enclosing scope -/
theorem framed_bind_UC (V : (UInt32 → UInt32) → σ → σ) (m : UInt32 → Except String σ) (K : σ → UInt32 → Except String β)
    (hm : FramedP P V m)
    (hK : ∀ s f g, P f → K (V (fun h => f ||| h) s) (f ||| g) = (K s g).map (U (fun h => f ||| h))) :
    FramedP P U (fun pf => m pf >>= fun s => K s pf) := by
  intro f g hP
  show (m (f ||| g) >>= fun s => K s (f ||| g)) = Except.map _ (m g >>= fun s => K s g)
  rw [hm f g hP]
  cases m g with
  | error e => rfl
  | ok v => exact hK v f g hP

theorem framed_bind_U (V : (UInt32 → UInt32) → σ → σ) (m : UInt32 → Except String σ) (K : σ → Except String β)
    (hm : FramedP P V m) (hK : ∀ s f, P f → K (V (fun h => f ||| h) s) = (K s).map (U (fun h => f ||| h))) :
    FramedP P U (fun pf => m pf >>= K) :=
  framed_bind_UC V m (fun s _ => K s) hm (fun s f _ hP => hK s f hP)

/-- a callee returning just the word -/
theorem framed_bind1 (m : UInt32 → Except String UInt32) (K : UInt32 → Except String β)
    (hm : FramedP P HasFlags.upd m) (hK : FramedP P U K) : FramedP P U (fun pf => m pf >>= K) :=
  framed_bind_U _ m K hm (fun s f hP => hK f s hP)

theorem framed_bind2 (m : UInt32 → Except String (α × UInt32)) (K : α × UInt32 → Except String β)
    (hm : FramedP P HasFlags.upd m) (hK : ∀ r, FramedP P U (fun pf => K (r, pf))) :
    FramedP P U (fun pf => m pf >>= K) :=
  framed_bind_U _ m K hm (fun s f hP => hK s.1 f s.2 hP)

theorem framed_bind3 (m : UInt32 → Except String (α × α₁ × UInt32)) (K : α × α₁ × UInt32 → Except String β)
    (hm : FramedP P HasFlags.upd m) (hK : ∀ r r1, FramedP P U (fun pf => K (r, r1, pf))) :
    FramedP P U (fun pf => m pf >>= K) :=
  framed_bind_U _ m K hm (fun s f hP => hK s.1 s.2.1 f s.2.2 hP)

theorem framed_bind6 (m : UInt32 → Except String (α × α₁ × α₂ × α₃ × α₄ × UInt32))
    (K : α × α₁ × α₂ × α₃ × α₄ × UInt32 → Except String β)
    (hm : FramedP P HasFlags.upd m) (hK : ∀ r r1 r2 r3 r4, FramedP P U (fun pf => K (r, r1, r2, r3, r4, pf))) :
    FramedP P U (fun pf => m pf >>= K) :=
  framed_bind_U _ m K hm (fun s f hP => hK s.1 s.2.1 s.2.2.1 s.2.2.2.1 s.2.2.2.2.1 f s.2.2.2.2.2 hP)

/-- returning: the returned expression, as a function of the word, commutes with the updater (by computation) -/
theorem framed_pure (e : UInt32 → β) (h : ∀ f g, e (f ||| g) = U (fun h => f ||| h) (e g)) :
    FramedP P U (fun pf => pure (e pf)) := fun f g _ => congrArg Except.ok (h f g)

/-- the one place where the word is READ: `is_inexact(*pfpsc)` in the two underflow packers.  Framed for extra words
without the inexact flag. -/
theorem framed_is_inexact (K : Bool → UInt32 → Except String β) (h : ∀ b, FramedP NoInexact U (K b)) :
    FramedP NoInexact U (fun pf => is_inexact pf >>= fun b => K b pf) := by
  intro f g hP
  have e : is_inexact (f ||| g) = is_inexact g := by
    show Except.ok _ = Except.ok _
    congr 2
    have : (f ||| g) &&& c_StatusFlags_BID_INEXACT_EXCEPTION
        = (f &&& c_StatusFlags_BID_INEXACT_EXCEPTION) ||| (g &&& c_StatusFlags_BID_INEXACT_EXCEPTION) := by
      rw [← UInt32.toBitVec_inj]; exact BitVec.and_or_distrib_right
    rw [this]
    unfold NoInexact at hP
    rw [hP, UInt32.zero_or]
  show (is_inexact (f ||| g) >>= fun b => K b (f ||| g)) = Except.map _ (is_inexact g >>= fun b => K b g)
  rw [e]
  cases is_inexact g with
  | error e => rfl
  | ok b => exact h b f g hP

/-! ### loops `for _ in [0:n]` -/

def stepU (V : (UInt32 → UInt32) → σ → σ) (φ : UInt32 → UInt32) : ForInStep σ → ForInStep σ
  | .done s => .done (V φ s)
  | .yield s => .yield (V φ s)

theorem forIn_list_framedC (V : (UInt32 → UInt32) → σ → σ) (Bd : UInt32 → α → σ → Except String (ForInStep σ))
    (hBd : ∀ a s f g, P f → Bd (f ||| g) a (V (fun h => f ||| h) s) = (Bd g a s).map (stepU V (fun h => f ||| h)))
    (f g : UInt32) (hP : P f) :
    ∀ (l : List α) (s : σ),
      forIn l (V (fun h => f ||| h) s) (Bd (f ||| g)) = (forIn l s (Bd g)).map (V (fun h => f ||| h)) := by
  intro l
  induction l with
  | nil => intro s; rfl
  | cons a l ih =>
    intro s
    rw [List.forIn_cons, List.forIn_cons, hBd a s f g hP]
    cases Bd g a s with
    | error e => rfl
    | ok r =>
      cases r with
      | done b => rfl
      | yield b => exact ih b

/-- `for _ in r do …`: initial state and body as functions of the word -/
theorem framed_forInC (V : (UInt32 → UInt32) → σ → σ) (r : Std.Legacy.Range) (init : UInt32 → σ)
    (Bd : UInt32 → Nat → σ → Except String (ForInStep σ))
    (hinit : ∀ f g, init (f ||| g) = V (fun h => f ||| h) (init g))
    (hBd : ∀ a s f g, P f → Bd (f ||| g) a (V (fun h => f ||| h) s) = (Bd g a s).map (stepU V (fun h => f ||| h))) :
    FramedP P V (fun pf => forIn r (init pf) (Bd pf)) := by
  intro f g hP
  show forIn r (init (f ||| g)) (Bd (f ||| g)) = Except.map _ (forIn r (init g) (Bd g))
  rw [Std.Legacy.Range.forIn_eq_forIn_range', Std.Legacy.Range.forIn_eq_forIn_range', hinit f g]
  exact forIn_list_framedC V Bd hBd f g hP _ _

section A
variable [HasFlags ρ] (mk : Option ρ → UInt32 → C → σ) (slot : σ → Option ρ) (word : σ → UInt32) (rest : σ → C)

/-- updater of a loop state made of a return slot, the word and other variables (in any positions) -/
def VA (φ : UInt32 → UInt32) (s : σ) : σ := mk ((slot s).map (HasFlags.upd φ)) (φ (word s)) (rest s)

theorem loopA_body (hη : ∀ s, mk (slot s) (word s) (rest s) = s) (Bd : Nat → σ → Except String (ForInStep σ))
    (h : ∀ (a : Nat) (a0 a0' : Option ρ) (c : C),
      FramedP P (stepU (VA mk slot word rest)) (fun pf => Bd a (mk a0 pf c)) ∧
        ∀ p, Bd a (mk a0' p c) = Bd a (mk a0 p c)) :
    ∀ a s f (_g : UInt32), P f → Bd a (VA mk slot word rest (fun h => f ||| h) s)
      = (Bd a s).map (stepU (VA mk slot word rest) (fun h => f ||| h)) := by
  intro a s f _ hP
  have h1 := (h a (slot s) ((slot s).map (HasFlags.upd (fun h => f ||| h))) (rest s)).1 f (word s) hP
  have h2 := (h a (slot s) ((slot s).map (HasFlags.upd (fun h => f ||| h))) (rest s)).2 (f ||| word s)
  show Bd a (mk ((slot s).map _) (f ||| word s) (rest s)) = _
  rw [h2]
  have h1' : Bd a (mk (slot s) (f ||| word s) (rest s))
      = Except.map (stepU (VA mk slot word rest) fun h => f ||| h) (Bd a (mk (slot s) (word s) (rest s))) := h1
  rw [hη s] at h1'
  exact h1'

theorem loopA_after (hη : ∀ s, mk (slot s) (word s) (rest s) = s) (K : σ → Except String β)
    (hnone : ∀ c : C, FramedP P U (fun pf => K (mk none pf c)))
    (hsome : ∀ (v : ρ) (p : UInt32) (c : C) (f : UInt32),
      K (mk (some (HasFlags.upd (fun h => f ||| h) v)) (f ||| p) c)
        = (K (mk (some v) p c)).map (U (fun h => f ||| h))) :
    ∀ s f (_g : UInt32), P f → K (VA mk slot word rest (fun h => f ||| h) s) = (K s).map (U (fun h => f ||| h)) := by
  intro s f _ hP
  have e := hη s
  unfold VA
  cases hs : slot s with
  | none =>
    have : K (mk none (f ||| word s) (rest s)) = Except.map (U fun h => f ||| h) (K (mk none (word s) (rest s))) :=
      hnone (rest s) f (word s) hP
    rw [hs] at e
    rw [e] at this
    exact this
  | some v =>
    have := hsome v (word s) (rest s) f
    rw [hs] at e
    rw [e] at this
    exact this
end A

section B
variable (mk : UInt32 → C → σ) (word : σ → UInt32) (rest : σ → C)

def VB (φ : UInt32 → UInt32) (s : σ) : σ := mk (φ (word s)) (rest s)

theorem loopB_body (hη : ∀ s, mk (word s) (rest s) = s) (Bd : Nat → σ → Except String (ForInStep σ))
    (h : ∀ (a : Nat) (c : C), FramedP P (stepU (VB mk word rest)) (fun pf => Bd a (mk pf c))) :
    ∀ a s f (_g : UInt32), P f → Bd a (VB mk word rest (fun h => f ||| h) s)
      = (Bd a s).map (stepU (VB mk word rest) (fun h => f ||| h)) := by
  intro a s f _ hP
  have : Bd a (mk (f ||| word s) (rest s))
      = Except.map (stepU (VB mk word rest) fun h => f ||| h) (Bd a (mk (word s) (rest s))) := h a (rest s) f (word s) hP
  rw [hη s] at this
  exact this

theorem loopB_after (hη : ∀ s, mk (word s) (rest s) = s) (K : σ → Except String β)
    (h : ∀ c : C, FramedP P U (fun pf => K (mk pf c))) :
    ∀ s f (_g : UInt32), P f → K (VB mk word rest (fun h => f ||| h) s) = (K s).map (U (fun h => f ||| h)) := by
  intro s f _ hP
  have : K (mk (f ||| word s) (rest s)) = Except.map (U fun h => f ||| h) (K (mk (word s) (rest s))) :=
    h (rest s) f (word s) hP
  rw [hη s] at this
  exact this
end B

section Cc
variable [HasFlags ρ] (mk : Option ρ → C → σ) (slot : σ → Option ρ) (rest : σ → C)

/-- updater of a loop state with a return slot but without the word (the body uses the enclosing one) -/
def VC (φ : UInt32 → UInt32) (s : σ) : σ := mk ((slot s).map (HasFlags.upd φ)) (rest s)

theorem loopC_body (hη : ∀ s, mk (slot s) (rest s) = s) (Bd : UInt32 → Nat → σ → Except String (ForInStep σ))
    (h : ∀ (a : Nat) (a0 a0' : Option ρ) (c : C),
      FramedP P (stepU (VC mk slot rest)) (fun pf => Bd pf a (mk a0 c)) ∧
        ∀ p, Bd p a (mk a0' c) = Bd p a (mk a0 c)) :
    ∀ a s f g, P f → Bd (f ||| g) a (VC mk slot rest (fun h => f ||| h) s)
      = (Bd g a s).map (stepU (VC mk slot rest) (fun h => f ||| h)) := by
  intro a s f g hP
  have h1 : Bd (f ||| g) a (mk (slot s) (rest s))
      = Except.map (stepU (VC mk slot rest) fun h => f ||| h) (Bd g a (mk (slot s) (rest s))) :=
    (h a (slot s) ((slot s).map (HasFlags.upd (fun h => f ||| h))) (rest s)).1 f g hP
  have h2 := (h a (slot s) ((slot s).map (HasFlags.upd (fun h => f ||| h))) (rest s)).2 (f ||| g)
  show Bd (f ||| g) a (mk ((slot s).map _) (rest s)) = _
  rw [h2, h1, hη s]

theorem loopC_after (hη : ∀ s, mk (slot s) (rest s) = s) (K : σ → UInt32 → Except String β)
    (hnone : ∀ c : C, FramedP P U (fun pf => K (mk none c) pf))
    (hsome : ∀ (v : ρ) (c : C) (f g : UInt32),
      K (mk (some (HasFlags.upd (fun h => f ||| h) v)) c) (f ||| g) = (K (mk (some v) c) g).map (U (fun h => f ||| h))) :
    ∀ s f g, P f → K (VC mk slot rest (fun h => f ||| h) s) (f ||| g) = (K s g).map (U (fun h => f ||| h)) := by
  intro s f g hP
  have e := hη s
  unfold VC
  cases hs : slot s with
  | none =>
    have : K (mk none (rest s)) (f ||| g) = Except.map (U fun h => f ||| h) (K (mk none (rest s)) g) :=
      hnone (rest s) f g hP
    rw [hs] at e
    conv => rhs; rw [← e]
    exact this
  | some v =>
    have := hsome v (rest s) f g
    rw [hs] at e
    rw [e] at this
    exact this
end Cc

/-! ### save / call … / restore sections: two words in lock step -/

/-- the word of the enclosing scope and the word threaded through a save / call … / restore section (whose final value is
discarded) -/
def Framed2 (P : UInt32 → Prop) (U : (UInt32 → UInt32) → β → β) (B : UInt32 → UInt32 → Except String β) : Prop :=
  ∀ f g q : UInt32, P f → B (f ||| g) (f ||| q) = (B g q).map (U (fun h => f ||| h))

theorem framed2_let (v : α) (b : α → UInt32 → UInt32 → Except String β) (h : ∀ x, Framed2 P U (b x)) :
    Framed2 P U (fun pf q => have x := v; b x pf q) := h v

theorem framed2_ite (c : Prop) [Decidable c] (A B : UInt32 → UInt32 → Except String β) (hA : Framed2 P U A)
    (hB : Framed2 P U B) : Framed2 P U (fun pf q => if c then A pf q else B pf q) := by
  intro f g q hP
  by_cases h : c
  · simp only [h, if_true]; exact hA f g q hP
  · simp only [h, if_false]; exact hB f g q hP

theorem framed2_drop (B : UInt32 → Except String β) (h : FramedP P U B) : Framed2 P U (fun pf _ => B pf) :=
  fun f g _ hP => h f g hP

/-- entering: a call whose outgoing word is threaded on separately from the enclosing word -/
theorem framed_bind2_chain (m : UInt32 → Except String (α × UInt32)) (K : α × UInt32 → UInt32 → Except String β)
    (hm : FramedP P HasFlags.upd m) (hK : ∀ r : α, Framed2 P U (fun pf q => K (r, q) pf)) :
    FramedP P U (fun pf => m pf >>= fun t => K t pf) :=
  framed_bind_UC _ m K hm (fun s f g hP => hK s.1 f g s.2 hP)

/-- a further call on the threaded word -/
theorem framed2_bind_chain (m : UInt32 → Except String (α × UInt32)) (K : α × UInt32 → UInt32 → Except String β)
    (hm : FramedP P HasFlags.upd m) (hK : ∀ r : α, Framed2 P U (fun pf q => K (r, q) pf)) :
    Framed2 P U (fun pf q => m q >>= fun t => K t pf) := by
  intro f g q hP
  show (m (f ||| q) >>= fun t => K t (f ||| g)) = Except.map _ (m q >>= fun t => K t g)
  rw [hm f q hP]
  cases m q with
  | error e => rfl
  | ok v => exact hK v.1 f g v.2 hP

/-! ### the statement in the form asked for -/

theorem Framed.frame {α : Type} {R : UInt32 → Except String (α × UInt32)} (h : Framed R) (f : UInt32) :
    R f = (R 0).map (fun p => (p.1, f ||| p.2)) := by
  have := h f 0 trivial
  rwa [UInt32.or_zero] at this

/-! ## 2. The prover: one pass over the translated `do` block -/

open Lean Meta Elab Tactic

structure JpInfo where
  hyp : Expr                 -- the hypothesis about the join point
  flagPos : Option Nat       -- the parameter that carries the status word; `none`: the join point closes over it (it then
                             -- takes the word as an extra FIRST argument)
  arity : Nat

structure Ctx where
  jps : List (FVarId × JpInfo) := []
  flagNames : List Name := []      -- names of the local variables that currently hold the status word
  β : Expr
  P : Expr                         -- which extra words are allowed
  U : Expr                         -- the updater of the result type

def u32 : Expr := mkConst ``UInt32
def lamPf (T : Expr) : Expr := .lam `pf u32 T .default
def prodTy (a b : Expr) : Expr := mkApp2 (mkConst ``Prod [Level.zero, Level.zero]) a b
def prodMk (ta tb a b : Expr) : Expr := mkApp4 (mkConst ``Prod.mk [Level.zero, Level.zero]) ta tb a b
def orWord (f g : Expr) : Expr := mkApp6 (mkConst ``HOr.hOr [Level.zero, Level.zero, Level.zero]) u32 u32 u32
  (mkApp2 (mkConst ``instHOrOfOrOp [Level.zero]) u32 (mkConst ``instOrOpUInt32)) f g

/-- the components of a right-nested tuple type ending in `UInt32` -/
partial def flagShape (γ : Expr) : MetaM (Option (List Expr)) := do
  let γ ← whnfR γ
  if γ.isConstOf ``UInt32 then return some []
  if γ.isAppOfArity ``Prod 2 then
    match ← flagShape (γ.getArg! 1) with
    | some l => return some (γ.getArg! 0 :: l)
    | none => return none
  return none

/-- `Prod.fst (a, b) ↦ a`, `Prod.snd (a, b) ↦ b`, only where loose bound variables occur -/
partial def projSimp (e : Expr) : Expr :=
  if !e.hasLooseBVars then e else
  match e with
  | .app f a =>
    let f' := projSimp f
    let a' := projSimp a
    if f'.isAppOfArity ``Prod.fst 2 && a'.isAppOfArity ``Prod.mk 4 then a'.getArg! 2
    else if f'.isAppOfArity ``Prod.snd 2 && a'.isAppOfArity ``Prod.mk 4 then a'.getArg! 3
    else e.updateApp! f' a'
  | .lam _ t b _ => e.updateLambdaE! (projSimp t) (projSimp b)
  | .forallE _ t b _ => e.updateForallE! (projSimp t) (projSimp b)
  | .letE _ t v b nd => e.updateLet! (projSimp t) (projSimp v) (projSimp b) nd
  | .mdata _ b => e.updateMData! (projSimp b)
  | .proj _ _ b => e.updateProj! (projSimp b)
  | _ => e

/-- the same everywhere -/
partial def projSimpAll (e : Expr) : Expr :=
  match e with
  | .app f a =>
    let f' := projSimpAll f
    let a' := projSimpAll a
    if f'.isAppOfArity ``Prod.fst 2 && a'.isAppOfArity ``Prod.mk 4 then a'.getArg! 2
    else if f'.isAppOfArity ``Prod.snd 2 && a'.isAppOfArity ``Prod.mk 4 then a'.getArg! 3
    else e.updateApp! f' a'
  | .lam _ t b _ => e.updateLambdaE! t (projSimpAll b)
  | .letE _ t v b nd => e.updateLet! t (projSimpAll v) (projSimpAll b) nd
  | .mdata _ b => e.updateMData! (projSimpAll b)
  | _ => e

/-- remove `have x := v` whose variable is not used, along the spine of `have`s -/
partial def dropDead (e : Expr) : Expr :=
  match e with
  | .letE _ t v b nd =>
    let b' := dropDead b
    if !b'.hasLooseBVar 0 then b'.lowerLooseBVars 1 1 else e.updateLet! t v b' nd
  | _ => e

/-- does `e` (under `depth` binders, the status word being level 0) mention a tainted level -/
def mentions (e : Expr) (depth : Nat) (tainted : List Nat) : Bool :=
  e.hasLooseBVars && tainted.any fun l => e.hasLooseBVar (depth - 1 - l)

/-- first application of the join point `jp` (an fvar) in `e`; returns the positions of the arguments that depend on the
status word (directly or through `let`s / results of calls that received it) -/
partial def findSite (jp : FVarId) (arity : Nat) (e : Expr) (depth : Nat) (tainted : List Nat) : Option (List Nat) :=
  if !e.hasFVar then none else
  if e.getAppFn.isFVarOf jp && e.getAppNumArgs == arity then
    let args := e.getAppArgs
    some ((List.range arity).filter fun i => mentions args[i]! depth tainted)
  else if e.isAppOfArity ``Bind.bind 6 then
    let m := e.getArg! 4
    let k := e.getArg! 5
    (findSite jp arity m depth tainted).orElse fun _ =>
      match k with
      | .lam _ _ b _ => findSite jp arity b (depth + 1) (if mentions m depth tainted then depth :: tainted else tainted)
      | _ => findSite jp arity k depth tainted
  else match e with
  | .app f a => (findSite jp arity f depth tainted).orElse fun _ => findSite jp arity a depth tainted
  | .lam _ _ b _ => findSite jp arity b (depth + 1) tainted
  | .letE _ _ v b _ =>
    (findSite jp arity v depth tainted).orElse fun _ =>
      findSite jp arity b (depth + 1) (if mentions v depth tainted then depth :: tainted else tainted)
  | .mdata _ b => findSite jp arity b depth tainted
  | _ => none

/-- name and type of the `i`-th parameter of a nested lambda -/
def lamParam : Expr → Nat → Name × Expr
  | .lam n t _ _, 0 => (n, t)
  | .lam _ _ b _, i+1 => lamParam b i
  | _, _ => (.anonymous, .bvar 0)

/-- exchange loose bound variables 0 and 1 (there are no others) -/
def kbSwap (e : Expr) : Expr := e.instantiate #[.bvar 1, .bvar 0]

/-- the frame theorem of the callee `Dec.Gen.Code.foo` is `Dec.C14GenFrame.foo_frame` -/
def callName (n : Name) : Name := `Dec.C14GenFrame ++ (Name.mkSimple (n.getString! ++ "_frame"))

def framedStmt (ctx : Ctx) (T : Expr) : Expr :=
  mkApp4 (mkConst ``FramedP) ctx.β ctx.P ctx.U (lamPf T)


/-- nested tuple type / value of a list of components -/
def tupTyOf : List Expr → Expr
  | [] => mkConst ``Unit
  | [t] => t
  | t :: ts => prodTy t (tupTyOf ts)

def tupOf : List Expr → List Expr → Expr
  | [], _ => mkConst ``Unit.unit
  | [e], _ => e
  | e :: es, t :: ts => prodMk t (tupTyOf ts) e (tupOf es ts)
  | e :: _, [] => e

/-- `i`-th component of `e : t₀ × t₁ × … × tₙ` -/
def projAt' : List Expr → Expr → Nat → Expr
  | [_], e, _ => e
  | t :: ts, e, 0 => mkApp3 (mkConst ``Prod.fst [Level.zero, Level.zero]) t (tupTyOf ts) e
  | t :: ts, e, i+1 => projAt' ts (mkApp3 (mkConst ``Prod.snd [Level.zero, Level.zero]) t (tupTyOf ts) e) i
  | [], e, _ => e

mutual

/-- proof of `FramedU U (fun pf => T)` at result type `ctx.β`; `T` has the status word as loose bvar 0 and no other -/
partial def go (ctx : Ctx) (T : Expr) : MetaM Expr := do
  let T := T.consumeMData
  let T := if T.getAppFn.isLambda then T.headBeta else T
  match T with
  | .letE n ty v b _ =>
    let v := projSimp v
    if !v.hasLooseBVars then
      if v.isLambda && (n.eraseMacroScopes == `__do_jp) then goJp ctx n ty v b false
      else if v.isAppOf ``Option.none || v.isAppOf ``Option.some then
        -- keep the value of a return slot visible (a `match` on it follows)
        go ctx (projSimp (b.instantiate1 v))
      else
        withLocalDeclD n ty fun x => do
          let body := b.instantiate1 x
          let p ← go { ctx with flagNames := ctx.flagNames.erase n.eraseMacroScopes } body
          let bLam ← mkLambdaFVars #[x] (lamPf body)
          let h ← mkLambdaFVars #[x] p
          pure <| mkAppN (mkConst ``framed_let) #[ty, ctx.β, ctx.P, ctx.U, v, bLam, h]
    else
      if v.isLambda && (n.eraseMacroScopes == `__do_jp) then goJp ctx n ty v b true
      else if v == .bvar 0 then
        go { ctx with flagNames := n.eraseMacroScopes :: ctx.flagNames } (b.instantiate1 (.bvar 0))
      else if v.isAppOfArity ``Prod.mk 4 then
        -- a tuple holding the word (loop state being taken apart): substitute
        go ctx (projSimp (b.instantiate1 v))
      else if v.isAppOfArity ``HOr.hOr 6 then
        if b.hasLooseBVar 1 then throwError "frame: old status word still used after `{n} := …`"
        let a := v.getArg! 4
        let c := v.getArg! 5
        let ctx := { ctx with flagNames := n.eraseMacroScopes :: ctx.flagNames }
        if a == .bvar 0 && !c.hasLooseBVars then
          let p ← go ctx b
          pure <| mkAppN (mkConst ``framed_or_let) #[ctx.β, ctx.P, ctx.U, c, lamPf b, p]
        else if c == .bvar 0 && !a.hasLooseBVars then
          let p ← go ctx b
          pure <| mkAppN (mkConst ``framed_or_let') #[ctx.β, ctx.P, ctx.U, a, lamPf b, p]
        else throwError "frame: unsupported status-word expression {v}"
      else throwError "frame: unsupported use of the status word in `{n} := {v}`"
  | _ =>
  if T.isAppOfArity ``ite 5 then
    let c := T.getArg! 1
    if c.hasLooseBVars then throwError "frame: a test reads the status word: {c}"
    let a := T.getArg! 3
    let b := T.getArg! 4
    let pa ← go ctx a
    let pb ← go ctx b
    return mkAppN (mkConst ``framed_ite) #[ctx.β, ctx.P, ctx.U, c, T.getArg! 2, lamPf a, lamPf b, pa, pb]
  else if T.isAppOfArity ``Bind.bind 6 then
    let γ := T.getArg! 2
    let m := T.getArg! 4
    let k := T.getArg! 5
    if !m.hasLooseBVars then
      withLocalDeclD `t γ fun t => do
        let body := if k.isLambda then k.bindingBody!.instantiate1 t else mkApp k t
        let body := body.headBeta
        let p ← go ctx body
        let kLam ← mkLambdaFVars #[t] (lamPf body)
        let h ← mkLambdaFVars #[t] p
        pure <| mkAppN (mkConst ``framed_bind_pure) #[γ, ctx.β, ctx.P, ctx.U, m, kLam, h]
    else if m.isAppOfArity ``Dec.Gen.Code.is_inexact 1 && m.appArg! == .bvar 0 && k.isLambda then
      -- the one read of the word
      unless ctx.P.isConstOf ``NoInexact do
        throwError "frame: `is_inexact` reads the status word: only framed for words without the inexact flag (FramedNI)"
      withLocalDeclD `b (mkConst ``Bool) fun bv => do
        -- k body: bvar0 = b, bvar1 = word
        let body := k.bindingBody!.instantiate1 bv
        let p ← go ctx body
        let h ← mkLambdaFVars #[bv] p
        let K ← mkLambdaFVars #[bv] (lamPf body)
        return mkAppN (mkConst ``framed_is_inexact) #[ctx.β, ctx.U, K, h]
    else if m.isAppOfArity ``forIn 8 then goLoop ctx T
    else
      let some shape ← flagShape γ | throwError "frame: a sub-computation uses the status word but does not return it: {m}"
      let instγ ← synthInstance (mkApp (mkConst ``HasFlags) γ)
      let Uγ := mkApp2 (mkConst ``HasFlags.upd) γ instγ
      let pm ← go { ctx with β := γ, U := Uγ, jps := [] } m
      if !k.isLambda then throwError "frame: continuation is not a lambda"
      let kb := k.bindingBody!
      if kb.hasLooseBVar 1 then
        -- save / call … / restore: the callee's outgoing word is threaded separately from the enclosing one
        unless shape.length == 1 do throwError "frame: the continuation of a call still uses the old status word"
        let ty := shape.head!
        return ← withLocalDeclD `r ty fun r => do
          let T2 := projSimp (kb.instantiate #[prodMk ty u32 r (.bvar 0), .bvar 1])
          let p ← goChain ctx T2
          let h ← mkLambdaFVars #[r] p
          let K := Expr.lam `t γ (Expr.lam `pf u32 (kbSwap kb) .default) .default
          return mkAppN (mkConst ``framed_bind2_chain) #[ty, ctx.β, ctx.P, ctx.U, lamPf m, K, pm, h]
      let rec intro (tys : List Expr) (acc : Array Expr) : MetaM Expr := do
        match tys with
        | ty :: rest => withLocalDeclD `r ty fun r => intro rest (acc.push r)
        | [] =>
          let mut tup : Expr := .bvar 0
          let mut tupTy : Expr := u32
          for (r, ty) in (acc.toList.zip shape).reverse do
            tup := prodMk ty tupTy r tup
            tupTy := prodTy ty tupTy
          let body := projSimp (kb.instantiate1 tup)
          let p ← go ctx body
          let h ← mkLambdaFVars acc p
          let lem := match shape.length with
            | 0 => ``framed_bind1 | 1 => ``framed_bind2 | 2 => ``framed_bind3 | _ => ``framed_bind6
          unless shape.length == 5 || shape.length ≤ 2 do throwError "frame: unsupported result shape {γ}"
          let mut args : Array Expr := #[]
          for ty in shape do args := args.push ty
          args := args.push ctx.β |>.push ctx.P |>.push ctx.U |>.push (lamPf m) |>.push k |>.push pm |>.push h
          pure (mkAppN (mkConst lem) args)
      intro shape #[]
  else if T.isAppOfArity ``Pure.pure 4 || T.isAppOfArity ``Except.ok 3 then
    let v := projSimp T.appArg!
    -- fun f g => rfl : e (f ||| g) = U (f ||| ·) (e g)
    let h ← withLocalDeclD `f u32 fun f => withLocalDeclD `g u32 fun g => do
      mkLambdaFVars #[f, g] (← mkEqRefl (v.instantiate1 (orWord f g)))
    return mkAppN (mkConst ``framed_pure) #[ctx.β, ctx.P, ctx.U, lamPf v, h]
  else if !T.hasLooseBVars then
    -- a computation that ignores the word: only a panic is framed
    let T' ← whnfD T
    if T'.isAppOfArity ``Except.error 3 then
      let e := T'.appArg!
      return mkAppN (mkConst ``framed_error) #[ctx.β, ctx.P, ctx.U, T, e, ← mkEqRefl T]
    else throwError "frame: a computation that returns a status word does not depend on the incoming one: {T}"
  else
    let fn := T.getAppFn
    let args := T.getAppArgs
    if let .fvar id := fn then
      match ctx.jps.lookup id with
      | some info =>
        match info.flagPos with
        | some k =>
          if args.size != info.arity then throwError "frame: join point applied to {args.size} arguments"
          if args[k]! != .bvar 0 then throwError "frame: join point receives {args[k]!} as status word"
          let rest := (args.toList.take k ++ args.toList.drop (k+1)).toArray
          if rest.any (·.hasLooseBVars) then throwError "frame: join point argument depends on the status word"
          return mkAppN info.hyp rest
        | none =>
          if args.size != info.arity + 1 || args[0]! != .bvar 0 then throwError "frame: bad closure join point call {T}"
          let rest := args.extract 1 args.size
          if rest.any (·.hasLooseBVars) then throwError "frame: join point argument depends on the status word"
          return mkAppN info.hyp rest
      | none => throwError "frame: unknown local function {fn}"
    else if let .const c _ := fn then
      if let ReduceMatcherResult.reduced r ← reduceMatcher? T then return ← go ctx r
      let some k := (List.range args.size).find? (fun i => args[i]! == .bvar 0)
        | throwError "frame: `{c}` receives the status word in an unsupported form: {T}"
      let rest := (args.toList.take k ++ args.toList.drop (k+1)).toArray
      if rest.any (·.hasLooseBVars) then throwError "frame: argument of `{c}` depends on the status word"
      let lem := callName c
      let isAny := ctx.P.isConstOf ``Any
      if (← getEnv).contains lem then
        let h := mkAppN (mkConst lem) rest
        if isAny then return h
        else return mkAppN (mkConst ``framed_weaken) #[ctx.β, ctx.P, ctx.U, lamPf T, h]
      let lemNI := `Dec.C14GenFrame ++ (Name.mkSimple (c.getString! ++ "_frameNI"))
      if ctx.P.isConstOf ``NoInexact && (← getEnv).contains lemNI then
        return mkAppN (mkConst lemNI) rest
      throwError "frame: no frame theorem `{lem}` for the callee `{c}`"
    else throwError "frame: unsupported statement {T}"

/-- proof of `Framed2 U (fun pf q => T2)`: `T2` has the enclosing word as loose bvar 1 and the threaded word as bvar 0 -/
partial def goChain (ctx : Ctx) (T2 : Expr) : MetaM Expr := do
  let T2 := dropDead T2.consumeMData
  let lam2 (e : Expr) : Expr := Expr.lam `pf u32 (Expr.lam `q u32 e .default) .default
  if !T2.hasLooseBVar 0 then
    -- the threaded word is dead: back to one word
    let T := T2.lowerLooseBVars 1 1
    let p ← go ctx T
    return mkAppN (mkConst ``framed2_drop) #[ctx.β, ctx.P, ctx.U, lamPf T, p]
  match T2 with
  | .letE n ty v b _ =>
    if !v.hasLooseBVars then
      withLocalDeclD n ty fun x => do
        let body := b.instantiate1 x
        let p ← goChain ctx body
        let bLam ← mkLambdaFVars #[x] (lam2 body)
        let h ← mkLambdaFVars #[x] p
        return mkAppN (mkConst ``framed2_let) #[ty, ctx.β, ctx.P, ctx.U, v, bLam, h]
    else if v == .bvar 0 || v == .bvar 1 then
      goChain ctx (b.instantiate1 v)
    else throwError "frame: unsupported use of a threaded status word in `{n} := {v}`"
  | _ =>
  if T2.isAppOfArity ``ite 5 then
    let c := T2.getArg! 1
    if c.hasLooseBVars then throwError "frame: a test reads the status word: {c}"
    let a := T2.getArg! 3
    let b := T2.getArg! 4
    let pa ← goChain ctx a
    let pb ← goChain ctx b
    return mkAppN (mkConst ``framed2_ite) #[ctx.β, ctx.P, ctx.U, c, T2.getArg! 2, lam2 a, lam2 b, pa, pb]
  else if T2.isAppOfArity ``Bind.bind 6 then
    let γ := T2.getArg! 2
    let m := T2.getArg! 4
    let k := T2.getArg! 5
    unless m.hasLooseBVar 0 && !m.hasLooseBVar 1 && k.isLambda do
      throwError "frame: unsupported statement while a status word is threaded through a save/restore section: {m}"
    let some shape ← flagShape γ | throwError "frame: call on a threaded word does not return it"
    unless shape.length == 1 do throwError "frame: unsupported result shape {γ}"
    let ty := shape.head!
    let instγ ← synthInstance (mkApp (mkConst ``HasFlags) γ)
    let pm ← go { ctx with β := γ, U := mkApp2 (mkConst ``HasFlags.upd) γ instγ, jps := [] } m
    let kb := k.bindingBody!
    if kb.hasLooseBVar 1 then throwError "frame: the word passed to a call is used again after it"
    withLocalDeclD `r ty fun r => do
      -- kb: bvar0 = t, bvar1 = old threaded word (unused), bvar2 = enclosing word
      let T2' := projSimp (kb.instantiate #[prodMk ty u32 r (.bvar 0), .bvar 0, .bvar 1])
      let p ← goChain ctx T2'
      let h ← mkLambdaFVars #[r] p
      -- K = fun t pf => kb[t, _, pf]
      let K := Expr.lam `t γ (Expr.lam `pf u32 (kb.instantiate #[.bvar 1, .bvar 0, .bvar 0]) .default) .default
      return mkAppN (mkConst ``framed2_bind_chain) #[ty, ctx.β, ctx.P, ctx.U, lamPf m, K, pm, h]
  else throwError "frame: unsupported statement while a status word is threaded through a save/restore section: {T2}"

/-- `(for _ in r do body) >>= k` where the loop state or the loop body involves the word -/
partial def goLoop (ctx : Ctx) (T : Expr) : MetaM Expr := do
  let m := T.getArg! 4
  let k := T.getArg! 5
  let σ := m.getArg! 4
  let range := m.getArg! 5
  let init := projSimp (m.getArg! 6)
  let body := m.getArg! 7
  -- the components of the state
  let rec flat (e : Expr) (cs : Array Expr) (tys : Array Expr) : Array Expr × Array Expr :=
    if e.isAppOfArity ``Prod.mk 4 then flat (e.getArg! 3) (cs.push (e.getArg! 2)) (tys.push (e.getArg! 0))
    else (cs.push e, tys)
  let (cs, tys0) := flat init #[] #[]
  -- type of the last component
  let rec lastTy (t : Expr) (n : Nat) : Expr := match n with
    | 0 => t
    | n+1 => lastTy (t.getArg! 1) n
  let tys := tys0.push (lastTy σ tys0.size)
  let n := cs.size
  let hasSlot := n > 1 && cs[0]!.isAppOf ``Option.none && tys[0]!.isAppOfArity ``Option 1
  let words := (List.range n).filter fun i => cs[i]! == .bvar 0
  for i in [0:n] do
    if cs[i]!.hasLooseBVars && cs[i]! != .bvar 0 then throwError "frame: unsupported loop state component {cs[i]!}"
  if words.length > 1 then throwError "frame: the word occurs twice in a loop state"
  let wordIdx := words.head?
  let others := (List.range n).filter fun i => !(hasSlot && i == 0) && some i != wordIdx
  let otherTys := others.map (tys[·]!)
  let C := tupTyOf otherTys
  let ρ := if hasSlot then tys[0]!.appArg! else mkConst ``Unit
  -- the full tuple from slot / word / others
  let assemble (a0 : Expr) (p : Expr) (c : Expr) : Expr :=
    let comps := (List.range n).map fun i =>
      if hasSlot && i == 0 then a0
      else if some i == wordIdx then p
      else projAt' otherTys c (others.idxOf i)
    tupOf comps tys.toList
  let stepTy := mkApp (mkConst ``ForInStep [Level.zero]) σ
  let slotTy := tys[0]!
  let allTys := tys.toList
  let restOf (s : Expr) : Expr := tupOf (others.map fun i => projAt' allTys s i) otherTys
  let hη ← withLocalDeclD `s σ fun sv => do mkLambdaFVars #[sv] (← mkEqRefl sv)
  let instρ ← if hasSlot then synthInstance (mkApp (mkConst ``HasFlags) ρ) else pure (mkConst ``Unit.unit)
  let rflOn (e : Expr) : MetaM Expr := mkEqRefl e
  match hasSlot, wordIdx with
  | true, some w =>
    if body.hasLooseBVars then throwError "frame: a loop body uses the status word of the enclosing scope directly"
    if k.hasLooseBVars then throwError "frame: the code after a loop uses the status word from before the loop"
    let mk ← withLocalDeclD `a0 slotTy fun a0 => withLocalDeclD `p u32 fun pv => withLocalDeclD `c C fun c => do
      mkLambdaFVars #[a0, pv, c] (assemble a0 pv c)
    let slot ← withLocalDeclD `s σ fun sv => do mkLambdaFVars #[sv] (projAt' allTys sv 0)
    let word ← withLocalDeclD `s σ fun sv => do mkLambdaFVars #[sv] (projAt' allTys sv w)
    let rest ← withLocalDeclD `s σ fun sv => do mkLambdaFVars #[sv] (restOf sv)
    let V := mkAppN (mkConst ``VA) #[σ, ρ, C, instρ, mk, slot, word, rest]
    let hinit ← withLocalDeclD `f u32 fun f => withLocalDeclD `g u32 fun g => do
      mkLambdaFVars #[f, g] (← rflOn (init.instantiate1 (orWord f g)))
    let h ← withLocalDeclD `i (mkConst ``Nat) fun i => withLocalDeclD `a0 slotTy fun a0 =>
        withLocalDeclD `a0' slotTy fun a0' => withLocalDeclD `c C fun c => do
      let Tb := projSimp ((mkApp2 body i (assemble a0 (.bvar 0) c)).headBeta)
      if Tb.containsFVar a0.fvarId! then throwError "frame: a loop body looks at its return slot"
      let ctxB := { ctx with β := stepTy, U := mkApp2 (mkConst ``stepU) σ V, jps := [] }
      let p ← go ctxB Tb
      -- the body does not look at the slot: `fun p => rfl`
      let exTy := mkApp2 (mkConst ``Except [Level.zero, Level.zero]) (mkConst ``String) stepTy
      let A := framedStmt ctxB (mkApp2 body i (assemble a0 (.bvar 0) c))
      let Bp := Expr.forallE `p u32 (mkApp3 (mkConst ``Eq [Level.succ Level.zero]) exTy
        (mkApp2 body i (assemble a0' (.bvar 0) c)) (mkApp2 body i (assemble a0 (.bvar 0) c))) .default
      let q := Expr.lam `p u32 (mkApp2 (mkConst ``Eq.refl [Level.succ Level.zero]) exTy Tb) .default
      mkLambdaFVars #[i, a0, a0', c] (mkApp4 (mkConst ``And.intro) A Bp p q)
    let hBd := mkAppN (mkConst ``loopA_body) #[σ, ρ, C, ctx.P, instρ, mk, slot, word, rest, hη, body, h]
    let pm := mkAppN (mkConst ``framed_forInC) #[σ, ctx.P, V, range, lamPf init, Expr.lam `pf u32 body .default, hinit, hBd]
    let hnone ← withLocalDeclD `c C fun c => do
      let Tk := projSimp ((mkApp k (assemble (mkApp (mkConst ``Option.none [Level.zero]) ρ) (.bvar 0) c)).headBeta)
      let p ← go ctx Tk
      mkLambdaFVars #[c] p
    let hsome ← withLocalDeclD `v ρ fun v => withLocalDeclD `p u32 fun pv =>
        withLocalDeclD `c C fun c => withLocalDeclD `f u32 fun f => do
      let φ := Expr.lam `h u32 (orWord f (.bvar 0)) .default
      let sm := mkApp2 (mkConst ``Option.some [Level.zero]) ρ (mkApp4 (mkConst ``HasFlags.upd) ρ instρ φ v)
      mkLambdaFVars #[v, pv, c, f] (← rflOn (mkApp k (assemble sm (orWord f pv) c)))
    let hK := mkAppN (mkConst ``loopA_after) #[ctx.β, σ, ρ, C, ctx.P, ctx.U, instρ, mk, slot, word, rest, hη, k, hnone, hsome]
    let K := Expr.lam `s σ (Expr.lam `pf u32 (mkApp k (.bvar 1)) .default) .default
    return mkAppN (mkConst ``framed_bind_UC) #[ctx.β, σ, ctx.P, ctx.U, V, lamPf m, K, pm, hK]
  | false, some w =>
    if body.hasLooseBVars then throwError "frame: a loop body uses the status word of the enclosing scope directly"
    if k.hasLooseBVars then throwError "frame: the code after a loop uses the status word from before the loop"
    let mk ← withLocalDeclD `p u32 fun pv => withLocalDeclD `c C fun c => do
      mkLambdaFVars #[pv, c] (assemble pv pv c)
    let word ← withLocalDeclD `s σ fun sv => do mkLambdaFVars #[sv] (projAt' allTys sv w)
    let rest ← withLocalDeclD `s σ fun sv => do mkLambdaFVars #[sv] (restOf sv)
    let V := mkAppN (mkConst ``VB) #[σ, C, mk, word, rest]
    let hinit ← withLocalDeclD `f u32 fun f => withLocalDeclD `g u32 fun g => do
      mkLambdaFVars #[f, g] (← rflOn (init.instantiate1 (orWord f g)))
    let h ← withLocalDeclD `i (mkConst ``Nat) fun i => withLocalDeclD `c C fun c => do
      let Tb := projSimp ((mkApp2 body i (assemble (.bvar 0) (.bvar 0) c)).headBeta)
      let p ← go { ctx with β := stepTy, U := mkApp2 (mkConst ``stepU) σ V, jps := [] } Tb
      mkLambdaFVars #[i, c] p
    let hBd := mkAppN (mkConst ``loopB_body) #[σ, C, ctx.P, mk, word, rest, hη, body, h]
    let pm := mkAppN (mkConst ``framed_forInC) #[σ, ctx.P, V, range, lamPf init, Expr.lam `pf u32 body .default, hinit, hBd]
    let hk ← withLocalDeclD `c C fun c => do
      let Tk := projSimp ((mkApp k (assemble (.bvar 0) (.bvar 0) c)).headBeta)
      let p ← go ctx Tk
      mkLambdaFVars #[c] p
    let hK := mkAppN (mkConst ``loopB_after) #[ctx.β, σ, C, ctx.P, ctx.U, mk, word, rest, hη, k, hk]
    let K := Expr.lam `s σ (Expr.lam `pf u32 (mkApp k (.bvar 1)) .default) .default
    return mkAppN (mkConst ``framed_bind_UC) #[ctx.β, σ, ctx.P, ctx.U, V, lamPf m, K, pm, hK]
  | true, none =>
    -- the word is not in the state: body and continuation use the enclosing one
    let mk ← withLocalDeclD `a0 slotTy fun a0 => withLocalDeclD `c C fun c => do
      mkLambdaFVars #[a0, c] (assemble a0 a0 c)
    let slot ← withLocalDeclD `s σ fun sv => do mkLambdaFVars #[sv] (projAt' allTys sv 0)
    let rest ← withLocalDeclD `s σ fun sv => do mkLambdaFVars #[sv] (restOf sv)
    let V := mkAppN (mkConst ``VC) #[σ, ρ, C, instρ, mk, slot, rest]
    let hinit ← withLocalDeclD `f u32 fun f => withLocalDeclD `g u32 fun g => do
      mkLambdaFVars #[f, g] (← rflOn init)
    let h ← withLocalDeclD `i (mkConst ``Nat) fun i => withLocalDeclD `a0 slotTy fun a0 =>
        withLocalDeclD `a0' slotTy fun a0' => withLocalDeclD `c C fun c => do
      let Tb := projSimpAll ((mkApp2 body i (assemble a0 a0 c)).headBeta)
      if Tb.containsFVar a0.fvarId! then throwError "frame: a loop body looks at its return slot"
      let ctxB := { ctx with β := stepTy, U := mkApp2 (mkConst ``stepU) σ V, jps := [] }
      let p ← go ctxB Tb
      let exTy := mkApp2 (mkConst ``Except [Level.zero, Level.zero]) (mkConst ``String) stepTy
      let A := framedStmt ctxB (mkApp2 body i (assemble a0 a0 c))
      let Bp := Expr.forallE `p u32 (mkApp3 (mkConst ``Eq [Level.succ Level.zero]) exTy
        (mkApp2 body i (assemble a0' a0' c)) (mkApp2 body i (assemble a0 a0 c))) .default
      let q := Expr.lam `p u32 (mkApp2 (mkConst ``Eq.refl [Level.succ Level.zero]) exTy Tb) .default
      mkLambdaFVars #[i, a0, a0', c] (mkApp4 (mkConst ``And.intro) A Bp p q)
    let hBd := mkAppN (mkConst ``loopC_body) #[σ, ρ, C, ctx.P, instρ, mk, slot, rest, hη, lamPf body, h]
    let pm := mkAppN (mkConst ``framed_forInC) #[σ, ctx.P, V, range, lamPf init, lamPf body, hinit, hBd]
    let hnone ← withLocalDeclD `c C fun c => do
      let none' := mkApp (mkConst ``Option.none [Level.zero]) ρ
      let Tk := projSimpAll ((mkApp k (assemble none' none' c)).headBeta)
      let p ← go ctx Tk
      mkLambdaFVars #[c] p
    let hsome ← withLocalDeclD `v ρ fun v => withLocalDeclD `c C fun c => withLocalDeclD `f u32 fun f =>
        withLocalDeclD `g u32 fun g => do
      let φ := Expr.lam `h u32 (orWord f (.bvar 0)) .default
      let sm := mkApp2 (mkConst ``Option.some [Level.zero]) ρ (mkApp4 (mkConst ``HasFlags.upd) ρ instρ φ v)
      mkLambdaFVars #[v, c, f, g] (← rflOn (mkApp (k.instantiate1 (orWord f g)) (assemble sm sm c)))
    let K := Expr.lam `s σ (Expr.lam `pf u32 (mkApp k (.bvar 1)) .default) .default
    let hK := mkAppN (mkConst ``loopC_after) #[ctx.β, σ, ρ, C, ctx.P, ctx.U, instρ, mk, slot, rest, hη, K, hnone, hsome]
    return mkAppN (mkConst ``framed_bind_UC) #[ctx.β, σ, ctx.P, ctx.U, V, lamPf m, K, pm, hK]
  | false, none => throwError "frame: a loop uses the status word but neither carries it nor returns"

/-- `have jp := J; b` -/
partial def goJp (ctx : Ctx) (n : Name) (ty : Expr) (J : Expr) (b : Expr) (closure : Bool) : MetaM Expr := do
  let arity := J.getNumHeadLambdas
  if closure then
    let ty' := Expr.forallE `pf u32 ty .default
    let Jlam := lamPf J
    withLocalDeclD n ty' fun jp => do
      let H ← mkH ctx ty arity none
      let hJ ← proveJ ctx J arity none
      withLocalDeclD `hjp (mkApp H jp).headBeta fun hjp => do
        let body := b.instantiate1 (mkApp jp (.bvar 0))
        let info : JpInfo := { hyp := hjp, flagPos := none, arity := arity }
        let p ← go { ctx with jps := (jp.fvarId!, info) :: ctx.jps } body
        let hb ← mkLambdaFVars #[jp, hjp] p
        withLocalDeclD n ty fun j0 => do
          let bLam ← mkLambdaFVars #[j0] (lamPf (b.instantiate1 j0))
          pure <| mkAppN (mkConst ``framed_jp') #[ctx.β, ty, ctx.P, ctx.U, Jlam, bLam, H, hJ, hb]
  else
    withLocalDeclD n ty fun jp => do
      let body := b.instantiate1 jp
      let names := (List.range arity).filterMap fun i =>
        let (nm, t) := lamParam J i
        if t.isConstOf ``UInt32 && ctx.flagNames.contains nm.eraseMacroScopes then some i else none
      let pos := match names with
        | [k] => some k
        | _ => match findSite jp.fvarId! arity body 1 [0] with
          | some [k] => some k
          | _ => none
      match pos with
      | none =>
        let p ← go ctx body
        let bLam ← mkLambdaFVars #[jp] (lamPf body)
        let h ← mkLambdaFVars #[jp] p
        pure <| mkAppN (mkConst ``framed_let) #[ty, ctx.β, ctx.P, ctx.U, J, bLam, h]
      | some k =>
        let H ← mkH ctx ty arity (some k)
        let hJ ← proveJ ctx J arity (some k)
        withLocalDeclD `hjp (mkApp H jp).headBeta fun hjp => do
          let info : JpInfo := { hyp := hjp, flagPos := some k, arity := arity }
          let p ← go { ctx with jps := (jp.fvarId!, info) :: ctx.jps } body
          let hb ← mkLambdaFVars #[jp, hjp] p
          let bLam ← mkLambdaFVars #[jp] (lamPf body)
          pure <| mkAppN (mkConst ``framed_jp) #[ctx.β, ty, ctx.P, ctx.U, J, bLam, H, hJ, hb]

/-- the predicate `fun jp => ∀ args, FramedU U (fun pf => jp … pf …)` -/
partial def mkH (ctx : Ctx) (ty : Expr) (arity : Nat) (pos : Option Nat) : MetaM Expr := do
  let jpTy := match pos with | some _ => ty | none => Expr.forallE `pf u32 ty .default
  withLocalDeclD `jp jpTy fun jp => do
    forallBoundedTelescope ty arity fun xs _ => do
      let (app, xs') := match pos with
        | some k =>
          let args := xs.mapIdx fun i x => if i == k then Expr.bvar 0 else x
          (mkAppN jp args, (xs.toList.take k ++ xs.toList.drop (k+1)).toArray)
        | none => (mkAppN (mkApp jp (.bvar 0)) xs, xs)
      let body ← mkForallFVars xs' (framedStmt ctx app)
      mkLambdaFVars #[jp] body

/-- proof of `H J` -/
partial def proveJ (ctx : Ctx) (J : Expr) (arity : Nat) (pos : Option Nat) : MetaM Expr := do
  let rec loop (e : Expr) (i : Nat) (xs : Array Expr) (names : List Name) : MetaM Expr := do
    if i == arity then
      let p ← go { ctx with flagNames := names } e
      mkLambdaFVars xs p
    else
      match e with
      | .lam n t b _ =>
        if pos == some i then
          loop (b.instantiate1 (.bvar 0)) (i+1) xs (n.eraseMacroScopes :: names)
        else
          withLocalDeclD n t fun x => loop (b.instantiate1 x) (i+1) (xs.push x) (names.erase n.eraseMacroScopes)
      | _ => throwError "frame: join point with fewer parameters than expected"
  loop J 0 #[] ctx.flagNames

end

/-- prove `Framed (fun pf => R a₁ … pf …)` for a translated routine `R` by one pass over its `do` block -/
elab "frame_auto" : tactic => do
  let g ← getMainGoal
  let t := (← instantiateMVars (← g.getType)).consumeMData
  let t ← whnfR t
  unless t.isAppOfArity ``FramedP 4 do throwError "frame_auto: goal is not `Framed _` / `FramedNI _`"
  let β := t.getArg! 0
  let U := t.getArg! 2
  let B := t.getArg! 3
  unless B.isLambda do throwError "frame_auto: expected `Framed (fun pf => …)`"
  let body := B.bindingBody!
  let .const c lvls := body.getAppFn | throwError "frame_auto: expected an application of a routine"
  let info ← getConstInfo c
  let some val := info.value? | throwError "frame_auto: `{c}` has no definition to unfold"
  let val := val.instantiateLevelParams info.levelParams lvls
  let body' := (mkAppN val body.getAppArgs).headBeta
  let p ← go { β := β, P := t.getArg! 1, U := U } body'
  let p ← mkExpectedTypeHint p (← g.getType)
  g.assign p
  replaceMainGoal []


/-! ## 3. The theorems -/

open Dec.Rs Dec.Gen.Code

/-- the frame property of `set_status_flags` -/
theorem set_status_flags_frame (s : UInt32) :
    Framed (fun pf => set_status_flags pf s) := by frame_auto

/-- the frame property of `bid128_add` -/
theorem bid128_add_frame (x : U128) (y : U128) (rnd_mode : RoundingMode) :
    Framed (fun pf => bid128_add x y rnd_mode pf) := by frame_auto

/-- the frame property of `bid128_div` -/
theorem bid128_div_frame (x : U128) (y : U128) (rnd_mode : RoundingMode) :
    Framed (fun pf => bid128_div x y rnd_mode pf) := by frame_auto

/-- the frame property of `bid_rounding_correction` -/
theorem bid_rounding_correction_frame (rnd_mode : RoundingMode) (is_inexact_lt_midpoint : Bool) (is_inexact_gt_midpoint : Bool) (is_midpoint_lt_even : Bool) (is_midpoint_gt_even : Bool) (unbexp : Int32) (ptrres : U128) :
    Framed (fun pf => bid_rounding_correction rnd_mode is_inexact_lt_midpoint is_inexact_gt_midpoint is_midpoint_lt_even is_midpoint_gt_even unbexp ptrres pf) := by frame_auto

/-- the frame property of `bid_add_and_round` -/
theorem bid_add_and_round_frame (q3 : Int32) (q4 : Int32) (e4 : Int32) (delta : Int32) (p34 : Int32) (z_sign : UInt64) (p_sign : UInt64) (C3 : U128) (C4 : U256) (rnd_mode : RoundingMode) (ptr_is_midpoint_lt_even : Bool) (ptr_is_midpoint_gt_even : Bool) (ptr_is_inexact_lt_midpoint : Bool) (ptr_is_inexact_gt_midpoint : Bool) :
    Framed (fun pf => bid_add_and_round q3 q4 e4 delta p34 z_sign p_sign C3 C4 rnd_mode ptr_is_midpoint_lt_even ptr_is_midpoint_gt_even ptr_is_inexact_lt_midpoint ptr_is_inexact_gt_midpoint pf) := by frame_auto

/-- the frame property of `bid128_ext_fma` -/
theorem bid128_ext_fma_frame (ptr_is_midpoint_lt_even : Bool) (ptr_is_midpoint_gt_even : Bool) (ptr_is_inexact_lt_midpoint : Bool) (ptr_is_inexact_gt_midpoint : Bool) (x : U128) (y : U128) (z : U128) (rnd_mode : RoundingMode) :
    Framed (fun pf => bid128_ext_fma ptr_is_midpoint_lt_even ptr_is_midpoint_gt_even ptr_is_inexact_lt_midpoint ptr_is_inexact_gt_midpoint x y z rnd_mode pf) := by frame_auto

/-- the frame property of `bid128_quiet_greater` -/
theorem bid128_quiet_greater_frame (x : U128) (y : U128) :
    Framed (fun pf => bid128_quiet_greater x y pf) := by frame_auto

/-- the frame property of `bid128_sub` -/
theorem bid128_sub_frame (x : U128) (y : U128) (rnd_mode : RoundingMode) :
    Framed (fun pf => bid128_sub x y rnd_mode pf) := by frame_auto

/-- the frame property of `bid128_fdim` -/
theorem bid128_fdim_frame (x : U128) (y : U128) (rnd_mode : RoundingMode) :
    Framed (fun pf => bid128_fdim x y rnd_mode pf) := by frame_auto

/-- the frame property of `bid128_fma` -/
theorem bid128_fma_frame (x : U128) (y : U128) (z : U128) (rnd_mode : RoundingMode) :
    Framed (fun pf => bid128_fma x y z rnd_mode pf) := by frame_auto

/-- the frame property of `bid128_fmod` -/
theorem bid128_fmod_frame (x : U128) (y : U128) :
    Framed (fun pf => bid128_fmod x y pf) := by frame_auto

/-- the frame property of `bid128_ilogb` -/
theorem bid128_ilogb_frame (x : U128) :
    Framed (fun pf => bid128_ilogb x pf) := by frame_auto

/-- the frame property of `bid128_ldexp` -/
theorem bid128_ldexp_frame (x : U128) (n : Int32) (rnd_mode : RoundingMode) :
    Framed (fun pf => bid128_ldexp x n rnd_mode pf) := by frame_auto

/-- the frame property of `bid128_llquantexp` -/
theorem bid128_llquantexp_frame (x : U128) :
    Framed (fun pf => bid128_llquantexp x pf) := by frame_auto

/-- the frame property of `bid128_to_int64_xrnint` -/
theorem bid128_to_int64_xrnint_frame (x : U128) :
    Framed (fun pf => bid128_to_int64_xrnint x pf) := by frame_auto

/-- the frame property of `bid128_to_int64_xrninta` -/
theorem bid128_to_int64_xrninta_frame (x : U128) :
    Framed (fun pf => bid128_to_int64_xrninta x pf) := by frame_auto

/-- the frame property of `bid128_to_int64_xfloor` -/
theorem bid128_to_int64_xfloor_frame (x : U128) :
    Framed (fun pf => bid128_to_int64_xfloor x pf) := by frame_auto

/-- the frame property of `bid128_to_int64_xceil` -/
theorem bid128_to_int64_xceil_frame (x : U128) :
    Framed (fun pf => bid128_to_int64_xceil x pf) := by frame_auto

/-- the frame property of `bid128_to_int64_xint` -/
theorem bid128_to_int64_xint_frame (x : U128) :
    Framed (fun pf => bid128_to_int64_xint x pf) := by frame_auto

/-- the frame property of `bid128_llrint` -/
theorem bid128_llrint_frame (x : U128) (rnd_mode : RoundingMode) :
    Framed (fun pf => bid128_llrint x rnd_mode pf) := by frame_auto

/-- the frame property of `bid128_to_int64_rninta` -/
theorem bid128_to_int64_rninta_frame (x : U128) :
    Framed (fun pf => bid128_to_int64_rninta x pf) := by frame_auto

/-- the frame property of `bid128_llround` -/
theorem bid128_llround_frame (x : U128) :
    Framed (fun pf => bid128_llround x pf) := by frame_auto

/-- the frame property of `bid128_logb` -/
theorem bid128_logb_frame (x : U128) :
    Framed (fun pf => bid128_logb x pf) := by frame_auto

/-- the frame property of `bid128_lrint` -/
theorem bid128_lrint_frame (x : U128) (rnd_mode : RoundingMode) :
    Framed (fun pf => bid128_lrint x rnd_mode pf) := by frame_auto

/-- the frame property of `bid128_lround` -/
theorem bid128_lround_frame (x : U128) :
    Framed (fun pf => bid128_lround x pf) := by frame_auto

/-- the frame property of `bid128_maxnum` -/
theorem bid128_maxnum_frame (x : U128) (y : U128) :
    Framed (fun pf => bid128_maxnum x y pf) := by frame_auto

/-- the frame property of `bid128_maxnum_mag` -/
theorem bid128_maxnum_mag_frame (x : U128) (y : U128) :
    Framed (fun pf => bid128_maxnum_mag x y pf) := by frame_auto

/-- the frame property of `bid128_minnum` -/
theorem bid128_minnum_frame (x : U128) (y : U128) :
    Framed (fun pf => bid128_minnum x y pf) := by frame_auto

/-- the frame property of `bid128_minnum_mag` -/
theorem bid128_minnum_mag_frame (x : U128) (y : U128) :
    Framed (fun pf => bid128_minnum_mag x y pf) := by frame_auto

/-- the frame property of `bid128_round_integral_zero` -/
theorem bid128_round_integral_zero_frame (x : U128) :
    Framed (fun pf => bid128_round_integral_zero x pf) := by frame_auto

/-- the frame property of `bid128_modf` -/
theorem bid128_modf_frame (x : U128) :
    Framed (fun pf => bid128_modf x pf) := by frame_auto

/-- the frame property of `bid128_mul` -/
theorem bid128_mul_frame (x : U128) (y : U128) (rnd_mode : RoundingMode) :
    Framed (fun pf => bid128_mul x y rnd_mode pf) := by frame_auto

/-- the frame property of `bid128_nearbyint` -/
theorem bid128_nearbyint_frame (x : U128) (rnd_mode : RoundingMode) :
    Framed (fun pf => bid128_nearbyint x rnd_mode pf) := by frame_auto

/-- the frame property of `bid128_quiet_equal` -/
theorem bid128_quiet_equal_frame (x : U128) (y : U128) :
    Framed (fun pf => bid128_quiet_equal x y pf) := by frame_auto

/-- the frame property of `bid128_nextdown` -/
theorem bid128_nextdown_frame (x : U128) :
    Framed (fun pf => bid128_nextdown x pf) := by frame_auto

/-- the frame property of `bid128_nextup` -/
theorem bid128_nextup_frame (x : U128) :
    Framed (fun pf => bid128_nextup x pf) := by frame_auto

/-- the frame property of `bid128_quiet_not_equal` -/
theorem bid128_quiet_not_equal_frame (x : U128) (y : U128) :
    Framed (fun pf => bid128_quiet_not_equal x y pf) := by frame_auto

/-- the frame property of `bid128_nextafter` -/
theorem bid128_nextafter_frame (x : U128) (y : U128) :
    Framed (fun pf => bid128_nextafter x y pf) := by frame_auto

/-- the frame property of `bid128_nexttoward` -/
theorem bid128_nexttoward_frame (x : U128) (y : U128) :
    Framed (fun pf => bid128_nexttoward x y pf) := by frame_auto

/-- the frame property of `bid128_quantexp` -/
theorem bid128_quantexp_frame (x : U128) :
    Framed (fun pf => bid128_quantexp x pf) := by frame_auto

/-- the frame property of `bid128_quantize` -/
theorem bid128_quantize_frame (x : U128) (y : U128) (rnd_mode : RoundingMode) :
    Framed (fun pf => bid128_quantize x y rnd_mode pf) := by frame_auto

/-- the frame property of `bid128_quiet_greater_equal` -/
theorem bid128_quiet_greater_equal_frame (x : U128) (y : U128) :
    Framed (fun pf => bid128_quiet_greater_equal x y pf) := by frame_auto

/-- the frame property of `bid128_quiet_greater_unordered` -/
theorem bid128_quiet_greater_unordered_frame (x : U128) (y : U128) :
    Framed (fun pf => bid128_quiet_greater_unordered x y pf) := by frame_auto

/-- the frame property of `bid128_quiet_less` -/
theorem bid128_quiet_less_frame (x : U128) (y : U128) :
    Framed (fun pf => bid128_quiet_less x y pf) := by frame_auto

/-- the frame property of `bid128_quiet_less_equal` -/
theorem bid128_quiet_less_equal_frame (x : U128) (y : U128) :
    Framed (fun pf => bid128_quiet_less_equal x y pf) := by frame_auto

/-- the frame property of `bid128_quiet_less_unordered` -/
theorem bid128_quiet_less_unordered_frame (x : U128) (y : U128) :
    Framed (fun pf => bid128_quiet_less_unordered x y pf) := by frame_auto

/-- the frame property of `bid128_quiet_not_greater` -/
theorem bid128_quiet_not_greater_frame (x : U128) (y : U128) :
    Framed (fun pf => bid128_quiet_not_greater x y pf) := by frame_auto

/-- the frame property of `bid128_quiet_not_less` -/
theorem bid128_quiet_not_less_frame (x : U128) (y : U128) :
    Framed (fun pf => bid128_quiet_not_less x y pf) := by frame_auto

/-- the frame property of `bid128_quiet_ordered` -/
theorem bid128_quiet_ordered_frame (x : U128) (y : U128) :
    Framed (fun pf => bid128_quiet_ordered x y pf) := by frame_auto

/-- the frame property of `bid128_quiet_unordered` -/
theorem bid128_quiet_unordered_frame (x : U128) (y : U128) :
    Framed (fun pf => bid128_quiet_unordered x y pf) := by frame_auto

/-- the frame property of `bid128_rem` -/
theorem bid128_rem_frame (x : U128) (y : U128) :
    Framed (fun pf => bid128_rem x y pf) := by frame_auto

/-- the frame property of `bid128_round_integral_exact` -/
theorem bid128_round_integral_exact_frame (x : U128) (rnd_mode : RoundingMode) :
    Framed (fun pf => bid128_round_integral_exact x rnd_mode pf) := by frame_auto

/-- the frame property of `bid128_round_integral_nearest_away` -/
theorem bid128_round_integral_nearest_away_frame (x : U128) :
    Framed (fun pf => bid128_round_integral_nearest_away x pf) := by frame_auto

/-- the frame property of `bid128_round_integral_nearest_even` -/
theorem bid128_round_integral_nearest_even_frame (x : U128) :
    Framed (fun pf => bid128_round_integral_nearest_even x pf) := by frame_auto

/-- the frame property of `bid128_round_integral_negative` -/
theorem bid128_round_integral_negative_frame (x : U128) :
    Framed (fun pf => bid128_round_integral_negative x pf) := by frame_auto

/-- the frame property of `bid128_round_integral_positive` -/
theorem bid128_round_integral_positive_frame (x : U128) :
    Framed (fun pf => bid128_round_integral_positive x pf) := by frame_auto

/-- the frame property of `bid128_scalbn` -/
theorem bid128_scalbn_frame (x : U128) (n : Int32) (rnd_mode : RoundingMode) :
    Framed (fun pf => bid128_scalbn x n rnd_mode pf) := by frame_auto

/-- the frame property of `bid128_scalbln` -/
theorem bid128_scalbln_frame (x : U128) (n : Int64) (rnd_mode : RoundingMode) :
    Framed (fun pf => bid128_scalbln x n rnd_mode pf) := by frame_auto

/-- the frame property of `bid128_signaling_greater` -/
theorem bid128_signaling_greater_frame (x : U128) (y : U128) :
    Framed (fun pf => bid128_signaling_greater x y pf) := by frame_auto

/-- the frame property of `bid128_signaling_greater_equal` -/
theorem bid128_signaling_greater_equal_frame (x : U128) (y : U128) :
    Framed (fun pf => bid128_signaling_greater_equal x y pf) := by frame_auto

/-- the frame property of `bid128_signaling_greater_unordered` -/
theorem bid128_signaling_greater_unordered_frame (x : U128) (y : U128) :
    Framed (fun pf => bid128_signaling_greater_unordered x y pf) := by frame_auto

/-- the frame property of `bid128_signaling_less` -/
theorem bid128_signaling_less_frame (x : U128) (y : U128) :
    Framed (fun pf => bid128_signaling_less x y pf) := by frame_auto

/-- the frame property of `bid128_signaling_less_equal` -/
theorem bid128_signaling_less_equal_frame (x : U128) (y : U128) :
    Framed (fun pf => bid128_signaling_less_equal x y pf) := by frame_auto

/-- the frame property of `bid128_signaling_less_unordered` -/
theorem bid128_signaling_less_unordered_frame (x : U128) (y : U128) :
    Framed (fun pf => bid128_signaling_less_unordered x y pf) := by frame_auto

/-- the frame property of `bid128_signaling_not_greater` -/
theorem bid128_signaling_not_greater_frame (x : U128) (y : U128) :
    Framed (fun pf => bid128_signaling_not_greater x y pf) := by frame_auto

/-- the frame property of `bid128_signaling_not_less` -/
theorem bid128_signaling_not_less_frame (x : U128) (y : U128) :
    Framed (fun pf => bid128_signaling_not_less x y pf) := by frame_auto

/-- the frame property of `bid128_sqrt` -/
theorem bid128_sqrt_frame (x : U128) (rnd_mode : RoundingMode) :
    Framed (fun pf => bid128_sqrt x rnd_mode pf) := by frame_auto

/-- the frame property of `bid128_to_int32_ceil` -/
theorem bid128_to_int32_ceil_frame (x : U128) :
    Framed (fun pf => bid128_to_int32_ceil x pf) := by frame_auto

/-- the frame property of `bid128_to_int32_floor` -/
theorem bid128_to_int32_floor_frame (x : U128) :
    Framed (fun pf => bid128_to_int32_floor x pf) := by frame_auto

/-- the frame property of `bid128_to_int32_int` -/
theorem bid128_to_int32_int_frame (x : U128) :
    Framed (fun pf => bid128_to_int32_int x pf) := by frame_auto

/-- the frame property of `bid128_to_int32_rnint` -/
theorem bid128_to_int32_rnint_frame (x : U128) :
    Framed (fun pf => bid128_to_int32_rnint x pf) := by frame_auto

/-- the frame property of `bid128_to_int32_rninta` -/
theorem bid128_to_int32_rninta_frame (x : U128) :
    Framed (fun pf => bid128_to_int32_rninta x pf) := by frame_auto

/-- the frame property of `bid128_to_int32_xceil` -/
theorem bid128_to_int32_xceil_frame (x : U128) :
    Framed (fun pf => bid128_to_int32_xceil x pf) := by frame_auto

/-- the frame property of `bid128_to_int32_xfloor` -/
theorem bid128_to_int32_xfloor_frame (x : U128) :
    Framed (fun pf => bid128_to_int32_xfloor x pf) := by frame_auto

/-- the frame property of `bid128_to_int32_xint` -/
theorem bid128_to_int32_xint_frame (x : U128) :
    Framed (fun pf => bid128_to_int32_xint x pf) := by frame_auto

/-- the frame property of `bid128_to_int32_xrnint` -/
theorem bid128_to_int32_xrnint_frame (x : U128) :
    Framed (fun pf => bid128_to_int32_xrnint x pf) := by frame_auto

/-- the frame property of `bid128_to_int32_xrninta` -/
theorem bid128_to_int32_xrninta_frame (x : U128) :
    Framed (fun pf => bid128_to_int32_xrninta x pf) := by frame_auto

/-- the frame property of `bid128_to_int64_ceil` -/
theorem bid128_to_int64_ceil_frame (x : U128) :
    Framed (fun pf => bid128_to_int64_ceil x pf) := by frame_auto

/-- the frame property of `bid128_to_int64_floor` -/
theorem bid128_to_int64_floor_frame (x : U128) :
    Framed (fun pf => bid128_to_int64_floor x pf) := by frame_auto

/-- the frame property of `bid128_to_int64_int` -/
theorem bid128_to_int64_int_frame (x : U128) :
    Framed (fun pf => bid128_to_int64_int x pf) := by frame_auto

/-- the frame property of `bid128_to_int64_rnint` -/
theorem bid128_to_int64_rnint_frame (x : U128) :
    Framed (fun pf => bid128_to_int64_rnint x pf) := by frame_auto

/-- the frame property of `bid128_to_uint32_ceil` -/
theorem bid128_to_uint32_ceil_frame (x : U128) :
    Framed (fun pf => bid128_to_uint32_ceil x pf) := by frame_auto

/-- the frame property of `bid128_to_uint32_floor` -/
theorem bid128_to_uint32_floor_frame (x : U128) :
    Framed (fun pf => bid128_to_uint32_floor x pf) := by frame_auto

/-- the frame property of `bid128_to_uint32_int` -/
theorem bid128_to_uint32_int_frame (x : U128) :
    Framed (fun pf => bid128_to_uint32_int x pf) := by frame_auto

/-- the frame property of `bid128_to_uint32_rnint` -/
theorem bid128_to_uint32_rnint_frame (x : U128) :
    Framed (fun pf => bid128_to_uint32_rnint x pf) := by frame_auto

/-- the frame property of `bid128_to_uint32_rninta` -/
theorem bid128_to_uint32_rninta_frame (x : U128) :
    Framed (fun pf => bid128_to_uint32_rninta x pf) := by frame_auto

/-- the frame property of `bid128_to_uint32_xceil` -/
theorem bid128_to_uint32_xceil_frame (x : U128) :
    Framed (fun pf => bid128_to_uint32_xceil x pf) := by frame_auto

/-- the frame property of `bid128_to_uint32_xfloor` -/
theorem bid128_to_uint32_xfloor_frame (x : U128) :
    Framed (fun pf => bid128_to_uint32_xfloor x pf) := by frame_auto

/-- the frame property of `bid128_to_uint32_xint` -/
theorem bid128_to_uint32_xint_frame (x : U128) :
    Framed (fun pf => bid128_to_uint32_xint x pf) := by frame_auto

/-- the frame property of `bid128_to_uint32_xrnint` -/
theorem bid128_to_uint32_xrnint_frame (x : U128) :
    Framed (fun pf => bid128_to_uint32_xrnint x pf) := by frame_auto

/-- the frame property of `bid128_to_uint32_xrninta` -/
theorem bid128_to_uint32_xrninta_frame (x : U128) :
    Framed (fun pf => bid128_to_uint32_xrninta x pf) := by frame_auto

/-- the frame property of `bid128_to_uint64_ceil` -/
theorem bid128_to_uint64_ceil_frame (x : U128) :
    Framed (fun pf => bid128_to_uint64_ceil x pf) := by frame_auto

/-- the frame property of `bid128_to_uint64_floor` -/
theorem bid128_to_uint64_floor_frame (x : U128) :
    Framed (fun pf => bid128_to_uint64_floor x pf) := by frame_auto

/-- the frame property of `bid128_to_uint64_int` -/
theorem bid128_to_uint64_int_frame (x : U128) :
    Framed (fun pf => bid128_to_uint64_int x pf) := by frame_auto

/-- the frame property of `bid128_to_uint64_rnint` -/
theorem bid128_to_uint64_rnint_frame (x : U128) :
    Framed (fun pf => bid128_to_uint64_rnint x pf) := by frame_auto

/-- the frame property of `bid128_to_uint64_rninta` -/
theorem bid128_to_uint64_rninta_frame (x : U128) :
    Framed (fun pf => bid128_to_uint64_rninta x pf) := by frame_auto

/-- the frame property of `bid128_to_uint64_xceil` -/
theorem bid128_to_uint64_xceil_frame (x : U128) :
    Framed (fun pf => bid128_to_uint64_xceil x pf) := by frame_auto

/-- the frame property of `bid128_to_uint64_xfloor` -/
theorem bid128_to_uint64_xfloor_frame (x : U128) :
    Framed (fun pf => bid128_to_uint64_xfloor x pf) := by frame_auto

/-- the frame property of `bid128_to_uint64_xint` -/
theorem bid128_to_uint64_xint_frame (x : U128) :
    Framed (fun pf => bid128_to_uint64_xint x pf) := by frame_auto

/-- the frame property of `bid128_to_uint64_xrnint` -/
theorem bid128_to_uint64_xrnint_frame (x : U128) :
    Framed (fun pf => bid128_to_uint64_xrnint x pf) := by frame_auto

/-- the frame property of `bid128_to_uint64_xrninta` -/
theorem bid128_to_uint64_xrninta_frame (x : U128) :
    Framed (fun pf => bid128_to_uint64_xrninta x pf) := by frame_auto

/-! ## 4. The exceptions: the underflow packers read the inexact bit -/

/-- equality of results is decidable (to evaluate the witnesses in the kernel) -/
instance decEqExcept {ε α : Type} [DecidableEq ε] [DecidableEq α] : DecidableEq (Except ε α)
  | .ok a, .ok b => if h : a = b then isTrue (h ▸ rfl) else isFalse (fun h' => h (Except.ok.inj h'))
  | .error a, .error b => if h : a = b then isTrue (h ▸ rfl) else isFalse (fun h' => h (Except.error.inj h'))
  | .ok _, .error _ => isFalse nofun
  | .error _, .ok _ => isFalse nofun

/-- `handle_UF_128`: framed for extra words without the inexact flag -/
theorem handle_UF_128_frameNI (sgn : UInt64) (expon : Int32) (CQ : U128) (rnd_mode : RoundingMode) :
    FramedNI (fun pf => handle_UF_128 sgn expon CQ rnd_mode pf) := by frame_auto

/-- `bid_handle_UF_128_rem`: framed for extra words without the inexact flag -/
theorem bid_handle_UF_128_rem_frameNI (sgn : UInt64) (expon : Int32) (CQ : U128) (R : UInt64) (rnd_mode : RoundingMode) :
    FramedNI (fun pf => bid_handle_UF_128_rem sgn expon CQ R rnd_mode pf) := by frame_auto

/-- `bid_get_BID128` (calls `handle_UF_128`) -/
theorem bid_get_BID128_frameNI (sgn : UInt64) (expon : Int32) (coeff : U128) (rnd_mode : RoundingMode) :
    FramedNI (fun pf => bid_get_BID128 sgn expon coeff rnd_mode pf) := by frame_auto

/-- `bid128_div_clear_status` (calls both) -/
theorem bid128_div_clear_status_frameNI (x y : U128) (rnd_mode : RoundingMode) :
    FramedNI (fun pf => bid128_div_clear_status x y rnd_mode pf) := by frame_auto

/-- `bid128_scalbn_clear_status` (calls `bid_get_BID128`) -/
theorem bid128_scalbn_clear_status_frameNI (x : U128) (n : Int32) (rnd_mode : RoundingMode) :
    FramedNI (fun pf => bid128_scalbn_clear_status x n rnd_mode pf) := by frame_auto

/-- `bid128_ldexp_clear_status` (calls `bid_get_BID128`) -/
theorem bid128_ldexp_clear_status_frameNI (x : U128) (n : Int32) (rnd_mode : RoundingMode) :
    FramedNI (fun pf => bid128_ldexp_clear_status x n rnd_mode pf) := by frame_auto

/-- what `FramedNI` says, in the form asked for: for an incoming word `f` without the inexact flag -/
theorem FramedNI.frame {α : Type} {R : UInt32 → Except String (α × UInt32)} (h : FramedNI R) (f : UInt32)
    (hf : f &&& 0x20 = 0) : R f = (R 0).map (fun p => (p.1, f ||| p.2)) := by
  have := h f 0 hf
  rwa [UInt32.or_zero] at this

/-! The full frame is FALSE for these six: `10 · 10^-1` (exact, tiny) from the incoming word `0x20` (inexact, left by an
earlier operation) comes back with `0x30` — underflow is raised because the packer sees "inexact" — where the frame
property would give `0x20`. -/

theorem handle_UF_128_not_framed : ¬ Framed (fun pf => handle_UF_128 0 (-1) ⟨10, 0⟩ .NearestEven pf) := by
  intro h; exact absurd (h 0x20 0 trivial) (by decide +kernel)

theorem bid_handle_UF_128_rem_not_framed :
    ¬ Framed (fun pf => bid_handle_UF_128_rem 0 (-1) ⟨10, 0⟩ 0 .NearestEven pf) := by
  intro h; exact absurd (h 0x20 0 trivial) (by decide +kernel)

theorem bid_get_BID128_not_framed : ¬ Framed (fun pf => bid_get_BID128 0 (-1) ⟨10, 0⟩ .NearestEven pf) := by
  intro h; exact absurd (h 0x20 0 trivial) (by decide +kernel)

/-- `10E-6176 / 1E+1` -/
theorem bid128_div_clear_status_not_framed :
    ¬ Framed (fun pf => bid128_div_clear_status ⟨10, 0⟩ ⟨1, 0x3042000000000000⟩ .NearestEven pf) := by
  intro h; exact absurd (h 0x20 0 trivial) (by decide +kernel)

/-- `scalbn (10E-6176, -1)` -/
theorem bid128_scalbn_clear_status_not_framed :
    ¬ Framed (fun pf => bid128_scalbn_clear_status ⟨10, 0⟩ (-1) .NearestEven pf) := by
  intro h; exact absurd (h 0x20 0 trivial) (by decide +kernel)

theorem bid128_ldexp_clear_status_not_framed :
    ¬ Framed (fun pf => bid128_ldexp_clear_status ⟨10, 0⟩ (-1) .NearestEven pf) := by
  intro h; exact absurd (h 0x20 0 trivial) (by decide +kernel)

example : bid128_div_clear_status ⟨10, 0⟩ ⟨1, 0x3042000000000000⟩ .NearestEven 0x20 = .ok (⟨1, 0⟩, 0x30) := by
  decide +kernel
example : bid128_div_clear_status ⟨10, 0⟩ ⟨1, 0x3042000000000000⟩ .NearestEven 0 = .ok (⟨1, 0⟩, 0) := by decide +kernel
-- the public wrapper runs it from a clear word: framed
example : bid128_div ⟨10, 0⟩ ⟨1, 0x3042000000000000⟩ .NearestEven 0x20 = .ok (⟨1, 0⟩, 0x20) := by decide +kernel

/-! ## 5. The statement in the form asked for, on some instances -/

/-- `frameLaw R`: the result from any incoming word is the result from the clear word with the incoming word OR-ed in -/
def frameLaw {α : Type} (R : UInt32 → Except String (α × UInt32)) : Prop :=
  ∀ f, R f = (R 0).map (fun p => (p.1, f ||| p.2))

theorem Framed.toFrame {α : Type} {R : UInt32 → Except String (α × UInt32)} (h : Framed R) : frameLaw R :=
  fun f => Framed.frame h f

theorem bid128_add_frame' (x y : U128) (m : RoundingMode) : frameLaw (bid128_add x y m) := Framed.toFrame (R := bid128_add x y m) (bid128_add_frame x y m)
theorem bid128_sub_frame' (x y : U128) (m : RoundingMode) : frameLaw (bid128_sub x y m) := Framed.toFrame (R := bid128_sub x y m) (bid128_sub_frame x y m)
theorem bid128_mul_frame' (x y : U128) (m : RoundingMode) : frameLaw (bid128_mul x y m) := Framed.toFrame (R := bid128_mul x y m) (bid128_mul_frame x y m)
theorem bid128_fma_frame' (x y z : U128) (m : RoundingMode) : frameLaw (bid128_fma x y z m) :=
  Framed.toFrame (R := bid128_fma x y z m) (bid128_fma_frame x y z m)
theorem bid128_div_frame' (x y : U128) (m : RoundingMode) : frameLaw (bid128_div x y m) := Framed.toFrame (R := bid128_div x y m) (bid128_div_frame x y m)
theorem bid128_sqrt_frame' (x : U128) (m : RoundingMode) : frameLaw (bid128_sqrt x m) := Framed.toFrame (R := bid128_sqrt x m) (bid128_sqrt_frame x m)
theorem bid128_rem_frame' (x y : U128) : frameLaw (bid128_rem x y) := Framed.toFrame (R := bid128_rem x y) (bid128_rem_frame x y)
theorem bid128_quantize_frame' (x y : U128) (m : RoundingMode) : frameLaw (bid128_quantize x y m) :=
  Framed.toFrame (R := bid128_quantize x y m) (bid128_quantize_frame x y m)
theorem bid128_to_int32_xrnint_frame' (x : U128) : frameLaw (bid128_to_int32_xrnint x) :=
  Framed.toFrame (R := bid128_to_int32_xrnint x) (bid128_to_int32_xrnint_frame x)

-- 1 + 1E-40 under every incoming word: same value, inexact OR-ed in
example (f : UInt32) :
    bid128_add ⟨1, 0x3040000000000000⟩ ⟨1, 0x2ff0000000000000⟩ .NearestEven f
      = (bid128_add ⟨1, 0x3040000000000000⟩ ⟨1, 0x2ff0000000000000⟩ .NearestEven 0).map (fun p => (p.1, f ||| p.2)) :=
  bid128_add_frame' _ _ _ f
example : bid128_add ⟨1, 0x3040000000000000⟩ ⟨1, 0x2ff0000000000000⟩ .NearestEven 0
    = .ok (⟨4089650035136921600, 3458255773975743891⟩, 0x20) := by decide +kernel
example : bid128_add ⟨1, 0x3040000000000000⟩ ⟨1, 0x2ff0000000000000⟩ .NearestEven 0x04
    = .ok (⟨4089650035136921600, 3458255773975743891⟩, 0x24) := by decide +kernel

end Dec.C14GenFrame
