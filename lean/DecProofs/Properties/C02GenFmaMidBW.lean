/-
  C02GenFmaMidBW — the SET-UP package of block "Mid" of `bid128_ext_fma` for its SECOND use (after the operand exchange: `C3` the
  product with `e3` anywhere in `[−12352, 12222]`, `C4` the original addend), over the wide interfaces `EntryInvW` / `LoopPreW` of
  C02GenFmaMidWideDefs:
    (a) `setupK_spec_wide`     : `setupK_spec` with `EntryInvW` / `LoopPreW` (all other conjuncts unchanged);
    (b) `case_test_entry_wide` : the Boolean at the head of the block = `decide (¬ (delta ≤ 1 ∧ signs differ))` under `EntryInvW`;
    (c) `setup_link_wide`      : `setup_link` with `LoopPreW` (the narrow one asks for a `LoopPre`, which fixes the range of `E3`).
  Method: `setupK` does not read `e3`, `e4`; only `delta = q3 + e3 − q4 − e4` enters.  Both exponents are therefore shifted by `E3`
  (`E3 ↦ 0`, `E4 ↦ E4 − E3 = q3 − q4 − delta ∈ [−66, 33]`), which turns an `EntryInvW` into an `EntryInv` (`shift_entry`), the
  narrow `setupK_spec` is applied, and the resulting `LoopPre … 0 … (m − E3) V` is shifted back (`LoopPre.unshift`); the field
  `hlead` comes from `0 ≤ delta ≤ 33`, `1 ≤ q4 ≤ 34`, `−6176 ≤ E4 ≤ 6111` (`lead_of_entry`).
  Findings: none.
-/
import DecProofs.Properties.C02GenFmaMidB
import DecProofs.Properties.C02GenFmaMidWideDefs

set_option linter.unusedSimpArgs false
set_option linter.unusedVariables false
set_option linter.unnecessarySeqFocus false
namespace Dec.C02GenFmaMidBW
open Dec Dec.Rs Dec.Gen.Code Dec.C02GenFmaMid Dec.C02GenFmaMidB
open Dec.C03GenCompare (val128 val256)

/-! ## 1. Shifting the exponents -/

/-- a `LoopPre` at exponents shifted by `t` is a `LoopPreW` at the true exponents, given the position of the leading digit -/
theorem LoopPre.unshift {c3 c4 S X : Nat} {E0 : Int} {same : Bool} {m : Int} {V : Nat} (t : Int)
    (h : LoopPre c3 c4 S X (E0 - t) same (m - t) V)
    (hlead : eMin + 1 ≤ (ndigits c3 : Int) + E0 ∧ (ndigits c3 : Int) + E0 ≤ 6178) :
    LoopPreW c3 c4 S X E0 same m V := by
  obtain ⟨hc3, hS, hc4, hQ4, hX, hfit, h58, h128, hE0, hm, hx33, hV, hdom⟩ := h
  exact ⟨hc3, hS, hc4, hQ4, hX, hfit, h58, h128, hlead, by omega, hx33, hV, hdom⟩

theorem q_le_34 {c : Nat} (h : 0 < c ∧ c < P34) : 1 ≤ ndigits c ∧ ndigits c ≤ 34 := by
  refine ⟨ndigits_pos h.1, (ndigits_le_iff h.1).2 ?_⟩
  have : P34 = 10 ^ 34 := by decide
  have := h.2; omega

/-- the leading digit of `c3` under the wide entry invariant -/
theorem lead_of_entry {C3 : U128} {C4 : U256} {q3 q4 e3 e4 delta p34 : Int32} {z_sign p_sign : UInt64}
    {c3 c4 : Nat} {E3 E4 : Int} {sz sp : Bool}
    (h : EntryInvW C3 C4 q3 q4 e3 e4 delta p34 z_sign p_sign c3 c4 E3 E4 sz sp) :
    eMin + 1 ≤ (ndigits c3 : Int) + E3 ∧ (ndigits c3 : Int) + E3 ≤ 6178 := by
  have hMin : eMin = -6176 := rfl
  obtain ⟨a4, b4⟩ := q_le_34 h.hc4
  have := h.hdelta; have := h.hdr; have := h.hE4
  omega

/-- **the shift**: an `EntryInvW` is an `EntryInv` for the exponents `0` and `E4 − E3` (held by the words `0` and
`q3 − q4 − delta`; `setupK` reads neither) -/
theorem shift_entry {C3 : U128} {C4 : U256} {q3 q4 e3 e4 delta p34 : Int32} {z_sign p_sign : UInt64}
    {c3 c4 : Nat} {E3 E4 : Int} {sz sp : Bool}
    (h : EntryInvW C3 C4 q3 q4 e3 e4 delta p34 z_sign p_sign c3 c4 E3 E4 sz sp) :
    EntryInv C3 C4 q3 q4 0 (q3 - q4 - delta) delta p34 z_sign p_sign c3 c4 0 (E4 - E3) sz sp := by
  obtain ⟨a3, b3⟩ := q_le_34 h.hc3
  obtain ⟨a4, b4⟩ := q_le_34 h.hc4
  have hd := h.hdelta
  have hdr := h.hdr
  have hP : P34 < P34 * P34 := by decide
  have h1 : (q3 - q4).toInt = (ndigits c3 : Int) - ndigits c4 :=
    i32_sub' q3 q4 _ _ h.hq3 h.hq4 (by omega) (by omega)
  have h2 : (q3 - q4 - delta).toInt = E4 - E3 := by
    rw [i32_sub' (q3 - q4) delta _ _ h1 rfl (by omega) (by omega)]; omega
  exact ⟨h.hC3, h.hc3, h.hq3, rfl, by omega, h.hC4, ⟨h.hc4.1, by have := h.hc4.2; omega⟩, h.hq4, h2, by omega, by omega, hdr,
    h.hp34, h.hzs, h.hps⟩

/-! ## 2. The three statements, wide -/

/-- **`setupK`, second use**: as `setupK_spec`, under the wide entry invariant, the loop's precondition in its wide form -/
theorem setupK_spec_wide {α : Type} {C3 : U128} {C4 : U256} {q3 q4 e3 e4 delta p34 : Int32} {z_sign p_sign : UInt64}
    {c3 c4 : Nat} {E3 E4 : Int} {sz sp : Bool}
    (h : EntryInvW C3 C4 q3 q4 e3 e4 delta p34 z_sign p_sign c3 c4 E3 E4 sz sp)
    (hcase : ¬ (delta.toInt ≤ 1 ∧ sp ≠ sz)) (scale x0 : Int32) (P128 : U128)
    (k : U256 → Int32 → Int32 → U128 → Except String α) :
    ∃ (C4' : U256) (scale' x0' : Int32) (P128' : U128) (c4' S X : Nat) (m : Int) (V : Nat),
      setupK C4 q3 q4 scale delta x0 p34 P128 k = k C4' scale' x0' P128' ∧
      val256 C4' = c4' ∧ scale'.toInt = S ∧ x0'.toInt = X ∧ (1 ≤ X → C4' = C4) ∧
      LoopPreW c3 c4' S X E3 (sp == sz) m V ∧
      m = (if E4 ≤ E3 then E4 else E3) ∧ (X = 0 → c4' = c4 * 10 ^ (E4 - m).toNat) ∧ (1 ≤ X → c4' = c4 ∧ m = E4) := by
  obtain ⟨C4', scale', x0', P128', c4', S, X, m0, V, hk, hv, hs, hx, hC, hpre, hm, hX0, hX1⟩ :=
    setupK_spec (shift_entry h) hcase scale x0 P128 k
  refine ⟨C4', scale', x0', P128', c4', S, X, m0 + E3, V, hk, hv, hs, hx, hC, ?_, ?_, ?_, ?_⟩
  · refine LoopPre.unshift E3 ?_ (lead_of_entry h)
    rw [Int.sub_self, Int.add_sub_cancel]
    exact hpre
  · rw [hm]; split <;> split <;> omega
  · intro h0
    rw [hX0 h0, show E4 - (m0 + E3) = E4 - E3 - m0 by omega]
  · intro h1
    obtain ⟨a, b⟩ := hX1 h1
    exact ⟨a, by omega⟩

/-- the case test under the wide entry invariant -/
theorem case_test_entry_wide {C3 : U128} {C4 : U256} {q3 q4 e3 e4 delta p34 : Int32} {z_sign p_sign : UInt64}
    {c3 c4 : Nat} {E3 E4 : Int} {sz sp : Bool}
    (h : EntryInvW C3 C4 q3 q4 e3 e4 delta p34 z_sign p_sign c3 c4 E3 E4 sz sp) :
    ((((((((((decide (q3 ≤ delta)) && (decide (delta < p34))) && (decide (p34 < (delta + q4))))) || (((decide (q3 ≤ delta)) && (decide ((delta + q4) ≤ p34))))) || (((decide (delta < q3)) && (decide (p34 < (delta + q4)))))) || ((((decide (delta < q3)) && (decide (q3 ≤ (delta + q4)))) && (decide ((delta + q4) ≤ p34))))) || ((decide ((delta + q4) < q3))))) && (!(((decide (delta ≤ (1 : Int32))) && (p_sign != z_sign)))))
      = decide (¬ (delta.toInt ≤ 1 ∧ sp ≠ sz)) :=
  case_test_entry (shift_entry h)

/-- **the link to the model, wide**: as `setup_link`, from the wide precondition -/
theorem setup_link_wide (mode : Mode) (sp sz : Bool) (c3 c4 c4' S X : Nat) (E3 E4 m : Int) (V : Nat)
    (hpre : LoopPreW c3 c4' S X E3 (sp == sz) m V) (hm : m = (if E4 ≤ E3 then E4 else E3))
    (h0 : X = 0 → c4' = c4 * 10 ^ (E4 - m).toNat) (h1 : 1 ≤ X → c4' = c4 ∧ m = E4) :
    addFin mode sp c4 E4 sz c3 E3 (if E4 ≤ E3 then E4 else E3) = finish mode sz V 1 m m ∧ 0 < V := by
  have hA : c3 * 10 ^ S * 10 ^ X = c3 * 10 ^ (E3 - m).toNat := by
    have : (E3 - m).toNat = S + X := by have := hpre.hm; omega
    rw [this, Nat.pow_add, Nat.mul_assoc]
  have hB : c4' = c4 * 10 ^ (E4 - m).toNat := by
    rcases Nat.eq_zero_or_pos X with hx | hx
    · exact h0 hx
    · obtain ⟨a, b⟩ := h1 hx
      rw [a, b, Int.sub_self, Int.toNat_zero, Nat.pow_zero, Nat.mul_one]
  have hA0 : 0 < c3 * 10 ^ S * 10 ^ X := Nat.mul_pos (Nat.mul_pos hpre.hc3 (Nat.pow_pos (by decide))) (Nat.pow_pos (by decide))
  have hdom : (sp == sz) = false → c4' < c3 * 10 ^ S * 10 ^ X := fun hs => by have := hpre.hdom hs; omega
  have hV := hpre.hV
  have hlink := addFin_link mode sp sz c4 c3 E4 E3 (c3 * 10 ^ S * 10 ^ X) c4' (by rw [← hm]; exact hA) (by rw [← hm]; exact hB)
    hA0 hdom
  rw [← hm] at hlink
  refine ⟨by rw [← hm, hlink, hV], ?_⟩
  rw [hV]
  split
  · omega
  · rename_i hs
    have := hdom (by simpa using hs)
    omega

-- examples: the shift on numbers (E3 = 9000 far above 6111: the product 5·10^9000 in the addend role, against 3·10^6111;
-- delta = 1 + 9000 − 1 − 6111 is outside [0, 33], so this pair is not for the block; with E4 = 6111, E3 = 6140, c3 = 5, c4 = 3:
-- delta = 29, leading digit 1 + 6140 ≤ 6178)
example : eMin + 1 ≤ ((ndigits 5 : Nat) : Int) + 6140 ∧ ((ndigits 5 : Nat) : Int) + 6140 ≤ 6178 := by decide +kernel
example {c3 c4 S X : Nat} {same : Bool} {V : Nat} (h : LoopPre c3 c4 S X 0 same (-29) V)
    (hl : eMin + 1 ≤ (ndigits c3 : Int) + 6140 ∧ (ndigits c3 : Int) + 6140 ≤ 6178) : LoopPreW c3 c4 S X 6140 same 6111 V :=
  LoopPre.unshift 6140 (by simpa using h) hl

end Dec.C02GenFmaMidBW
