/-
  C02GenFmaZ (part E: the one-digit gap of Cases (1')/(1''A)) — see C02GenFmaZ.lean
-/
import DecProofs.Properties.C02GenFmaZD
set_option linter.unusedSimpArgs false
set_option linter.unusedVariables false
namespace Dec.C02GenFmaZ
open Dec Dec.Rs Dec.Gen.Code Dec.C03GenCompare Dec.C02GenCorrection
open Dec.C08GenRoundIntegral (bind_ok' ite_true_bool ite_false_bool i32_add i32_sub i32_neg)
open Dec.C01GenAdd (idx_i32 ten2k128_get19 lt113)
open Dec.C02RoundHelpers (Spec rne rne_eq)
open Dec.C02GenRound (bid_round64_2_18_spec bid_round128_19_38_spec bid_round192_39_57_spec bid_round256_58_76_spec v128 v192 v256)

/-! ## 6. The one-digit gap: the translated text in three slices -/

/-- Cases (1')/(1''A), the one-digit gap: "`C3` is not a power of ten" (the translated expression) -/
def gapTest {α : Type} (C3 : U128) (q3 : Int32) (k : Bool → Except String α) : Except String α := do
  let c ← (if (← (if ((← (if (decide (q3 ≤ (0x13 : Int32))) then (do pure (C3.w0 != (← tbl64 Dec.Gen.BID_TEN2K64 (UInt64.ofInt (toI ((q3 - (1 : Int32)))))))) else pure false))) then pure true else (do pure ((← (if (q3 == (0x14 : Int32)) then (do pure ((← (if (C3.w1 != (0 : UInt64)) then pure true else (do pure (C3.w0 != (← tbl64 Dec.Gen.BID_TEN2K64 (UInt64.ofInt (toI 0x13))))))))) else pure false)))))) then pure true else (do pure ((← (if (decide (q3 ≥ (0x15 : Int32))) then (do pure ((← (if (C3.w1 != (← tbl128 Dec.Gen.BID_TEN2K128 (UInt64.ofInt (toI ((q3 - (0x15 : Int32)))))).w1) then pure true else (do pure (C3.w0 != (← tbl128 Dec.Gen.BID_TEN2K128 (UInt64.ofInt (toI ((q3 - (0x15 : Int32)))))).w0)))))) else pure false)))))
  k c

/-- Cases (1')/(1''A), the one-digit gap: `C4` rounded to one digit (the translated text) -/
def gapR64 {α : Type} (C4_ : U256) (q4_ : Int32) (is_midpoint_lt_even_ : Bool) (is_midpoint_gt_even_ : Bool) (is_inexact_lt_midpoint_ : Bool) (is_inexact_gt_midpoint_ : Bool) (incr_exp_ : Bool) (R64_ : UInt64) (P128_ : U128) (R128_ : U128) (P192_ : U192) (R192_ : U192) (R256_ : U256) (k : UInt64 → Bool → Bool → Bool → Bool → Except String α) : Except String α := do
  let mut C4 : U256 := C4_
  let mut q4 : Int32 := q4_
  let mut is_midpoint_lt_even : Bool := is_midpoint_lt_even_
  let mut is_midpoint_gt_even : Bool := is_midpoint_gt_even_
  let mut is_inexact_lt_midpoint : Bool := is_inexact_lt_midpoint_
  let mut is_inexact_gt_midpoint : Bool := is_inexact_gt_midpoint_
  let mut incr_exp : Bool := incr_exp_
  let mut R64 : UInt64 := R64_
  let mut P128 : U128 := P128_
  let mut R128 : U128 := R128_
  let mut P192 : U192 := P192_
  let mut R192 : U192 := R192_
  let mut R256 : U256 := R256_
  if (q4 == (1 : Int32)) then
    R64 := C4.w0
  else
    if (decide (q4 ≤ (0x12 : Int32))) then
      let t__21 ← bid_round64_2_18 q4 (q4 - (1 : Int32)) C4.w0 incr_exp is_midpoint_lt_even is_midpoint_gt_even is_inexact_lt_midpoint is_inexact_gt_midpoint
      incr_exp := t__21.2.1
      is_midpoint_lt_even := t__21.2.2.1
      is_midpoint_gt_even := t__21.2.2.2.1
      is_inexact_lt_midpoint := t__21.2.2.2.2.1
      is_inexact_gt_midpoint := t__21.2.2.2.2.2
      R64 := t__21.1
    else
      if (decide (q4 ≤ (0x26 : Int32))) then
        P128 := { P128 with w1 := C4.w1 }
        P128 := { P128 with w0 := C4.w0 }
        let t__22 ← bid_round128_19_38 q4 (q4 - (1 : Int32)) P128 incr_exp is_midpoint_lt_even is_midpoint_gt_even is_inexact_lt_midpoint is_inexact_gt_midpoint
        incr_exp := t__22.2.1
        is_midpoint_lt_even := t__22.2.2.1
        is_midpoint_gt_even := t__22.2.2.2.1
        is_inexact_lt_midpoint := t__22.2.2.2.2.1
        is_inexact_gt_midpoint := t__22.2.2.2.2.2
        R128 := t__22.1
        R64 := R128.w0
      else
        if (decide (q4 ≤ (0x39 : Int32))) then
          P192 := { P192 with w2 := C4.w2 }
          P192 := { P192 with w1 := C4.w1 }
          P192 := { P192 with w0 := C4.w0 }
          let t__23 ← bid_round192_39_57 q4 (q4 - (1 : Int32)) P192 incr_exp is_midpoint_lt_even is_midpoint_gt_even is_inexact_lt_midpoint is_inexact_gt_midpoint
          incr_exp := t__23.2.1
          is_midpoint_lt_even := t__23.2.2.1
          is_midpoint_gt_even := t__23.2.2.2.1
          is_inexact_lt_midpoint := t__23.2.2.2.2.1
          is_inexact_gt_midpoint := t__23.2.2.2.2.2
          R192 := t__23.1
          R64 := R192.w0
        else
          let t__24 ← bid_round256_58_76 q4 (q4 - (1 : Int32)) C4 incr_exp is_midpoint_lt_even is_midpoint_gt_even is_inexact_lt_midpoint is_inexact_gt_midpoint
          incr_exp := t__24.2.1
          is_midpoint_lt_even := t__24.2.2.1
          is_midpoint_gt_even := t__24.2.2.2.1
          is_inexact_lt_midpoint := t__24.2.2.2.2.1
          is_inexact_gt_midpoint := t__24.2.2.2.2.2
          R256 := t__24.1
          R64 := R256.w0
    if incr_exp then
      R64 := (0xa : UInt64)
  k R64 is_midpoint_lt_even is_midpoint_gt_even is_inexact_lt_midpoint is_inexact_gt_midpoint

/-- Cases (1')/(1''A), the one-digit gap: below, at or above half a unit of the lower decade (the translated text) -/
def gapCls {α : Type} (pfpsf_ : UInt32) (res_ : U128) (z_sign_ : UInt64) (z_exp_ : UInt64) (q3_ : Int32) (e3_ : Int32) (scale_ : Int32) (is_midpoint_lt_even_ : Bool) (is_midpoint_gt_even_ : Bool) (is_inexact_lt_midpoint_ : Bool) (is_inexact_gt_midpoint_ : Bool) (R64_ : UInt64) (k : Bool → Bool → Bool → Bool → U128 → Int32 → UInt32 → Except String α) : Except String α := do
  let mut pfpsf : UInt32 := pfpsf_
  let mut res : U128 := res_
  let mut z_sign : UInt64 := z_sign_
  let mut z_exp : UInt64 := z_exp_
  let mut q3 : Int32 := q3_
  let mut e3 : Int32 := e3_
  let mut scale : Int32 := scale_
  let mut is_midpoint_lt_even : Bool := is_midpoint_lt_even_
  let mut is_midpoint_gt_even : Bool := is_midpoint_gt_even_
  let mut is_inexact_lt_midpoint : Bool := is_inexact_lt_midpoint_
  let mut is_inexact_gt_midpoint : Bool := is_inexact_gt_midpoint_
  let mut R64 : UInt64 := R64_
  let mut z_at_emin : Bool := (e3 == c_EXP_MIN_UNBIASED)
  if (((((R64 == (5 : UInt64)) && (!is_inexact_lt_midpoint)) && (!is_inexact_gt_midpoint)) && (!is_midpoint_lt_even)) && (!is_midpoint_gt_even)) then
    is_inexact_lt_midpoint := false
    is_inexact_gt_midpoint := false
    is_midpoint_lt_even := true
    is_midpoint_gt_even := false
  else
    if ((((e3 == c_EXP_MIN_UNBIASED)) || (decide (R64 < (5 : UInt64)))) || (((R64 == (5 : UInt64)) && is_inexact_gt_midpoint))) then
      is_inexact_lt_midpoint := false
      is_inexact_gt_midpoint := true
      is_midpoint_lt_even := false
      is_midpoint_gt_even := false
    else
      is_inexact_lt_midpoint := true
      is_inexact_gt_midpoint := false
      is_midpoint_lt_even := false
      is_midpoint_gt_even := false
      if (decide ((q3 + scale) ≤ (0x13 : Int32))) then
        res := { res with w1 := (0 : UInt64) }
        res := { res with w0 := (← tbl64 Dec.Gen.BID_TEN2K64 (UInt64.ofInt (toI ((q3 + scale))))) }
      else
        res := { res with w1 := (← tbl128 Dec.Gen.BID_TEN2K128 (UInt64.ofInt (toI (((q3 + scale) - (0x14 : Int32)))))).w1 }
        res := { res with w0 := (← tbl128 Dec.Gen.BID_TEN2K128 (UInt64.ofInt (toI (((q3 + scale) - (0x14 : Int32)))))).w0 }
      res := { res with w0 := (res.w0 - 1) }
      z_exp := (z_exp - c_EXP_P1)
      e3 := (e3 - 1)
      res := { res with w1 := (res.w1 ||| (z_sign ||| ((((UInt64.ofInt (toI ((e3 + (0x1820 : Int32)))))) <<< 0x31)))) }
  if z_at_emin then
    pfpsf := (pfpsf ||| c_StatusFlags_BID_UNDERFLOW_EXCEPTION)
  k is_midpoint_lt_even is_midpoint_gt_even is_inexact_lt_midpoint is_inexact_gt_midpoint res e3 pfpsf

set_option maxRecDepth 4000 in
theorem z1Gap_eq {α : Type} (pfpsf : UInt32) (res : U128) (z_sign p_sign z_exp : UInt64) (C3 : U128) (C4 : U256)
    (q3 q4 e3 scale delta : Int32) (ml mg il ig incr : Bool) (R64 : UInt64) (P128 R128 : U128) (P192 R192 : U192) (R256 : U256)
    (k : Bool → Bool → Bool → Bool → U128 → Int32 → UInt32 → Except String α) :
    z1Gap pfpsf res z_sign p_sign z_exp C3 C4 q3 q4 e3 scale delta ml mg il ig incr R64 P128 R128 P192 R192 R256 k =
      if ((p_sign != z_sign) && (delta == q3 + scale + 1)) = true then
        gapTest C3 q3 fun c =>
          if c = true then k ml mg il true res e3 (pfpsf ||| c_StatusFlags_BID_INEXACT_EXCEPTION)
          else gapR64 C4 q4 ml mg il ig incr R64 P128 R128 P192 R192 R256 fun R64 ml mg il ig =>
            gapCls pfpsf res z_sign z_exp q3 e3 scale ml mg il ig R64 fun ml mg il ig res e3 pfpsf =>
              k ml mg il ig res e3 (pfpsf ||| c_StatusFlags_BID_INEXACT_EXCEPTION)
      else if (p_sign == z_sign) = true then k ml mg true ig res e3 (pfpsf ||| c_StatusFlags_BID_INEXACT_EXCEPTION)
      else k ml mg il true res e3 (pfpsf ||| c_StatusFlags_BID_INEXACT_EXCEPTION) := by
  rfl

/-! ## 7. The three slices, semantically -/

theorem bne_nat (a b : UInt64) : (a != b) = decide (a.toNat ≠ b.toNat) := by
  rw [Bool.eq_iff_iff, bne_iff_ne, decide_eq_true_eq, Ne, ← UInt64.toNat_inj]

set_option maxRecDepth 4000 in
/-- the test "`C3` is not `10^(q3−1)`" -/
theorem gapTest_spec {α : Type} (C3 : U128) (q3 : Int32) (k : Bool → Except String α) (c3 : Nat)
    (hC3 : C3.w1.toNat * 2^64 + C3.w0.toNat = c3) (hc0 : 0 < c3) (hc34 : c3 < 10 ^ 34) (hq3 : q3.toInt = ndigits c3) :
    gapTest C3 q3 k = k (decide (c3 ≠ 10 ^ (ndigits c3 - 1))) := by
  have hQ34 : ndigits c3 ≤ 34 := Dec.C08GenRoundIntegral.ndigits_le_34 c3 (by rw [Dec.C13PackHelpers.P34_eq']; exact hc34)
  have hQ1 := ndigits_pos hc0
  obtain ⟨hlo, hhi⟩ := ndigits_spec hc0
  have h0 := C3.w0.toNat_lt
  by_cases c1 : ndigits c3 ≤ 19
  · have d1 : decide (q3 ≤ 0x13) = true := by
      rw [decide_eq_true_eq, Int32.le_iff_toInt_le, hq3]; show (ndigits c3 : Int) ≤ 19; omega
    have d2 : (q3 == 0x14) = false := by
      rw [beq_eq_false_iff_ne, Ne, ← Int32.toInt_inj, hq3]; show ¬ (ndigits c3 : Int) = 20; omega
    have d3 : decide (q3 ≥ 0x15) = false := by
      rw [decide_eq_false_iff_not, ge_iff_le, Int32.le_iff_toInt_le, hq3]; show ¬ (21 : Int) ≤ ndigits c3; omega
    have hi : (q3 - 1).toInt = ((ndigits c3 - 1 : Nat) : Int) := by
      rw [i32_sub _ _ (by omega) (by decide), hq3]; show (ndigits c3 : Int) - 1 = _; omega
    obtain ⟨v, hv, hvn⟩ := Dec.C13GenNoncomp.ten2k64_get (ndigits c3 - 1) (by omega)
    have hlt : c3 < 2^64 := lt_of_lt_of_le hhi (le_trans (Nat.pow_le_pow_right (by decide) c1) (by decide))
    have hw1 : C3.w1.toNat = 0 := by omega
    simp only [gapTest, bind, pure, Except.pure, bind_ok', d1, d2, d3, if_true, if_false, Bool.false_eq_true, idx_i32 _ _ hi, hv]
    rw [bne_nat, hvn]
    by_cases h : C3.w0.toNat ≠ 10 ^ (ndigits c3 - 1)
    · rw [show decide (c3 ≠ 10 ^ (ndigits c3 - 1)) = true from by rw [decide_eq_true_eq]; omega]
      simp only [h, decide_true, if_true, not_false_eq_true, ne_eq]
      rfl
    · rw [show decide (c3 ≠ 10 ^ (ndigits c3 - 1)) = false from by rw [decide_eq_false_iff_not]; omega]
      simp only [h, decide_false, if_false, Bool.false_eq_true]
      rfl
  · have d1 : decide (q3 ≤ 0x13) = false := by
      rw [decide_eq_false_iff_not, Int32.le_iff_toInt_le, hq3]; show ¬ (ndigits c3 : Int) ≤ 19; omega
    by_cases c2 : ndigits c3 = 20
    · have d2 : (q3 == 0x14) = true := by
        rw [beq_iff_eq, ← Int32.toInt_inj, hq3]; show (ndigits c3 : Int) = 20; omega
      have d3 : decide (q3 ≥ 0x15) = false := by
        rw [decide_eq_false_iff_not, ge_iff_le, Int32.le_iff_toInt_le, hq3]; show ¬ (21 : Int) ≤ ndigits c3; omega
      obtain ⟨v, hv, hvn⟩ := Dec.C13GenNoncomp.ten2k64_get 19 (by decide)
      have hidx : UInt64.ofInt (toI 0x13) = UInt64.ofNat 19 := rfl
      rw [c2]
      simp only [gapTest, bind, pure, Except.pure, bind_ok', d1, d2, d3, if_true, if_false, Bool.false_eq_true, hidx, hv]
      rw [bne_nat, bne_nat, hvn]
      by_cases h1 : C3.w1.toNat ≠ (0 : UInt64).toNat
      · rw [show decide (c3 ≠ 10 ^ (20 - 1)) = true from by
          rw [decide_eq_true_eq]; have : C3.w1.toNat ≠ 0 := h1; omega]
        simp only [h1, decide_true, if_true, not_false_eq_true, ne_eq]
        rfl
      · have h1' : C3.w1.toNat = 0 := by simpa using h1
        by_cases h : C3.w0.toNat ≠ 10 ^ 19
        · rw [show decide (c3 ≠ 10 ^ (20 - 1)) = true from by rw [decide_eq_true_eq]; omega]
          simp only [h1, h, decide_true, decide_false, if_true, if_false, Bool.false_eq_true, not_false_eq_true, ne_eq]
          rfl
        · rw [show decide (c3 ≠ 10 ^ (20 - 1)) = false from by rw [decide_eq_false_iff_not]; omega]
          simp only [h1, h, decide_true, decide_false, if_true, if_false, Bool.false_eq_true, not_false_eq_true, ne_eq]
          rfl
    · have d2 : (q3 == 0x14) = false := by
        rw [beq_eq_false_iff_ne, Ne, ← Int32.toInt_inj, hq3]; show ¬ (ndigits c3 : Int) = 20; omega
      have d3 : decide (q3 ≥ 0x15) = true := by
        rw [decide_eq_true_eq, ge_iff_le, Int32.le_iff_toInt_le, hq3]; show (21 : Int) ≤ ndigits c3; omega
      have hi : (q3 - 0x15).toInt = ((ndigits c3 - 21 : Nat) : Int) := by
        rw [i32_sub _ _ (by omega) (by decide), hq3]; show (ndigits c3 : Int) - 21 = _; omega
      obtain ⟨v, hv, hvn⟩ := ten2k128_get19 (ndigits c3 - 21) (by omega)
      have hvn' : v.w0.toNat + 2^64 * v.w1.toNat = 10 ^ (ndigits c3 - 1) := by
        rw [show ndigits c3 - 1 = ndigits c3 - 21 + 20 by omega, ← hvn]; rfl
      have hv0 := v.w0.toNat_lt
      simp only [gapTest, bind, pure, Except.pure, bind_ok', d1, d2, d3, if_true, if_false, Bool.false_eq_true, idx_i32 _ _ hi, hv]
      rw [bne_nat, bne_nat]
      by_cases h1 : C3.w1.toNat ≠ v.w1.toNat
      · rw [show decide (c3 ≠ 10 ^ (ndigits c3 - 1)) = true from by rw [decide_eq_true_eq]; omega]
        simp only [h1, decide_true, if_true, not_false_eq_true, ne_eq]
        rfl
      · have h1' : C3.w1.toNat = v.w1.toNat := by simpa using h1
        by_cases h : C3.w0.toNat ≠ v.w0.toNat
        · rw [show decide (c3 ≠ 10 ^ (ndigits c3 - 1)) = true from by rw [decide_eq_true_eq]; omega]
          simp only [h1, h, decide_true, decide_false, if_true, if_false, Bool.false_eq_true, not_false_eq_true, ne_eq]
          rfl
        · rw [show decide (c3 ≠ 10 ^ (ndigits c3 - 1)) = false from by rw [decide_eq_false_iff_not]; omega]
          simp only [h1, h, decide_true, decide_false, if_true, if_false, Bool.false_eq_true, not_false_eq_true, ne_eq]
          rfl

/-- what the gap path reads off the one-digit rounding of `C4`: the digit `r` (10 after a carry) and the indicators say
whether `C4` is below, at or above `5·10^(q4−1)` -/
def GapR (c4 : Nat) (r : Nat) (ml mg il ig : Bool) : Prop :=
  ((r = 5 ∧ il = false ∧ ig = false ∧ ml = false ∧ mg = false) ↔ 2 * c4 = 10 ^ ndigits c4) ∧
  ((r < 5 ∨ (r = 5 ∧ ig = true)) ↔ 2 * c4 < 10 ^ ndigits c4) ∧ r ≤ 10

theorem gapR_of_spec (c4 cs : Nat) (incr lt gt ilt igt : Bool) (h0 : 0 < c4) (hq : 2 ≤ ndigits c4)
    (h : Spec (ndigits c4) (ndigits c4 - 1) c4 cs incr ⟨lt, gt, ilt, igt⟩) :
    GapR c4 (if incr = true then 10 else cs) lt gt ilt igt ∧ cs ≤ 9 := by
  obtain ⟨hcs, hin, h1, h2, h3, h4⟩ := h
  obtain ⟨lo, hi⟩ := ndigits_spec h0
  unfold GapR
  obtain ⟨x, hx⟩ : ∃ x, ndigits c4 = x + 2 := ⟨ndigits c4 - 2, by omega⟩
  rw [hx] at hcs hin h1 h2 h3 h4 lo hi ⊢
  simp only [show x + 2 - 1 = x + 1 by omega, show x + 2 - (x + 1) = 1 by omega, show 1 - 1 = 0 by omega,
    Nat.pow_one, Nat.pow_zero] at hcs hin h1 h2 h3 h4 lo hi
  have hr := rne_eq c4 (x + 1) (by omega)
  have hp : 10 ^ (x + 2) = 10 * 10 ^ (x + 1) := by rw [Nat.pow_succ]; omega
  have hp2 : 10 ^ (x + 1) = 2 * (5 * 10 ^ x) := by rw [Nat.pow_succ]; omega
  have hpp : 0 < 10 ^ x := Nat.pow_pos (by decide)
  have hdm := Nat.div_add_mod c4 (10 ^ (x + 1))
  have hml := Nat.mod_lt c4 (show 0 < 10 ^ (x + 1) by omega)
  rw [hp]
  rw [hp] at hi
  generalize rne c4 (x + 1) = R at *
  have hR : (if incr = true then 10 else cs) = R := by
    by_cases hc : R = 10
    · rw [if_pos (hin.2 hc), hc]
    · rw [if_neg (fun h => hc (hin.1 h)), hcs, if_neg hc]
  rw [hR]
  generalize 10 ^ (x + 1) = p at *
  generalize 10 ^ x = t at *
  subst hp2
  have hh : 2 * (5 * t) / 2 = 5 * t := by omega
  rw [hh] at h1 h2 h3 h4 hr
  generalize c4 / (2 * (5 * t)) = a at *
  generalize c4 % (2 * (5 * t)) = ρ at *
  have ha : a ≤ 9 := by
    by_contra hc
    have : 10 * (2 * (5 * t)) ≤ a * (2 * (5 * t)) := Nat.mul_le_mul_right _ (by omega)
    rw [Nat.mul_comm a] at this
    omega
  have ha1 : 1 ≤ a := by
    by_contra hc
    have : a = 0 := by omega
    subst this
    omega
  clear hin hR
  have b1 : (lt = false) ↔ ¬ (ρ = 5 * t ∧ a % 2 = 1) := by rw [← h1]; cases lt <;> simp
  have b2 : (gt = false) ↔ ¬ (ρ = 5 * t ∧ a % 2 = 0) := by rw [← h2]; cases gt <;> simp
  have b3 : (ilt = false) ↔ ¬ (0 < ρ ∧ ρ < 5 * t) := by rw [← h3]; cases ilt <;> simp
  have b4 : (igt = false) ↔ ¬ (5 * t < ρ) := by rw [← h4]; cases igt <;> simp
  rw [b1, b2, b3, b4]
  have b5 : (igt = true) ↔ 5 * t < ρ := h4
  rw [b5]
  clear h1 h2 h3 h4 b1 b2 b3 b4 b5
  subst hr
  subst hcs
  interval_cases a <;> simp only [Nat.reduceMod, Nat.reduceEqDiff, ↓reduceIte, Nat.reduceAdd, OfNat.ofNat_ne_zero, one_ne_zero] <;>
    (refine ⟨⟨?_, ?_, ?_⟩, ?_⟩ <;> (repeat' split)) <;> omega

theorem i32_ofNat_of (a : Int32) (n : Nat) (h : a.toInt = n) (hn : n < 2^31) : a = Int32.ofNat n := by
  rw [← Int32.toInt_inj, h, Int32.toInt_ofNat_of_lt hn]

/-- **`C4` rounded to one digit** through whichever helper the digit count selects (no call fails) -/
theorem gapR64_spec {α : Type} (C4 : U256) (q4 : Int32) (R64 : UInt64) (P128 R128 : U128) (P192 R192 : U192) (R256 : U256)
    (k : UInt64 → Bool → Bool → Bool → Bool → Except String α) (c4 : Nat)
    (hC4 : C4.w3.toNat * 2^192 + C4.w2.toNat * 2^128 + C4.w1.toNat * 2^64 + C4.w0.toNat = c4) (h40 : 0 < c4)
    (hq4 : q4.toInt = ndigits c4) (hq468 : ndigits c4 ≤ 68) :
    ∃ (r : UInt64) (ml mg il ig : Bool),
      gapR64 C4 q4 false false false false false R64 P128 R128 P192 R192 R256 k = k r ml mg il ig ∧
      GapR c4 r.toNat ml mg il ig := by
  have hQ1 := ndigits_pos h40
  obtain ⟨lo, hi⟩ := ndigits_spec h40
  have w0 := C4.w0.toNat_lt; have w1 := C4.w1.toNat_lt; have w2 := C4.w2.toNat_lt; have w3 := C4.w3.toNat_lt
  have hqe := i32_ofNat_of q4 _ hq4 (by omega)
  have hqm : q4 - 1 = Int32.ofNat (ndigits c4 - 1) := by
    apply i32_ofNat_of _ _ _ (by omega)
    rw [i32_sub _ _ (by omega) (by decide), hq4]; show (ndigits c4 : Int) - 1 = _; omega
  by_cases c1 : ndigits c4 = 1
  · have d1 : (q4 == 1) = true := by rw [beq_iff_eq, ← Int32.toInt_inj, hq4, c1]; rfl
    refine ⟨C4.w0, false, false, false, false, ?_, ?_⟩
    · simp only [gapR64, bind, pure, Except.pure, bind_ok', d1, if_true, Bool.false_eq_true, if_false]
    · rw [c1] at hi
      have : C4.w0.toNat = c4 := by omega
      rw [this]; unfold GapR; rw [c1]
      refine ⟨?_, ?_, ?_⟩
      · simp only [Nat.pow_one, and_true]; omega
      · simp only [Nat.pow_one, Bool.false_eq_true, and_false, or_false]; omega
      · omega
  · have d1 : (q4 == 1) = false := by
      rw [beq_eq_false_iff_ne, Ne, ← Int32.toInt_inj, hq4]; show ¬ (ndigits c4 : Int) = 1; omega
    have fin : ∀ (cs : Nat) (incr lt gt ilt igt : Bool) (r : UInt64),
        Spec (ndigits c4) (ndigits c4 - 1) c4 cs incr ⟨lt, gt, ilt, igt⟩ → r.toNat = (if incr = true then 10 else cs) →
        GapR c4 r.toNat lt gt ilt igt := by
      intro cs incr lt gt ilt igt r hs hr
      rw [hr]; exact (gapR_of_spec c4 cs incr lt gt ilt igt h40 (by omega) hs).1
    by_cases c2 : ndigits c4 ≤ 18
    · have d2 : decide (q4 ≤ 0x12) = true := by
        rw [decide_eq_true_eq, Int32.le_iff_toInt_le, hq4]; show (ndigits c4 : Int) ≤ 18; omega
      have hlt : c4 < 2^64 := lt_of_lt_of_le hi (le_trans (Nat.pow_le_pow_right (by decide) c2) (by decide))
      have hw : C4.w0.toNat = c4 := by omega
      obtain ⟨cs, incr, lt, gt, ilt, igt, hcall, hs⟩ := bid_round64_2_18_spec (ndigits c4) (ndigits c4 - 1) C4.w0 (by omega) c2
        (by omega) (by omega) (by rw [hw]; exact hi)
      rw [← hqe, ← hqm] at hcall
      rw [hw] at hs
      refine ⟨if incr = true then 10 else cs, lt, gt, ilt, igt, ?_, fin _ _ _ _ _ _ _ hs (by split <;> rfl)⟩
      simp only [gapR64, bind, pure, Except.pure, bind_ok', d1, d2, if_true, Bool.false_eq_true, if_false, hcall]
      cases incr <;> rfl
    · have d2 : decide (q4 ≤ 0x12) = false := by
        rw [decide_eq_false_iff_not, Int32.le_iff_toInt_le, hq4]; show ¬ (ndigits c4 : Int) ≤ 18; omega
      by_cases c3 : ndigits c4 ≤ 38
      · have d3 : decide (q4 ≤ 0x26) = true := by
          rw [decide_eq_true_eq, Int32.le_iff_toInt_le, hq4]; show (ndigits c4 : Int) ≤ 38; omega
        have hlt : c4 < 2^128 := lt_of_lt_of_le hi (le_trans (Nat.pow_le_pow_right (by decide) c3) (by decide))
        have hw : v128 ⟨C4.w0, C4.w1⟩ = c4 := by unfold v128; show C4.w0.toNat + 2^64 * C4.w1.toNat = c4; omega
        obtain ⟨cs, incr, lt, gt, ilt, igt, hcall, hs⟩ := bid_round128_19_38_spec (ndigits c4) (ndigits c4 - 1) ⟨C4.w0, C4.w1⟩
          (by omega) c3 (by omega) (by omega) (by rw [hw]; exact hi)
        rw [← hqe, ← hqm] at hcall
        rw [hw] at hs
        have h9 := (gapR_of_spec c4 _ incr lt gt ilt igt h40 (by omega) hs).2
        have hcw : cs.w0.toNat = v128 cs := by
          unfold v128 at h9 ⊢; omega
        refine ⟨if incr = true then 10 else cs.w0, lt, gt, ilt, igt, ?_, fin _ _ _ _ _ _ _ hs (by split; rfl; exact hcw)⟩
        simp only [gapR64, bind, pure, Except.pure, bind_ok', d1, d2, d3, if_true, Bool.false_eq_true, if_false, hcall]
        cases incr <;> rfl
      · have d3 : decide (q4 ≤ 0x26) = false := by
          rw [decide_eq_false_iff_not, Int32.le_iff_toInt_le, hq4]; show ¬ (ndigits c4 : Int) ≤ 38; omega
        by_cases c5 : ndigits c4 ≤ 57
        · have d4 : decide (q4 ≤ 0x39) = true := by
            rw [decide_eq_true_eq, Int32.le_iff_toInt_le, hq4]; show (ndigits c4 : Int) ≤ 57; omega
          have hlt : c4 < 2^192 := lt_of_lt_of_le hi (le_trans (Nat.pow_le_pow_right (by decide) c5) (by decide))
          have hw : v192 ⟨C4.w0, C4.w1, C4.w2⟩ = c4 := by
            unfold v192; show C4.w0.toNat + 2^64 * C4.w1.toNat + 2^128 * C4.w2.toNat = c4; omega
          obtain ⟨cs, incr, lt, gt, ilt, igt, hcall, hs⟩ := bid_round192_39_57_spec (ndigits c4) (ndigits c4 - 1)
            ⟨C4.w0, C4.w1, C4.w2⟩ (by omega) c5 (by omega) (by omega) (by rw [hw]; exact hi)
          rw [← hqe, ← hqm] at hcall
          rw [hw] at hs
          have h9 := (gapR_of_spec c4 _ incr lt gt ilt igt h40 (by omega) hs).2
          have hcw : cs.w0.toNat = v192 cs := by
            unfold v192 at h9 ⊢; omega
          refine ⟨if incr = true then 10 else cs.w0, lt, gt, ilt, igt, ?_, fin _ _ _ _ _ _ _ hs (by split; rfl; exact hcw)⟩
          simp only [gapR64, bind, pure, Except.pure, bind_ok', d1, d2, d3, d4, if_true, Bool.false_eq_true, if_false, hcall]
          cases incr <;> rfl
        · have d4 : decide (q4 ≤ 0x39) = false := by
            rw [decide_eq_false_iff_not, Int32.le_iff_toInt_le, hq4]; show ¬ (ndigits c4 : Int) ≤ 57; omega
          have hw : v256 C4 = c4 := by unfold v256; omega
          obtain ⟨cs, incr, lt, gt, ilt, igt, hcall, hs⟩ := bid_round256_58_76_spec (ndigits c4) (ndigits c4 - 1) C4
            (by omega) (by omega) (by omega) (by omega) (by rw [hw]; exact hi)
          rw [← hqe, ← hqm] at hcall
          rw [hw] at hs
          have h9 := (gapR_of_spec c4 _ incr lt gt ilt igt h40 (by omega) hs).2
          have hcw : cs.w0.toNat = v256 cs := by
            unfold v256 at h9 ⊢; omega
          refine ⟨if incr = true then 10 else cs.w0, lt, gt, ilt, igt, ?_, fin _ _ _ _ _ _ _ hs (by split; rfl; exact hcw)⟩
          simp only [gapR64, bind, pure, Except.pure, bind_ok', d1, d2, d3, d4, if_true, Bool.false_eq_true, if_false, hcall]
          cases incr <;> rfl

/-- the three classes of the one-digit gap: `C4` at, below or above half a unit of the lower decade; above it the result
is `10^34 − 1` one exponent lower -/
theorem gapCls_spec {α : Type} (pfpsf : UInt32) (res : U128) (z_sign z_exp : UInt64) (q3 e3 scale : Int32) (ml mg il ig : Bool)
    (r : UInt64) (k : Bool → Bool → Bool → Bool → U128 → Int32 → UInt32 → Except String α) (c4 : Nat) (ef : Int) (sz : Bool)
    (hG : GapR c4 r.toNat ml mg il ig) (he : e3.toInt = ef) (h1 : -6176 ≤ ef) (h2 : ef ≤ 6111)
    (hqs : ef ≠ -6176 → (q3 + scale).toInt = 34) (hzs : z_sign.toNat = if sz then 2^63 else 0) :
    gapCls pfpsf res z_sign z_exp q3 e3 scale ml mg il ig r k =
      if 2 * c4 = 10 ^ ndigits c4 then
        k true false false false res e3 (if ef = -6176 then pfpsf ||| c_StatusFlags_BID_UNDERFLOW_EXCEPTION else pfpsf)
      else if ef = -6176 ∨ 2 * c4 < 10 ^ ndigits c4 then
        k false false false true res e3 (if ef = -6176 then pfpsf ||| c_StatusFlags_BID_UNDERFLOW_EXCEPTION else pfpsf)
      else k false false true false (ofBits (encode (.fin sz (10 ^ 34 - 1) (ef - 1)))) (e3 - 1) pfpsf := by
  obtain ⟨hT, hL, hr10⟩ := hG
  have emin : (e3 == c_EXP_MIN_UNBIASED) = decide (ef = -6176) := by
    rw [Bool.eq_iff_iff, beq_iff_eq, decide_eq_true_eq, ← Int32.toInt_inj, he]; rfl
  have hT' : (((((r == (5 : UInt64)) && (!il)) && (!ig)) && (!ml)) && (!mg)) = decide (2 * c4 = 10 ^ ndigits c4) := by
    rw [Bool.eq_iff_iff, decide_eq_true_eq, ← hT]
    simp only [Bool.and_eq_true, beq_iff_eq, Bool.not_eq_true', ← UInt64.toNat_inj]
    constructor
    · rintro ⟨⟨⟨⟨a, b⟩, c⟩, d⟩, e⟩; exact ⟨a, b, c, d, e⟩
    · rintro ⟨a, b, c, d, e⟩; exact ⟨⟨⟨⟨a, b⟩, c⟩, d⟩, e⟩
  have hL' : ((decide (r < (5 : UInt64))) || ((r == (5 : UInt64)) && ig)) = decide (2 * c4 < 10 ^ ndigits c4) := by
    rw [Bool.eq_iff_iff, decide_eq_true_eq, ← hL]
    simp only [Bool.or_eq_true, Bool.and_eq_true, beq_iff_eq, decide_eq_true_eq, ← UInt64.toNat_inj, UInt64.lt_iff_toNat_lt]
    rfl
  simp only [gapCls, bind, pure, Except.pure, bind_ok', hT', Bool.or_assoc, hL', emin]
  by_cases c1 : 2 * c4 = 10 ^ ndigits c4
  · simp only [c1, decide_true, if_true]
    by_cases c0 : ef = -6176 <;> simp only [c0, decide_true, decide_false, if_true, if_false, Bool.false_eq_true]
  · simp only [c1, decide_false, if_false, Bool.false_eq_true]
    by_cases c2 : ef = -6176 ∨ 2 * c4 < 10 ^ ndigits c4
    · have : (decide (ef = -6176) || decide (2 * c4 < 10 ^ ndigits c4)) = true := by simpa using c2
      simp only [this, if_true, c2]
      by_cases c0 : ef = -6176 <;> simp only [c0, decide_true, decide_false, if_true, if_false, Bool.false_eq_true]
    · have : (decide (ef = -6176) || decide (2 * c4 < 10 ^ ndigits c4)) = false := by simpa using c2
      have c0 : ¬ ef = -6176 := fun h => c2 (Or.inl h)
      simp only [this, if_false, c2, Bool.false_eq_true, c0, decide_false]
      have hqs' := hqs c0
      have d1 : decide (q3 + scale ≤ 0x13) = false := by
        rw [decide_eq_false_iff_not, Int32.le_iff_toInt_le, hqs']; decide
      have hi : (q3 + scale - 0x14).toInt = ((14 : Nat) : Int) := by
        rw [i32_sub _ _ (by omega) (by decide), hqs']; rfl
      obtain ⟨v, hv, hvn⟩ := ten2k128_get19 14 (by decide)
      simp only [d1, if_false, Bool.false_eq_true, idx_i32 _ _ hi, hv]
      have c2' : ¬ 2 * c4 < 10 ^ ndigits c4 := fun h => c2 (Or.inr h)
      simp only [c2', decide_false, Bool.or_false, Bool.false_eq_true, if_false, false_or]
      show k false false true false ⟨v.w0 - 1, v.w1 ||| (z_sign ||| UInt64.ofInt (toI (e3 - 1 + 6176)) <<< 49)⟩ (e3 - 1) pfpsf = _
      have he1 : (e3 - 1).toInt = ef - 1 := by rw [i32_sub _ _ (by omega) (by decide), he]; rfl
      have hw := expw_of_i32 (e3 - 1) (ef - 1) he1 (by omega) (by omega)
      have hv0 := v.w0.toNat_lt
      have hvv : v.w0.toNat + 2^64 * v.w1.toNat = 10 ^ 34 := hvn
      have hsub : (v.w0 - 1).toNat = v.w0.toNat - 1 := by
        rw [UInt64.toNat_sub_of_le _ _ (by rw [UInt64.le_iff_toNat_le]; show 1 ≤ v.w0.toNat; omega)]; rfl
      have := asm (v.w0 - 1) v.w1 z_sign (UInt64.ofInt (toI (e3 - 1 + 6176)) <<< 49) sz (10 ^ 34 - 1) (ef - 1 + 6176).toNat
        (by rw [hsub]; omega) (by decide) hzs hw (by omega)
      rw [this, show (((ef - 1 + 6176).toNat : Nat) : Int) - 6176 = ef - 1 by omega]

/-! ## 8. The gap path assembled -/

/-- the tail on a delivery that is not tiny (34 digits, and not `10^33` at the least exponent) -/
theorem z1Tail_nt {sz : Bool} {N : Nat} {E4 ef : Int} {cf : Nat} {L G ML MG : Bool} (h : Deliv sz N E4 ef cf L G ML MG)
    (hnt : ¬ N < 10 ^ 33 * 10 ^ (ef - E4).toNat)
    (pml pmg pil pig : Bool) (m : RoundingMode) (pfpsf : UInt32) (z_sign p_sign : UInt64) (sp : Bool) (q3 e3 sc' p34 : Int32)
    (pref : Int) (Q S : Nat) (hQS : Q + S = 34) (hq3 : q3.toInt = Q) (hsc' : sc'.toInt = S) (hp : p34 = 34)
    (hzs : z_sign.toNat = if sz then 2^63 else 0) (hps : p_sign.toNat = if sp then 2^63 else 0)
    (he : e3.toInt = (deliver cf ef).2) (hmax : (deliver cf ef).2 ≤ 6111)
    (hed : (deliver cf ef).2 ≠ -6176 ∨ (deliver cf ef).1 ≠ 10 ^ 33) :
    z1Tail pml pmg pil pig m (pfpsf ||| 0x20) (ofBits (encode (.fin sz (deliver cf ef).1 (deliver cf ef).2))) z_sign p_sign q3 e3
        sc' p34 ML MG L G =
      .ok (ofBits (encode (finish (modeOf m) sz N 1 E4 pref).1), ML, MG, L, G,
        pfpsf ||| UInt32.ofNat (finish (modeOf m) sz N 1 E4 pref).2) := by
  have hd1 : (deliver cf ef).1 < 2^113 := by
    have := h.hcf
    unfold deliver; split
    · show P33 < _; decide
    · show cf < _
      have e34 : P34 = 10000000000000000000000000000000000 := rfl
      omega
  have hd2 : -6176 ≤ (deliver cf ef).2 := by
    have := h.hef1
    unfold deliver; split
    · show _ ≤ ef + 1; omega
    · exact this
  obtain ⟨hcode, hfl1, hfl2⟩ := z1Tail_spec h pml pmg pil pig m (pfpsf ||| 0x20) z_sign p_sign q3 e3 sc' p34 pref he hmax
    (by rw [UInt32.or_assoc]; rfl)
    (by
      rw [tinyTest_eq sz _ _ z_sign p_sign sz sp q3 e3 sc' p34 Q S hd1 hd2 (by omega) he hq3 hsc' (by omega) hp hzs hps,
        decide_eq_decide]
      constructor
      · rintro ⟨h1, h2 | ⟨_, h2, _⟩⟩
        · omega
        · rcases hed with h | h
          · exact absurd h1 h
          · exact absurd h2 h
      · intro h; exact absurd h hnt)
  rw [hcode, flags_abs' pfpsf (pfpsf ||| 0x20) False _ (Or.inl rfl) hfl2 (fun h => h.elim)]
/-- **the mathematics of the one-digit gap**: `z` padded is `10^33` above the least exponent, the product of the opposite
sign starts one digit below: one exponent lower the value is `10^34 − c4/10^q4` units, and the three classes of `c4` -/
theorem gap_math (mode : Mode) (sz sp : Bool) (c3 c4 S : Nat) (E3 E4 pref : Int) (hsg : sp ≠ sz) (hc0 : 0 < c3) (h40 : 0 < c4)
    (hcf : c3 * 10 ^ S = 10 ^ 33) (hef : -6176 < E3 - S) (hfit : E3 - S ≤ 6111)
    (hg : (ndigits c3 : Int) + E3 - ndigits c4 - E4 = ndigits c3 + S + 1) :
    ∃ N, addFin mode sp c4 E4 sz c3 E3 pref = finish mode sz N 1 E4 pref ∧
      ¬ N < 10 ^ 33 * 10 ^ (E3 - S - 1 - E4).toNat ∧
      (2 * c4 < 10 ^ ndigits c4 → Deliv sz N E4 (E3 - S - 1) P34 false true false false) ∧
      (2 * c4 = 10 ^ ndigits c4 → Deliv sz N E4 (E3 - S - 1) P34 false false true false) ∧
      (10 ^ ndigits c4 < 2 * c4 → Deliv sz N E4 (E3 - S - 1) (P34 - 1) true false false false) := by
  obtain ⟨hEle, hD, hA⟩ := gap_pow c3 c4 S E3 E4 1 (by omega)
  have hc4 : c4 < 10 ^ ndigits c4 := lt_pow_ndigits c4
  have hq4 := ndigits_pos h40
  have hD' : (E3 - S - 1 - E4).toNat = ndigits c4 := by omega
  have e34 : P34 = 10000000000000000000000000000000000 := rfl
  have hQ4p : 0 < 10 ^ ndigits c4 := Nat.pow_pos (by decide)
  have hN : c3 * 10 ^ (E3 - E4).toNat = P34 * 10 ^ ndigits c4 := by
    rw [← hA, hD, hcf, e34]; generalize 10 ^ ndigits c4 = X; omega
  have hdom : c4 < c3 * 10 ^ (E3 - E4).toNat := by
    rw [hN, e34]; generalize 10 ^ ndigits c4 = X at *; omega
  have hadd := addFin_dom mode sp sz c4 c3 E4 E3 pref (by omega) hdom
  rw [if_neg hsg, hN] at hadd
  refine ⟨_, hadd, ?_, ?_, ?_, ?_⟩
  · rw [hD', e34]; generalize 10 ^ ndigits c4 = X at *; omega
  · intro h
    have := deliv_sub_pow sz c4 E4 (E3 - S) (by omega) hef (by omega) h40 (by rw [hD']; exact h)
    rw [hD'] at this; exact this
  · intro h
    have := deliv_sub_pow_tie sz c4 E4 (E3 - S) (by omega) hef (by omega) h40 (by rw [hD']; exact h)
    rw [hD'] at this; exact this
  · intro h
    have := deliv_sub_pow_hi sz c4 E4 (E3 - S) (by omega) hef (by omega) (by rw [hD']; exact h) (by rw [hD']; exact hc4)
    rw [hD'] at this; exact this

/-- the indicators the gap path hands back (`midpoint_lt_even`, `midpoint_gt_even`, `inexact_lt_midpoint`,
`inexact_gt_midpoint`) -/
def gapInd (c3 c4 : Nat) (atEmin : Prop) [Decidable atEmin] : Bool × Bool × Bool × Bool :=
  if c3 ≠ 10 ^ (ndigits c3 - 1) then (false, false, false, true)
  else if 2 * c4 = 10 ^ ndigits c4 then (true, false, false, false)
  else if atEmin ∨ 2 * c4 < 10 ^ ndigits c4 then (false, false, false, true)
  else (false, false, true, false)

theorem pow_of_pad (c3 S : Nat) (hc0 : 0 < c3) (h34 : ndigits c3 + S ≤ 34) (h : c3 * 10 ^ S = 10 ^ 33) :
    c3 = 10 ^ (ndigits c3 - 1) ∧ ndigits c3 + S = 34 := by
  obtain ⟨_, b, c⟩ := pad_bounds c3 S hc0 h34
  have hQ := ndigits_pos hc0
  have h1 : ndigits c3 + S = 34 := by
    rcases Nat.lt_or_ge (ndigits c3 + S) 34 with h' | h'
    · have := b h'; omega
    · omega
  refine ⟨?_, h1⟩
  have : 10 ^ 33 = 10 ^ (ndigits c3 - 1) * 10 ^ S := by rw [← Nat.pow_add]; congr 1; omega
  rw [this] at h
  exact Nat.eq_of_mul_eq_mul_right (Nat.pow_pos (by decide)) h

theorem pad_of_pow (c3 S : Nat) (hc0 : 0 < c3) (h34 : ndigits c3 + S = 34) (h : c3 = 10 ^ (ndigits c3 - 1)) :
    c3 * 10 ^ S = 10 ^ 33 := by
  have hQ := ndigits_pos hc0
  have e : c3 * 10 ^ S = 10 ^ (ndigits c3 - 1) * 10 ^ S := congrArg (· * 10 ^ S) h
  rw [e, ← Nat.pow_add]; congr 1; omega

/-- **Cases (1')/(1''A), the one-digit gap with opposite signs** -/
theorem caseZ1_gap (C3 : U128) (C4 : U256) (q3 q4 e3 delta p34 : Int32) (z_sign p_sign z_exp : UInt64)
    (sz sp : Bool) (c3 c4 : Nat) (E3 E4 : Int)
    (inv : ZInv C3 C4 q3 q4 e3 delta p34 z_sign p_sign z_exp sz sp c3 c4 E3 E4)
    (hsg : sp ≠ sz) (hg : (ndigits c3 : Int) + E3 - ndigits c4 - E4 = ndigits c3 + scaleOf (ndigits c3) E3 + 1)
    (hfit : (ndigits c3 : Int) + E3 ≤ 6145)
    (hnov : ¬ ((decide ((q3 + e3) > (p34 + c_EXP_MAX_UNBIASED))) && (decide (p34 ≤ (delta - (1 : Int32))))) = true)
    (pml pmg pil pig : Bool) (m : RoundingMode) (pfpsf : UInt32) (res : U128) (scale ind : Int32) (R64 : UInt64)
    (P128 R128 : U128) (P192 R192 : U192) (R256 : U256) (pref : Int) :
    caseZ1 pml pmg pil pig m pfpsf res z_sign p_sign z_exp C3 C4 q3 q4 e3 scale ind delta p34 false false false false false
        R64 P128 R128 P192 R192 R256 =
      .ok (ofBits (encode (addFin (modeOf m) sp c4 E4 sz c3 E3 pref).1),
        (gapInd c3 c4 (E3 - scaleOf (ndigits c3) E3 = -6176)).1, (gapInd c3 c4 (E3 - scaleOf (ndigits c3) E3 = -6176)).2.1,
        (gapInd c3 c4 (E3 - scaleOf (ndigits c3) E3 = -6176)).2.2.1, (gapInd c3 c4 (E3 - scaleOf (ndigits c3) E3 = -6176)).2.2.2,
        pfpsf ||| UInt32.ofNat (addFin (modeOf m) sp c4 E4 sz c3 E3 pref).2) := by
  obtain ⟨sc', zx', e3', hcode, hsc', he3', hgc⟩ := caseZ1_scaled C3 C4 q3 q4 e3 delta p34 z_sign p_sign z_exp sz sp c3 c4 E3 E4
    inv hfit hnov pml pmg pil pig m pfpsf res scale ind false R64 P128 R128 P192 R192 R256
  obtain ⟨hC3, hc0, hc34, hq3, he3, hE1, hE2, hze, hzs, hps, hC4, h40, hq4, hq468, hE4a, hE4b, hdelta, hp⟩ := inv
  have hQ34 : ndigits c3 ≤ 34 := Dec.C08GenRoundIntegral.ndigits_le_34 c3 (by rw [Dec.C13PackHelpers.P34_eq']; exact hc34)
  obtain ⟨hs1, hs2, hs3⟩ := scaleOf_le (ndigits c3) E3 hQ34 hE1
  have hgapc : ((p_sign != z_sign) && (delta == q3 + sc' + 1)) = true := by
    rw [hgc, decide_eq_true_eq]; exact ⟨hsg, hg⟩
  have hbs : (sp == sz) = false := by simpa using hsg
  rw [hcode, z1Gap_eq, if_pos hgapc, gapTest_spec C3 q3 _ c3 hC3 hc0 hc34 hq3]
  obtain ⟨S, hS⟩ : ∃ S, S = scaleOf (ndigits c3) E3 := ⟨_, rfl⟩
  rw [← hS] at hs1 hs2 hs3 hg hsc' he3' ⊢
  have hfitS : E3 - S ≤ 6111 := by omega
  have hgg : ((1 : Nat) : Int) = (ndigits c3 : Int) + E3 - ndigits c4 - E4 - ndigits c3 - S := by omega
  -- the status word after the padding
  have hpf0 : ∀ x : UInt32, (if ndigits c3 + S < 34 then pfpsf ||| c_StatusFlags_BID_UNDERFLOW_EXCEPTION else pfpsf) = x →
      (x ||| c_StatusFlags_BID_INEXACT_EXCEPTION = pfpsf ||| 0x20 ∨ (x ||| c_StatusFlags_BID_INEXACT_EXCEPTION = pfpsf ||| 0x30 ∧
        E3 - S = -6176 ∧ (ndigits c3 + S < 34 ∨ (ndigits c3 + S = 34 ∧ c3 * 10 ^ S = 10 ^ 33 ∧ sz ≠ sp)))) := by
    intro x hx
    by_cases hlt : ndigits c3 + S < 34
    · right
      rw [← hx, if_pos hlt, UInt32.or_assoc]
      exact ⟨rfl, by omega, Or.inl hlt⟩
    · left
      rw [← hx, if_neg hlt]; rfl
  by_cases hpow : c3 = 10 ^ (ndigits c3 - 1)
  · have hd : decide (c3 ≠ 10 ^ (ndigits c3 - 1)) = false := by simpa using hpow
    rw [hd]
    simp only [Bool.false_eq_true, if_false]
    obtain ⟨r, ml, mg, il, ig, hcode2, hG⟩ := gapR64_spec C4 q4 R64 P128 R128 P192 R192 R256
      (fun R64 ml mg il ig =>
        gapCls (if ndigits c3 + S < 34 then pfpsf ||| c_StatusFlags_BID_UNDERFLOW_EXCEPTION else pfpsf)
          (ofBits (encode (Datum.fin sz (c3 * 10 ^ S) (E3 - S)))) z_sign zx' q3 e3' sc' ml mg il ig R64
          fun ml mg il ig res e3 pfpsf =>
            z1Tail pml pmg pil pig m (pfpsf ||| c_StatusFlags_BID_INEXACT_EXCEPTION) res z_sign p_sign q3 e3 sc' p34 ml mg il ig)
      c4 hC4 h40 hq4 hq468
    rw [hcode2]
    have hqs : E3 - S ≠ -6176 → (q3 + sc').toInt = 34 := by
      intro h
      rw [i32_add _ _ (by omega) (by omega), hq3, hsc']
      omega
    rw [gapCls_spec _ _ z_sign zx' q3 e3' sc' ml mg il ig r _ c4 (E3 - S) sz hG he3' (by omega) hfitS hqs hzs]
    by_cases hmin : E3 - S = -6176
    · -- at the least exponent nothing is borrowed: the ordinary delivery, tiny
      have hmain := z1Tail_main sz sp c3 c4 E3 E4 1 S hS hc0 hc34 h40 hE1 hfit hgg (le_refl _)
        (fun h => by omega) pml pmg pil pig m pfpsf
        ((if ndigits c3 + S < 34 then pfpsf ||| c_StatusFlags_BID_UNDERFLOW_EXCEPTION else pfpsf) |||
          c_StatusFlags_BID_UNDERFLOW_EXCEPTION ||| c_StatusFlags_BID_INEXACT_EXCEPTION)
        z_sign p_sign q3 e3' sc' p34 pref hq3 hsc' he3' hp hzs hps (by
          right
          refine ⟨?_, hmin, ?_⟩
          · by_cases hlt : ndigits c3 + S < 34
            · rw [if_pos hlt, UInt32.or_assoc, UInt32.or_assoc]; rfl
            · rw [if_neg hlt, UInt32.or_assoc]; rfl
          · rcases Nat.lt_or_ge (ndigits c3 + S) 34 with h | h
            · exact Or.inl h
            · exact Or.inr ⟨by omega, pad_of_pow c3 S hc0 (by omega) hpow, fun h => hsg h.symm⟩)
      rw [hbs, Bool.not_false] at hmain
      by_cases htie : 2 * c4 = 10 ^ ndigits c4
      · have hI : gapInd c3 c4 (E3 - S = -6176) = (true, false, false, false) := by
          unfold gapInd; rw [if_neg (not_not.2 hpow), if_pos htie]
        rw [if_pos htie, if_pos hmin, hI, z1Tail_congr pml pmg pil pig m _ _ z_sign p_sign q3 e3' sc' p34 false false false true true false false
          false (fun f => correction_swap m e3' _ f), hmain]
        rfl
      · have hI : gapInd c3 c4 (E3 - S = -6176) = (false, false, false, true) := by
          unfold gapInd; rw [if_neg (not_not.2 hpow), if_neg htie, if_pos (Or.inl hmin)]
        rw [if_neg htie, if_pos (Or.inl hmin), if_pos hmin, hI]
        exact hmain
    · -- above the least exponent: `10^33` padded, the borrow across the decade
      have hQS : ndigits c3 + S = 34 := by omega
      have hcf : c3 * 10 ^ S = 10 ^ 33 := pad_of_pow c3 S hc0 hQS hpow
      have hlt34 : ¬ ndigits c3 + S < 34 := by omega
      obtain ⟨N, hadd, hnt, hlo, htie', hhi⟩ := gap_math (modeOf m) sz sp c3 c4 S E3 E4 pref hsg hc0 h40 hcf (by omega) hfitS hg
      have e34 : P34 = 10000000000000000000000000000000000 := rfl
      have e33 : P33 = 1000000000000000000000000000000000 := rfl
      have hdel : deliver P34 (E3 - S - 1) = (c3 * 10 ^ S, E3 - S) := by
        unfold deliver; rw [if_pos rfl, hcf]
        exact Prod.ext (by show P33 = _; rw [e33]; rfl) (by show E3 - S - 1 + 1 = _; omega)
      have hdel2 : deliver (P34 - 1) (E3 - S - 1) = (10 ^ 34 - 1, E3 - S - 1) := by
        unfold deliver; rw [if_neg (by decide)]
        exact Prod.ext (by show P34 - 1 = _; rw [e34]; rfl) rfl
      rw [if_neg hlt34, if_neg hmin]
      have hpfe : pfpsf ||| c_StatusFlags_BID_INEXACT_EXCEPTION = pfpsf ||| 0x20 := rfl
      rw [hpfe, hadd]
      by_cases htie : 2 * c4 = 10 ^ ndigits c4
      · have hI : gapInd c3 c4 (E3 - S = -6176) = (true, false, false, false) := by
          unfold gapInd; rw [if_neg (not_not.2 hpow), if_pos htie]
        rw [if_pos htie, hI]
        have := z1Tail_nt (htie' htie) hnt pml pmg pil pig m pfpsf z_sign p_sign sp q3 e3' sc' p34 pref (ndigits c3) S hQS
          hq3 hsc' hp hzs hps (by rw [hdel]; exact he3') (by rw [hdel]; exact hfitS) (Or.inl (by rw [hdel]; exact hmin))
        rw [hdel] at this
        exact this
      · rw [if_neg htie]
        by_cases hl : 2 * c4 < 10 ^ ndigits c4
        · have hI : gapInd c3 c4 (E3 - S = -6176) = (false, false, false, true) := by
            unfold gapInd; rw [if_neg (not_not.2 hpow), if_neg htie, if_pos (Or.inr hl)]
          rw [if_pos (Or.inr hl), hI]
          have := z1Tail_nt (hlo hl) hnt pml pmg pil pig m pfpsf z_sign p_sign sp q3 e3' sc' p34 pref (ndigits c3) S hQS
            hq3 hsc' hp hzs hps (by rw [hdel]; exact he3') (by rw [hdel]; exact hfitS) (Or.inl (by rw [hdel]; exact hmin))
          rw [hdel] at this
          exact this
        · have hI : gapInd c3 c4 (E3 - S = -6176) = (false, false, true, false) := by
            unfold gapInd; rw [if_neg (not_not.2 hpow), if_neg htie, if_neg (by rintro (h | h); exact hmin h; exact hl h)]
          rw [if_neg (by rintro (h | h); exact hmin h; exact hl h), hI]
          have he1 : (e3' - 1).toInt = E3 - S - 1 := by rw [i32_sub _ _ (by omega) (by decide), he3']; rfl
          have := z1Tail_nt (hhi (by omega)) hnt pml pmg pil pig m pfpsf z_sign p_sign sp q3 (e3' - 1) sc' p34 pref (ndigits c3) S
            hQS hq3 hsc' hp hzs hps (by rw [hdel2]; exact he1) (by rw [hdel2]; show E3 - S - 1 ≤ 6111; omega)
            (Or.inr (by rw [hdel2]; show (10 : Nat) ^ 34 - 1 ≠ 10 ^ 33; decide))
          rw [hdel2] at this
          exact this
  · -- `C3` is not a power of ten: no borrow across a decade, the ordinary delivery
    have hd : decide (c3 ≠ 10 ^ (ndigits c3 - 1)) = true := by simpa using hpow
    have hI : gapInd c3 c4 (E3 - S = -6176) = (false, false, false, true) := by unfold gapInd; rw [if_pos hpow]
    rw [hd, hI]
    simp only [if_true]
    have := z1Tail_main sz sp c3 c4 E3 E4 1 S hS hc0 hc34 h40 hE1 hfit hgg (le_refl _)
      (fun h => hpow (pow_of_pad c3 S hc0 hs1 h.2.2.1).1) pml pmg pil pig m pfpsf _
      z_sign p_sign q3 e3' sc' p34 pref hq3 hsc' he3' hp hzs hps (hpf0 _ rfl)
    rw [hbs, Bool.not_false] at this
    exact this

end Dec.C02GenFmaZ
