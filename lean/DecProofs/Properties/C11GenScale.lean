/-
  C11 (generated-code level) — the translated scaling routines `bid128_scalbn_clear_status`, `bid128_ldexp_clear_status`
  (`DecGen/Code.lean`, from bid128_scalbn.rs / bid128_ldexp.rs) and, through them, `bid128_scalbn`, `bid128_ldexp`,
  `bid128_scalbln`, against the specification-level `Dec.scalebD` with the judge's NaN rule.
-/
import DecProofs.Properties.C13GenPack
import DecProofs.Properties.C06GenFromInt
namespace Dec.C11GenScale
open Dec.Rs Dec.Gen.Code Dec.C13GenPack Dec.C13PackHelpers

set_option linter.unusedVariables false
set_option linter.unusedSimpArgs false
set_option linter.unnecessarySeqFocus false

/-! ## 0. `i64` / `i32` / `u32` arithmetic of the exponent sum -/

theorem bmod64 (x : Int) (h1 : -9223372036854775808 ≤ x) (h2 : x < 9223372036854775808) : x.bmod (2 ^ 64) = x := by
  unfold Int.bmod
  simp only [Nat.reducePow, Nat.cast_ofNat]
  split <;> omega

/-- `exponent_x as i64 + n as i64`: no wrap -/
theorem e64_toInt (ex n : Int32) : (Int64.ofInt (toI ex) + Int64.ofInt (toI n)).toInt = ex.toInt + n.toInt := by
  have a1 := ex.toInt_lt; have a2 := ex.le_toInt; have b1 := n.toInt_lt; have b2 := n.le_toInt
  rw [Int64.toInt_add]
  simp only [toI]
  rw [Int64.toInt_ofInt_of_le (by omega) (by omega), Int64.toInt_ofInt_of_le (by omega) (by omega), bmod64 _ (by omega) (by omega)]

theorem max64 : (Int64.ofInt (toI c_DECIMAL_MAX_EXPON_128)).toInt = 12287 := by decide

theorem e64_sub1 (a : Int64) (h : -9223372036854775807 ≤ a.toInt) : (a - 1).toInt = a.toInt - 1 := by
  have := a.toInt_lt
  rw [Int64.toInt_sub]
  have : (1 : Int64).toInt = 1 := by decide
  rw [this, bmod64 _ (by omega) (by omega)]

theorem d_lt0 (a : Int64) : decide (a < 0) = decide (a.toInt < 0) := by
  have : a < 0 ↔ a.toInt < 0 := by rw [Int64.lt_iff_toInt_lt]; rfl
  rw [Bool.eq_iff_iff]; simp only [decide_eq_true_eq]; exact this
theorem d_gtmax (a : Int64) : decide (a > Int64.ofInt (toI c_DECIMAL_MAX_EXPON_128)) = decide (a.toInt > 12287) := by
  have : a > Int64.ofInt (toI c_DECIMAL_MAX_EXPON_128) ↔ a.toInt > 12287 := by
    rw [gt_iff_lt, Int64.lt_iff_toInt_lt, max64]
  rw [Bool.eq_iff_iff]; simp only [decide_eq_true_eq]; exact this
theorem d_lemax (a : Int64) : decide (a ≤ Int64.ofInt (toI c_DECIMAL_MAX_EXPON_128)) = decide (a.toInt ≤ 12287) := by
  have : a ≤ Int64.ofInt (toI c_DECIMAL_MAX_EXPON_128) ↔ a.toInt ≤ 12287 := by
    rw [Int64.le_iff_toInt_le, max64]
  rw [Bool.eq_iff_iff]; simp only [decide_eq_true_eq]; exact this

/-- `exp64 as i32` -/
theorem e32_toInt (a : Int64) : (Int32.ofInt (toI a)).toInt = PackH.wrapI32 a.toInt := by
  simp only [toI]
  rw [Int32.toInt_ofInt]
  exact bmod_eq_wrap _

/-- the test `(exponent_x as u32) <= MAX as u32` on the truncated sum is the test `0 ≤ sum ≤ 12287` on the sum itself
(the sum lies in `[−2^31, 2^31 + 12287)`: a wrapped value is negative) -/
theorem u32_test (a : Int64) (h1 : -2147483648 ≤ a.toInt) (h2 : a.toInt < 2147483648 + 12288) :
    decide (UInt32.ofInt (toI (Int32.ofInt (toI a))) ≤ UInt32.ofInt (toI c_DECIMAL_MAX_EXPON_128))
      = decide (0 ≤ a.toInt ∧ a.toInt ≤ 12287) := by
  have hm : (UInt32.ofInt (toI c_DECIMAL_MAX_EXPON_128)).toNat = 12287 := by decide
  have hv : (UInt32.ofInt (toI (Int32.ofInt (toI a)))).toNat = ((PackH.wrapI32 a.toInt) % 4294967296).toNat := by
    have := e32_toInt a
    simp only [toI] at this ⊢
    unfold UInt32.ofInt
    rw [UInt32.toNat_ofNat', this]
    omega
  have : UInt32.ofInt (toI (Int32.ofInt (toI a))) ≤ UInt32.ofInt (toI c_DECIMAL_MAX_EXPON_128)
      ↔ (0 ≤ a.toInt ∧ a.toInt ≤ 12287) := by
    rw [UInt32.le_iff_toNat_le, hm, hv]
    unfold PackH.wrapI32
    omega
  rw [Bool.eq_iff_iff]; simp only [decide_eq_true_eq]; exact this

end Dec.C11GenScale
