/-
  C11 (generated-code level) — the translated scaling routines `bid128_scalbn_clear_status`, `bid128_ldexp_clear_status`
  (`DecGen/Code.lean`, from bid128_scalbn.rs / bid128_ldexp.rs) and, through them, `bid128_scalbn`, `bid128_ldexp`,
  `bid128_scalbln`, against the specification-level `Dec.scalebD` with the judge's NaN rule (`scalebSpec`).

  Headline: `scalbn_spec`, `ldexp_spec`, `scalbln_spec` — for ALL patterns, counts, modes and incoming status words the
  routine returns `.ok (ofBits (encode S.1), f ||| UInt32.ofNat S.2)` with `S = scalebSpec (md m) n (decode (bitsOf x))`
  (`scalbn_cs_spec`, `ldexp_cs_spec` for the inner routines from a clear status word).  No deviation from `scalebD` was
  found.

  Route: the unpacker by `C13GenPack.unpack_value_spec`; the control flow scenario by scenario (`scn_special`, `scn_zero`,
  `scn_in_range`, `scn_negative`, `scn_over_full`, `scn_over_pad`), with the exponent sum `exponent_x as i64 + n as i64`
  shown free of wrap-around and the `u32` range test on its `i32` truncation equivalent to `0 ≤ sum ≤ 12287`
  (`e64_toInt`, `u32_test`); the padding loop (a `for _ in [0:4096]` with a `brk__` marker) by `forIn_range_dowhile` and
  `doIter_spec`: it stops through `break` after `j ≥ 1` turns at the first `j` with `C·10^j ≥ 10^33` or sum − j = 12287;
  `bid_get_BID128` by `get_code_finish` (from `C13GenPack.get_bridge` and `get_bits_finish`: the result is the canonical
  encoding of `finish`'s datum) and `get_code_max` (exponent `0x7fffffff`: the overflow result); the specification side
  by `finish_in_range`, `finish_pad`, `finish_ovf` of `C13PackHelpers`.
-/
import DecProofs.Properties.C13GenPack
import DecProofs.Properties.C06GenFromInt
namespace Dec.C11GenScale
open Dec.Rs Dec.Gen.Code Dec.C13GenPack Dec.C13PackHelpers

set_option linter.unusedVariables false
set_option linter.unusedSimpArgs false
set_option linter.unnecessarySeqFocus false

/-! ## 0. `i64` / `i32` / `u32` arithmetic of the exponent sum -/

theorem bmod64 (x : Int) (h1 : -9223372036854775808 ≤ x) (h2 : x < 9223372036854775808) : x.bmod (2 ^ 64) = x := by
  unfold Int.bmod
  simp only [Nat.reducePow, Nat.cast_ofNat]
  split <;> omega

/-- `exponent_x as i64 + n as i64`: no wrap -/
theorem e64_toInt (ex n : Int32) : (Int64.ofInt (toI ex) + Int64.ofInt (toI n)).toInt = ex.toInt + n.toInt := by
  have a1 := ex.toInt_lt; have a2 := ex.le_toInt; have b1 := n.toInt_lt; have b2 := n.le_toInt
  rw [Int64.toInt_add]
  simp only [toI]
  rw [Int64.toInt_ofInt_of_le (by omega) (by omega), Int64.toInt_ofInt_of_le (by omega) (by omega), bmod64 _ (by omega) (by omega)]

theorem max64 : (Int64.ofInt (toI c_DECIMAL_MAX_EXPON_128)).toInt = 12287 := by decide

theorem e64_sub1 (a : Int64) (h : -9223372036854775807 ≤ a.toInt) : (a - 1).toInt = a.toInt - 1 := by
  have := a.toInt_lt
  rw [Int64.toInt_sub]
  have : (1 : Int64).toInt = 1 := by decide
  rw [this, bmod64 _ (by omega) (by omega)]

theorem d_lt0 (a : Int64) : decide (a < 0) = decide (a.toInt < 0) := by
  have : a < 0 ↔ a.toInt < 0 := by rw [Int64.lt_iff_toInt_lt]; rfl
  rw [Bool.eq_iff_iff]; simp only [decide_eq_true_eq]; exact this
theorem d_gtmax (a : Int64) : decide (a > Int64.ofInt (toI c_DECIMAL_MAX_EXPON_128)) = decide (a.toInt > 12287) := by
  have : a > Int64.ofInt (toI c_DECIMAL_MAX_EXPON_128) ↔ a.toInt > 12287 := by
    rw [gt_iff_lt, Int64.lt_iff_toInt_lt, max64]
  rw [Bool.eq_iff_iff]; simp only [decide_eq_true_eq]; exact this
theorem d_lemax (a : Int64) : decide (a ≤ Int64.ofInt (toI c_DECIMAL_MAX_EXPON_128)) = decide (a.toInt ≤ 12287) := by
  have : a ≤ Int64.ofInt (toI c_DECIMAL_MAX_EXPON_128) ↔ a.toInt ≤ 12287 := by
    rw [Int64.le_iff_toInt_le, max64]
  rw [Bool.eq_iff_iff]; simp only [decide_eq_true_eq]; exact this

/-- `exp64 as i32` -/
theorem e32_toInt (a : Int64) : (Int32.ofInt (toI a)).toInt = PackH.wrapI32 a.toInt := by
  simp only [toI]
  rw [Int32.toInt_ofInt]
  exact bmod_eq_wrap _

/-- the test `(exponent_x as u32) <= MAX as u32` on the truncated sum is the test `0 ≤ sum ≤ 12287` on the sum itself
(the sum lies in `[−2^31, 2^31 + 12287)`: a wrapped value is negative) -/
theorem u32_test (a : Int64) (h1 : -2147483648 ≤ a.toInt) (h2 : a.toInt < 2147483648 + 12288) :
    decide (UInt32.ofInt (toI (Int32.ofInt (toI a))) ≤ UInt32.ofInt (toI c_DECIMAL_MAX_EXPON_128))
      = decide (0 ≤ a.toInt ∧ a.toInt ≤ 12287) := by
  have hm : (UInt32.ofInt (toI c_DECIMAL_MAX_EXPON_128)).toNat = 12287 := by decide
  have hv : (UInt32.ofInt (toI (Int32.ofInt (toI a)))).toNat = ((PackH.wrapI32 a.toInt) % 4294967296).toNat := by
    have := e32_toInt a
    simp only [toI] at this ⊢
    unfold UInt32.ofInt
    rw [UInt32.toNat_ofNat', this]
    omega
  have : UInt32.ofInt (toI (Int32.ofInt (toI a))) ≤ UInt32.ofInt (toI c_DECIMAL_MAX_EXPON_128)
      ↔ (0 ≤ a.toInt ∧ a.toInt ≤ 12287) := by
    rw [UInt32.le_iff_toNat_le, hm, hv]
    unfold PackH.wrapI32
    omega
  rw [Bool.eq_iff_iff]; simp only [decide_eq_true_eq]; exact this

/-! ## 1. The control flow of `bid128_scalbn_clear_status`, scenario by scenario -/

theorem very_fast_eq (sgn : UInt64) (e : Int32) (c : U128) :
    bid_get_BID128_very_fast sgn e c = .ok ⟨c.w0, sgn ||| UInt64.ofInt (toI e) <<< 49 ||| c.w1⟩ := by
  unfold bid_get_BID128_very_fast; rfl

/-- the status word of the zero / infinity / NaN front end -/
def frontFlags (x : U128) : UInt32 :=
  if (x.w1 &&& c_SNAN_MASK64 == c_SNAN_MASK64) = true then 0 ||| c_StatusFlags_BID_INVALID_EXCEPTION else 0

/-- S1: infinity or NaN (`ret = 0`, coefficient high word non-zero): the unpacked words, quieted -/
theorem scn_special (x : U128) (n : Int32) (m : RoundingMode) (sg : UInt64) (ex : Int32) (co : U128)
    (hu : unpack_BID128_value 0 0 default x = .ok (0, sg, ex, co)) (hco : (co.w1 == 0) = false) :
    bid128_scalbn_clear_status x n m 0 = .ok (⟨co.w0, co.w1 &&& c_QUIET_MASK64⟩, frontFlags x) := by
  unfold bid128_scalbn_clear_status frontFlags
  simp only [hu, hco, bind, Except.bind, pure, Except.pure, set_status_flags, very_fast_eq, ok_ite, ite_prod, ite_u128,
    ite_self, beq_self_eq_true, if_true, Bool.false_eq_true, if_false]

/-- S2: a zero (`ret = 0`, coefficient zero): the exponent sum clamped into `0 … 12287` -/
theorem scn_zero (x : U128) (n : Int32) (m : RoundingMode) (sg : UInt64) (ex : Int32) (co : U128)
    (hu : unpack_BID128_value 0 0 default x = .ok (0, sg, ex, co)) (hco : (co.w1 == 0) = true) :
    bid128_scalbn_clear_status x n m 0 = .ok (⟨co.w0, sg ||| UInt64.ofInt (toI (Int32.ofInt
        (if ex.toInt + n.toInt < 0 then 0 else if ex.toInt + n.toInt > 12287 then 12287 else ex.toInt + n.toInt))) <<< 49
        ||| co.w1⟩, frontFlags x) := by
  unfold bid128_scalbn_clear_status frontFlags
  have h0 : decide ((0 : Int64) > Int64.ofInt (toI c_DECIMAL_MAX_EXPON_128)) = false := by decide
  have hmax : Int32.ofInt (toI (Int64.ofInt (toI c_DECIMAL_MAX_EXPON_128))) = Int32.ofInt 12287 := by decide
  have hz : Int32.ofInt (toI (0 : Int64)) = Int32.ofInt 0 := by decide
  have hs : Int32.ofInt (toI (Int64.ofInt (toI ex) + Int64.ofInt (toI n))) = Int32.ofInt (ex.toInt + n.toInt) := by
    simp only [toI]; rw [← e64_toInt]; rfl
  simp only [hu, hco, bind, Except.bind, pure, Except.pure, set_status_flags, very_fast_eq, ok_ite, ite_prod, ite_u128,
    ite_self, beq_self_eq_true, if_true, Bool.false_eq_true, if_false, d_lt0, d_gtmax, e64_toInt, h0, hmax, hz, hs]
  by_cases h1 : ex.toInt + n.toInt < 0
  · simp only [h1, decide_true, if_true, toI]
  · by_cases h2 : ex.toInt + n.toInt > 12287
    · simp only [h1, h2, decide_true, decide_false, if_true, Bool.false_eq_true, if_false, toI]
    · simp only [h1, h2, decide_false, Bool.false_eq_true, if_false, toI]

/-- the test `CX < 10^33` on the words -/
def lt1033 (c : U128) : Bool :=
  decide (c.w1 < 54210108624275) || c.w1 == 54210108624275 && decide (c.w0 < 4089650035136921600)

/-- S3: non-zero coefficient, exponent sum in range: packed as it is -/
theorem scn_in_range (x : U128) (n : Int32) (m : RoundingMode) (r sg : UInt64) (ex : Int32) (co : U128)
    (hu : unpack_BID128_value 0 0 default x = .ok (r, sg, ex, co)) (hr : (r == 0) = false)
    (hex : 0 ≤ ex.toInt ∧ ex.toInt ≤ 12287) (h0 : 0 ≤ ex.toInt + n.toInt) (h1 : ex.toInt + n.toInt ≤ 12287) :
    bid128_scalbn_clear_status x n m 0
      = .ok (⟨co.w0, sg ||| UInt64.ofInt (toI (Int32.ofInt (ex.toInt + n.toInt))) <<< 49 ||| co.w1⟩, 0) := by
  unfold bid128_scalbn_clear_status
  have hs : Int32.ofInt (toI (Int64.ofInt (toI ex) + Int64.ofInt (toI n))) = Int32.ofInt (ex.toInt + n.toInt) := by
    simp only [toI]; rw [← e64_toInt]; rfl
  have a1 := n.toInt_lt; have a2 := n.le_toInt
  have ht := u32_test (Int64.ofInt (toI ex) + Int64.ofInt (toI n)) (by rw [e64_toInt]; omega) (by rw [e64_toInt]; omega)
  rw [e64_toInt] at ht
  have ht' : decide (UInt32.ofInt (toI (Int32.ofInt (toI (Int64.ofInt (toI ex) + Int64.ofInt (toI n)))))
      ≤ UInt32.ofInt (toI c_DECIMAL_MAX_EXPON_128)) = true := by
    rw [ht, decide_eq_true_eq]; exact ⟨h0, h1⟩
  rw [hs] at ht'
  simp only [hu, hr, ht', bind, Except.bind, pure, Except.pure, set_status_flags, very_fast_eq, Bool.false_eq_true, if_false,
    if_true, hs]

/-- S4: non-zero coefficient, negative exponent sum: `bid_get_BID128` with the sum -/
theorem scn_negative (x : U128) (n : Int32) (m : RoundingMode) (r sg : UInt64) (ex : Int32) (co : U128)
    (hu : unpack_BID128_value 0 0 default x = .ok (r, sg, ex, co)) (hr : (r == 0) = false)
    (hex : 0 ≤ ex.toInt ∧ ex.toInt ≤ 12287) (h0 : ex.toInt + n.toInt < 0) :
    bid128_scalbn_clear_status x n m 0 = bid_get_BID128 sg (Int32.ofInt (ex.toInt + n.toInt)) co m 0 := by
  unfold bid128_scalbn_clear_status
  have hs : Int32.ofInt (toI (Int64.ofInt (toI ex) + Int64.ofInt (toI n))) = Int32.ofInt (ex.toInt + n.toInt) := by
    simp only [toI]; rw [← e64_toInt]; rfl
  have a1 := n.toInt_lt; have a2 := n.le_toInt
  have ht := u32_test (Int64.ofInt (toI ex) + Int64.ofInt (toI n)) (by rw [e64_toInt]; omega) (by rw [e64_toInt]; omega)
  rw [e64_toInt] at ht
  have ht' : decide (UInt32.ofInt (toI (Int32.ofInt (toI (Int64.ofInt (toI ex) + Int64.ofInt (toI n)))))
      ≤ UInt32.ofInt (toI c_DECIMAL_MAX_EXPON_128)) = false := by
    rw [ht, decide_eq_false_iff_not]; omega
  rw [hs] at ht'
  have hg : decide (Int64.ofInt (toI ex) + Int64.ofInt (toI n) > Int64.ofInt (toI c_DECIMAL_MAX_EXPON_128)) = false := by
    rw [d_gtmax, e64_toInt, decide_eq_false_iff_not]; omega
  simp only [hu, hr, ht', hg, bind, Except.bind, pure, Except.pure, set_status_flags, very_fast_eq, Bool.false_eq_true,
    if_false, if_true, hs]
  cases bid_get_BID128 sg (Int32.ofInt (ex.toInt + n.toInt)) co m 0 <;> rfl

/-- S5: non-zero 34-digit coefficient, exponent sum above the range: `bid_get_BID128` with the exponent `0x7fffffff` -/
theorem scn_over_full (x : U128) (n : Int32) (m : RoundingMode) (r sg : UInt64) (ex : Int32) (co : U128)
    (hu : unpack_BID128_value 0 0 default x = .ok (r, sg, ex, co)) (hr : (r == 0) = false)
    (hex : 0 ≤ ex.toInt ∧ ex.toInt ≤ 12287) (h0 : ex.toInt + n.toInt > 12287) (hc : lt1033 co = false) :
    bid128_scalbn_clear_status x n m 0 = bid_get_BID128 sg 2147483647 co m 0 := by
  unfold bid128_scalbn_clear_status
  have a1 := n.toInt_lt; have a2 := n.le_toInt
  have ht := u32_test (Int64.ofInt (toI ex) + Int64.ofInt (toI n)) (by rw [e64_toInt]; omega) (by rw [e64_toInt]; omega)
  rw [e64_toInt] at ht
  have ht' : decide (UInt32.ofInt (toI (Int32.ofInt (toI (Int64.ofInt (toI ex) + Int64.ofInt (toI n)))))
      ≤ UInt32.ofInt (toI c_DECIMAL_MAX_EXPON_128)) = false := by
    rw [ht, decide_eq_false_iff_not]; omega
  have hg : decide (Int64.ofInt (toI ex) + Int64.ofInt (toI n) > Int64.ofInt (toI c_DECIMAL_MAX_EXPON_128)) = true := by
    rw [d_gtmax, e64_toInt, decide_eq_true_eq]; omega
  have hl : decide (Int64.ofInt (toI ex) + Int64.ofInt (toI n) ≤ Int64.ofInt (toI c_DECIMAL_MAX_EXPON_128)) = false := by
    rw [d_lemax, e64_toInt, decide_eq_false_iff_not]; omega
  unfold lt1033 at hc
  simp only [hu, hr, ht', hg, hl, hc, bind, Except.bind, pure, Except.pure, set_status_flags, very_fast_eq,
    Bool.false_eq_true, if_false, if_true]
  cases bid_get_BID128 sg 2147483647 co m 0 <;> rfl

/-- `__add_128_128` as a function -/
def add128U (a b : U128) : U128 :=
  ⟨b.w0 + a.w0, if decide (b.w0 + a.w0 < b.w0) = true then a.w1 + b.w1 + 1 else a.w1 + b.w1⟩
theorem add_128_128_eq (a b : U128) : add_128_128 a b = .ok (add128U a b) := by
  unfold add_128_128 add128U
  simp only [bind, Except.bind, pure, Except.pure]
  split <;> rfl

/-- `CX * 10` by shifts and an add, as the padding loop of `bid128_scalbn` does it -/
def times10S (c : U128) : U128 :=
  add128U { w0 := c.w0 <<< 1, w1 := c.w1 <<< 1 ||| c.w0 >>> 63 } { w0 := c.w0 <<< 3, w1 := c.w1 <<< 3 ||| c.w0 >>> 61 }

theorem pr_add128U (a b : U128) : pr (add128U a b) = PackH.add_128_128 (pr a) (pr b) := by
  obtain ⟨r, h, e⟩ := add_128_128_bridge a b
  rw [add_128_128_eq] at h
  injection h with h
  rw [h]; exact e

/-- the shift-and-add multiplication by ten is exact below 10^34 -/
theorem times10S_val (c : U128) (h : bitsOf c < 10 ^ 34) : bitsOf (times10S c) = 10 * bitsOf c := by
  rw [bitsOf_eq] at h
  obtain ⟨d0, d1, hd0, hd1, hv, heq⟩ := times10_sticky c.w0.toNat c.w1.toNat 0 c.w0.toNat_lt c.w1.toNat_lt h
  simp only [ne_eq, not_true_eq_false, if_false, Nat.add_zero] at hv heq
  have hp : pr (times10S c) = (d0, d1) := by
    rw [← heq]; unfold times10S; rw [pr_add128U]
    simp only [pr, UInt64.toNat_or, shl1, shl3, shr63, shr61]
  rw [bitsOf_eq (times10S c), bitsOf_eq c, ← hv]
  have h1 : (times10S c).w0.toNat = d0 := congrArg Prod.fst hp
  have h2 : (times10S c).w1.toNat = d1 := congrArg Prod.snd hp
  rw [h1, h2]

theorem lt1033_iff (c : U128) : lt1033 c = decide (bitsOf c < 10 ^ 33) := by
  unfold lt1033
  have a : (54210108624275 : UInt64).toNat = 54210108624275 := by decide
  have b : (4089650035136921600 : UInt64).toNat = 4089650035136921600 := by decide
  rw [u64_beq, Bool.eq_iff_iff]
  simp only [Bool.or_eq_true, Bool.and_eq_true, decide_eq_true_eq, UInt64.lt_iff_toNat_lt, beq_iff_eq, a, b]
  have := c.w0.toNat_lt
  unfold bitsOf; omega

/-! ### the padding loop -/

/-- a `for _ in [0:n]` loop standing for a `loop { …; if c { break } }` -/
def doIter {σ} (brk : σ → Bool) (g h : σ → σ) : Nat → σ → σ
  | 0, s => s
  | k + 1, s => if brk s then g s else doIter brk g h k (h s)

theorem forIn_list_dowhile {σ α} (l : List α) (f : α → σ → Except String (ForInStep σ)) (brk : σ → Bool) (g h : σ → σ)
    (hf : ∀ x s, f x s = .ok (if brk s then ForInStep.done (g s) else ForInStep.yield (h s))) :
    ∀ s, forIn l s f = .ok (doIter brk g h l.length s) := by
  induction l with
  | nil => intro s; rfl
  | cons a t ih =>
    intro s
    rw [List.forIn_cons, hf]
    simp only [bind, Except.bind, List.length_cons, doIter]
    by_cases hb : brk s
    · simp only [hb, if_true]; rfl
    · simp only [hb, Bool.false_eq_true, if_false]; exact ih _

theorem forIn_range_dowhile {σ} (n : Nat) (f : Nat → σ → Except String (ForInStep σ)) (brk : σ → Bool) (g h : σ → σ)
    (hf : ∀ x s, f x s = .ok (if brk s then ForInStep.done (g s) else ForInStep.yield (h s))) (s : σ) :
    forIn [:n] s f = .ok (doIter brk g h n s) := by
  rw [Std.Legacy.Range.forIn_eq_forIn_range', forIn_list_dowhile _ f brk g h hf]
  simp [Std.Legacy.Range.size]

/-- the state of the padding loop: `CX, CX2, CBID_X8, exp64, exponent_x, brk` -/
abbrev LState := U128 × U128 × U128 × Int64 × Int32 × Bool

def lBrk (s : LState) : Bool :=
  !(lt1033 (times10S s.1) && decide (s.2.2.2.1 - 1 > Int64.ofInt (toI c_DECIMAL_MAX_EXPON_128)))
def lG (s : LState) : LState :=
  (times10S s.1, { w0 := s.1.w0 <<< 1, w1 := s.1.w1 <<< 1 ||| s.1.w0 >>> 63 },
    { w0 := s.1.w0 <<< 3, w1 := s.1.w1 <<< 3 ||| s.1.w0 >>> 61 }, s.2.2.2.1 - 1, s.2.2.2.2.1 - 1, true)
def lH (s : LState) : LState :=
  (times10S s.1, { w0 := s.1.w0 <<< 1, w1 := s.1.w1 <<< 1 ||| s.1.w0 >>> 63 },
    { w0 := s.1.w0 <<< 3, w1 := s.1.w1 <<< 3 ||| s.1.w0 >>> 61 }, s.2.2.2.1 - 1, s.2.2.2.2.1 - 1, s.2.2.2.2.2)

theorem i32_sub1 (a : Int32) : (a - 1).toInt = PackH.wrapI32 (a.toInt - 1) := by
  rw [i32_sub]; rfl

/-- what the padding loop computes: from a coefficient `1 ≤ C < 10^33` and an exponent sum `E > 12287` it stops after
`j ≥ 1` turns, at the first `j` with `C·10^j ≥ 10^33` or `E − j ≤ 12287`, always through `break` -/
theorem doIter_spec (k : Nat) : ∀ (s : LState), 1 ≤ bitsOf s.1 → bitsOf s.1 < 10 ^ 33 → 10 ^ 33 ≤ bitsOf s.1 * 10 ^ k →
    12287 < s.2.2.2.1.toInt → s.2.2.2.2.1.toInt = PackH.wrapI32 s.2.2.2.1.toInt →
    ∃ (j : Nat) (c' c2 c8 : U128) (E' : Int64) (e' : Int32), doIter lBrk lG lH k s = (c', c2, c8, E', e', true) ∧
      1 ≤ j ∧ bitsOf c' = bitsOf s.1 * 10 ^ j ∧ E'.toInt = s.2.2.2.1.toInt - j ∧ e'.toInt = PackH.wrapI32 E'.toInt ∧
      bitsOf s.1 * 10 ^ (j - 1) < 10 ^ 33 ∧ 12287 ≤ E'.toInt ∧
      ¬ (bitsOf c' < 10 ^ 33 ∧ 12287 < E'.toInt) := by
  induction k with
  | zero => intro s h1 h2 h3; simp at h3; omega
  | succ k ih =>
    intro s h1 h2 h3 h4 h5
    obtain ⟨c, c2, c8, E, e, b⟩ := s
    simp only at h1 h2 h3 h4 h5
    have hE := E.le_toInt
    have hE1 : (E - 1).toInt = E.toInt - 1 := e64_sub1 E (by omega)
    have hc1 : bitsOf (times10S c) = 10 * bitsOf c := times10S_val c (by omega)
    have he1 : (e - 1).toInt = PackH.wrapI32 (E - 1).toInt := by
      rw [i32_sub1, h5, hE1]; unfold PackH.wrapI32; omega
    unfold doIter
    by_cases hb : lBrk (c, c2, c8, E, e, b) = true
    · rw [if_pos hb]
      refine ⟨1, _, _, _, _, _, rfl, le_refl _, ?_, ?_, he1, ?_, ?_, ?_⟩
      · simp only [hc1]; omega
      · simp only [hE1]; omega
      · simpa using h2
      · simp only [hE1]; omega
      · unfold lBrk at hb
        simp only [Bool.not_eq_true', Bool.and_eq_false_iff, lt1033_iff, decide_eq_false_iff_not, d_gtmax, hE1, hc1] at hb
        simp only [hE1, hc1]
        omega
    · rw [if_neg hb]
      unfold lBrk at hb
      simp only [Bool.not_eq_true', Bool.not_eq_false, Bool.and_eq_true, lt1033_iff, decide_eq_true_eq, d_gtmax, hE1, hc1] at hb
      have h3' : 10 ^ 33 ≤ bitsOf (times10S c) * 10 ^ k := by
        rw [hc1]; rw [Nat.pow_succ] at h3
        calc 10 ^ 33 ≤ bitsOf c * (10 ^ k * 10) := h3
          _ = 10 * bitsOf c * 10 ^ k := by ring
      have hl1 : (lH (c, c2, c8, E, e, b)).1 = times10S c := rfl
      have hl2 : (lH (c, c2, c8, E, e, b)).2.2.2.1 = E - 1 := rfl
      have hl3 : (lH (c, c2, c8, E, e, b)).2.2.2.2.1 = e - 1 := rfl
      obtain ⟨j, c', d2, d8, E', e', hit, hj, hbits, hEe, hee, hprev, hge, hstop⟩ :=
        ih (lH (c, c2, c8, E, e, b))
          (by rw [hl1, hc1]; exact Nat.le_trans h1 (Nat.le_mul_of_pos_left _ (by decide)))
          (by rw [hl1, hc1]; exact hb.1)
          (by rw [hl1]; exact h3') (by rw [hl2, hE1]; exact hb.2) (by rw [hl2, hl3]; exact he1)
      rw [hl1] at hbits hprev
      rw [hl2] at hEe
      refine ⟨j + 1, c', d2, d8, E', e', hit, by omega, ?_, ?_, hee, ?_, hge, hstop⟩
      · rw [hbits, hc1, Nat.pow_succ]; ring
      · rw [hEe, hE1]; push_cast; omega
      · simp only [Nat.add_sub_cancel]
        have : bitsOf (times10S c) * 10 ^ (j - 1) < 10 ^ 33 := hprev
        rw [hc1] at this
        obtain ⟨i, rfl⟩ : ∃ i, j = i + 1 := ⟨j - 1, by omega⟩
        simp only [Nat.add_sub_cancel] at this
        rw [Nat.pow_succ]
        calc bitsOf c * (10 ^ i * 10) = 10 * bitsOf c * 10 ^ i := by ring
          _ < 10 ^ 33 := this

/-- the body of the translated padding loop, in the form `simp` leaves it -/
theorem loop_body2 (s : LState) :
    (if (!((decide ((add128U { w0 := s.1.w0 <<< 1, w1 := s.1.w1 <<< 1 ||| s.1.w0 >>> 63 }
                      { w0 := s.1.w0 <<< 3, w1 := s.1.w1 <<< 3 ||| s.1.w0 >>> 61 }).w1 < 54210108624275) ||
              (add128U { w0 := s.1.w0 <<< 1, w1 := s.1.w1 <<< 1 ||| s.1.w0 >>> 63 }
                      { w0 := s.1.w0 <<< 3, w1 := s.1.w1 <<< 3 ||| s.1.w0 >>> 61 }).w1 == 54210108624275 &&
                decide ((add128U { w0 := s.1.w0 <<< 1, w1 := s.1.w1 <<< 1 ||| s.1.w0 >>> 63 }
                        { w0 := s.1.w0 <<< 3, w1 := s.1.w1 <<< 3 ||| s.1.w0 >>> 61 }).w0 < 4089650035136921600)) &&
            decide (s.2.2.2.1 - 1 > Int64.ofInt (toI c_DECIMAL_MAX_EXPON_128)))) = true then
        (Except.ok (ForInStep.done
          (add128U { w0 := s.1.w0 <<< 1, w1 := s.1.w1 <<< 1 ||| s.1.w0 >>> 63 }
              { w0 := s.1.w0 <<< 3, w1 := s.1.w1 <<< 3 ||| s.1.w0 >>> 61 },
            { w0 := s.1.w0 <<< 1, w1 := s.1.w1 <<< 1 ||| s.1.w0 >>> 63 },
            { w0 := s.1.w0 <<< 3, w1 := s.1.w1 <<< 3 ||| s.1.w0 >>> 61 }, s.2.2.2.1 - 1, s.2.2.2.2.1 - 1, true))
          : Except String (ForInStep LState))
      else
        Except.ok (ForInStep.yield
          (add128U { w0 := s.1.w0 <<< 1, w1 := s.1.w1 <<< 1 ||| s.1.w0 >>> 63 }
              { w0 := s.1.w0 <<< 3, w1 := s.1.w1 <<< 3 ||| s.1.w0 >>> 61 },
            { w0 := s.1.w0 <<< 1, w1 := s.1.w1 <<< 1 ||| s.1.w0 >>> 63 },
            { w0 := s.1.w0 <<< 3, w1 := s.1.w1 <<< 3 ||| s.1.w0 >>> 61 }, s.2.2.2.1 - 1, s.2.2.2.2.1 - 1, s.2.2.2.2.2)))
      = .ok (if lBrk s = true then ForInStep.done (lG s) else ForInStep.yield (lH s)) := by
  unfold lBrk lG lH lt1033 times10S
  split <;> rfl

/-- S6: non-zero coefficient below 10^33, exponent sum `E > 12287`: the loop pads `j ≥ 1` zeros, stopping at the first
`j` with `C·10^j ≥ 10^33` or `E − j = 12287`; in the latter case the padded coefficient is packed at the maximum
exponent, otherwise `bid_get_BID128` is called with exponent `0x7fffffff` -/
theorem scn_over_pad (x : U128) (n : Int32) (m : RoundingMode) (r sg : UInt64) (ex : Int32) (co : U128)
    (hu : unpack_BID128_value 0 0 default x = .ok (r, sg, ex, co)) (hr : (r == 0) = false)
    (hex : 0 ≤ ex.toInt ∧ ex.toInt ≤ 12287) (h0 : ex.toInt + n.toInt > 12287) (hc0 : 1 ≤ bitsOf co)
    (hc : bitsOf co < 10 ^ 33) :
    ∃ (j : Nat) (c' : U128) (e' : Int32), 1 ≤ j ∧ bitsOf c' = bitsOf co * 10 ^ j ∧
      bitsOf co * 10 ^ (j - 1) < 10 ^ 33 ∧ 12287 ≤ ex.toInt + n.toInt - j ∧
      ¬ (bitsOf c' < 10 ^ 33 ∧ 12287 < ex.toInt + n.toInt - j) ∧
      bid128_scalbn_clear_status x n m 0 =
        (if ex.toInt + n.toInt - j ≤ 12287 then
          .ok (⟨c'.w0, sg ||| UInt64.ofInt (toI (Int32.ofInt 12287)) <<< 49 ||| c'.w1⟩, 0)
         else bid_get_BID128 sg 2147483647 c' m 0) := by
  have a1 := n.toInt_lt; have a2 := n.le_toInt
  have ht := u32_test (Int64.ofInt (toI ex) + Int64.ofInt (toI n)) (by rw [e64_toInt]; omega) (by rw [e64_toInt]; omega)
  rw [e64_toInt] at ht
  have ht' : decide (UInt32.ofInt (toI (Int32.ofInt (toI (Int64.ofInt (toI ex) + Int64.ofInt (toI n)))))
      ≤ UInt32.ofInt (toI c_DECIMAL_MAX_EXPON_128)) = false := by
    rw [ht, decide_eq_false_iff_not]; omega
  have hg : decide (Int64.ofInt (toI ex) + Int64.ofInt (toI n) > Int64.ofInt (toI c_DECIMAL_MAX_EXPON_128)) = true := by
    rw [d_gtmax, e64_toInt, decide_eq_true_eq]; omega
  have hlt : lt1033 co = true := by rw [lt1033_iff, decide_eq_true_eq]; exact hc
  unfold lt1033 at hlt
  -- the loop
  have key : ∀ k : Nat, 33 ≤ k → 10 ^ 33 ≤ bitsOf co * 10 ^ k := by
    intro k hk
    have : (10 : Nat) ^ 33 ≤ 10 ^ k := Nat.pow_le_pow_right (by decide) hk
    calc 10 ^ 33 ≤ 10 ^ k := this
      _ = 1 * 10 ^ k := (Nat.one_mul _).symm
      _ ≤ bitsOf co * 10 ^ k := Nat.mul_le_mul_right _ hc0
  have h33 := key 4096 (by decide)
  obtain ⟨j, c', c2, c8, E', e', hit, hj, hbits, hE, he, hprev, hge, hstop⟩ :=
    doIter_spec 4096 (co, default, default, Int64.ofInt (toI ex) + Int64.ofInt (toI n),
      Int32.ofInt (toI (Int64.ofInt (toI ex) + Int64.ofInt (toI n))), false) hc0 hc h33
      (by show 12287 < (Int64.ofInt (toI ex) + Int64.ofInt (toI n)).toInt; rw [e64_toInt]; omega)
      (e32_toInt _)
  simp only [e64_toInt] at hE
  refine ⟨j, c', e', hj, hbits, hprev, by rw [← hE]; exact hge, by rw [← hE]; exact hstop, ?_⟩
  unfold bid128_scalbn_clear_status
  simp only [hu, hr, ht', hg, hlt, bind, Except.bind, pure, Except.pure, set_status_flags, very_fast_eq,
    Bool.false_eq_true, if_false, if_true, add_128_128_eq]
  rw [forIn_range_dowhile 4096 _ lBrk lG lH (fun _ s => loop_body2 s), hit]
  simp only [Bool.not_true, Bool.false_eq_true, if_false, d_lemax, hE]
  by_cases hle : ex.toInt + n.toInt - j ≤ 12287
  · have he12 : e' = Int32.ofInt 12287 := by
      rw [← Int32.toInt_inj, he, hE]
      have : ex.toInt + n.toInt - (j : Int) = 12287 := by rw [← hE] at hle ⊢; omega
      rw [this]; rfl
    simp only [hle, decide_true, if_true, he12]
  · simp only [hle, decide_false, Bool.false_eq_true, if_false]
    cases bid_get_BID128 sg 2147483647 c' m 0 <;> rfl

/-! ## 2. `bid_get_BID128` delivers the canonical encoding of `finish` -/

theorem some_pair_inj {α β} {a a' : α} {b b' : β} (h : some (a, b) = some (a', b')) : a = a' ∧ b = b' := by
  injection h with h; injection h with h1 h2; exact ⟨h1, h2⟩

theorem bits_of_decode (b : Nat) (D' D : Datum) (hW : D'.WF) (hb : b = encode D') (hd : decode b = D) : b = encode D := by
  rw [hb] at hd ⊢
  rw [decode_encode hW] at hd
  rw [hd]

/-- the model's `bid_get_BID128` (clear status word on entry) returns the canonical encoding of `finish`'s datum, and its
flags -/
theorem get_bits_finish (sgn : Nat) (e : Int) (c0 c1 : Nat) (mode : Mode) (hs : sgn = 0 ∨ sgn = 2 ^ 63)
    (hc0 : c0 < 2 ^ 64) (hc1 : c1 < 2 ^ 64) (hC0 : 0 < c0 + 2 ^ 64 * c1) (hC : c0 + 2 ^ 64 * c1 ≤ 10 ^ 34)
    (he : -2147483648 ≤ e) (he' : e < 2147483647) :
    ∃ r f, PackH.get_BID128 sgn e (c0, c1) mode 0 = some (r, f) ∧
      bits r = encode (finish mode (decide (sgn ≠ 0)) (c0 + 2 ^ 64 * c1) 1 (e - 6176) (e - 6176)).1 ∧
      f = (finish mode (decide (sgn ≠ 0)) (c0 + 2 ^ 64 * c1) 1 (e - 6176) (e - 6176)).2 := by
  obtain ⟨r, f, hget, hfin⟩ := C13PackHelpers.get_eq_finish sgn e c0 c1 mode hs hc0 hc1 hC0 hC he he'
  have hd : decode (bits r) = (finish mode (decide (sgn ≠ 0)) (c0 + 2 ^ 64 * c1) 1 (e - 6176) (e - 6176)).1 :=
    congrArg Prod.fst hfin
  have hf : f = (finish mode (decide (sgn ≠ 0)) (c0 + 2 ^ 64 * c1) 1 (e - 6176) (e - 6176)).2 := congrArg Prod.snd hfin
  refine ⟨r, f, hget, ?_, hf⟩
  have hn := norm34_lt (c0 + 2 ^ 64 * c1) e hC
  -- canonicity, regime by regime
  rcases lt_trichotomy (norm34 (c0 + 2 ^ 64 * c1) e).2 0 with hlt | heq | hgt
  · obtain ⟨r', mm, hget', _, hb, hdd⟩ :=
      get_underflow_decode sgn e c0 c1 mode 0 hs hc0 hc1 hC he he' hlt (Or.inl (by omega))
    have h1 := (some_pair_inj (hget.symm.trans hget')).1
    subst h1
    have hW : (Datum.fin (decide (sgn ≠ 0)) mm eMin).WF := by rw [← hdd]; exact decode_WF _
    exact bits_of_decode _ _ _ hW hb hd
  · obtain ⟨r', hget', hb⟩ := get_in_range sgn e c0 c1 mode 0 hs hc0 hc1 hC (by omega) (by omega)
    have h1 := (some_pair_inj (hget.symm.trans hget')).1
    subst h1
    exact bits_of_decode _ _ _ (fin_WF _ _ _ hn (by omega) (by omega)) hb hd
  · by_cases hin : (norm34 (c0 + 2 ^ 64 * c1) e).2 ≤ 12287
    · obtain ⟨r', hget', hb⟩ := get_in_range sgn e c0 c1 mode 0 hs hc0 hc1 hC (by omega) hin
      have h1 := (some_pair_inj (hget.symm.trans hget')).1
      subst h1
      exact bits_of_decode _ _ _ (fin_WF _ _ _ hn (by omega) hin) hb hd
    · obtain ⟨hA, hB⟩ := get_overflow sgn e c0 c1 mode 0 hs hc0 hc1 hC he he' (by omega)
      by_cases hpad : (norm34 (c0 + 2 ^ 64 * c1) e).1 * 10 ^ ((norm34 (c0 + 2 ^ 64 * c1) e).2 - 12287).toNat < 10 ^ 34
      · obtain ⟨r', hget', hb⟩ := hA hpad
        have h1 := (some_pair_inj (hget.symm.trans hget')).1
        subst h1
        exact bits_of_decode _ _ _ (by simp only [Datum.WF, P34_eq', eMin, eMax]; omega) hb hd
      · obtain ⟨r', hget', hb⟩ := hB hpad
        have h1 := (some_pair_inj (hget.symm.trans hget')).1
        subst h1
        refine bits_of_decode _ _ _ ?_ hb hd
        cases mode <;> cases hdd : decide (sgn ≠ 0) <;> simp [overflowResult, Datum.WF, P34, eMin, eMax]

open Dec.C06GenFromInt (ofBits ofBits_bitsOf bitsOf_ofBits) in
/-- from the model's words to the `U128` -/
theorem eq_ofBits (res : U128) (r : PackH.U128) (h : pr res = r) : res = ofBits (bits r) := by
  rw [← h]
  exact (ofBits_bitsOf res).symm

theorem u32_eq_ofNat (fl : UInt32) (f : Nat) (h : fl.toNat = f) : fl = UInt32.ofNat f := by
  rw [← h, UInt32.ofNat_toNat]

open Dec.C06GenFromInt (ofBits) in
/-- `bid_get_BID128` (translated) from a clear status word, as an equation: the canonical encoding of `finish`'s datum and
its flags -/
theorem get_code_finish (sg : UInt64) (e : Int32) (c : U128) (m : RoundingMode)
    (hs : sg = 0 ∨ sg = 0x8000000000000000) (hC0 : 0 < bitsOf c) (hC : bitsOf c ≤ 10 ^ 34) (he : e.toInt < 2147483647) :
    bid_get_BID128 sg e c m 0 =
      .ok (ofBits (encode (finish (md m) (decide (sg ≠ 0)) (bitsOf c) 1 (e.toInt - 6176) (e.toInt - 6176)).1),
           UInt32.ofNat (finish (md m) (decide (sg ≠ 0)) (bitsOf c) 1 (e.toInt - 6176) (e.toInt - 6176)).2) := by
  obtain ⟨hs', hd⟩ := sgn_cases sg hs
  rw [bitsOf_eq c] at hC0 hC ⊢
  obtain ⟨r, f, hmod, hb, hf⟩ := get_bits_finish sg.toNat e.toInt c.w0.toNat c.w1.toNat (md m) hs'
    c.w0.toNat_lt c.w1.toNat_lt hC0 hC e.le_toInt he
  obtain ⟨res, fl, hcode, hp, hq⟩ := get_bridge sg e c m 0 r f hmod
  rw [hcode, eq_ofBits res r hp, u32_eq_ofNat fl f hq, hb, hf, hd]

/-- the model's `bid_get_BID128` at the exponent `0x7fffffff` (what scalbn passes on overflow), for a non-zero coefficient
below 10^34: the overflow result -/
theorem get_model_max (sgn c0 c1 : Nat) (mode : Mode) (f : Nat) (hC0 : 0 < c0 + 2 ^ 64 * c1)
    (hC : c0 + 2 ^ 64 * c1 < 10 ^ 34) (hc0 : c0 < 2 ^ 64) :
    PackH.get_BID128 sgn 2147483647 (c0, c1) mode f =
      some (if mode = .rtz ∨ (sgn ≠ 0 ∧ mode = .rup) ∨ (sgn = 0 ∧ mode = .rdn)
              then (0x378d8e63ffffffff, sgn ||| 0x5fffed09bead87c0) else (0, sgn ||| 0x7800000000000000),
            f ||| (fOverflow ||| fInexact)) := by
  unfold PackH.get_BID128
  have hne : ¬ (c1 = 0x0001ed09bead87c0 ∧ c0 = 0x378d8e6400000000) := by
    intro h; rw [h.1, h.2] at hC; exact absurd hC (by decide)
  have hnz : ¬ (c1 ||| c0 = 0) := by rw [Nat.or_eq_zero_iff]; omega
  rw [if_neg hne]
  simp only
  rw [if_neg (show ¬ ((0 : Int) ≤ 2147483647 ∧ (2147483647 : Int) ≤ 12287) by decide),
    if_neg (show ¬ ((2147483647 : Int) < 0) by decide),
    if_neg (show ¬ ((2147483647 : Int) - 34 ≤ 12287) by decide)]
  simp only
  rw [if_pos (show (2147483647 : Int) > 12287 by decide), if_neg hnz]
  split <;> rfl

open Dec.C06GenFromInt (ofBits) in
/-- `bid_get_BID128` (translated) with exponent `0x7fffffff`: the overflow result, overflow and inexact -/
theorem get_code_max (sg : UInt64) (c : U128) (m : RoundingMode)
    (hs : sg = 0 ∨ sg = 0x8000000000000000) (hC0 : 0 < bitsOf c) (hC : bitsOf c < 10 ^ 34) :
    bid_get_BID128 sg 2147483647 c m 0 =
      .ok (ofBits (encode (overflowResult (md m) (decide (sg ≠ 0)))), UInt32.ofNat (fOverflow ||| fInexact)) := by
  obtain ⟨hs', hd⟩ := sgn_cases sg hs
  rw [bitsOf_eq c] at hC0 hC
  have hmod := get_model_max sg.toNat c.w0.toNat c.w1.toNat (md m) 0 hC0 hC c.w0.toNat_lt
  obtain ⟨res, fl, hcode, hp, hq⟩ := get_bridge sg 2147483647 c m 0 _ _ hmod
  rw [hcode, eq_ofBits res _ hp, u32_eq_ofNat fl _ hq]
  have := overflow_words sg.toNat (md m) hs'
  rw [this, hd, Nat.zero_or]

open Dec.C06GenFromInt (ofBits ofBits_bitsOf bitsOf_ofBits)

/-! ## 3. Words of the front end -/

theorem sign_facts (sg : UInt64) (s : Bool) (h : sg.toNat = signWord s) :
    (sg = 0 ∨ sg = 0x8000000000000000) ∧ decide (sg ≠ 0) = s := by
  unfold signWord at h
  cases s
  · have : sg = 0 := by rw [← UInt64.toNat_inj]; simpa using h
    subst this; exact ⟨Or.inl rfl, by decide⟩
  · have : sg = 0x8000000000000000 := by rw [← UInt64.toNat_inj]; simpa using h
    subst this; exact ⟨Or.inr rfl, by decide⟩

/-- the packing expression of `bid_get_BID128_very_fast`, as the canonical encoding -/
theorem pack_eq_ofBits (sg : UInt64) (E : Int32) (co : U128) (hs : sg = 0 ∨ sg = 0x8000000000000000)
    (h0 : 0 ≤ E.toInt) (h1 : E.toInt ≤ 12287) (hC : bitsOf co < 10 ^ 34) :
    ({ w0 := co.w0, w1 := sg ||| UInt64.ofInt (toI E) <<< 49 ||| co.w1 } : U128)
      = ofBits (encode (.fin (decide (sg ≠ 0)) (bitsOf co) (E.toInt - 6176))) := by
  obtain ⟨r, hr, hb, _⟩ := C13GenPack.get_very_fast_spec sg E co hs h0 h1 hC
  rw [very_fast_eq] at hr
  injection hr with hr
  rw [hr, ← hb]
  exact (ofBits_bitsOf r).symm

/-- clearing the signalling bit: `& QUIET_MASK64` -/
theorem mask_quiet (x : Nat) (hx : x < 2 ^ 64) : x &&& 0xfdffffffffffffff = (x / 2 ^ 58 % 2 ^ 6) * 2 ^ 58 + x % 2 ^ 57 := by
  have : (0xfdffffffffffffff : Nat) = (2 ^ 6 - 1) * 2 ^ 58 ||| (2 ^ 57 - 1) := by decide
  rw [this, Nat.and_or_distrib_left, and_field, and_low, Nat.mul_comm]
  exact or_eq_add_of_lt 58 _ _ (lt_of_lt_of_le (Nat.mod_lt _ (by norm_num)) (by norm_num))

theorem quiet_toNat : c_QUIET_MASK64.toNat = 0xfdffffffffffffff := by decide

set_option maxRecDepth 8000 in
/-- infinity or NaN: the unpacked canonical words, quieted, are the canonical encoding of the quieted datum, and the
high word is not zero -/
theorem special_words (co : U128) (d : Datum) (hW : d.WF) (hfin : d.isFin = false) (hco : pr co = w128 (encode d)) :
    (co.w1 == 0) = false ∧
      ({ w0 := co.w0, w1 := co.w1 &&& c_QUIET_MASK64 } : U128) = ofBits (encode (quietNaN d)) := by
  have h0 : co.w0.toNat = encode d % 2 ^ 64 := congrArg Prod.fst hco
  have h1 : co.w1.toNat = encode d / 2 ^ 64 := congrArg Prod.snd hco
  have hlt := co.w1.toNat_lt
  have hw : bitsOf ({ w0 := co.w0, w1 := co.w1 &&& c_QUIET_MASK64 } : U128)
      = (encode d / 2 ^ 64 / 2 ^ 58 % 2 ^ 6 * 2 ^ 58 + encode d / 2 ^ 64 % 2 ^ 57) * 2 ^ 64 + encode d % 2 ^ 64 := by
    have hlt' : encode d / 2 ^ 64 < 2 ^ 64 := by rw [← h1]; exact hlt
    simp only [bitsOf, UInt64.toNat_and, quiet_toNat, h0, h1]
    rw [mask_quiet _ hlt']
  have hz : (co.w1 == 0) = decide (encode d / 2 ^ 64 = 0) := by rw [u64_beq_zero, h1]
  rw [hz, ← ofBits_bitsOf ({ w0 := co.w0, w1 := co.w1 &&& c_QUIET_MASK64 } : U128)]
  have hb : C06GenFromInt.bitsOf ({ w0 := co.w0, w1 := co.w1 &&& c_QUIET_MASK64 } : U128)
      = bitsOf ({ w0 := co.w0, w1 := co.w1 &&& c_QUIET_MASK64 } : U128) := rfl
  rw [hb, hw]
  cases d with
  | fin s c e => exact Bool.noConfusion hfin
  | inf s =>
    cases s <;> simp only [encode, signBit, quietNaN, Bool.false_eq_true, if_false, if_true] <;>
      exact ⟨by decide +kernel, by decide +kernel⟩
  | nan s g p =>
    have hp : p < 10 ^ 33 := by simpa [Datum.WF, P33_eq'] using hW
    cases s <;> cases g <;> simp only [encode, signBit, quietNaN, Bool.false_eq_true, if_false, if_true] <;>
      (refine ⟨by rw [decide_eq_false_iff_not]; omega, ?_⟩) <;> (apply congrArg ofBits)
    all_goals
      clear hW hfin hco h0 h1 hlt hw hz hb
      simp only [Nat.reducePow, Nat.reduceMul, Nat.reduceAdd, Nat.zero_add, Nat.add_zero] at hp ⊢
      omega

/-! ## 4. The scaling routines against `scalebD` -/

/-- what the judge expects of `scaleb` / `ldexp`: the NaN rule (a NaN operand comes back quieted and canonical, invalid
iff it was signalling), otherwise `scalebD` -/
def scalebSpec (mode : Mode) (n : Int) (d : Datum) : Datum × Flags :=
  if d.isNaN then (quietNaN d, if d.isSNaN then fInvalid else 0) else scalebD mode n d

theorem frontFlags_eq (x : U128) :
    frontFlags x = UInt32.ofNat (if (decode (bitsOf x)).isSNaN then fInvalid else 0) := by
  unfold frontFlags
  have h := C06GenFromInt.snan_test_decode x
  have e : c_SNAN_MASK64 = c_MASK_SNAN := rfl
  have hb : C06GenFromInt.bitsOf x = bitsOf x := rfl
  rw [hb] at h
  rw [e, h]
  cases (decode (bitsOf x)).isSNaN <;> rfl

set_option maxHeartbeats 1000000 in
/-- **`bid128_scalbn_clear_status` (translated source), all patterns, all `n`, all modes**, from a clear status word:
never panics; returns the canonical encoding of the datum `scalebSpec` prescribes and exactly its flags.  In particular:
a NaN comes back quieted and canonical (invalid iff signalling), an infinity canonical, a zero (also a non-canonical one)
with the exponent sum clamped into range, a finite non-zero `(−1)^s·c·10^e` as `finish mode s c 1 (e + n) (e + n)` — the
exponent sum is formed without wrap-around, exact results keep their coefficient (padded with zeros under the clamp at
the top: the repaired D3), everything else is one correct rounding at the minimum exponent, or the overflow result. -/
theorem scalbn_cs_spec (x : U128) (n : Int32) (m : RoundingMode) :
    bid128_scalbn_clear_status x n m 0 =
      .ok (ofBits (encode (scalebSpec (md m) n.toInt (decode (bitsOf x))).1),
           UInt32.ofNat (scalebSpec (md m) n.toInt (decode (bitsOf x))).2) := by
  obtain ⟨r, sg, ex, co, hu, hsg, hmatch⟩ := C13GenPack.unpack_value_spec 0 0 default x
  have hW := decode_WF (bitsOf x)
  have hsn : ∀ d, decode (bitsOf x) = d → frontFlags x = UInt32.ofNat (if d.isSNaN then fInvalid else 0) := by
    intro d hd; rw [frontFlags_eq, hd]
  cases hd : decode (bitsOf x) with
  | nan s g p =>
    rw [hd] at hmatch hW hsg
    obtain ⟨hex, hr, hco⟩ := hmatch
    subst hr
    obtain ⟨hz, hwords⟩ := special_words co _ hW rfl hco
    rw [scn_special x n m sg ex co hu hz, hwords, hsn _ hd]
    rfl
  | inf s =>
    rw [hd] at hmatch hW hsg
    obtain ⟨hex, hr, hco⟩ := hmatch
    subst hr
    obtain ⟨hz, hwords⟩ := special_words co _ hW rfl hco
    rw [scn_special x n m sg ex co hu hz, hwords, hsn _ hd]
    rfl
  | fin s c e =>
    rw [hd] at hmatch hW hsg
    obtain ⟨hex, hco, hrc⟩ := hmatch
    obtain ⟨hc34, hemin, hemax⟩ : c < 10 ^ 34 ∧ -6176 ≤ e ∧ e ≤ 6111 := by
      simpa [Datum.WF, P34_eq', eMin, eMax] using hW
    obtain ⟨hs, hneg⟩ := sign_facts sg s hsg
    have hbits : bitsOf co = c := by
      have := w128_val c
      rw [← hco] at this
      rw [bitsOf_eq]; exact this
    have hexr : 0 ≤ ex.toInt ∧ ex.toInt ≤ 12287 := by omega
    by_cases hc : c = 0
    · -- a zero
      have hr : r = 0 := by
        by_contra h; exact (hrc.1 h) hc
      subst hr
      have hz : (co.w1 == 0) = true := by
        rw [u64_beq_zero, decide_eq_true_eq]
        have : co.w1.toNat = c / 2 ^ 64 := congrArg Prod.snd hco
        rw [this, hc, Nat.zero_div]
      rw [scn_zero x n m sg ex co hu hz, hsn _ hd]
      have hE : ∀ E : Int, 0 ≤ E → E ≤ 12287 → (Int32.ofInt E).toInt = E := fun E a b =>
        Int32.toInt_ofInt_of_le (by omega) (by omega)
      have hspec : scalebSpec (md m) n.toInt (.fin s c e) = (zeroAt s (e + n.toInt), 0) := by
        unfold scalebSpec scalebD; simp [Datum.isNaN, hc]
      rw [hspec]
      simp only [Datum.isSNaN, Bool.false_eq_true, if_false]
      unfold zeroAt clampInt eMin eMax
      by_cases h1 : ex.toInt + n.toInt < 0
      · rw [if_pos h1, if_pos (by omega),
          pack_eq_ofBits sg _ co hs (by rw [hE 0 (by omega) (by omega)]) (by rw [hE 0 (by omega) (by omega)]; omega)
            (by omega), hE 0 (by omega) (by omega), hbits, hneg, hc]
        rfl
      · by_cases h2 : ex.toInt + n.toInt > 12287
        · rw [if_neg h1, if_pos h2, if_neg (by omega), if_pos (by omega),
            pack_eq_ofBits sg _ co hs (by rw [hE 12287 (by omega) (by omega)]; omega)
              (by rw [hE 12287 (by omega) (by omega)]) (by omega), hE 12287 (by omega) (by omega), hbits, hneg, hc]
          rfl
        · rw [if_neg h1, if_neg h2, if_neg (by omega), if_neg (by omega),
            pack_eq_ofBits sg _ co hs (by rw [hE _ (by omega) (by omega)]; omega)
              (by rw [hE _ (by omega) (by omega)]; omega) (by omega), hE _ (by omega) (by omega), hbits, hneg, hc]
          have : ex.toInt + n.toInt - 6176 = e + n.toInt := by omega
          rw [this]
    · -- finite, non-zero
      have hr : (r == 0) = false := by
        rw [u64_beq_zero, decide_eq_false_iff_not, ← u64_eq_zero]; exact hrc.2 hc
      have hc0 : 0 < c := Nat.pos_of_ne_zero hc
      have hspec : scalebSpec (md m) n.toInt (.fin s c e)
          = finish (md m) s c 1 (ex.toInt + n.toInt - 6176) (ex.toInt + n.toInt - 6176) := by
        unfold scalebSpec scalebD; simp only [Datum.isNaN, Bool.false_eq_true, if_false, hc]
        have : e + n.toInt = ex.toInt + n.toInt - 6176 := by omega
        rw [this]
      rw [hspec]
      have hnorm : ∀ E : Int, norm34 c E = (c, E) := by
        intro E; unfold norm34; rw [if_neg (by omega)]
      have a1 := n.toInt_lt; have a2 := n.le_toInt
      by_cases h1 : ex.toInt + n.toInt < 0
      · -- underflow side
        rw [scn_negative x n m r sg ex co hu hr hexr h1]
        have hE : (Int32.ofInt (ex.toInt + n.toInt)).toInt = ex.toInt + n.toInt :=
          Int32.toInt_ofInt_of_le (by omega) (by omega)
        rw [get_code_finish sg _ co m hs (by omega) (by omega) (by rw [hE]; omega), hE, hbits, hneg]
      · by_cases h2 : ex.toInt + n.toInt ≤ 12287
        · -- in range
          rw [scn_in_range x n m r sg ex co hu hr hexr (by omega) h2]
          have hE : (Int32.ofInt (ex.toInt + n.toInt)).toInt = ex.toInt + n.toInt :=
            Int32.toInt_ofInt_of_le (by omega) (by omega)
          rw [pack_eq_ofBits sg _ co hs (by rw [hE]; omega) (by rw [hE]; exact h2) (by omega), hE, hbits, hneg,
            finish_in_range (md m) s c (ex.toInt + n.toInt) hc0 (by omega) (by rw [hnorm]; simp; omega)
              (by rw [hnorm]; simpa using h2), hnorm]
          rfl
        · -- overflow side
          have h3 : ex.toInt + n.toInt > 12287 := by omega
          by_cases h33 : bitsOf co < 10 ^ 33
          · obtain ⟨j, c', e', hj, hcb, hprev, hge, hstop, hcode⟩ :=
              scn_over_pad x n m r sg ex co hu hr hexr h3 (by omega) h33
            rw [hcode, hbits] at *
            by_cases hle : ex.toInt + n.toInt - (j : Int) ≤ 12287
            · -- padded exactly to the maximum exponent
              have hjk : ((ex.toInt + n.toInt) - 12287).toNat = j := by omega
              have hc'34 : bitsOf c' < 10 ^ 34 := by
                rw [hcb]
                obtain ⟨i, rfl⟩ : ∃ i, j = i + 1 := ⟨j - 1, by omega⟩
                simp only [Nat.add_sub_cancel] at hprev
                rw [Nat.pow_succ, ← Nat.mul_assoc]; omega
              have hE : (Int32.ofInt 12287).toInt = 12287 := by decide
              rw [if_pos hle, pack_eq_ofBits sg _ c' hs (by rw [hE]; omega) (by rw [hE]) hc'34, hE, hcb, hneg,
                finish_pad (md m) s c (ex.toInt + n.toInt) hc0 (by rw [hnorm]; simpa using h3)
                  (by rw [hnorm]; simp only; rw [hjk, ← hcb]; exact hc'34), hnorm]
              simp only [hjk]
              rfl
            · -- still too large: overflow
              have hc'33 : 10 ^ 33 ≤ bitsOf c' := by
                by_contra h; exact hstop ⟨by omega, by omega⟩
              have hc'34 : bitsOf c' < 10 ^ 34 := by
                rw [hcb]
                obtain ⟨i, rfl⟩ : ∃ i, j = i + 1 := ⟨j - 1, by omega⟩
                simp only [Nat.add_sub_cancel] at hprev
                rw [Nat.pow_succ, ← Nat.mul_assoc]; omega
              rw [if_neg hle, get_code_max sg c' m hs (by omega) hc'34, hneg,
                finish_ovf (md m) s c (ex.toInt + n.toInt) hc0 (by rw [hnorm]; simpa using h3) ?_]
              rw [hnorm]; simp only
              intro hlt
              obtain ⟨d, hd'⟩ : ∃ d : Nat, ((ex.toInt + n.toInt) - 12287).toNat = j + (d + 1) :=
                ⟨((ex.toInt + n.toInt) - 12287).toNat - j - 1, by omega⟩
              rw [hd', Nat.pow_add, ← Nat.mul_assoc, ← hcb, Nat.pow_succ] at hlt
              have : 1 ≤ 10 ^ d := Nat.pow_pos (by decide)
              have : bitsOf c' * 1 ≤ bitsOf c' * 10 ^ d := Nat.mul_le_mul_left _ this
              nlinarith
          · -- a 34-digit coefficient: overflow at once
            rw [scn_over_full x n m r sg ex co hu hr hexr h3 (by rw [lt1033_iff, decide_eq_false_iff_not]; exact h33),
              get_code_max sg co m hs (by omega) (by omega), hneg,
              finish_ovf (md m) s c (ex.toInt + n.toInt) hc0 (by rw [hnorm]; simpa using h3) ?_]
            rw [hnorm]; simp only
            intro hlt
            have hk : 1 ≤ ((ex.toInt + n.toInt) - 12287).toNat := by omega
            have : 10 ^ 1 ≤ 10 ^ ((ex.toInt + n.toInt) - 12287).toNat := Nat.pow_le_pow_right (by decide) hk
            rw [hbits] at h33
            nlinarith

/-- the two inner routines are the same code -/
theorem ldexp_cs_eq (x : U128) (n : Int32) (m : RoundingMode) (f : UInt32) :
    bid128_ldexp_clear_status x n m f = bid128_scalbn_clear_status x n m f := by
  unfold bid128_ldexp_clear_status bid128_scalbn_clear_status
  rfl

/-- **`bid128_ldexp_clear_status`**: the same statement -/
theorem ldexp_cs_spec (x : U128) (n : Int32) (m : RoundingMode) :
    bid128_ldexp_clear_status x n m 0 =
      .ok (ofBits (encode (scalebSpec (md m) n.toInt (decode (bitsOf x))).1),
           UInt32.ofNat (scalebSpec (md m) n.toInt (decode (bitsOf x))).2) := by
  rw [ldexp_cs_eq, scalbn_cs_spec]

/-- **`bid128_scalbn` (translated source)**: for every pattern `x`, every `n`, every mode and every incoming status word
`f`: never panics; the result is the canonical encoding of `scalebSpec`'s datum and the status word is `f` with
`scalebSpec`'s flags ORed in — independent of what `f` held (the D4 repair). -/
theorem scalbn_spec (x : U128) (n : Int32) (m : RoundingMode) (f : UInt32) :
    bid128_scalbn x n m f =
      .ok (ofBits (encode (scalebSpec (md m) n.toInt (decode (bitsOf x))).1),
           f ||| UInt32.ofNat (scalebSpec (md m) n.toInt (decode (bitsOf x))).2) := by
  rw [C06GenFromInt.scalbn_eq, scalbn_cs_spec]; rfl

/-- **`bid128_ldexp` (translated source)**: likewise -/
theorem ldexp_spec (x : U128) (n : Int32) (m : RoundingMode) (f : UInt32) :
    bid128_ldexp x n m f =
      .ok (ofBits (encode (scalebSpec (md m) n.toInt (decode (bitsOf x))).1),
           f ||| UInt32.ofNat (scalebSpec (md m) n.toInt (decode (bitsOf x))).2) := by
  rw [C06GenFromInt.ldexp_eq, ldexp_cs_spec]; rfl

/-- **`bid128_scalbln` (translated source)**: the 64-bit count saturates to the `i32` range (it never wraps), then as
`bid128_scalbn` -/
theorem scalbln_spec (x : U128) (n : Int64) (m : RoundingMode) (f : UInt32) :
    bid128_scalbln x n m f =
      .ok (ofBits (encode (scalebSpec (md m) (clampI32 n.toInt) (decode (bitsOf x))).1),
           f ||| UInt32.ofNat (scalebSpec (md m) (clampI32 n.toInt) (decode (bitsOf x))).2) := by
  rw [C06GenFromInt.scalbln_eq, scalbn_spec]
  have : (Int32.ofInt (clampI32 n.toInt)).toInt = clampI32 n.toInt := by
    apply Int32.toInt_ofInt_of_le <;> (unfold clampI32 clampInt; split <;> [skip; split] <;> omega)
  rw [this]

/-- on everything that is not a NaN, `scalebSpec` is `scalebD` -/
theorem scalebSpec_of_not_nan (mode : Mode) (n : Int) (d : Datum) (h : d.isNaN = false) :
    scalebSpec mode n d = scalebD mode n d := by
  unfold scalebSpec; rw [h]; rfl

-- 1·10^0 scaled by 5; a signalling NaN with a non-canonical payload; −∞ with trailing bits
example : bid128_scalbn ⟨1, 0x3040000000000000⟩ 5 .NearestEven 7 = .ok (⟨1, 0x304a000000000000⟩, 7) := by rfl
example : bid128_scalbn ⟨5, 0x7e00400000000000⟩ 5 .NearestEven 0 = .ok (⟨5, 0x7c00000000000000⟩, 1) := by rfl
example : bid128_scalbn ⟨9, 0xf800000000000001⟩ (-5) .Upward 0 = .ok (⟨0, 0xf800000000000000⟩, 0) := by rfl
-- a zero far below the range: clamped, no flag (D10's mechanism does not arise here)
example : bid128_ldexp ⟨0, 0x0000000000000000⟩ (-2147483648) .Upward 0 = .ok (⟨0, 0⟩, 0) := by rfl
-- gradual underflow: 123456·10^-6176 scaled by -3
example : bid128_scalbn ⟨123456, 0⟩ (-3) .NearestEven 0 = .ok (⟨123, 0⟩, 0x30) := by rfl
-- the D3 case: −999999999999997·10^6070 scaled by 60 is representable with 19 padding zeros (through the loop)
example : bid128_scalbn (ofBits (encode (.fin true 999999999999997 6070))) 60 .NearestEven 0
    = .ok (ofBits (encode (.fin true (999999999999997 * 10 ^ 19) 6111)), 0) := by
  rw [scalbn_spec]
  apply congrArg Except.ok
  decide +kernel
-- ... and by 61 it overflows
example : bid128_scalbln (ofBits (encode (.fin true 999999999999997 6070))) 4294967296 .TowardZero 0
    = .ok (ofBits (encode (.fin true (10 ^ 34 - 1) 6111)), 0x28) := by
  rw [scalbln_spec]
  apply congrArg Except.ok
  decide +kernel

end Dec.C11GenScale
