/-
  C01GenAddLoopShape — the rounding loop of `bid128_add` (bid128_add.rs; `for _ in [0:4096]` with `second_pass` / `continue` in
  the translation) cut out of the translated routine as DEFINITIONS, so that proofs about one turn of the loop, about the text
  after the loop, and about the path to the loop can be separate declarations.

  `extract_loop f as body post init` (a command): finds the first `forIn range init body >>= post` in the definition `f` and adds
  three definitions, each abstracted over exactly the local variables of `f` it mentions (in the order of their introduction).
  (The text of a loop body — with `return`, `continue`, `break` — cannot be written down outside a loop, so the definitions are
  made from the term; they are ordinary, kernel-checked definitions, re-made from the regenerated `Code.lean` on every build.)
    `addBody rnd_mode y_sign x_exp y_exp C1_hi C2_hi C1_lo C2_lo q1 q2 : Nat → St → Except String (ForInStep St)`
    `addPost rnd_mode : St → Except String (U128 × UInt32)`            (the text after the loop TO THE END of the routine: the join
                                                                        points it runs into are substituted)
    `addInit pfpsf x_sign tmp_sign x_exp y_exp q1 q2 : St`               (the state in which the loop is entered)
  with `St` the nested pair of the variables the loop re-assigns (`#check @addBody`).
  `fold_add_loop` (a tactic): when a proof has stepped through `bid128_add` to the loop, the goal is
  `(forIn [0:4096] init G >>= post) = R` with the raw text; the tactic folds it into
  `(forIn [0:4096] (addInit …) (addBody …) >>= addPost …) = R`, finding the arguments by matching — from there lemmas about
  `addBody` / `addPost` stated ONCE (for variables, as separate fast declarations) apply by `rw`.
  `iter`, `forIn_range_iter`, `loop_done` (first turn ends in `.done s'` ⇒ loop ≫= post = post s'), `loop_yield` (first turn
  ends in `.yield s'` — `second_pass := true; continue` — ⇒ = the loop with one turn less from `s'`), `addBody_const`.
  So arm (B) is `loop_yield` with the one-turn fact for `x1`, then `loop_done` with the one-turn fact for `x1 − 1`.  RECIPE, at
  the point where `C01GenAddRound.loop1_code` has taken its four tests (`add_front; take_neg; take_pos; take_neg; take_neg`):
      head_step; fold_add_loop
      -- ⊢ forIn [:4096] (addInit f sa tmp_sign0 ea eb q1 q2) (addBody m sb ea eb ah bh al bl q1 q2) >>= addPost m = R
      refine Eq.trans (loop_yield 4095 _ (addBody_const ..) _ s1 _ (turn1 …)) ?_      -- turn1 : addBody … 0 init = .ok (.yield s1)
      refine Eq.trans (loop_done 4094 _ (addBody_const ..) _ s2 _ (turn2 …)) ?_       -- turn2 : addBody … 0 s1 = .ok (.done s2)
      exact keyPost …                                                                -- keyPost : addPost m s2 = R
  with `turn1`, `turn2`, `keyPost` separate declarations about `addBody` / `addPost` on variables (checked on the real goal of
  `loop1_code`: the fold succeeds there and gives exactly the goal shown).
-/
import Lean.Elab.Command
import Lean.Elab.Tactic
import DecGen.Code

set_option linter.unusedVariables false

namespace Dec.C01GenAddLoopShape
open Dec.Rs Dec.Gen.Code
open Lean Meta Elab

/-- search `e` for the first `(forIn range init body) >>= post`; lambdas are entered with local variables, `let`s of functions
(join points) are entered, and substituted in the pieces found; other `let`s are substituted at once.  Returns the loop's `body`, `post`, `init`, each abstracted
over the local variables in scope that it mentions, in the order of their introduction. -/
partial def findLoop (e : Expr) (scope : Array Expr) : MetaM (Option (Expr × Expr × Expr)) := do
  match e with
  | .lam n t b bi =>
    withLocalDecl n bi (t.instantiateRev #[]) fun x => findLoop (b.instantiate1 x) (scope.push x)
  | .letE n t v b _ =>
    if v.isLambda then
      if let some r ← findLoop v scope then return some r
      withLetDecl n t v fun x => findLoop (b.instantiate1 x) (scope.push x)
    else
      if let some r ← findLoop v scope then return some r
      findLoop (b.instantiate1 v) scope
  | .mdata _ b => findLoop b scope
  | .proj _ _ b => findLoop b scope
  | .app .. =>
    if e.isAppOfArity ``Bind.bind 6 then
      let x := e.getAppArgs[4]!
      if x.isAppOf ``ForIn.forIn then
        let args := x.getAppArgs
        let close (v : Expr) : MetaM Expr := do
          -- substitute the join points in scope (their values mention earlier variables only), β-reduce, abstract the rest
          let mut v := v
          let mut vars : Array Expr := #[]
          for x in scope.reverse do
            match ← x.fvarId!.getValue? with
            | some val => v := v.replaceFVar x val
            | none => vars := vars.push x
          v ← Core.betaReduce v
          instantiateMVars (← mkLambdaFVars vars.reverse v (usedOnly := true))
        return some (← close args[args.size - 1]!, ← close e.getAppArgs[5]!, ← close args[args.size - 2]!)
    let f := e.getAppFn
    if let some r ← findLoop f scope then return some r
    for a in e.getAppArgs do
      if let some r ← findLoop a scope then return some r
    return none
  | _ => return none

/-- `extract_loop f as body post init`: cut the first loop of the definition `f` into three definitions (parameters: the local
variables of `f` that the piece mentions, in the order of their introduction) -/
elab "extract_loop " f:ident " as " b:ident p:ident i:ident : command => do
  Command.liftTermElabM do
    let fn ← realizeGlobalConstNoOverloadWithInfo f
    let ci ← getConstInfo fn
    let some (body, post, init) ← findLoop ci.value! #[] | throwError "extract_loop: no loop found"
    let add (n : Name) (val : Expr) : TermElabM Unit := do
      let ty ← inferType val
      let nm := (← getCurrNamespace) ++ n
      addDecl <| .defnDecl { name := nm, levelParams := [], type := ty, value := val, hints := .regular 0, safety := .safe }
    add b.getId body
    add p.getId post
    add i.getId init

extract_loop Dec.Gen.Code.bid128_add as addBody addPost addInit


open Lean Meta Elab Command in
/-- print the parameter names of a definition -/
elab "#params " f:ident : command => do
  Command.liftTermElabM do
    let fn ← realizeGlobalConstNoOverloadWithInfo f
    let ci ← getConstInfo fn
    forallTelescope ci.type fun xs _ => do
      let mut s := ""
      for x in xs do
        let d ← x.fvarId!.getDecl
        s := s ++ s!"({d.userName.eraseMacroScopes} : {(toString (← ppExpr d.type)).take 40}) "
      logInfo s


open Lean Meta Elab Tactic in
/-- the goal is `(forIn r init G >>= post) = R` with `G`, `post`, `init` the loop of `bid128_add` as the translation writes it
(reached by stepping through the routine): fold them into `addBody …`, `addPost …`, `addInit …` (the arguments are found by
matching) -/
elab "fold_add_loop" : tactic => withMainContext do
  let g ← getMainGoal
  let t := (← instantiateMVars (← g.getType)).consumeMData
  let some (_, lhs, rhs) := t.eq? | throwError "fold_add_loop: not an equation"
  unless lhs.isAppOfArity ``Bind.bind 6 do throwError "fold_add_loop: no `loop >>= post` at the head"
  let bargs := lhs.getAppArgs
  let X := bargs[4]!
  unless X.isAppOf ``ForIn.forIn do throwError "fold_add_loop: no loop"
  let xargs := X.getAppArgs
  let fold (c : Name) (skip : Nat) (e : Expr) : TacticM Expr := do
    let ci ← getConstInfo c
    let (ms, _, _) ← forallMetaBoundedTelescope ci.type ((← forallTelescope ci.type fun xs _ => pure xs.size) - skip)
    let pat := mkAppN (mkConst c) ms
    let e ← Core.betaReduce e
    unless ← withTheReader Core.Context (fun ctx => { ctx with maxRecDepth := 100000 }) (isDefEq pat e) do
      throwError "fold_add_loop: {c} does not match"
    instantiateMVars pat
  let G ← fold ``Dec.C01GenAddLoopShape.addBody 2 xargs[xargs.size - 1]!
  let I ← fold ``Dec.C01GenAddLoopShape.addInit 0 xargs[xargs.size - 2]!
  let P ← fold ``Dec.C01GenAddLoopShape.addPost 1 bargs[5]!
  let X' := mkAppN X.getAppFn ((xargs.pop.pop.push I).push G)
  let lhs' := mkAppN lhs.getAppFn ((bargs.pop.pop.push X').push P)
  let g' ← g.replaceTargetDefEq (← mkEq lhs' rhs)
  replaceMainGoal [g']

/-! ## One turn of a `for _ in [0:n]` loop -/

/-- `n` turns of a loop whose body does not look at the counter -/
def iter {σ : Type} (g : σ → Except String (ForInStep σ)) : Nat → σ → Except String σ
  | 0, s => pure s
  | n + 1, s => g s >>= fun r => match r with
    | .done s' => pure s'
    | .yield s' => iter g n s'

theorem forIn_list_iter {σ α : Type} (g : σ → Except String (ForInStep σ)) (l : List α) (s : σ) :
    forIn l s (fun _ st => g st) = iter g l.length s := by
  induction l generalizing s with
  | nil => rfl
  | cons a l ih =>
    rw [List.forIn_cons, List.length_cons]
    show _ = g s >>= _
    congr 1
    funext r
    cases r with
    | done s' => rfl
    | yield s' => exact ih s'

theorem forIn_range_iter {σ : Type} (n : Nat) (g : σ → Except String (ForInStep σ)) (s : σ) :
    forIn [0:n] s (fun _ st => g st) = iter g n s := by
  rw [Std.Legacy.Range.forIn_eq_forIn_range', forIn_list_iter]
  simp [Std.Legacy.Range.size]

/-- the first turn leaves the loop (`break`, or `return` in the loop's encoding) in state `s'`: the loop followed by `post` is
`post s'` -/
theorem loop_done {σ β : Type} (n : Nat) (f : Nat → σ → Except String (ForInStep σ)) (hf : ∀ i j st, f i st = f j st)
    (init s' : σ) (post : σ → Except String β) (h : f 0 init = .ok (ForInStep.done s')) :
    (forIn [0:n+1] init f >>= post) = post s' := by
  have e : f = fun _ st => f 0 st := by funext i st; exact hf i 0 st
  rw [e, forIn_range_iter]
  show (f 0 init >>= _) >>= post = _
  rw [h]
  rfl

/-- the first turn ends in `continue` (or falls through) with state `s'`: the loop goes on from `s'` with one turn less -/
theorem loop_yield {σ β : Type} (n : Nat) (f : Nat → σ → Except String (ForInStep σ)) (hf : ∀ i j st, f i st = f j st)
    (init s' : σ) (post : σ → Except String β) (h : f 0 init = .ok (ForInStep.yield s')) :
    (forIn [0:n+1] init f >>= post) = (forIn [0:n] s' f >>= post) := by
  have e : f = fun _ st => f 0 st := by funext i st; exact hf i 0 st
  rw [e, forIn_range_iter, forIn_range_iter]
  show (f 0 init >>= _) >>= post = _
  rw [h]
  rfl

/-- the body of the loop of `bid128_add` does not look at the counter -/
theorem addBody_const (m : RoundingMode) (y_sign x_exp y_exp C1_hi C2_hi C1_lo C2_lo : UInt64) (q1 q2 : Int32) (i j : Nat) st :
    addBody m y_sign x_exp y_exp C1_hi C2_hi C1_lo C2_lo q1 q2 i st = addBody m y_sign x_exp y_exp C1_hi C2_hi C1_lo C2_lo q1 q2 j st :=
  rfl

-- the fold finds the arguments: unfold the three definitions, fold them again
example (m : RoundingMode) (a1 a2 a3 a4 a5 a6 a7 : UInt64) (d q : Int32) (f : UInt32) (R : Except String (U128 × UInt32))
    (h : (forIn [0:4096] (addInit f a1 a2 a3 a4 d q) (addBody m a1 a2 a3 a4 a5 a6 a7 d q) >>= addPost m) = R) :
    (forIn [0:4096] (addInit f a1 a2 a3 a4 d q) (addBody m a1 a2 a3 a4 a5 a6 a7 d q) >>= addPost m) = R := by
  delta addBody addPost addInit
  fold_add_loop
  exact h
end Dec.C01GenAddLoopShape
