/-
  C03 — the twenty comparison predicates and the Rust operators follow exact numeric order.
  (Truth tables and flag rules here; `DecProofs.Properties.C03Order` relates `cmpD` to the order of ℚ.)
-/
import DecModel.Ops

namespace Dec.C03

/-- Each predicate is its IEEE truth table on the four-way relation. -/
theorem pred_tables (r : Option Ordering) :
    predTable "equal" r = some (r == some .eq) ∧
    predTable "not_equal" r = some (!(r == some .eq)) ∧
    predTable "greater" r = some (r == some .gt) ∧
    predTable "greater_equal" r = some (r == some .gt || r == some .eq) ∧
    predTable "greater_unordered" r = some (r == some .gt || r == none) ∧
    predTable "less" r = some (r == some .lt) ∧
    predTable "less_equal" r = some (r == some .lt || r == some .eq) ∧
    predTable "less_unordered" r = some (r == some .lt || r == none) ∧
    predTable "not_greater" r = some (!(r == some .gt)) ∧
    predTable "not_less" r = some (!(r == some .lt)) ∧
    predTable "ordered" r = some (!(r == none)) ∧
    predTable "unordered" r = some (r == none) := by
  refine ⟨rfl, rfl, rfl, rfl, rfl, rfl, rfl, rfl, rfl, rfl, rfl, rfl⟩

/-- negated predicates are the complements, `not_greater = less_equal ∨ unordered`, … -/
theorem pred_complements (r : Option Ordering) :
    predTable "not_equal" r = (predTable "equal" r).map (!·) ∧
    predTable "not_greater" r = (predTable "greater" r).map (!·) ∧
    predTable "not_less" r = (predTable "less" r).map (!·) ∧
    predTable "unordered" r = (predTable "ordered" r).map (!·) ∧
    predTable "less_unordered" r = (predTable "greater_equal" r).map (!·) ∧
    predTable "greater_unordered" r = (predTable "less_equal" r).map (!·) := by
  rcases r with _ | (_ | _ | _) <;> decide

/-- any NaN makes the pair unordered; non-NaN operands are always ordered -/
theorem unordered_iff_nan (x y : Datum) : cmpD x y = none ↔ (x.isNaN = true ∨ y.isNaN = true) := by
  cases x <;> cases y <;> simp [cmpD, Datum.isNaN]

/-- quiet predicates raise invalid only for a signalling NaN, and never anything else -/
theorem quiet_flags (x y : Datum) :
    quietCmpFlags x y = (if x.isSNaN || y.isSNaN then fInvalid else 0) := rfl

/-- signalling predicates raise invalid for any NaN, and never anything else -/
theorem signaling_flags (x y : Datum) :
    signalingCmpFlags x y = (if x.isNaN || y.isNaN then fInvalid else 0) := rfl

/-- the expectation of every quiet/signalling predicate is a single boolean with exactly those flags -/
theorem cmpPred_shape (quiet : Bool) (name : String) (x y : Datum) (v : Bool)
    (h : predTable name (cmpD x y) = some v) :
    cmpPred quiet name x y = exactly [.b v] (if quiet then quietCmpFlags x y else signalingCmpFlags x y) := by
  simp [cmpPred, h, boolE]

/-- infinities bound every finite value -/
theorem inf_bounds (s : Bool) (c : Nat) (e : Int) :
    cmpD (.inf true) (.fin s c e) = some .lt ∧ cmpD (.fin s c e) (.inf false) = some .lt ∧
    cmpD (.inf false) (.fin s c e) = some .gt ∧ cmpD (.fin s c e) (.inf true) = some .gt := by
  simp [cmpD]

/-- `+0 = -0` at any exponents -/
theorem zeros_equal (s1 s2 : Bool) (e1 e2 : Int) : cmpD (.fin s1 0 e1) (.fin s2 0 e2) = some .eq := by
  cases s1 <;> cases s2 <;> simp [cmpD, cmpFin, sInt]

/-- Rust operators on non-NaN operands are the quiet predicates -/
theorem rust_ops_eq_quiet (x y : Datum) (hx : x.isNaN = false) (hy : y.isNaN = false) :
    some (eqGlue x y) = predTable "equal" (cmpD x y) ∧
    partialCmpGlue x y = cmpD x y := by
  have hne : cmpD x y ≠ none := by
    intro h; have := (unordered_iff_nan x y).1 h; simp [hx, hy] at this
  constructor
  · simp [eqGlue, hx, hy, predTable]
  · simp only [partialCmpGlue, eqGlue, hx, hy]
    rcases h : cmpD x y with _ | (_ | _ | _)
    · exact absurd h hne
    all_goals simp

example : predTable "less_equal" (cmpD (.fin false 10 (-1)) (.fin false 1 0)) = some true := by decide

end Dec.C03
