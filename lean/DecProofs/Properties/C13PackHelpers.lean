/-
  C13 (helper level) — `DecModel/PackHelpers.lean` holds code-shaped models of the pack / unpack / underflow routines
  of /repo/src/bid_internal.rs (`unpack_BID128_value`, `unpack_BID128`, `bid_get_BID128_very_fast`,
  `bid_get_BID128_fast`, `bid_get_BID128`, `handle_UF_128`, `bid_handle_UF_128_rem`).  Here: what they compute, for
  every input of the domain their call sites establish.

  Domains, and the call sites that establish them (file and line of /repo/src at HEAD; read off the callers, the
  callers themselves are not modelled here)
  * `unpack_BID128_value` (div 72/75, fmod, rem, quantize, ilogb, logb, ldexp, scalbn, sqrt) and `unpack_BID128`
    (sqlx_postgres.rs 108 only — which does not look at the return value: for an infinity or NaN it goes on with the
    raw pattern as "coefficient"): every pair of 64-bit words.  Theorems `unpack_value_spec`, `unpack_spec`.
  * `bid_get_BID128_very_fast` (fmod 142/179/185, rem 154/193/205, quantize 116/146/247/262, ldexp 50/59/82,
    scalbn 52/61/84, sqrt 104): sign word 0 / 2^63; biased exponent 0 … 12287 (an unpacked exponent — below 12288 also
    for the large form —, a clamped one, or one tested `as u32 ≤ 12287`); coefficient below 10^34 (an unpacked one, a
    remainder or a rounded 34-digit value).  Theorem `get_very_fast_spec`.
  * `bid_get_BID128_fast` (sqrt 265): as above, coefficient ≤ 10^34 (the rounded root may reach 10^34).
    Theorem `get_fast_spec`.
  * `bid_get_BID128` (div 192/384/444, ldexp 90, scalbn 92, string 549/641): sign word 0 / 2^63; coefficient non-zero
    and ≤ 10^34 (a rounded quotient or a 35-digit literal rounded to 34 can be 10^34; zero operands and zero literals
    return earlier); exponent any `i32` below 2^31 − 1: the string conversion passes `±(7-digit exponent) ± text
    length`, scalbn / ldexp pass `exponent + n` when it is negative (down to −2^31) and `0x7fffffff` on overflow, but
    then with an unpacked coefficient (< 10^34: no `expon + 1`).  Status word: clear, or clear but for the inexact the
    same operation has just raised (the wrappers repaired for D4 run on a local word).
    Theorems `get_in_range`, `get_underflow(_decode)`, `get_overflow`, and `get_eq_finish` (= `Dec.finish`).
  * `handle_UF_128` (bid_get_BID128 l. 787 only): `−2^31 ≤ expon ≤ −1`, coefficient ≤ 10^34 and non-zero (a zero
    coefficient is fine down to `expon = −34`).  Theorems `handle_uf_spec`, `handle_uf_decode`.
  * `bid_handle_UF_128_rem` (div 440 only): `expon = diff_expon < 0` (≥ −6250), `CQ` the 34-digit truncated quotient,
    `R` the non-zero remainder, inexact already raised.  Proved for `−2^31 ≤ expon ≤ 0`, `CQ < 10^34`.
    Theorems `handle_uf_rem_spec`, `sticky_rounded`, `handle_uf_rem_decode`, `handle_uf_rem_eq_finish`.
  What is excluded (the model still mirrors the code there, see the examples marked "outside the domain"): a zero
  coefficient with `expon < −34` (reported as an inexact underflow; becomes 1 when rounding away from zero: D10),
  `handle_UF_128` at `expon = 0` (row 0 of the reciprocal table is 0: the result is 0 whatever the coefficient) and at
  `expon > 0` (index out of range), coefficient 10^34 with `expon = 2^31 − 1` (the `i32` increment wraps into the
  underflow path), `bid_handle_UF_128_rem` at `expon = 0` with nearest rounding (a sticky "tenth" cannot tell a
  remainder above one half from one below) and at `expon > 1` (index out of range).

  The tables (`BID_ROUND_CONST_TABLE_128`, `BID_RECIPROCALS10_128`, `BID_RECIP_SCALE`, `BID_POWER10_TABLE_128[33, 34]`)
  enter through `rows_good`, `table_shapes`, `recip_scale_range`, `power10_33/34`: kernel computations on the generated
  lists, lifted by `uf_arith` / `recip_split` (the reciprocal slack needed here — coefficients up to `10^35 + 10^x`
  because the rounding constant is added first — is larger than the `10^35` of `Mechanisms.reciprocals10_128_rows`;
  row 9 has the least: it fails at `2·10^35`).
-/
import DecModel.PackHelpers
import DecProofs.Spec
import DecProofs.Core.RoundInt
import DecProofs.Core.Codec
import DecProofs.Core.FinishUnique

namespace Dec.C13PackHelpers
open Dec.PackH

set_option linter.unusedVariables false
set_option linter.unnecessarySeqFocus false

/-- `n` as a 128-bit pair `(w[0], w[1])` -/
def w128 (n : Nat) : U128 := (n % 2 ^ 64, n / 2 ^ 64)

/-! ## 1. The multi-word primitives are exact -/


/-- `__mul_64x64_to_128` is the exact product -/
theorem mul_64x64_to_128_spec (cx cy : Nat) (hx : cx < 2 ^ 64) (hy : cy < 2 ^ 64) :
    (mul_64x64_to_128 cx cy).1 < 2 ^ 64 ∧ (mul_64x64_to_128 cx cy).2 < 2 ^ 64 ∧
      (mul_64x64_to_128 cx cy).1 + 2 ^ 64 * (mul_64x64_to_128 cx cy).2 = cx * cy := by
  obtain ⟨a, b, rfl, ha, hb⟩ : ∃ a b, cx = 4294967296 * a + b ∧ a < 4294967296 ∧ b < 4294967296 :=
    ⟨cx / 4294967296, cx % 4294967296, by omega, by omega, by omega⟩
  obtain ⟨c, d, rfl, hc, hd⟩ : ∃ c d, cy = 4294967296 * c + d ∧ c < 4294967296 ∧ d < 4294967296 :=
    ⟨cy / 4294967296, cy % 4294967296, by omega, by omega, by omega⟩
  have hac : a * c ≤ 4294967295 * 4294967295 := Nat.mul_le_mul (by omega) (by omega)
  have had : a * d ≤ 4294967295 * 4294967295 := Nat.mul_le_mul (by omega) (by omega)
  have hbc : b * c ≤ 4294967295 * 4294967295 := Nat.mul_le_mul (by omega) (by omega)
  have hbd : b * d ≤ 4294967295 * 4294967295 := Nat.mul_le_mul (by omega) (by omega)
  have hprod : (4294967296 * a + b) * (4294967296 * c + d)
      = 18446744073709551616 * (a * c) + 4294967296 * (a * d) + 4294967296 * (b * c) + b * d := by ring
  have e1 : (4294967296 * a + b) >>> 32 = a := by rw [Nat.shiftRight_eq_div_pow]; omega
  have e2 : (4294967296 * c + d) >>> 32 = c := by rw [Nat.shiftRight_eq_div_pow]; omega
  have e3 : (4294967296 * a + b) % 4294967296 = b := by omega
  have e4 : (4294967296 * c + d) % 4294967296 = d := by omega
  simp only [mul_64x64_to_128, shr64, lo32, mul64, add64, shl64, W64, e1, e2, e3, e4, Nat.shiftRight_eq_div_pow,
    Nat.shiftLeft_eq, hprod]
  generalize a * c = A at *
  generalize a * d = B at *
  generalize b * c = C at *
  generalize b * d = D at *
  norm_num
  omega

/-- `__add_128_128`: the sum modulo 2^128 -/
theorem add_128_128_spec (a0 a1 b0 b1 : Nat) (h0 : a0 < 2 ^ 64) (h1 : a1 < 2 ^ 64) (h2 : b0 < 2 ^ 64) (h3 : b1 < 2 ^ 64) :
    (add_128_128 (a0, a1) (b0, b1)).1 < 2 ^ 64 ∧ (add_128_128 (a0, a1) (b0, b1)).2 < 2 ^ 64 ∧
      (add_128_128 (a0, a1) (b0, b1)).1 + 2 ^ 64 * (add_128_128 (a0, a1) (b0, b1)).2
        = (a0 + 2 ^ 64 * a1 + (b0 + 2 ^ 64 * b1)) % 2 ^ 128 := by
  simp only [add_128_128, add64, W64]
  split_ifs <;> omega

/-- `__add_128_64`: the sum modulo 2^128 -/
theorem add_128_64_spec (a0 a1 b : Nat) (h0 : a0 < 2 ^ 64) (h1 : a1 < 2 ^ 64) (h2 : b < 2 ^ 64) :
    (add_128_64 (a0, a1) b).1 < 2 ^ 64 ∧ (add_128_64 (a0, a1) b).2 < 2 ^ 64 ∧
      (add_128_64 (a0, a1) b).1 + 2 ^ 64 * (add_128_64 (a0, a1) b).2 = (a0 + 2 ^ 64 * a1 + b) % 2 ^ 128 := by
  simp only [add_128_64, add64, W64]
  split_ifs <;> omega

/-- `__mul_128x128_full` is the exact 256-bit product whenever the middle sum `ALBH + AHBL` (which the code adds
"assuming no carry-out") fits 128 bits; `a1 < 2^54` and `b1 < 2^63` are enough. -/
theorem mul_128x128_full_spec (a0 a1 b0 b1 : Nat) (h0 : a0 < 2 ^ 64) (h1 : a1 < 2 ^ 54) (h2 : b0 < 2 ^ 64) (h3 : b1 < 2 ^ 63) :
    (mul_128x128_full (a0, a1) (b0, b1)).1.1 < 2 ^ 64 ∧ (mul_128x128_full (a0, a1) (b0, b1)).1.2 < 2 ^ 64 ∧
    (mul_128x128_full (a0, a1) (b0, b1)).2.1 < 2 ^ 64 ∧ (mul_128x128_full (a0, a1) (b0, b1)).2.2 < 2 ^ 64 ∧
      ((mul_128x128_full (a0, a1) (b0, b1)).2.1 + 2 ^ 64 * (mul_128x128_full (a0, a1) (b0, b1)).2.2)
        + 2 ^ 128 * ((mul_128x128_full (a0, a1) (b0, b1)).1.1 + 2 ^ 64 * (mul_128x128_full (a0, a1) (b0, b1)).1.2)
        = (a0 + 2 ^ 64 * a1) * (b0 + 2 ^ 64 * b1) := by
  obtain ⟨x0, x1, x2⟩ := mul_64x64_to_128_spec a0 b1 h0 (by omega)
  obtain ⟨y0, y1, y2⟩ := mul_64x64_to_128_spec b0 a1 h2 (by omega)
  obtain ⟨z0, z1, z2⟩ := mul_64x64_to_128_spec a0 b0 h0 h2
  obtain ⟨t0, t1, t2⟩ := mul_64x64_to_128_spec a1 b1 (by omega) (by omega)
  have hprod : (a0 + 2 ^ 64 * a1) * (b0 + 2 ^ 64 * b1)
      = a0 * b0 + 2 ^ 64 * (a0 * b1) + 2 ^ 64 * (b0 * a1) + 2 ^ 128 * (a1 * b1) := by ring
  have b1' : a0 * b1 ≤ (2 ^ 64 - 1) * (2 ^ 63 - 1) := Nat.mul_le_mul (by omega) (by omega)
  have b2' : b0 * a1 ≤ (2 ^ 64 - 1) * (2 ^ 54 - 1) := Nat.mul_le_mul (by omega) (by omega)
  have b3' : a1 * b1 ≤ (2 ^ 54 - 1) * (2 ^ 63 - 1) := Nat.mul_le_mul (by omega) (by omega)
  rw [hprod]
  unfold mul_128x128_full
  simp only []
  generalize mul_64x64_to_128 a0 b1 = X at *
  generalize mul_64x64_to_128 b0 a1 = Y at *
  generalize mul_64x64_to_128 a0 b0 = Z at *
  generalize mul_64x64_to_128 a1 b1 = T at *
  obtain ⟨X0, X1⟩ := X; obtain ⟨Y0, Y1⟩ := Y; obtain ⟨Z0, Z1⟩ := Z; obtain ⟨T0, T1⟩ := T
  simp only at *
  obtain ⟨q0, q1, q2⟩ := add_128_128_spec X0 X1 Y0 Y1 x0 x1 y0 y1
  generalize add_128_128 (X0, X1) (Y0, Y1) = QM at *
  obtain ⟨QM0, QM1⟩ := QM
  simp only at *
  obtain ⟨r0, r1, r2⟩ := add_128_64_spec QM0 QM1 Z1 q0 q1 z1
  generalize add_128_64 (QM0, QM1) Z1 = QM2 at *
  obtain ⟨QM20, QM21⟩ := QM2
  simp only at *
  obtain ⟨s0, s1, s2⟩ := add_128_64_spec T0 T1 QM21 t0 t1 r1
  generalize add_128_64 (T0, T1) QM21 = QH at *
  obtain ⟨QH0, QH1⟩ := QH
  simp only at *
  generalize a0 * b1 = P1 at *
  generalize b0 * a1 = P2 at *
  generalize a0 * b0 = P3 at *
  generalize a1 * b1 = P4 at *
  norm_num at *
  omega

theorem or_eq_add_of_lt (i a b : Nat) (hb : b < 2 ^ i) : 2 ^ i * a ||| b = 2 ^ i * a + b :=
  (Nat.two_pow_add_eq_or_of_lt hb a).symm

/-- `__shr_128_long`: `⌊A / 2^k⌋` for `1 ≤ k ≤ 127` -/
theorem shr_128_long_spec (a0 a1 k : Nat) (h0 : a0 < 2 ^ 64) (h1 : a1 < 2 ^ 64) (hk1 : 1 ≤ k) (hk2 : k ≤ 127) :
    (shr_128_long (a0, a1) k).1 < 2 ^ 64 ∧ (shr_128_long (a0, a1) k).2 < 2 ^ 64 ∧
      (shr_128_long (a0, a1) k).1 + 2 ^ 64 * (shr_128_long (a0, a1) k).2 = (a0 + 2 ^ 64 * a1) / 2 ^ k := by
  unfold shr_128_long
  by_cases hk : k < 64
  · simp only [hk, if_true, shr64, shl64, W64, Nat.shiftRight_eq_div_pow, Nat.shiftLeft_eq]
    obtain ⟨j, hj⟩ : ∃ j, j = 64 - k := ⟨_, rfl⟩
    have hW : (18446744073709551616 : Nat) = 2 ^ k * 2 ^ j := by
      rw [← Nat.pow_add, hj, show k + (64 - k) = 64 by omega]
    have hp : 0 < 2 ^ k := Nat.pow_pos (by decide)
    have hq : 0 < 2 ^ j := Nat.pow_pos (by decide)
    rw [← hj]
    have e1 : a1 * 2 ^ j % 18446744073709551616 = 2 ^ j * (a1 % 2 ^ k) := by
      rw [hW, Nat.mul_mod_mul_right, Nat.mul_comm]
    have e2 : a0 / 2 ^ k < 2 ^ j := by
      rw [Nat.div_lt_iff_lt_mul hp, Nat.mul_comm, ← hW]; exact h0
    have e3 : (a0 + 2 ^ 64 * a1) / 2 ^ k = a0 / 2 ^ k + 2 ^ j * a1 := by
      have : (2 : Nat) ^ 64 = 18446744073709551616 := by norm_num
      rw [this, hW, Nat.mul_assoc, Nat.add_mul_div_left _ _ hp]
    rw [e1, Nat.or_comm, or_eq_add_of_lt j _ _ e2, e3]
    have hdm := Nat.div_add_mod a1 (2 ^ k)
    have hm : a1 % 2 ^ k < 2 ^ k := Nat.mod_lt _ hp
    generalize a1 / 2 ^ k = u at *
    generalize a1 % 2 ^ k = w at *
    generalize a0 / 2 ^ k = z at *
    have h64 : (2 : Nat) ^ 64 = 2 ^ k * 2 ^ j := by rw [← hW]; norm_num
    refine ⟨?_, ?_, ?_⟩
    · rw [h64]
      calc 2 ^ j * w + z < 2 ^ j * w + 2 ^ j := by omega
        _ = 2 ^ j * (w + 1) := by ring
        _ ≤ 2 ^ j * 2 ^ k := Nat.mul_le_mul_left _ hm
        _ = 2 ^ k * 2 ^ j := Nat.mul_comm _ _
    · have : u * 2 ^ k ≤ a1 := by rw [← hdm]; nlinarith
      nlinarith
    · rw [h64, ← hdm]; ring
  · simp only [hk, if_false, shr64, Nat.shiftRight_eq_div_pow]
    have hp : 0 < 2 ^ (k - 64) := Nat.pow_pos (by decide)
    have e : (2 : Nat) ^ k = 2 ^ 64 * 2 ^ (k - 64) := by rw [← Nat.pow_add]; congr 1; omega
    refine ⟨?_, by norm_num, ?_⟩
    · exact lt_of_le_of_lt (Nat.div_le_self _ _) h1
    · rw [e, ← Nat.div_div_eq_div_mul, Nat.add_mul_div_left _ _ (by norm_num), Nat.div_eq_of_lt h0]
      simp

/-- `__shr_128` is the `k < 64` arm of `__shr_128_long` -/
theorem shr_128_eq (a : U128) (k : Nat) (hk : k < 64) : shr_128 a k = shr_128_long a k := by
  simp only [shr_128, shr_128_long, hk, if_true]


/-- `__shl_128_long`: `A · 2^k mod 2^128` for `1 ≤ k ≤ 127` -/
theorem shl_128_long_spec (a0 a1 k : Nat) (h0 : a0 < 2 ^ 64) (h1 : a1 < 2 ^ 64) (hk1 : 1 ≤ k) (hk2 : k ≤ 127) :
    (shl_128_long (a0, a1) k).1 < 2 ^ 64 ∧ (shl_128_long (a0, a1) k).2 < 2 ^ 64 ∧
      (shl_128_long (a0, a1) k).1 + 2 ^ 64 * (shl_128_long (a0, a1) k).2 = (a0 + 2 ^ 64 * a1) * 2 ^ k % 2 ^ 128 := by
  unfold shl_128_long
  have h64 : (18446744073709551616 : Nat) = 2 ^ 64 := by norm_num
  by_cases hk : k < 64
  · simp only [hk, if_true, shr64, shl64, W64, Nat.shiftRight_eq_div_pow, Nat.shiftLeft_eq]
    obtain ⟨j, hj⟩ : ∃ j, j = 64 - k := ⟨_, rfl⟩
    have hW : (18446744073709551616 : Nat) = 2 ^ j * 2 ^ k := by
      rw [← Nat.pow_add, hj, show 64 - k + k = 64 by omega]
    have hp : 0 < 2 ^ k := Nat.pow_pos (by decide)
    have hq : 0 < 2 ^ j := Nat.pow_pos (by decide)
    rw [← hj]
    have e0 : a0 * 2 ^ k % 18446744073709551616 = a0 % 2 ^ j * 2 ^ k := by
      rw [hW, Nat.mul_mod_mul_right]
    have e1 : a1 * 2 ^ k % 18446744073709551616 = 2 ^ k * (a1 % 2 ^ j) := by
      rw [hW, Nat.mul_mod_mul_right, Nat.mul_comm]
    have e2 : a0 / 2 ^ j < 2 ^ k := by
      rw [Nat.div_lt_iff_lt_mul hq, Nat.mul_comm, ← hW]; exact h0
    rw [e0, e1, or_eq_add_of_lt k _ _ e2]
    have hdm0 := Nat.div_add_mod a0 (2 ^ j)
    have hm0 : a0 % 2 ^ j < 2 ^ j := Nat.mod_lt _ hq
    have hdm1 := Nat.div_add_mod a1 (2 ^ j)
    have hm1 : a1 % 2 ^ j < 2 ^ j := Nat.mod_lt _ hq
    generalize a1 / 2 ^ j = u1 at *
    generalize a1 % 2 ^ j = w1 at *
    generalize a0 / 2 ^ j = u0 at *
    generalize a0 % 2 ^ j = w0 at *
    rw [← h64, hW]
    have hA : w0 * 2 ^ k < 2 ^ j * 2 ^ k := Nat.mul_lt_mul_of_pos_right hm0 hp
    have hB : 2 ^ k * w1 + u0 < 2 ^ j * 2 ^ k := by
      calc 2 ^ k * w1 + u0 < 2 ^ k * w1 + 2 ^ k := by omega
        _ = (w1 + 1) * 2 ^ k := by ring
        _ ≤ 2 ^ j * 2 ^ k := Nat.mul_le_mul_right _ hm1
    refine ⟨hA, hB, ?_⟩
    have e128 : (2 : Nat) ^ 128 = (2 ^ j * 2 ^ k) * (2 ^ j * 2 ^ k) := by rw [← hW]; norm_num
    rw [e128, ← hdm0, ← hdm1]
    have : (2 ^ j * u0 + w0 + 2 ^ j * 2 ^ k * (2 ^ j * u1 + w1)) * 2 ^ k
        = (w0 * 2 ^ k + 2 ^ j * 2 ^ k * (2 ^ k * w1 + u0)) + (2 ^ j * 2 ^ k) * (2 ^ j * 2 ^ k) * u1 := by ring
    rw [this, Nat.add_mul_mod_self_left, Nat.mod_eq_of_lt]
    generalize 2 ^ j * 2 ^ k = M at *
    nlinarith
  · simp only [hk, if_false, shl64, W64, Nat.shiftLeft_eq]
    obtain ⟨j, hj⟩ : ∃ j, j = k - 64 := ⟨_, rfl⟩
    rw [← hj]
    have hk' : k = 64 + j := by omega
    have hm : a0 * 2 ^ j % 18446744073709551616 < 18446744073709551616 := Nat.mod_lt _ (by norm_num)
    refine ⟨by norm_num, by rw [← h64]; exact hm, ?_⟩
    rw [hk', Nat.pow_add]
    have e128 : (2 : Nat) ^ 128 = 2 ^ 64 * 2 ^ 64 := by norm_num
    have : (a0 + 2 ^ 64 * a1) * (2 ^ 64 * 2 ^ j) = 2 ^ 64 * (a0 * 2 ^ j) + 2 ^ 64 * 2 ^ 64 * (a1 * 2 ^ j) := by ring
    rw [this, e128, Nat.add_mul_mod_self_left, Nat.mul_mod_mul_left, ← h64]
    omega

/-! ### examples -/

-- the primitives
example : mul_64x64_to_128 0xffffffffffffffff 0xfedcba9876543210 = w128 (0xffffffffffffffff * 0xfedcba9876543210) := by
  decide +kernel
example : shr_128_long (w128 (10 ^ 38)) 77 = w128 (10 ^ 38 / 2 ^ 77) := by decide +kernel
example : shl_128_long (w128 (10 ^ 38)) 77 = w128 (10 ^ 38 * 2 ^ 77 % 2 ^ 128) := by decide +kernel
-- `__mul_128x128_full` is NOT exact when the middle sum carries out (outside the domain of these routines)
example : mul_128x128_full (w128 (2 ^ 128 - 1)) (w128 (2 ^ 128 - 1))
    ≠ (w128 ((2 ^ 128 - 1) * (2 ^ 128 - 1) / 2 ^ 128), w128 ((2 ^ 128 - 1) * (2 ^ 128 - 1) % 2 ^ 128)) := by decide +kernel

/-! ## 2. Reciprocal multiplication: quotient and fraction -/

/-- With `K·P = 2^E + δ` and slack `(⌊C/P⌋ + 1)·δ < K`: the product `C·K` splits at bit `E` into the quotient
`⌊C/P⌋` and the fraction `⌊C/P⌋·δ + (C mod P)·K`. -/
theorem recip_split (C K E P δ : Nat) (hP : 0 < P) (hK : K * P = 2 ^ E + δ) (hδ : (C / P + 1) * δ < K) :
    (C * K) / 2 ^ E = C / P ∧ (C * K) % 2 ^ E = (C / P) * δ + (C % P) * K := by
  have hE : 0 < 2 ^ E := Nat.pow_pos (by decide)
  have hdm : P * (C / P) + C % P = C := Nat.div_add_mod C P
  have hr : C % P < P := Nat.mod_lt _ hP
  generalize C / P = q at *
  generalize C % P = r at *
  have h1 : C * K = (q * δ + r * K) + 2 ^ E * q := by
    calc C * K = (P * q + r) * K := by rw [hdm]
      _ = q * (K * P) + r * K := by ring
      _ = q * (2 ^ E + δ) + r * K := by rw [hK]
      _ = (q * δ + r * K) + 2 ^ E * q := by ring
  have h2 : r * K + K ≤ 2 ^ E + δ := by
    have : (r + 1) * K ≤ P * K := Nat.mul_le_mul_right K hr
    rw [Nat.add_mul, Nat.one_mul, Nat.mul_comm P K, hK] at this
    exact this
  have h3 : q * δ + δ < K := by rw [Nat.add_mul, Nat.one_mul] at hδ; exact hδ
  have h4 : q * δ + r * K < 2 ^ E := by omega
  rw [h1]
  constructor
  · rw [Nat.add_mul_div_left _ _ hE, Nat.div_eq_of_lt h4, Nat.zero_add]
  · rw [Nat.add_mul_mod_self_left, Nat.mod_eq_of_lt h4]

/-- the fraction is below `K` exactly when the division is exact -/
theorem frac_zero (C K E P δ : Nat) (hP : 0 < P) (hK : K * P = 2 ^ E + δ) (hδ : (C / P + 1) * δ < K) :
    (C * K) % 2 ^ E < K ↔ C % P = 0 := by
  rw [(recip_split C K E P δ hP hK hδ).2]
  have h3 : C / P * δ + δ < K := by rw [Nat.add_mul, Nat.one_mul] at hδ; exact hδ
  constructor
  · intro h
    by_contra hne
    have : 1 * K ≤ C % P * K := Nat.mul_le_mul_right K (Nat.pos_of_ne_zero hne)
    omega
  · intro h; rw [h]; omega

/-- the fraction is in `[2^(E−1), 2^(E−1) + K)` exactly when the remainder is half of `P` -/
theorem frac_half (C K E P H δ : Nat) (hH : P = 2 * H) (hHpos : 0 < H) (hE : 1 ≤ E)
    (hK : K * P = 2 ^ E + δ) (hδ : (C / P + 1) * δ < K) :
    (2 ^ (E - 1) ≤ (C * K) % 2 ^ E ∧ (C * K) % 2 ^ E < 2 ^ (E - 1) + K) ↔ C % P = H := by
  have hP : 0 < P := by omega
  rw [(recip_split C K E P δ hP hK hδ).2]
  have h3 : C / P * δ + δ < K := by rw [Nat.add_mul, Nat.one_mul] at hδ; exact hδ
  obtain ⟨e, rfl⟩ : ∃ e, E = e + 1 := ⟨E - 1, by omega⟩
  have hpow : 2 ^ (e + 1) = 2 * 2 ^ e := by rw [Nat.pow_succ]; ring
  simp only [Nat.add_sub_cancel]
  -- δ is even: K·2H = 2·2^e + δ
  have hHK : 2 * (H * K) = 2 * 2 ^ e + δ := by rw [← hpow, ← hK, hH]; ring
  generalize C / P = q at *
  generalize hr : C % P = r at *
  generalize q * δ = qd at *
  rcases Nat.lt_trichotomy r H with hlt | heq | hgt
  · have : (r + 1) * K ≤ H * K := Nat.mul_le_mul_right K hlt
    rw [Nat.add_mul, Nat.one_mul] at this
    constructor
    · intro ⟨a, b⟩; omega
    · intro h; omega
  · subst heq
    constructor
    · intro _; rfl
    · intro _; omega
  · have : (H + 1) * K ≤ r * K := Nat.mul_le_mul_right K hgt
    rw [Nat.add_mul, Nat.one_mul] at this
    constructor
    · intro ⟨a, b⟩; omega
    · intro h; omega

/-- adding `K` to the fraction carries out of bit `E` exactly when the remainder is `P − 1` -/
theorem frac_top (C K E P δ : Nat) (hP : 0 < P) (hK : K * P = 2 ^ E + δ) (hδ : (C / P + 1) * δ < K) :
    2 ^ E ≤ (C * K) % 2 ^ E + K ↔ C % P = P - 1 := by
  rw [(recip_split C K E P δ hP hK hδ).2]
  have h3 : C / P * δ + δ < K := by rw [Nat.add_mul, Nat.one_mul] at hδ; exact hδ
  have hr : C % P < P := Nat.mod_lt _ hP
  generalize C / P = q at *
  generalize C % P = r at *
  generalize q * δ = qd at *
  constructor
  · intro h
    by_contra hne
    have : (r + 2) * K ≤ P * K := Nat.mul_le_mul_right K (by omega)
    rw [Nat.add_mul, Nat.mul_comm P K, hK] at this
    omega
  · intro h
    have : (r + 1) * K = P * K := by rw [h]; congr 1; omega
    rw [Nat.add_mul, Nat.one_mul, Nat.mul_comm P K, hK] at this
    omega

/-! ## 3. The fraction tests of the underflow routines -/

theorem ge_128_spec (a0 a1 b0 b1 : Nat) (h0 : a0 < 2 ^ 64) (h2 : b0 < 2 ^ 64) :
    ge_128 (a0, a1) (b0, b1) = decide (b0 + 2 ^ 64 * b1 ≤ a0 + 2 ^ 64 * a1) := by
  simp only [ge_128, Bool.or_eq_decide, Bool.and_eq_decide, beq_iff_eq, decide_eq_true_eq, decide_eq_decide]
  omega
theorem gt_128_spec (a0 a1 b0 b1 : Nat) (h0 : a0 < 2 ^ 64) (h2 : b0 < 2 ^ 64) :
    gt_128 (a0, a1) (b0, b1) = decide (b0 + 2 ^ 64 * b1 < a0 + 2 ^ 64 * a1) := by
  simp only [gt_128, Bool.or_eq_decide, Bool.and_eq_decide, beq_iff_eq, decide_eq_true_eq, decide_eq_decide]
  omega
theorem lt_128_spec (a0 a1 b0 b1 : Nat) (h0 : a0 < 2 ^ 64) (h2 : b0 < 2 ^ 64) :
    lt_128 (a0, a1) (b0, b1) = decide (a0 + 2 ^ 64 * a1 < b0 + 2 ^ 64 * b1) := by
  simp only [lt_128, Bool.or_eq_decide, Bool.and_eq_decide, beq_iff_eq, decide_eq_true_eq, decide_eq_decide]
  omega

/-- the fraction below bit `128 + s` of `N = Ql + 2^128·Qh` -/
theorem frac_eq (Qh Ql s : Nat) (hl : Ql < 2 ^ 128) :
    (Ql + 2 ^ 128 * Qh) % 2 ^ (128 + s) = Ql + 2 ^ 128 * (Qh % 2 ^ s) := by
  rw [Nat.pow_add, Nat.mod_mul, Nat.add_mul_mod_self_left, Nat.mod_eq_of_lt hl,
    Nat.add_mul_div_left _ _ (Nat.pow_pos (by decide)), Nat.div_eq_of_lt hl, Nat.zero_add]

/-- `Qh1 = Qh << (128 − s)` holds the low `s` bits of `Qh`, left-aligned -/
theorem qh1_spec (h0 h1 s : Nat) (hh0 : h0 < 2 ^ 64) (hh1 : h1 < 2 ^ 64) (hs1 : 1 ≤ s) (hs2 : s ≤ 127) :
    (shl_128_long (h0, h1) (128 - s)).1 < 2 ^ 64 ∧ (shl_128_long (h0, h1) (128 - s)).2 < 2 ^ 64 ∧
      (shl_128_long (h0, h1) (128 - s)).1 + 2 ^ 64 * (shl_128_long (h0, h1) (128 - s)).2
        = (h0 + 2 ^ 64 * h1) % 2 ^ s * 2 ^ (128 - s) := by
  obtain ⟨a, b, c⟩ := shl_128_long_spec h0 h1 (128 - s) hh0 hh1 (by omega) (by omega)
  refine ⟨a, b, ?_⟩
  rw [c]
  have : (2 : Nat) ^ 128 = 2 ^ s * 2 ^ (128 - s) := by rw [← Nat.pow_add]; congr 1; omega
  rw [this, Nat.mul_mod_mul_right]

theorem fracZero_spec (h0 h1 l0 l1 k0 k1 s : Nat) (hh0 : h0 < 2 ^ 64) (hh1 : h1 < 2 ^ 64) (hl0 : l0 < 2 ^ 64)
    (hl1 : l1 < 2 ^ 64) (hk0 : k0 < 2 ^ 64) (hk1 : k1 < 2 ^ 64) (hs1 : 1 ≤ s) (hs2 : s ≤ 127) :
    fracZero (h0, h1) (l0, l1) (k0, k1) s
      = decide (((l0 + 2 ^ 64 * l1) + 2 ^ 128 * (h0 + 2 ^ 64 * h1)) % 2 ^ (128 + s) < k0 + 2 ^ 64 * k1) := by
  rw [frac_eq _ _ _ (by omega)]
  obtain ⟨a, b, c⟩ := qh1_spec h0 h1 s hh0 hh1 hs1 hs2
  unfold fracZero
  simp only [lt_128_spec l0 l1 k0 k1 hl0 hk0]
  generalize shl_128_long (h0, h1) (128 - s) = Q at *
  obtain ⟨q0, q1⟩ := Q
  simp only at *
  have hp : 0 < 2 ^ (128 - s) := Nat.pow_pos (by decide)
  generalize (h0 + 2 ^ 64 * h1) % 2 ^ s = u at *
  simp only [Bool.and_eq_decide, beq_iff_eq, decide_eq_true_eq, decide_eq_decide]
  constructor
  · rintro ⟨⟨rfl, rfl⟩, h⟩
    have : u = 0 := by
      rcases Nat.eq_zero_or_pos u with h | h
      · exact h
      · have := Nat.mul_pos h hp; omega
    subst this; omega
  · intro h
    have : u = 0 := by omega
    subst this
    refine ⟨⟨by omega, by omega⟩, by omega⟩

theorem fracHalf_spec (h0 h1 l0 l1 k0 k1 s : Nat) (hh0 : h0 < 2 ^ 64) (hh1 : h1 < 2 ^ 64) (hl0 : l0 < 2 ^ 64)
    (hl1 : l1 < 2 ^ 64) (hk0 : k0 < 2 ^ 64) (hk1 : k1 < 2 ^ 64) (hs1 : 1 ≤ s) (hs2 : s ≤ 127) :
    fracHalf (h0, h1) (l0, l1) (k0, k1) s
      = decide (2 ^ (127 + s) ≤ ((l0 + 2 ^ 64 * l1) + 2 ^ 128 * (h0 + 2 ^ 64 * h1)) % 2 ^ (128 + s) ∧
          ((l0 + 2 ^ 64 * l1) + 2 ^ 128 * (h0 + 2 ^ 64 * h1)) % 2 ^ (128 + s) < 2 ^ (127 + s) + (k0 + 2 ^ 64 * k1)) := by
  rw [frac_eq _ _ _ (by omega)]
  obtain ⟨a, b, c⟩ := qh1_spec h0 h1 s hh0 hh1 hs1 hs2
  unfold fracHalf
  simp only [lt_128_spec l0 l1 k0 k1 hl0 hk0]
  generalize shl_128_long (h0, h1) (128 - s) = Q at *
  obtain ⟨q0, q1⟩ := Q
  simp only at *
  have hp : 0 < 2 ^ (128 - s) := Nat.pow_pos (by decide)
  have hu : (h0 + 2 ^ 64 * h1) % 2 ^ s < 2 ^ s := Nat.mod_lt _ (Nat.pow_pos (by decide))
  generalize (h0 + 2 ^ 64 * h1) % 2 ^ s = u at *
  obtain ⟨t, rfl⟩ : ∃ t, s = t + 1 := ⟨s - 1, by omega⟩
  have e1 : (2 : Nat) ^ (127 + (t + 1)) = 2 ^ 128 * 2 ^ t := by rw [← Nat.pow_add]; congr 1; omega
  have e2 : (2 : Nat) ^ 127 = 2 ^ t * 2 ^ (128 - (t + 1)) := by rw [← Nat.pow_add]; congr 1; omega
  have e3 : (2 : Nat) ^ (t + 1) = 2 * 2 ^ t := by rw [Nat.pow_succ]; ring
  rw [e1]
  simp only [Bool.and_eq_decide, beq_iff_eq, decide_eq_true_eq, decide_eq_decide]
  constructor
  · rintro ⟨⟨rfl, rfl⟩, h⟩
    have : u = 2 ^ t := by
      have : u * 2 ^ (128 - (t + 1)) = 2 ^ t * 2 ^ (128 - (t + 1)) := by rw [← e2, ← c]; norm_num
      exact Nat.eq_of_mul_eq_mul_right hp this
    subst this; omega
  · intro h
    have : u = 2 ^ t := by
      generalize 2 ^ t = T at *
      omega
    subst this
    rw [← e2] at c
    refine ⟨⟨by omega, by omega⟩, by omega⟩

/-- the carry out of `Ql + K` through `__add_carry_out` / `__add_carry_in_out` -/
theorem carry_chain (l0 l1 k0 k1 : Nat) (hl0 : l0 < 2 ^ 64) (hl1 : l1 < 2 ^ 64) (hk0 : k0 < 2 ^ 64) (hk1 : k1 < 2 ^ 64) :
    (add_carry_in_out l1 k1 (add_carry_out l0 k0).2).2
      = if 2 ^ 128 ≤ (l0 + 2 ^ 64 * l1) + (k0 + 2 ^ 64 * k1) then 1 else 0 := by
  simp only [add_carry_in_out, add_carry_out, add64, W64]
  split_ifs <;> omega

theorem fracTop_spec (h0 h1 l0 l1 k0 k1 s : Nat) (hh0 : h0 < 2 ^ 64) (hh1 : h1 < 2 ^ 64) (hl0 : l0 < 2 ^ 64)
    (hl1 : l1 < 2 ^ 64) (hk0 : k0 < 2 ^ 64) (hk1 : k1 < 2 ^ 64) (hs1 : 1 ≤ s) (hs2 : s ≤ 127) :
    fracTop (h0, h1) (l0, l1) (k0, k1) s
      = decide (2 ^ (128 + s) ≤ ((l0 + 2 ^ 64 * l1) + 2 ^ 128 * (h0 + 2 ^ 64 * h1)) % 2 ^ (128 + s) + (k0 + 2 ^ 64 * k1)) := by
  rw [frac_eq _ _ _ (by omega)]
  obtain ⟨a, b, c⟩ := qh1_spec h0 h1 s hh0 hh1 hs1 hs2
  have hcar := carry_chain l0 l1 k0 k1 hl0 hl1 hk0 hk1
  unfold fracTop
  simp only []
  generalize shl_128_long (h0, h1) (128 - s) = Q at *
  obtain ⟨q0, q1⟩ := Q
  simp only at *
  rw [hcar]
  obtain ⟨a2, b2, c2⟩ := shr_128_long_spec q0 q1 (128 - s) a b (by omega) (by omega)
  have hp : 0 < 2 ^ (128 - s) := Nat.pow_pos (by decide)
  rw [c, Nat.mul_div_cancel _ hp] at c2
  have hu : (h0 + 2 ^ 64 * h1) % 2 ^ s < 2 ^ s := Nat.mod_lt _ (Nat.pow_pos (by decide))
  generalize (h0 + 2 ^ 64 * h1) % 2 ^ s = u at *
  generalize shr_128_long (q0, q1) (128 - s) = Q2 at *
  obtain ⟨r0, r1⟩ := Q2
  obtain ⟨a3, b3, c3⟩ := shl_128_long_spec 1 0 s (by norm_num) (by norm_num) hs1 hs2
  have hM : (2 : Nat) ^ s < 2 ^ 128 := Nat.pow_lt_pow_right (by decide) (by omega)
  rw [Nat.mul_zero, Nat.add_zero, Nat.one_mul, Nat.mod_eq_of_lt hM] at c3
  generalize shl_128_long (1, 0) s = T1 at *
  obtain ⟨t0, t1⟩ := T1
  simp only at *
  have e : (2 : Nat) ^ (128 + s) = 2 ^ 128 * 2 ^ s := Nat.pow_add _ _ _
  rw [e]
  generalize 2 ^ s = M at *
  simp only [add64, W64]
  split_ifs <;> rw [ge_128_spec _ _ _ _ (by omega) a3] <;> simp only [decide_eq_decide] <;> omega

/-! ## 4. The common tail of the two underflow routines -/


/-- the rounding constant of the (sign-adjusted) mode: half a unit, nothing, or one unit minus one -/
def roundT (rmode : Mode) (P : Nat) : Nat :=
  match rmode with
  | .rne | .rna => P / 2
  | .rdn | .rtz => 0
  | .rup => P - 1

/-- the status word the underflow routines leave: with inexact already set on entry they add underflow
unconditionally; otherwise underflow and inexact together, iff the rounding was inexact -/
def ufFlags (fpsc : Nat) (exact : Bool) : Nat :=
  if fpsc &&& fInexact = fInexact then fpsc ||| fUnderflow
  else if exact then fpsc else fpsc ||| (fUnderflow ||| fInexact)

/-- `ufTail` once the three table look-ups are known, in terms of the product `N = (C + T)·K`, its quotient and
fraction at bit `128 + s` -/
theorem ufTail_eval (sgn : Nat) (ed2 : Int) (c0 c1 : Nat) (mode : Mode) (fpsc t0 t1 k0 k1 s : Nat)
    (hT : roundConst (ufRmode sgn mode) ed2 = some (t0, t1)) (hK : recip ed2 = some (k0, k1))
    (hS : recipScale ed2 = some s)
    (hc0 : c0 < 2 ^ 64) (hc1 : c1 < 2 ^ 64) (ht0 : t0 < 2 ^ 64) (ht1 : t1 < 2 ^ 64) (hk0 : k0 < 2 ^ 64) (hk1 : k1 < 2 ^ 63)
    (hs1 : 1 ≤ s) (hs2 : s ≤ 127) (hCT : (c0 + 2 ^ 64 * c1) + (t0 + 2 ^ 64 * t1) < 2 ^ 118) :
    ufTail sgn ed2 (c0, c1) mode fpsc =
      some (
        let N := ((c0 + 2 ^ 64 * c1) + (t0 + 2 ^ 64 * t1)) * (k0 + 2 ^ 64 * k1)
        let Q := N / 2 ^ (128 + s)
        let frac := N % 2 ^ (128 + s)
        let K := k0 + 2 ^ 64 * k1
        let Q' := if mode = .rne ∧ Q % 2 = 1 ∧ frac < K then Q - 1 else Q
        let exact : Bool := match ufRmode sgn mode with
          | .rne | .rna => decide (2 ^ (127 + s) ≤ frac ∧ frac < 2 ^ (127 + s) + K)
          | .rdn | .rtz => decide (frac < K)
          | .rup => decide (2 ^ (128 + s) ≤ frac + K)
        ((Q' % 2 ^ 64, sgn ||| Q' / 2 ^ 64), ufFlags fpsc exact)) := by
  unfold ufTail
  simp only [hT, hK, hS]
  -- the addition of the rounding constant
  have hadd : (add_carry_out t0 c0).1 < 2 ^ 64 ∧ add64 (add64 c1 t1) (add_carry_out t0 c0).2 < 2 ^ 54 ∧
      (add_carry_out t0 c0).1 + 2 ^ 64 * add64 (add64 c1 t1) (add_carry_out t0 c0).2
        = (c0 + 2 ^ 64 * c1) + (t0 + 2 ^ 64 * t1) := by
    simp only [add_carry_out, add64, W64]
    split_ifs <;> omega
  obtain ⟨a0, a1, a2⟩ := hadd
  generalize (add_carry_out t0 c0).1 = d0 at *
  generalize add64 (add64 c1 t1) (add_carry_out t0 c0).2 = d1 at *
  rw [← a2]
  obtain ⟨m0, m1, m2, m3, m4⟩ := mul_128x128_full_spec d0 d1 k0 k1 a0 a1 hk0 hk1
  generalize mul_128x128_full (d0, d1) (k0, k1) = Q at *
  obtain ⟨⟨h0, h1⟩, ⟨l0, l1⟩⟩ := Q
  simp only at *
  rw [← m4]
  rw [fracZero_spec h0 h1 l0 l1 k0 k1 s m0 m1 m2 m3 hk0 (by omega) hs1 hs2,
    fracHalf_spec h0 h1 l0 l1 k0 k1 s m0 m1 m2 m3 hk0 (by omega) hs1 hs2,
    fracTop_spec h0 h1 l0 l1 k0 k1 s m0 m1 m2 m3 hk0 (by omega) hs1 hs2]
  -- the quotient
  have hQ : (l0 + 2 ^ 64 * l1 + 2 ^ 128 * (h0 + 2 ^ 64 * h1)) / 2 ^ (128 + s) = (h0 + 2 ^ 64 * h1) / 2 ^ s := by
    have e : (l0 + 2 ^ 64 * l1 + 2 ^ 128 * (h0 + 2 ^ 64 * h1)) / 2 ^ 128 = h0 + 2 ^ 64 * h1 := by
      rw [Nat.add_mul_div_left _ _ (Nat.pow_pos (by decide)), Nat.div_eq_of_lt (by omega), Nat.zero_add]
    rw [Nat.pow_add, ← Nat.div_div_eq_div_mul, e]
  rw [hQ]
  generalize (l0 + 2 ^ 64 * l1 + 2 ^ 128 * (h0 + 2 ^ 64 * h1)) % 2 ^ (128 + s) = frac
  have hCQ : (if s ≥ 64 then (shr64 h1 (s - 64), 0) else shr_128 (h0, h1) s)
      = (((h0 + 2 ^ 64 * h1) / 2 ^ s) % 2 ^ 64, ((h0 + 2 ^ 64 * h1) / 2 ^ s) / 2 ^ 64) := by
    obtain ⟨r0, r1, r2⟩ := shr_128_long_spec h0 h1 s m0 m1 hs1 hs2
    have : (if s ≥ 64 then (shr64 h1 (s - 64), 0) else shr_128 (h0, h1) s) = shr_128_long (h0, h1) s := by
      by_cases h : s < 64
      · rw [if_neg (by omega), shr_128_eq _ _ h]
      · rw [if_pos (by omega)]; simp only [shr_128_long, h, if_false]
    rw [this, ← r2]
    generalize shr_128_long (h0, h1) s = R at *
    obtain ⟨R0, R1⟩ := R
    simp only at *
    congr 1 <;> omega
  rw [hCQ]
  generalize (h0 + 2 ^ 64 * h1) / 2 ^ s = Qv
  simp only [Nat.and_one_is_mod, decide_eq_true_eq]
  have hodd : Qv % 2 ^ 64 % 2 = Qv % 2 := by omega
  rw [hodd]
  have hfl : ∀ b : Bool, (if fpsc &&& fInexact = fInexact then fpsc ||| fUnderflow
      else if b = true then fpsc else fpsc ||| (fUnderflow ||| fInexact)) = ufFlags fpsc b := fun b => rfl
  rw [hfl]
  congr 2
  by_cases hm : mode = .rne ∧ Qv % 2 = 1
  · by_cases hf : frac < k0 + 2 ^ 64 * k1
    · rw [if_pos hm, if_pos hf, if_pos ⟨hm.1, hm.2, hf⟩]
      have e1 : sub64 (Qv % 2 ^ 64) 1 = (Qv - 1) % 2 ^ 64 := by simp only [sub64, W64]; omega
      have e2 : (Qv - 1) / 2 ^ 64 = Qv / 2 ^ 64 := by omega
      rw [e1, e2]
    · rw [if_pos hm, if_neg hf, if_neg (fun h => hf h.2.2)]
  · rw [if_neg hm, if_neg (fun h => hm ⟨h.1, h.2.1⟩)]


theorem div_mod_lt_two (a P : Nat) (h : a < 2 * P) :
    a / P = (if P ≤ a then 1 else 0) ∧ a % P = (if P ≤ a then a - P else a) := by
  by_cases hp : P ≤ a
  · rw [if_pos hp, if_pos hp]
    have h1 : a / P = 1 := by
      apply Nat.div_eq_of_lt_le <;> omega
    have := Nat.div_add_mod a P
    rw [h1] at this
    exact ⟨h1, by omega⟩
  · rw [if_neg hp, if_neg hp]
    exact ⟨Nat.div_eq_of_lt (by omega), Nat.mod_eq_of_lt (by omega)⟩

theorem add_div_mod (C T P : Nat) (hP : 0 < P) (hT : T < P) :
    (C + T) / P = C / P + (if P ≤ C % P + T then 1 else 0) ∧
      (C + T) % P = (if P ≤ C % P + T then C % P + T - P else C % P + T) := by
  have hr : C % P < P := Nat.mod_lt _ hP
  have hdm := Nat.div_add_mod C P
  obtain ⟨e1, e2⟩ := div_mod_lt_two (C % P + T) P (by omega)
  have : C + T = (C % P + T) + P * (C / P) := by omega
  rw [this, Nat.add_mul_div_left _ _ hP, Nat.add_mul_mod_self_left, e1, e2]
  exact ⟨by omega, rfl⟩

set_option linter.unusedSimpArgs false in
/-- **The arithmetic of the underflow rounding**: adding the mode's rounding constant, multiplying by the
reciprocal `K ≈ 2^E / P` and cutting at bit `E` — with the midpoint repair of round-half-even — is `roundInt`
of `C / P`; and the mode's exactness test on the fraction holds exactly when `P` divides `C`. -/
theorem uf_arith (mode : Mode) (sgn C P H K E δ B : Nat) (hP : P = 2 * H) (hH : 0 < H) (hE : 1 ≤ E)
    (hK : K * P = 2 ^ E + δ) (hslack : ((B + P) / P + 1) * δ < K) (hC : C ≤ B) :
    let N := (C + roundT (ufRmode sgn mode) P) * K
    (if mode = .rne ∧ (N / 2 ^ E) % 2 = 1 ∧ N % 2 ^ E < K then N / 2 ^ E - 1 else N / 2 ^ E)
        = roundInt mode (decide (sgn ≠ 0)) (C / P) (C % P) P ∧
      (match ufRmode sgn mode with
        | .rne | .rna => decide (2 ^ (E - 1) ≤ N % 2 ^ E ∧ N % 2 ^ E < 2 ^ (E - 1) + K)
        | .rdn | .rtz => decide (N % 2 ^ E < K)
        | .rup => decide (2 ^ E ≤ N % 2 ^ E + K)) = decide (C % P = 0) := by
  intro N
  have hPpos : 0 < P := by omega
  have hTlt : roundT (ufRmode sgn mode) P < P := by
    unfold roundT; split <;> omega
  have hsl : ((C + roundT (ufRmode sgn mode) P) / P + 1) * δ < K := by
    refine lt_of_le_of_lt (Nat.mul_le_mul_right _ ?_) hslack
    have : (C + roundT (ufRmode sgn mode) P) / P ≤ (B + P) / P := Nat.div_le_div_right (by omega)
    omega
  have hq := (recip_split _ K E P δ hPpos hK hsl).1
  have hz := frac_zero _ K E P δ hPpos hK hsl
  have hh := frac_half _ K E P H δ hP hH hE hK hsl
  have ht := frac_top _ K E P δ hPpos hK hsl
  obtain ⟨hd, hm⟩ := add_div_mod C (roundT (ufRmode sgn mode) P) P hPpos hTlt
  have hr : C % P < P := Nat.mod_lt _ hPpos
  show (if mode = .rne ∧ (N / 2 ^ E) % 2 = 1 ∧ N % 2 ^ E < K then N / 2 ^ E - 1 else N / 2 ^ E) = _ ∧ _
  rw [show N / 2 ^ E = (C + roundT (ufRmode sgn mode) P) / P from hq]
  simp only [show (N % 2 ^ E < K) = ((C + roundT (ufRmode sgn mode) P) * K % 2 ^ E < K) from rfl, hz]
  simp only [show (2 ^ E ≤ N % 2 ^ E + K) = (2 ^ E ≤ (C + roundT (ufRmode sgn mode) P) * K % 2 ^ E + K) from rfl, ht]
  simp only [show (2 ^ (E - 1) ≤ N % 2 ^ E ∧ N % 2 ^ E < 2 ^ (E - 1) + K) =
    (2 ^ (E - 1) ≤ (C + roundT (ufRmode sgn mode) P) * K % 2 ^ E ∧
      (C + roundT (ufRmode sgn mode) P) * K % 2 ^ E < 2 ^ (E - 1) + K) from rfl, hh]
  rw [hd, hm]
  generalize C / P = q at *
  generalize C % P = r at *
  clear hq hz hh ht hd hm hsl hslack hK N hTlt
  subst hP
  have hHP : 2 * H / 2 = H := by omega
  rcases Nat.eq_zero_or_pos sgn with hs | hs
  · subst hs
    cases mode <;>
      simp only [ufRmode, roundT, roundInt, roundUp, hHP, ne_eq, not_true_eq_false, decide_false, false_and, if_false,
        Bool.false_eq_true, Bool.not_false, reduceCtorEq, false_or, or_false, true_and, if_true, decide_eq_decide,
        Bool.or_eq_true, Bool.and_eq_true, decide_eq_true_eq, beq_iff_eq] <;>
      (constructor <;> split_ifs <;>
        (try simp only [Bool.or_eq_true, Bool.and_eq_true, decide_eq_true_eq, beq_iff_eq, not_or, not_and] at *) <;> first | omega | (exfalso; simp_all))
  · have hne : sgn ≠ 0 := by omega
    cases mode <;>
      simp only [ufRmode, roundT, roundInt, roundUp, hHP, ne_eq, hne, not_false_eq_true, decide_true, true_and, if_true,
        reduceCtorEq, false_or, or_false, or_true, if_false, Bool.not_true, Bool.false_eq_true, decide_eq_decide, false_and,
        Bool.or_eq_true, Bool.and_eq_true, decide_eq_true_eq, beq_iff_eq] <;>
      (constructor <;> split_ifs <;>
        (try simp only [Bool.or_eq_true, Bool.and_eq_true, decide_eq_true_eq, beq_iff_eq, not_or, not_and] at *) <;> first | omega | (exfalso; simp_all))

/-! ## 5. The tables -/


/-- value of row `x` of `BID_RECIPROCALS10_128` -/
def recipK (x : Nat) : Nat :=
  (tbl128 Dec.Gen.BID_RECIPROCALS10_128 x).1 + 2 ^ 64 * (tbl128 Dec.Gen.BID_RECIPROCALS10_128 x).2
/-- row `x` of `BID_RECIP_SCALE` -/
def recipS (x : Nat) : Nat := Dec.Gen.BID_RECIP_SCALE.getD x 0

/-- everything the underflow routines need from row `x` of their three tables, as a decidable check on the
tables that are compiled in: the reciprocal's words are words and its high word is below 2^63 (so that the middle
sum of `__mul_128x128_full` cannot carry out), the shift amount keeps every shift in range, the reciprocal is
`⌈2^(128+s) / 10^x⌉`-like with enough slack for every coefficient up to `10^35 + 10^x`, and the five
rounding constants are half a unit / 0 / one unit minus one / 0 / half a unit -/
def rowGood (x : Nat) : Bool :=
  let k := tbl128 Dec.Gen.BID_RECIPROCALS10_128 x
  let s := recipS x
  let K := recipK x
  let rc := fun (m : Mode) => tbl128 Dec.Gen.BID_ROUND_CONST_TABLE_128 (m.toNat * 36 + x)
  decide (k.1 < 2 ^ 64) && decide (k.2 < 2 ^ 63) && decide (1 ≤ s) && decide (s ≤ 127)
    && decide (2 ^ (128 + s) ≤ K * 10 ^ x)
    && decide (((10 ^ 35 + 10 ^ x) / 10 ^ x + 1) * (K * 10 ^ x - 2 ^ (128 + s)) < K)
    && Mode.all.all (fun m => rc m == w128 (roundT m (10 ^ x)))

/-- rows 1 … 35 of the compiled tables pass the check (by kernel computation on the generated lists) -/
theorem rows_good : (List.range 35).all (fun j => rowGood (j + 1)) = true := by decide +kernel

/-- the shapes of the tables: 36 rows each, five modes -/
theorem table_shapes : roundConstInner = 36 ∧ Dec.Gen.BID_ROUND_CONST_TABLE_128_len = 5 ∧
    Dec.Gen.BID_RECIPROCALS10_128_len = 36 ∧ Dec.Gen.BID_RECIP_SCALE_len = 36 := by decide +kernel

/-- every shift amount in `BID_RECIP_SCALE` keeps the shifts of the underflow routines in range (`1 ≤ amount ≤ 109`):
the guard of the model never fails -/
theorem recip_scale_range : ∀ x < 36, 1 ≤ recipS x ∧ recipS x ≤ 109 := by decide +kernel

theorem rowGood_of (x : Nat) (h1 : 1 ≤ x) (h2 : x ≤ 35) : rowGood x = true := by
  obtain ⟨j, rfl⟩ : ∃ j, x = j + 1 := ⟨x - 1, by omega⟩
  exact List.all_eq_true.1 rows_good j (List.mem_range.2 (by omega))

theorem roundConst_eq (m : Mode) (x : Nat) (h1 : 1 ≤ x) (h2 : x ≤ 35) :
    roundConst m (x : Int) = some (w128 (roundT m (10 ^ x))) := by
  have hg := rowGood_of x h1 h2
  simp only [rowGood, Bool.and_eq_true, List.all_eq_true, beq_iff_eq] at hg
  have hm := hg.2 m (by cases m <;> simp [Mode.all])
  obtain ⟨s1, s2, _, _⟩ := table_shapes
  unfold roundConst
  have hm5 : m.toNat < 5 := by cases m <;> simp [Mode.toNat]
  rw [if_pos ⟨by omega, by rw [s1]; simp; omega, by rw [s2]; exact hm5⟩, s1]
  simp only [Int.toNat_natCast]
  rw [hm]

theorem recip_eq (x : Nat) (h2 : x ≤ 35) :
    recip (x : Int) = some (tbl128 Dec.Gen.BID_RECIPROCALS10_128 x) := by
  obtain ⟨_, _, s3, _⟩ := table_shapes
  unfold recip
  rw [if_pos ⟨by omega, by rw [s3]; simp; omega⟩]
  simp only [Int.toNat_natCast]

theorem recipScale_eq (x : Nat) (h2 : x ≤ 35) : recipScale (x : Int) = some (recipS x) := by
  obtain ⟨_, _, _, s4⟩ := table_shapes
  obtain ⟨a, b⟩ := recip_scale_range x (by omega)
  unfold recipScale
  rw [if_pos ⟨by omega, by rw [s4]; simp; omega⟩]
  simp only [Int.toNat_natCast]
  unfold recipS at a b ⊢
  rw [if_pos ⟨a, by omega⟩]

theorem w128_val (n : Nat) : (w128 n).1 + 2 ^ 64 * (w128 n).2 = n := by
  simp only [w128]; omega

theorem roundT_lt (m : Mode) (P : Nat) (hP : 0 < P) : roundT m P < P := by
  unfold roundT; split <;> omega

/-- **The common tail of `handle_UF_128` and `bid_handle_UF_128_rem`**: for `x = 1 … 35` digits to remove and every
coefficient `C ≤ 10^35`, the result is `C / 10^x` rounded to an integer in the given mode and sign (`roundInt`), placed
under the sign word; the status word gets underflow alone if inexact was already set, underflow and inexact if it
was clear and `10^x` does not divide `C`, nothing otherwise. -/
theorem ufTail_spec (sgn x c0 c1 : Nat) (mode : Mode) (fpsc : Nat) (h1 : 1 ≤ x) (h2 : x ≤ 35)
    (hc0 : c0 < 2 ^ 64) (hc1 : c1 < 2 ^ 64) (hC : c0 + 2 ^ 64 * c1 ≤ 10 ^ 35) :
    ufTail sgn (x : Int) (c0, c1) mode fpsc =
      some ((roundInt mode (decide (sgn ≠ 0)) ((c0 + 2 ^ 64 * c1) / 10 ^ x) ((c0 + 2 ^ 64 * c1) % 10 ^ x) (10 ^ x) % 2 ^ 64,
             sgn ||| roundInt mode (decide (sgn ≠ 0)) ((c0 + 2 ^ 64 * c1) / 10 ^ x) ((c0 + 2 ^ 64 * c1) % 10 ^ x) (10 ^ x) / 2 ^ 64),
            ufFlags fpsc (decide ((c0 + 2 ^ 64 * c1) % 10 ^ x = 0))) := by
  have hg := rowGood_of x h1 h2
  simp only [rowGood, Bool.and_eq_true, decide_eq_true_eq] at hg
  obtain ⟨⟨⟨⟨⟨⟨g1, g2⟩, g3⟩, g4⟩, g5⟩, g6⟩, _⟩ := hg
  have hP : 0 < 10 ^ x := Nat.pow_pos (by decide)
  have hPle : 10 ^ x ≤ 10 ^ 35 := Nat.pow_le_pow_right (by decide) h2
  have hTlt := roundT_lt (ufRmode sgn mode) (10 ^ x) hP
  have hT := roundConst_eq (ufRmode sgn mode) x h1 h2
  have hK := recip_eq x h2
  have hS := recipScale_eq x h2
  have hv := w128_val (roundT (ufRmode sgn mode) (10 ^ x))
  have hw0 : (w128 (roundT (ufRmode sgn mode) (10 ^ x))).1 < 2 ^ 64 := by simp only [w128]; omega
  have hw1 : (w128 (roundT (ufRmode sgn mode) (10 ^ x))).2 < 2 ^ 64 := by
    simp only [w128]
    have : (10 : Nat) ^ 35 < 2 ^ 118 := by norm_num
    omega
  generalize w128 (roundT (ufRmode sgn mode) (10 ^ x)) = T at *
  obtain ⟨t0, t1⟩ := T
  generalize hk : tbl128 Dec.Gen.BID_RECIPROCALS10_128 x = Kp at *
  obtain ⟨k0, k1⟩ := Kp
  simp only at *
  have hKv : recipK x = k0 + 2 ^ 64 * k1 := by unfold recipK; rw [hk]
  rw [hKv] at g5 g6
  have hCT : c0 + 2 ^ 64 * c1 + (t0 + 2 ^ 64 * t1) < 2 ^ 118 := by
    have : (10 : Nat) ^ 35 + 10 ^ 35 < 2 ^ 118 := by norm_num
    omega
  rw [ufTail_eval sgn x c0 c1 mode fpsc t0 t1 k0 k1 (recipS x) hT hK hS hc0 hc1 hw0 hw1 g1 g2 g3 g4 hCT]
  -- the arithmetic
  obtain ⟨H, hH⟩ : ∃ H, 10 ^ x = 2 * H := by
    obtain ⟨j, rfl⟩ : ∃ j, x = j + 1 := ⟨x - 1, by omega⟩
    exact ⟨5 * 10 ^ j, by rw [Nat.pow_succ]; ring⟩
  have hKP : (k0 + 2 ^ 64 * k1) * 10 ^ x
      = 2 ^ (128 + recipS x) + ((k0 + 2 ^ 64 * k1) * 10 ^ x - 2 ^ (128 + recipS x)) := by omega
  obtain ⟨r1, r2⟩ := uf_arith mode sgn (c0 + 2 ^ 64 * c1) (10 ^ x) H (k0 + 2 ^ 64 * k1) (128 + recipS x) _ (10 ^ 35)
    hH (by omega) (by omega) hKP g6 hC
  rw [hv]
  simp only [show 128 + recipS x - 1 = 127 + recipS x by omega] at r2
  simp only [r1, r2]

/-! ### examples -/

example : mul_128x128_full (w128 (10 ^ 35 + 12345)) (tbl128 Dec.Gen.BID_RECIPROCALS10_128 7)
    = (w128 ((10 ^ 35 + 12345) * recipK 7 / 2 ^ 128), w128 ((10 ^ 35 + 12345) * recipK 7 % 2 ^ 128)) := by decide +kernel
-- reciprocal multiplication, row 9 (the row with the least slack): quotient and the three fraction tests
example : (123456789012345678901234567890 * recipK 9) / 2 ^ (128 + recipS 9) = 123456789012345678901 := by decide +kernel
example : fracZero (w128 (5000000000 * recipK 9 / 2 ^ 128)) (w128 (5000000000 * recipK 9 % 2 ^ 128))
    (tbl128 Dec.Gen.BID_RECIPROCALS10_128 9) (recipS 9) = true := by decide +kernel
example : fracHalf (w128 (5500000000 * recipK 9 / 2 ^ 128)) (w128 (5500000000 * recipK 9 % 2 ^ 128))
    (tbl128 Dec.Gen.BID_RECIPROCALS10_128 9) (recipS 9) = true := by decide +kernel
example : fracTop (w128 (5999999999 * recipK 9 / 2 ^ 128)) (w128 (5999999999 * recipK 9 % 2 ^ 128))
    (tbl128 Dec.Gen.BID_RECIPROCALS10_128 9) (recipS 9) = true := by decide +kernel

/-! ## 6. `handle_UF_128` and `bid_handle_UF_128_rem` -/

theorem or_eq_left_of_and_eq (a b : Nat) (h : a &&& b = b) : a ||| b = a := by
  apply Nat.eq_of_testBit_eq
  intro i
  have := congrArg (fun n => n.testBit i) h
  simp only [Nat.testBit_and] at this
  rw [Nat.testBit_or]
  cases ha : a.testBit i <;> cases hb : b.testBit i <;> simp_all

/-- with inexact already set, adding underflow and inexact is adding underflow -/
theorem flags_deep (fpsc : Nat) : fpsc ||| (fUnderflow ||| fInexact) = ufFlags fpsc false := by
  unfold ufFlags
  by_cases h : fpsc &&& fInexact = fInexact
  · rw [if_pos h]
    have : fUnderflow ||| fInexact = fInexact ||| fUnderflow := by decide
    rw [this, ← Nat.or_assoc, or_eq_left_of_and_eq _ _ h]
  · rw [if_neg h]; rfl

theorem wrapI32_id (x : Int) (h1 : -2147483648 ≤ x) (h2 : x < 2147483648) : wrapI32 x = x := by
  unfold wrapI32; omega

/-- a value below half a unit (and not zero) rounds to 0, or to 1 in the direction away from zero -/
theorem roundInt_small (mode : Mode) (neg : Bool) (C D : Nat) (h0 : 0 < C) (h : 2 * C < D) :
    roundInt mode neg (C / D) (C % D) D
      = if (neg = true ∧ mode = .rdn) ∨ (neg = false ∧ mode = .rup) then 1 else 0 := by
  have e1 : C / D = 0 := Nat.div_eq_of_lt (by omega)
  have e2 : C % D = C := Nat.mod_eq_of_lt (by omega)
  rw [e1, e2]
  have hne : C ≠ 0 := by omega
  cases mode <;> cases neg <;> simp [roundInt, roundUp, hne] <;> omega

/-- **`handle_UF_128`** (called from `bid_get_BID128` with `expon < 0` and a non-zero coefficient below 10^34; the
`i32` exponent can be as low as −2^31: `scalbn`, `ldexp` and the string conversion pass what they computed).
For `−2^31 ≤ expon ≤ −1` and `C ≤ 10^34` (and `C ≠ 0` when `expon < −34`), with `x = −expon` digits to remove:
the result is the sign word over `roundInt` of `C / 10^x` (biased exponent 0), and the status word is `ufFlags`:
underflow alone when inexact was set on entry (whether or not this rounding is exact), else underflow and inexact
iff `10^x ∤ C`. -/
theorem handle_uf_spec (sgn : Nat) (expon : Int) (c0 c1 : Nat) (mode : Mode) (fpsc : Nat)
    (he1 : -2147483648 ≤ expon) (he2 : expon ≤ -1) (hc0 : c0 < 2 ^ 64) (hc1 : c1 < 2 ^ 64)
    (hC : c0 + 2 ^ 64 * c1 ≤ 10 ^ 34) (hdom : c0 + 2 ^ 64 * c1 ≠ 0 ∨ -34 ≤ expon) :
    handle_UF_128 sgn expon (c0, c1) mode fpsc =
      some ((roundInt mode (decide (sgn ≠ 0)) ((c0 + 2 ^ 64 * c1) / 10 ^ (-expon).toNat)
                ((c0 + 2 ^ 64 * c1) % 10 ^ (-expon).toNat) (10 ^ (-expon).toNat) % 2 ^ 64,
             sgn ||| roundInt mode (decide (sgn ≠ 0)) ((c0 + 2 ^ 64 * c1) / 10 ^ (-expon).toNat)
                ((c0 + 2 ^ 64 * c1) % 10 ^ (-expon).toNat) (10 ^ (-expon).toNat) / 2 ^ 64),
            ufFlags fpsc (decide ((c0 + 2 ^ 64 * c1) % 10 ^ (-expon).toNat = 0))) := by
  obtain ⟨x, hx⟩ : ∃ x : Nat, expon = -(x : Int) := ⟨(-expon).toNat, by omega⟩
  subst hx
  simp only [Int.neg_neg, Int.toNat_natCast]
  unfold handle_UF_128
  rw [wrapI32_id _ (by omega) (by omega)]
  by_cases hdeep : -(x : Int) + 34 < 0
  · rw [if_pos hdeep]
    have hC0 : 0 < c0 + 2 ^ 64 * c1 := by omega
    have hD : 2 * (c0 + 2 ^ 64 * c1) < 10 ^ x := by
      have : (10 : Nat) ^ 35 ≤ 10 ^ x := Nat.pow_le_pow_right (by decide) (by omega)
      have : 2 * (10 : Nat) ^ 34 < 10 ^ 35 := by norm_num
      omega
    rw [roundInt_small mode _ _ _ hC0 hD]
    have hm : (c0 + 2 ^ 64 * c1) % 10 ^ x ≠ 0 := by rw [Nat.mod_eq_of_lt (by omega)]; omega
    simp only [ufDeep, hm, decide_false, flags_deep, decide_eq_true_eq, decide_eq_false_iff_not, ne_eq, not_not]
    generalize hb : (if ¬sgn = 0 ∧ mode = Mode.rdn ∨ sgn = 0 ∧ mode = Mode.rup then 1 else 0) = b
    have hb1 : b ≤ 1 := by rw [← hb]; split_ifs <;> omega
    have e1 : b % 2 ^ 64 = b := by omega
    have e2 : b / 2 ^ 64 = 0 := by omega
    rw [e1, e2, Nat.or_zero]
  · rw [if_neg hdeep, wrapI32_id _ (by omega) (by omega)]
    have : (0 : Int) - -(x : Int) = (x : Int) := by omega
    rw [this]
    have hC' : c0 + 2 ^ 64 * c1 ≤ 10 ^ 35 := le_trans hC (by norm_num)
    exact ufTail_spec sgn x c0 c1 mode fpsc (by omega) (by omega) hc0 hc1 hC'

/-- the shift-and-add `CQ *= 10` of `bid_handle_UF_128_rem`, followed by the sticky bit -/
theorem times10_sticky (c0 c1 R : Nat) (hc0 : c0 < 2 ^ 64) (hc1 : c1 < 2 ^ 64) (hC : c0 + 2 ^ 64 * c1 < 10 ^ 34) :
    ∃ d0 d1, d0 < 2 ^ 64 ∧ d1 < 2 ^ 64 ∧
      d0 + 2 ^ 64 * d1 = 10 * (c0 + 2 ^ 64 * c1) + (if R ≠ 0 then 1 else 0) ∧
      (let CQ := add_128_128 (shl64 c0 1, shl64 c1 1 ||| shr64 c0 63) (shl64 c0 3, shl64 c1 3 ||| shr64 c0 61)
       (if R ≠ 0 then (CQ.1 ||| 1, CQ.2) else CQ)) = (d0, d1) := by
  have h34 : (10 : Nat) ^ 34 < 2 ^ 113 := by norm_num
  have e2 : shl64 c1 1 ||| shr64 c0 63 = 2 * c1 + c0 / 2 ^ 63 := by
    simp only [shl64, shr64, W64, Nat.shiftLeft_eq, Nat.shiftRight_eq_div_pow]
    rw [Nat.mod_eq_of_lt (by omega), Nat.mul_comm, show (2 : Nat) ^ 1 = 2 by rfl]
    exact or_eq_add_of_lt 1 c1 _ (by omega)
  have e8 : shl64 c1 3 ||| shr64 c0 61 = 8 * c1 + c0 / 2 ^ 61 := by
    simp only [shl64, shr64, W64, Nat.shiftLeft_eq, Nat.shiftRight_eq_div_pow]
    rw [Nat.mod_eq_of_lt (by omega), Nat.mul_comm]
    exact or_eq_add_of_lt 3 c1 _ (by omega)
  rw [e2, e8]
  obtain ⟨a0, a1, a2⟩ := add_128_128_spec (shl64 c0 1) (2 * c1 + c0 / 2 ^ 63) (shl64 c0 3) (8 * c1 + c0 / 2 ^ 61)
    (by simp only [shl64, W64]; omega) (by omega) (by simp only [shl64, W64]; omega) (by omega)
  generalize add_128_128 (shl64 c0 1, 2 * c1 + c0 / 2 ^ 63) (shl64 c0 3, 8 * c1 + c0 / 2 ^ 61) = Q at *
  obtain ⟨q0, q1⟩ := Q
  simp only [shl64, W64, Nat.shiftLeft_eq] at a0 a1 a2 ⊢
  have l2 : c0 * 2 ^ 1 % 18446744073709551616 + 2 ^ 64 * (c0 / 2 ^ 63) = 2 * c0 := by omega
  have l8 : c0 * 2 ^ 3 % 18446744073709551616 + 2 ^ 64 * (c0 / 2 ^ 61) = 8 * c0 := by omega
  have hsum : c0 * 2 ^ 1 % 18446744073709551616 + 2 ^ 64 * (2 * c1 + c0 / 2 ^ 63) +
      (c0 * 2 ^ 3 % 18446744073709551616 + 2 ^ 64 * (8 * c1 + c0 / 2 ^ 61)) = 10 * (c0 + 2 ^ 64 * c1) := by omega
  rw [hsum, Nat.mod_eq_of_lt (by omega)] at a2
  have hv : q0 + 2 ^ 64 * q1 = 10 * (c0 + 2 ^ 64 * c1) := a2
  by_cases hR : R ≠ 0
  · simp only [hR, if_true, ne_eq, not_false_eq_true]
    obtain ⟨h, hh⟩ : ∃ h, q0 = 2 ^ 1 * h := ⟨q0 / 2, by omega⟩
    refine ⟨q0 + 1, q1, by omega, a1, by omega, ?_⟩
    rw [hh, or_eq_add_of_lt 1 h 1 (by norm_num)]
  · simp only [hR, if_false]
    exact ⟨q0, q1, a0, a1, by omega, rfl⟩

/-- **`bid_handle_UF_128_rem`** (called from the division with the 34-digit quotient `CQ`, `expon < 0`, and the
remainder `R ≠ 0` of the division): for `−2^31 ≤ expon ≤ 0`, `CQ < 10^34` (not both `CQ` and `R` zero when
`expon < −34`): with `C10 = 10·CQ + [R ≠ 0]` and `x = 1 − expon`, the result is the sign word over `roundInt` of
`C10 / 10^x`; the status word as for `handle_UF_128`. -/
theorem handle_uf_rem_spec (sgn : Nat) (expon : Int) (c0 c1 R : Nat) (mode : Mode) (fpsc : Nat)
    (he1 : -2147483648 ≤ expon) (he2 : expon ≤ 0) (hc0 : c0 < 2 ^ 64) (hc1 : c1 < 2 ^ 64)
    (hC : c0 + 2 ^ 64 * c1 < 10 ^ 34) (hdom : c0 + 2 ^ 64 * c1 ≠ 0 ∨ R ≠ 0 ∨ -34 ≤ expon) :
    handle_UF_128_rem sgn expon (c0, c1) R mode fpsc =
      some ((roundInt mode (decide (sgn ≠ 0)) ((10 * (c0 + 2 ^ 64 * c1) + (if R ≠ 0 then 1 else 0)) / 10 ^ (1 - expon).toNat)
                ((10 * (c0 + 2 ^ 64 * c1) + (if R ≠ 0 then 1 else 0)) % 10 ^ (1 - expon).toNat) (10 ^ (1 - expon).toNat) % 2 ^ 64,
             sgn ||| roundInt mode (decide (sgn ≠ 0)) ((10 * (c0 + 2 ^ 64 * c1) + (if R ≠ 0 then 1 else 0)) / 10 ^ (1 - expon).toNat)
                ((10 * (c0 + 2 ^ 64 * c1) + (if R ≠ 0 then 1 else 0)) % 10 ^ (1 - expon).toNat) (10 ^ (1 - expon).toNat) / 2 ^ 64),
            ufFlags fpsc (decide ((10 * (c0 + 2 ^ 64 * c1) + (if R ≠ 0 then 1 else 0)) % 10 ^ (1 - expon).toNat = 0))) := by
  obtain ⟨x, hx⟩ : ∃ x : Nat, expon = 1 - (x : Int) := ⟨(1 - expon).toNat, by omega⟩
  subst hx
  have : (1 - (1 - (x : Int))).toNat = x := by omega
  rw [this]
  unfold handle_UF_128_rem
  rw [wrapI32_id _ (by omega) (by omega)]
  by_cases hdeep : 1 - (x : Int) + 34 < 0
  · rw [if_pos hdeep]
    generalize hC10 : 10 * (c0 + 2 ^ 64 * c1) + (if R ≠ 0 then 1 else 0) = C10
    have hC0 : 0 < C10 := by
      rw [← hC10]
      rcases hdom with h | h | h
      · omega
      · rw [if_pos h]; omega
      · omega
    have hD : 2 * C10 < 10 ^ x := by
      have : (10 : Nat) ^ 36 ≤ 10 ^ x := Nat.pow_le_pow_right (by decide) (by omega)
      have : 2 * (10 * (10 : Nat) ^ 34 + 1) < 10 ^ 36 := by norm_num
      have : C10 ≤ 10 * (c0 + 2 ^ 64 * c1) + 1 := by rw [← hC10]; split_ifs <;> omega
      omega
    rw [roundInt_small mode _ _ _ hC0 hD]
    have hm : C10 % 10 ^ x ≠ 0 := by rw [Nat.mod_eq_of_lt (by omega)]; omega
    simp only [ufDeep, hm, decide_false, flags_deep, decide_eq_true_eq, decide_eq_false_iff_not, ne_eq, not_not]
    generalize hb : (if ¬sgn = 0 ∧ mode = Mode.rdn ∨ sgn = 0 ∧ mode = Mode.rup then 1 else 0) = b
    have hb1 : b ≤ 1 := by rw [← hb]; split_ifs <;> omega
    have e1 : b % 2 ^ 64 = b := by omega
    have e2 : b / 2 ^ 64 = 0 := by omega
    rw [e1, e2, Nat.or_zero]
  · rw [if_neg hdeep, wrapI32_id _ (by omega) (by omega)]
    have : (1 : Int) - (1 - (x : Int)) = (x : Int) := by omega
    rw [this]
    obtain ⟨d0, d1, hd0, hd1, hv, heq⟩ := times10_sticky c0 c1 R hc0 hc1 hC
    simp only at heq
    simp only [heq]
    rw [← hv]
    have hC' : d0 + 2 ^ 64 * d1 ≤ 10 ^ 35 := by
      have : 10 * (10 : Nat) ^ 34 = 10 ^ 35 := by norm_num
      rw [hv]; split_ifs <;> omega
    exact ufTail_spec sgn x d0 d1 mode fpsc (by omega) (by omega) hd0 hd1 hC'

/-- `roundInt` on quotient and remainder of `C` by `D` is `C / D` correctly rounded -/
theorem roundInt_divmod_spec (mode : Mode) (neg : Bool) (C D : Nat) (hD : 0 < D) :
    RoundedInt mode neg C D (roundInt mode neg (C / D) (C % D) D) := by
  have := roundInt_spec mode neg (C / D) (C % D) D (Nat.mod_lt _ hD)
  rwa [Nat.div_add_mod'] at this

/-- `roundInt` only looks at whether the remainder is zero and how twice the remainder compares with the divisor -/
theorem roundInt_congr (mode : Mode) (neg : Bool) (q r D r' D' : Nat)
    (h0 : r = 0 ↔ r' = 0) (hgt : 2 * r > D ↔ 2 * r' > D') (heq : 2 * r = D ↔ 2 * r' = D') :
    roundInt mode neg q r D = roundInt mode neg q r' D' := by
  have hge : 2 * r ≥ D ↔ 2 * r' ≥ D' := by omega
  unfold roundInt roundUp
  by_cases h : r = 0
  · rw [if_pos h, if_pos (h0.1 h)]
  · rw [if_neg h, if_neg (fun h' => h (h0.2 h'))]
    cases mode <;> simp only [hgt, heq, hge]

/-- **The sticky bit of `bid_handle_UF_128_rem` is sound**: let the exact quotient be `CQ + ρ/Y` with `0 < ρ < Y`
(a non-zero remainder `ρ` of the division by `Y`).  Rounding `10·CQ + 1` at `k + 1` digits (what the routine does
for `R ≠ 0`, `k = −expon ≥ 1`) gives the exact quotient divided by `10^k`, correctly rounded. -/
theorem sticky_rounded (mode : Mode) (neg : Bool) (CQ Y ρ k : Nat) (hk : 1 ≤ k) (hρ0 : 0 < ρ) (hρ : ρ < Y) :
    RoundedInt mode neg (CQ * Y + ρ) (Y * 10 ^ k)
      (roundInt mode neg ((10 * CQ + 1) / 10 ^ (k + 1)) ((10 * CQ + 1) % 10 ^ (k + 1)) (10 ^ (k + 1))) := by
  obtain ⟨H, hH⟩ : ∃ H, 10 ^ k = 2 * H := by
    obtain ⟨j, rfl⟩ : ∃ j, k = j + 1 := ⟨k - 1, by omega⟩
    exact ⟨5 * 10 ^ j, by rw [Nat.pow_succ]; ring⟩
  have hD : 0 < 10 ^ k := Nat.pow_pos (by decide)
  have hdm := Nat.div_add_mod CQ (10 ^ k)
  have hr : CQ % 10 ^ k < 10 ^ k := Nat.mod_lt _ hD
  rw [Nat.pow_succ]
  generalize 10 ^ k = D at *
  generalize hq : CQ / D = q at *
  generalize hrr : CQ % D = r at *
  subst hH
  have e1 : (10 * CQ + 1) / (2 * H * 10) = q := by
    rw [← hdm]
    apply Nat.div_eq_of_lt_le <;> nlinarith
  have e2 : (10 * CQ + 1) % (2 * H * 10) = 10 * r + 1 := by
    have := Nat.div_add_mod (10 * CQ + 1) (2 * H * 10)
    rw [e1] at this
    rw [← hdm] at this ⊢
    nlinarith
  rw [e1, e2]
  -- the exact value
  have hV : CQ * Y + ρ = q * (Y * (2 * H)) + (r * Y + ρ) := by rw [← hdm]; ring
  have hlt : r * Y + ρ < Y * (2 * H) := by
    have : (r + 1) * Y ≤ 2 * H * Y := Nat.mul_le_mul_right Y hr
    nlinarith
  rw [hV, roundInt_congr mode neg q (10 * r + 1) (2 * H * 10) (r * Y + ρ) (Y * (2 * H))]
  · exact roundInt_spec mode neg q _ _ hlt
  · omega
  · constructor
    · intro h
      have hr' : H ≤ r := by omega
      have : H * Y ≤ r * Y := Nat.mul_le_mul_right Y hr'
      nlinarith
    · intro h
      by_contra hc
      have hr' : r + 1 ≤ H := by omega
      have : (r + 1) * Y ≤ H * Y := Nat.mul_le_mul_right Y hr'
      nlinarith
  · constructor
    · intro h; omega
    · intro h
      exfalso
      rcases Nat.lt_or_ge r H with hr' | hr'
      · have : (r + 1) * Y ≤ H * Y := Nat.mul_le_mul_right Y hr'
        nlinarith
      · have : H * Y ≤ r * Y := Nat.mul_le_mul_right Y hr'
        nlinarith

/-! ### examples -/

-- `handle_UF_128`: 123456·10^-3 → 123 (inexact), ties, directed modes, signs
example : handle_UF_128 0 (-3) (w128 123456) .rne 0 = some ((123, 0), 0x30) := by decide +kernel
example : handle_UF_128 0 (-3) (w128 122500) .rne 0 = some ((122, 0), 0x30) := by decide +kernel   -- tie to even
example : handle_UF_128 0 (-3) (w128 123500) .rne 0 = some ((124, 0), 0x30) := by decide +kernel
example : handle_UF_128 0 (-3) (w128 122500) .rna 0 = some ((123, 0), 0x30) := by decide +kernel   -- tie away
example : handle_UF_128 (2 ^ 63) (-3) (w128 122001) .rdn 0 = some ((123, 2 ^ 63), 0x30) := by decide +kernel
example : handle_UF_128 (2 ^ 63) (-3) (w128 122999) .rup 0 = some ((122, 2 ^ 63), 0x30) := by decide +kernel
example : handle_UF_128 0 (-3) (w128 122000) .rup 0 = some ((122, 0), 0) := by decide +kernel      -- exact: no flag
-- the largest coefficient, 34 digits removed; the deep path; the `i32` minimum
example : handle_UF_128 0 (-34) (w128 (10 ^ 34 - 1)) .rne 0 = some ((1, 0), 0x30) := by decide +kernel
example : handle_UF_128 0 (-34) (w128 (5 * 10 ^ 33)) .rne 0 = some ((0, 0), 0x30) := by decide +kernel
example : handle_UF_128 0 (-35) (w128 (10 ^ 34 - 1)) .rup 0 = some ((1, 0), 0x30) := by decide +kernel
example : handle_UF_128 (2 ^ 63) (-2147483648) (w128 1) .rdn 0 = some ((1, 2 ^ 63), 0x30) := by decide +kernel
-- a 34-digit result word pair: the coefficient spills into the high word
example : handle_UF_128 0 (-1) (w128 (10 ^ 34 - 5)) .rne 0 = some (w128 (10 ^ 33), 0x30) := by decide +kernel
-- the dependence on the incoming inexact bit (D4): an exact result raises underflow iff inexact was set on entry
example : handle_UF_128 0 (-3) (w128 5000) .rne 0x00 = some ((5, 0), 0x00) := by decide +kernel
example : handle_UF_128 0 (-3) (w128 5000) .rne 0x20 = some ((5, 0), 0x30) := by decide +kernel
-- outside the domain: a zero coefficient on the deep path is reported as an inexact underflow (and becomes 1 when
-- rounding away), `expon = 0` reads the all-zero row 0 of the reciprocal table, `expon > 0` indexes out of range
example : handle_UF_128 0 (-35) (0, 0) .rup 0 = some ((1, 0), 0x30) := by decide +kernel
example : handle_UF_128 0 0 (w128 5) .rne 0 = some ((0, 0), 0x30) := by decide +kernel
example : handle_UF_128 0 1 (w128 5) .rne 0 = none := by decide +kernel

-- `bid_handle_UF_128_rem`: quotient 1234567 with a remainder, three digits below the minimum exponent
example : handle_UF_128_rem 0 (-3) (w128 1234500) 1 .rne 0x20 = some ((1235, 0), 0x30) := by decide +kernel  -- above the tie
example : handle_UF_128_rem 0 (-3) (w128 1234500) 0 .rne 0x00 = some ((1234, 0), 0x30) := by decide +kernel  -- the tie itself
example : handle_UF_128_rem 0 (-3) (w128 1234000) 1 .rup 0x20 = some ((1235, 0), 0x30) := by decide +kernel
example : handle_UF_128_rem (2 ^ 63) (-3) (w128 1234000) 1 .rup 0x20 = some ((1234, 2 ^ 63), 0x30) := by decide +kernel
example : handle_UF_128_rem 0 (-34) (w128 (10 ^ 34 - 1)) 1 .rne 0x20 = some ((1, 0), 0x30) := by decide +kernel
example : handle_UF_128_rem 0 (-35) (w128 (10 ^ 34 - 1)) 1 .rne 0x20 = some ((0, 0), 0x30) := by decide +kernel
example : handle_UF_128_rem 0 2 (w128 5) 0 .rne 0 = none := by decide +kernel

-- the sticky bit: 1234567 + 1/3 divided by 10^3, all five modes at once
example : ∀ mode ∈ Mode.all, RoundedInt mode false (1234567 * 3 + 1) (3 * 10 ^ 3)
    (roundInt mode false ((10 * 1234567 + 1) / 10 ^ 4) ((10 * 1234567 + 1) % 10 ^ 4) (10 ^ 4)) :=
  fun mode _ => sticky_rounded mode false 1234567 3 1 3 (by decide) (by decide) (by decide)

/-! ## 7. The two unpack routines against `decode` -/

/-- masking with a contiguous bit field `[a, a + b)` -/
theorem and_field (x a b : Nat) : x &&& ((2 ^ b - 1) * 2 ^ a) = (x / 2 ^ a % 2 ^ b) * 2 ^ a := by
  apply Nat.eq_of_testBit_eq
  intro i
  rw [Nat.testBit_and, Nat.testBit_mul_two_pow, Nat.testBit_mul_two_pow, Nat.testBit_two_pow_sub_one,
    Nat.testBit_mod_two_pow, Nat.testBit_div_two_pow]
  by_cases h : a ≤ i
  · rw [Nat.sub_add_cancel h]
    cases x.testBit i <;> simp [h]
  · simp [h]

theorem and_low (x b : Nat) : x &&& (2 ^ b - 1) = x % 2 ^ b := Nat.and_two_pow_sub_one_eq_mod x b

theorem mask_sign (x : Nat) : x &&& 0x8000000000000000 = (x / 2 ^ 63 % 2 ^ 1) * 2 ^ 63 := and_field x 63 1
theorem mask_7800 (x : Nat) : x &&& 0x7800000000000000 = (x / 2 ^ 59 % 2 ^ 4) * 2 ^ 59 := and_field x 59 4
theorem mask_7c00 (x : Nat) : x &&& 0x7c00000000000000 = (x / 2 ^ 58 % 2 ^ 5) * 2 ^ 58 := and_field x 58 5
theorem mask_fe00 (x : Nat) : x &&& 0xfe00000000000000 = (x / 2 ^ 57 % 2 ^ 7) * 2 ^ 57 := and_field x 57 7
theorem mask_f800 (x : Nat) : x &&& 0xf800000000000000 = (x / 2 ^ 59 % 2 ^ 5) * 2 ^ 59 := and_field x 59 5
theorem mask_ffff8 (x : Nat) : x &&& 0xffff800000000000 = (x / 2 ^ 47 % 2 ^ 17) * 2 ^ 47 := and_field x 47 17
theorem mask_46 (x : Nat) : x &&& 0x00003fffffffffff = x % 2 ^ 46 := and_low x 46
theorem mask_47 (x : Nat) : x &&& 0x00007fffffffffff = x % 2 ^ 47 := and_low x 47
theorem mask_49 (x : Nat) : x &&& 0x0001ffffffffffff = x % 2 ^ 49 := and_low x 49
theorem mask_14 (x : Nat) : x &&& 0x3fff = x % 2 ^ 14 := and_low x 14
theorem mask_fe003 (x : Nat) :
    x &&& 0xfe003fffffffffff = (x / 2 ^ 57 % 2 ^ 7) * 2 ^ 57 + x % 2 ^ 46 := by
  have : (0xfe003fffffffffff : Nat) = 0xfe00000000000000 ||| 0x00003fffffffffff := by decide
  rw [this, Nat.and_or_distrib_left, mask_fe00, mask_46, Nat.mul_comm]
  exact or_eq_add_of_lt 57 _ _ (lt_of_lt_of_le (Nat.mod_lt _ (by norm_num)) (by norm_num))

/-- `BID_POWER10_TABLE_128[33]` and `[34]` as compiled in -/
theorem power10_33 : power10 33 = w128 (10 ^ 33) := by decide +kernel
theorem power10_34 : power10 34 = w128 (10 ^ 34) := by decide +kernel

/-- the sign word of a datum -/
def signWord (neg : Bool) : Nat := if neg then 2 ^ 63 else 0

theorem ge_w128 (a0 a1 n : Nat) (h0 : a0 < 2 ^ 64) :
    ge_128 (a0, a1) (w128 n) = decide (n ≤ a0 + 2 ^ 64 * a1) := by
  unfold w128
  rw [ge_128_spec _ _ _ _ h0 (Nat.mod_lt _ (by norm_num))]
  congr 1
  have := Nat.mod_add_div n (2 ^ 64)
  rw [this]

/-- the finite arm shared by the two unpack routines -/
theorem unpack_fin (w0 w1 : Nat) (h0 : w0 < 2 ^ 64) (h1 : w1 < 2 ^ 64) (hg : w1 / 2 ^ 61 % 4 ≠ 3) :
    decode (w1 * 2 ^ 64 + w0) =
      .fin (w1 / 2 ^ 63 == 1) (if (w1 * 2 ^ 64 + w0) % 2 ^ 113 < P34 then (w1 * 2 ^ 64 + w0) % 2 ^ 113 else 0)
        (((w1 / 2 ^ 49 % 2 ^ 14 : Nat) : Int) - 6176) := by
  unfold decode
  have e1 : (w1 * 2 ^ 64 + w0) / 2 ^ 123 % 16 = w1 / 2 ^ 59 % 16 := by omega
  have e2 : (w1 * 2 ^ 64 + w0) / 2 ^ 127 % 2 = w1 / 2 ^ 63 := by omega
  have e3 : (w1 * 2 ^ 64 + w0) / 2 ^ 113 % 2 ^ 14 = w1 / 2 ^ 49 % 2 ^ 14 := by omega
  simp only [e1, e2, e3, beq_iff_eq]
  rw [if_neg (by omega), if_neg (by omega)]

theorem P34_eq' : P34 = 10 ^ 34 := by decide
theorem P33_eq' : P33 = 10 ^ 33 := by decide

/-- **`unpack_BID128_value`, finite encodings** (bits 62, 61 of the high word not both set — every canonical and
every small-form non-canonical finite pattern): sign word, biased exponent `e + 6176`, the coefficient (0 if the
113-bit field is ≥ 10^34) and a return value that is non-zero exactly for a non-zero coefficient — all as `decode`
says. -/
theorem unpack_value_fin (w0 w1 : Nat) (h0 : w0 < 2 ^ 64) (h1 : w1 < 2 ^ 64) (hg : w1 / 2 ^ 61 % 4 ≠ 3) :
    ∃ neg c e, decode (w1 * 2 ^ 64 + w0) = .fin neg c e ∧
      (unpack_BID128_value (w0, w1)).sign = signWord neg ∧
      (unpack_BID128_value (w0, w1)).expon = e + 6176 ∧
      (unpack_BID128_value (w0, w1)).coeff = w128 c ∧
      ((unpack_BID128_value (w0, w1)).ret ≠ 0 ↔ c ≠ 0) := by
  refine ⟨_, _, _, unpack_fin w0 w1 h0 h1 hg, ?_⟩
  unfold unpack_BID128_value
  simp only [mask_sign, mask_7800, mask_49, power10_34, shr64, Nat.shiftRight_eq_div_pow, mask_14]
  rw [if_neg (by omega)]
  simp only [ge_w128 _ _ _ h0, decide_eq_true_eq, P34_eq']
  have hb : (w1 * 2 ^ 64 + w0) % 2 ^ 113 = w0 + 2 ^ 64 * (w1 % 2 ^ 49) := by omega
  rw [hb]
  refine ⟨?_, ?_, ?_, ?_⟩
  · simp only [signWord, beq_iff_eq]
    split_ifs <;> omega
  · have : w1 / 2 ^ 49 % 4294967296 % 2 ^ 14 = w1 / 2 ^ 49 % 2 ^ 14 := by omega
    rw [this]; omega
  · by_cases h : 10 ^ 34 ≤ w0 + 2 ^ 64 * (w1 % 2 ^ 49)
    · rw [if_pos h, if_neg (by omega)]; rfl
    · rw [if_neg h, if_pos (by omega)]
      simp only [w128]
      congr 1 <;> omega
  · by_cases h : 10 ^ 34 ≤ w0 + 2 ^ 64 * (w1 % 2 ^ 49)
    · rw [if_pos h, if_neg (by omega)]; simp
    · rw [if_neg h, if_pos (by omega)]
      simp only [ne_eq, Nat.or_eq_zero_iff, not_and]
      omega

/-- the large-coefficient form (bits 62, 61 set, not an infinity / NaN): a zero -/
theorem decode_words_large (w0 w1 : Nat) (h0 : w0 < 2 ^ 64) (h1 : w1 < 2 ^ 64) (hg : w1 / 2 ^ 61 % 4 = 3)
    (hs : w1 / 2 ^ 59 % 16 ≠ 15) :
    decode (w1 * 2 ^ 64 + w0) = .fin (w1 / 2 ^ 63 == 1) 0 (((w1 / 2 ^ 47 % 2 ^ 14 : Nat) : Int) - 6176) := by
  unfold decode
  have e1 : (w1 * 2 ^ 64 + w0) / 2 ^ 123 % 16 = w1 / 2 ^ 59 % 16 := by omega
  have e2 : (w1 * 2 ^ 64 + w0) / 2 ^ 127 % 2 = w1 / 2 ^ 63 := by omega
  have e3 : (w1 * 2 ^ 64 + w0) / 2 ^ 111 % 2 ^ 14 = w1 / 2 ^ 47 % 2 ^ 14 := by omega
  simp only [e1, e2, e3, beq_iff_eq]
  rw [if_neg hs, if_pos (by omega)]

theorem decode_words_inf (w0 w1 : Nat) (h0 : w0 < 2 ^ 64) (h1 : w1 < 2 ^ 64) (hs : w1 / 2 ^ 59 % 16 = 15)
    (h58 : w1 / 2 ^ 58 % 2 = 0) :
    decode (w1 * 2 ^ 64 + w0) = .inf (w1 / 2 ^ 63 == 1) := by
  unfold decode
  have e1 : (w1 * 2 ^ 64 + w0) / 2 ^ 123 % 16 = w1 / 2 ^ 59 % 16 := by omega
  have e2 : (w1 * 2 ^ 64 + w0) / 2 ^ 127 % 2 = w1 / 2 ^ 63 := by omega
  have e3 : (w1 * 2 ^ 64 + w0) / 2 ^ 122 % 2 = w1 / 2 ^ 58 % 2 := by omega
  simp only [e1, e2, e3, beq_iff_eq]
  rw [if_pos hs, if_pos h58]

theorem decode_words_nan (w0 w1 : Nat) (h0 : w0 < 2 ^ 64) (h1 : w1 < 2 ^ 64) (hs : w1 / 2 ^ 59 % 16 = 15)
    (h58 : w1 / 2 ^ 58 % 2 = 1) :
    decode (w1 * 2 ^ 64 + w0) = .nan (w1 / 2 ^ 63 == 1) (w1 / 2 ^ 57 % 2 == 1)
      (if w0 + 2 ^ 64 * (w1 % 2 ^ 46) < P33 then w0 + 2 ^ 64 * (w1 % 2 ^ 46) else 0) := by
  unfold decode
  have e1 : (w1 * 2 ^ 64 + w0) / 2 ^ 123 % 16 = w1 / 2 ^ 59 % 16 := by omega
  have e2 : (w1 * 2 ^ 64 + w0) / 2 ^ 127 % 2 = w1 / 2 ^ 63 := by omega
  have e3 : (w1 * 2 ^ 64 + w0) / 2 ^ 122 % 2 = w1 / 2 ^ 58 % 2 := by omega
  have e4 : (w1 * 2 ^ 64 + w0) / 2 ^ 121 % 2 = w1 / 2 ^ 57 % 2 := by omega
  have e5 : (w1 * 2 ^ 64 + w0) % 2 ^ 110 = w0 + 2 ^ 64 * (w1 % 2 ^ 46) := by omega
  simp only [e1, e2, e3, e4, e5, beq_iff_eq]
  rw [if_pos hs, if_neg (by omega)]

/-- **`unpack_BID128_value`, all 2^128 patterns**, against `decode`: the sign word is the sign; for a finite
datum `(−1)^s·c·10^e` (canonical or not: non-canonical coefficients read as 0) the exponent word is `e + 6176`, the
coefficient words are `c`, and the return value is non-zero exactly when `c ≠ 0`; for an infinity or NaN the
return value and the exponent are 0 and **the coefficient words are the canonical encoding of the datum**
(`encode (decode b)`: sign, infinity / NaN / signalling bits kept, reserved bits cleared, an infinity's trailing
bits cleared, a NaN payload ≥ 10^33 replaced by 0). -/
theorem unpack_value_spec (w0 w1 : Nat) (h0 : w0 < 2 ^ 64) (h1 : w1 < 2 ^ 64) :
    (unpack_BID128_value (w0, w1)).sign = signWord (decode (w1 * 2 ^ 64 + w0)).neg ∧
    (match decode (w1 * 2 ^ 64 + w0) with
     | .fin _ c e => (unpack_BID128_value (w0, w1)).expon = e + 6176 ∧ (unpack_BID128_value (w0, w1)).coeff = w128 c ∧
         ((unpack_BID128_value (w0, w1)).ret ≠ 0 ↔ c ≠ 0)
     | d => (unpack_BID128_value (w0, w1)).expon = 0 ∧ (unpack_BID128_value (w0, w1)).ret = 0 ∧
         (unpack_BID128_value (w0, w1)).coeff = w128 (encode d)) := by
  by_cases hg : w1 / 2 ^ 61 % 4 = 3
  · have hsign : (w1 &&& 0x8000000000000000) = signWord (w1 / 2 ^ 63 == 1) := by
      simp only [mask_sign, signWord, beq_iff_eq]; split_ifs <;> omega
    by_cases hs : w1 / 2 ^ 59 % 16 = 15
    · by_cases h58 : w1 / 2 ^ 58 % 2 = 0
      · rw [decode_words_inf w0 w1 h0 h1 hs h58]
        unfold unpack_BID128_value
        simp only [hsign, mask_7800, mask_7c00, mask_f800]
        rw [if_pos (by omega), if_neg (by omega), if_pos (by omega)]
        refine ⟨rfl, rfl, rfl, ?_⟩
        simp only [encode, signBit, w128, beq_iff_eq]
        split_ifs <;> (congr 1 <;> omega)
      · have h58' : w1 / 2 ^ 58 % 2 = 1 := by omega
        rw [decode_words_nan w0 w1 h0 h1 hs h58']
        unfold unpack_BID128_value
        simp only [hsign, mask_7800, mask_7c00, mask_fe00, mask_fe003, mask_46, power10_33, ge_w128 _ _ _ h0,
          decide_eq_true_eq, P33_eq']
        rw [if_pos (by omega), if_neg (by omega), if_neg (by omega)]
        refine ⟨rfl, rfl, rfl, ?_⟩
        simp only [encode, signBit, w128, beq_iff_eq]
        split_ifs <;> (congr 1 <;> omega)
    · rw [decode_words_large w0 w1 h0 h1 hg hs]
      unfold unpack_BID128_value
      simp only [hsign, mask_7800, shr64, Nat.shiftRight_eq_div_pow, mask_14]
      rw [if_pos (by omega), if_pos (by omega)]
      refine ⟨rfl, ?_, rfl, by simp⟩
      show ((w1 / 2 ^ 47 % 4294967296 % 2 ^ 14 : Nat) : Int) = _
      have : w1 / 2 ^ 47 % 4294967296 % 2 ^ 14 = w1 / 2 ^ 47 % 2 ^ 14 := by omega
      rw [this]; omega
  · obtain ⟨neg, c, e, hd, a1, a2, a3, a4⟩ := unpack_value_fin w0 w1 h0 h1 hg
    rw [hd]
    exact ⟨a1, a2, a3, a4⟩

/-- on everything that is not an infinity or NaN pattern the two unpack routines are the same code -/
theorem unpack_eq_value_of_finite (w0 w1 : Nat) (hs : w1 / 2 ^ 59 % 16 ≠ 15) :
    unpack_BID128 (w0, w1) = unpack_BID128_value (w0, w1) := by
  unfold unpack_BID128 unpack_BID128_value
  simp only [mask_7800]
  by_cases h : w1 / 2 ^ 59 % 2 ^ 4 * 2 ^ 59 ≥ 6917529027641081856
  · rw [if_pos h, if_pos h, if_pos (by omega), if_pos (by omega)]
  · rw [if_neg h, if_neg h]

/-- **`unpack_BID128` (by reference), all 2^128 patterns**: as `unpack_BID128_value` on every finite pattern; on an
infinity or NaN pattern the return value and the exponent are 0, and the coefficient words are the **input
itself** when its low 111 bits are below 10^33, else the input with its low 111 bits cleared.  So, unlike
`unpack_BID128_value`: the test reads one bit more than the 110-bit payload field, the reserved bits and an
infinity's trailing bits are not cleared, and a payload ≥ 10^33 is zeroed together with nothing else. -/
theorem unpack_spec (w0 w1 : Nat) (h0 : w0 < 2 ^ 64) (h1 : w1 < 2 ^ 64) :
    (unpack_BID128 (w0, w1)).sign = signWord (decode (w1 * 2 ^ 64 + w0)).neg ∧
    (match decode (w1 * 2 ^ 64 + w0) with
     | .fin _ c e => (unpack_BID128 (w0, w1)).expon = e + 6176 ∧ (unpack_BID128 (w0, w1)).coeff = w128 c ∧
         ((unpack_BID128 (w0, w1)).ret ≠ 0 ↔ c ≠ 0)
     | _ => (unpack_BID128 (w0, w1)).expon = 0 ∧ (unpack_BID128 (w0, w1)).ret = 0 ∧
         (unpack_BID128 (w0, w1)).coeff =
           if (w1 * 2 ^ 64 + w0) % 2 ^ 111 < 10 ^ 33 then (w0, w1) else (0, w1 - w1 % 2 ^ 47)) := by
  by_cases hs : w1 / 2 ^ 59 % 16 = 15
  · have hsign : (w1 &&& 0x8000000000000000) = signWord (w1 / 2 ^ 63 == 1) := by
      simp only [mask_sign, signWord, beq_iff_eq]; split_ifs <;> omega
    have hb : (w1 * 2 ^ 64 + w0) % 2 ^ 111 = w0 + 2 ^ 64 * (w1 % 2 ^ 47) := by omega
    have key : unpack_BID128 (w0, w1) = ⟨0, signWord (w1 / 2 ^ 63 == 1), 0,
        if (w1 * 2 ^ 64 + w0) % 2 ^ 111 < 10 ^ 33 then (w0, w1) else (0, w1 - w1 % 2 ^ 47)⟩ := by
      unfold unpack_BID128
      simp only [hsign, mask_7800, mask_47, mask_ffff8, power10_33, ge_w128 _ _ _ h0, decide_eq_true_eq, hb]
      rw [if_pos (by omega), if_neg (by omega)]
      by_cases h : 10 ^ 33 ≤ w0 + 2 ^ 64 * (w1 % 2 ^ 47)
      · rw [if_pos h, if_neg (by omega)]
        congr 2; omega
      · rw [if_neg h, if_pos (by omega)]
    rw [key]
    by_cases h58 : w1 / 2 ^ 58 % 2 = 0
    · rw [decode_words_inf w0 w1 h0 h1 hs h58]
      exact ⟨rfl, rfl, rfl, rfl⟩
    · rw [decode_words_nan w0 w1 h0 h1 hs (by omega)]
      exact ⟨rfl, rfl, rfl, rfl⟩
  · rw [unpack_eq_value_of_finite w0 w1 hs]
    have := unpack_value_spec w0 w1 h0 h1
    by_cases hg : w1 / 2 ^ 61 % 4 = 3
    · rw [decode_words_large w0 w1 h0 h1 hg hs] at this ⊢
      exact this
    · rw [unpack_fin w0 w1 h0 h1 hg] at this ⊢
      exact this

/-- on canonical encodings (of any datum) the two unpack routines agree -/
theorem unpack_eq_value_of_canonical (w0 w1 : Nat) (h0 : w0 < 2 ^ 64) (h1 : w1 < 2 ^ 64)
    (hc : canon (w1 * 2 ^ 64 + w0) = w1 * 2 ^ 64 + w0) :
    unpack_BID128 (w0, w1) = unpack_BID128_value (w0, w1) := by
  by_cases hs : w1 / 2 ^ 59 % 16 = 15
  · obtain ⟨a1, a2⟩ := unpack_value_spec w0 w1 h0 h1
    obtain ⟨b1, b2⟩ := unpack_spec w0 w1 h0 h1
    have hlow : (w1 * 2 ^ 64 + w0) % 2 ^ 111 < 10 ^ 33 := by
      unfold canon at hc
      by_cases h58 : w1 / 2 ^ 58 % 2 = 0
      · rw [decode_words_inf w0 w1 h0 h1 hs h58] at hc
        simp only [encode, signBit] at hc
        split_ifs at hc <;> omega
      · rw [decode_words_nan w0 w1 h0 h1 hs (by omega)] at hc
        simp only [encode, signBit, P33_eq'] at hc
        split_ifs at hc <;> omega
    have hw : w128 (w1 * 2 ^ 64 + w0) = (w0, w1) := by
      simp only [w128]; congr 1 <;> omega
    unfold canon at hc
    by_cases h58 : w1 / 2 ^ 58 % 2 = 0
    · rw [decode_words_inf w0 w1 h0 h1 hs h58] at a1 a2 b1 b2 hc
      simp only [hc, hw] at a2
      simp only [if_pos hlow] at b2
      generalize unpack_BID128 (w0, w1) = u at *
      generalize unpack_BID128_value (w0, w1) = v at *
      cases u; cases v; simp_all
    · rw [decode_words_nan w0 w1 h0 h1 hs (by omega)] at a1 a2 b1 b2 hc
      simp only [hc, hw] at a2
      simp only [if_pos hlow] at b2
      generalize unpack_BID128 (w0, w1) = u at *
      generalize unpack_BID128_value (w0, w1) = v at *
      cases u; cases v; simp_all
  · exact unpack_eq_value_of_finite w0 w1 hs

/-! ### examples -/

-- unpack: canonical finite, non-canonical coefficient, large form, infinity with trailing bits, NaN payloads
example : unpack_BID128_value (w128 (encode (.fin true 1234567890123456789012345678901234 (-20))))
    = ⟨16033479673939144690 ||| 66926059427634, 2 ^ 63, 6156, w128 1234567890123456789012345678901234⟩ := by decide +kernel
example : unpack_BID128_value (w128 (6176 * 2 ^ 113 + 10 ^ 34)) = ⟨0, 0, 6176, (0, 0)⟩ := by decide +kernel
example : unpack_BID128_value (w128 (6176 * 2 ^ 113 + 10 ^ 34 - 1)) =
    ⟨(10 ^ 34 - 1) % 2 ^ 64 ||| (10 ^ 34 - 1) / 2 ^ 64, 0, 6176, w128 (10 ^ 34 - 1)⟩ := by decide +kernel
example : unpack_BID128_value (12345, 0x6c00000000012345) = ⟨0, 0, 6144, (0, 0)⟩ := by decide +kernel
example : unpack_BID128_value (1, 0xf800000000000001) = ⟨0, 2 ^ 63, 0, (0, 0xf800000000000000)⟩ := by decide +kernel
example : unpack_BID128 (1, 0xf800000000000001) = ⟨0, 2 ^ 63, 0, (1, 0xf800000000000001)⟩ := by decide +kernel
example : unpack_BID128_value (5, 0x7e00400000000000) = ⟨0, 0, 0, (5, 0x7e00000000000000)⟩ := by decide +kernel
example : unpack_BID128 (5, 0x7e00400000000000) = ⟨0, 0, 0, (0, 0x7e00000000000000)⟩ := by decide +kernel
example : unpack_BID128_value (w128 (0x7c * 2 ^ 120 + 10 ^ 33)) = ⟨0, 0, 0, (0, 0x7c00000000000000)⟩ := by decide +kernel
example : unpack_BID128 (w128 (0x7c * 2 ^ 120 + 10 ^ 33 - 1)) = ⟨0, 0, 0, w128 (0x7c * 2 ^ 120 + 10 ^ 33 - 1)⟩ := by
  decide +kernel
-- the statement of `unpack_value_spec` on a NaN with reserved bits and an over-large payload
example : (unpack_BID128_value (7, 0xfe1fffffffffffff)).coeff = w128 (encode (decode (0xfe1fffffffffffff * 2 ^ 64 + 7))) := by
  decide +kernel

/-! ## 8. The pack routines -/

theorem wordOfI32_nonneg (e : Int) (h0 : 0 ≤ e) (h1 : e < 2147483648) : wordOfI32 e = e.toNat := by
  unfold wordOfI32; omega

/-- the packing expression `sgn | (expon << 49) | coeff.w[1]` over `coeff.w[0]` is the canonical encoding -/
theorem pack_words (sgn : Nat) (e : Int) (c0 c1 : Nat) (hs : sgn = 0 ∨ sgn = 2 ^ 63) (he0 : 0 ≤ e) (he1 : e ≤ 12287)
    (hc0 : c0 < 2 ^ 64) (hC : c0 + 2 ^ 64 * c1 < 10 ^ 34) :
    (sgn ||| shl64 (wordOfI32 e) 49 ||| c1) < 2 ^ 64 ∧
    (sgn ||| shl64 (wordOfI32 e) 49 ||| c1) * 2 ^ 64 + c0
      = encode (.fin (decide (sgn ≠ 0)) (c0 + 2 ^ 64 * c1) (e - 6176)) := by
  obtain ⟨n, rfl⟩ : ∃ n : Nat, e = (n : Int) := ⟨e.toNat, by omega⟩
  rw [wordOfI32_nonneg _ he0 (by omega)]
  simp only [Int.toNat_natCast, shl64, W64, Nat.shiftLeft_eq]
  have hn : n ≤ 12287 := by omega
  rw [Nat.mod_eq_of_lt (by omega)]
  have hc1 : c1 < 2 ^ 49 := by
    have : (10 : Nat) ^ 34 < 2 ^ 113 := by norm_num
    omega
  have e1 : sgn ||| n * 2 ^ 49 = sgn + n * 2 ^ 49 := by
    rcases hs with rfl | rfl
    · simp
    · have := or_eq_add_of_lt 63 1 (n * 2 ^ 49) (by omega)
      simpa using this
  have e2 : sgn + n * 2 ^ 49 ||| c1 = sgn + n * 2 ^ 49 + c1 := by
    have : sgn + n * 2 ^ 49 = 2 ^ 49 * (sgn / 2 ^ 49 + n) := by rcases hs with rfl | rfl <;> omega
    rw [this]
    exact or_eq_add_of_lt 49 _ _ hc1
  rw [e1, e2]
  have e3 : ((n : Int) - 6176 + 6176).toNat = n := by omega
  simp only [encode, signBit, e3]
  rcases hs with rfl | rfl
  · simp; omega
  · simp; omega

/-- the 128-bit pattern of a result pair -/
def bits (r : U128) : Nat := r.2 * 2 ^ 64 + r.1

theorem fin_WF (neg : Bool) (C : Nat) (e : Int) (hC : C < 10 ^ 34) (he0 : 0 ≤ e) (he1 : e ≤ 12287) :
    (Datum.fin neg C (e - 6176)).WF := by
  simp only [Datum.WF, P34_eq', eMin, eMax]; omega

/-- **`bid_get_BID128_very_fast`** (callers: fmod, rem, quantize, scalbn/ldexp, sqrt — always with a biased exponent
in `0 … 12287` and a coefficient below 10^34): the result is the canonical encoding of `(sign, coeff, expon − 6176)`. -/
theorem get_very_fast_spec (sgn : Nat) (e : Int) (c0 c1 : Nat) (hs : sgn = 0 ∨ sgn = 2 ^ 63) (he0 : 0 ≤ e)
    (he1 : e ≤ 12287) (hc0 : c0 < 2 ^ 64) (hC : c0 + 2 ^ 64 * c1 < 10 ^ 34) :
    bits (get_BID128_very_fast sgn e (c0, c1)) = encode (.fin (decide (sgn ≠ 0)) (c0 + 2 ^ 64 * c1) (e - 6176)) ∧
    decode (bits (get_BID128_very_fast sgn e (c0, c1))) = .fin (decide (sgn ≠ 0)) (c0 + 2 ^ 64 * c1) (e - 6176) := by
  have h := (pack_words sgn e c0 c1 hs he0 he1 hc0 hC).2
  have hb : bits (get_BID128_very_fast sgn e (c0, c1)) = encode (.fin (decide (sgn ≠ 0)) (c0 + 2 ^ 64 * c1) (e - 6176)) := h
  exact ⟨hb, by rw [hb]; exact decode_encode (fin_WF _ _ _ hC he0 he1)⟩

/-- the coefficient / exponent pair the `coeff == 10^34` test of `bid_get_BID128_fast` and `bid_get_BID128` produces -/
def norm34 (C : Nat) (e : Int) : Nat × Int := if C = 10 ^ 34 then (10 ^ 33, e + 1) else (C, e)

theorem norm34_words (c0 c1 : Nat) (e : Int) (hc0 : c0 < 2 ^ 64) (hc1 : c1 < 2 ^ 64) (he : e < 2147483647)
    (he' : -2147483648 ≤ e) :
    (if c1 = 0x0001ed09bead87c0 ∧ c0 = 0x378d8e6400000000 then
        (wrapI32 (e + 1), ((0x38c15b0a00000000, 0x0000314dc6448d93) : U128)) else (e, (c0, c1)))
      = ((norm34 (c0 + 2 ^ 64 * c1) e).2, w128 (norm34 (c0 + 2 ^ 64 * c1) e).1) := by
  unfold norm34
  by_cases h : c1 = 0x0001ed09bead87c0 ∧ c0 = 0x378d8e6400000000
  · rw [if_pos h, if_pos (by omega), wrapI32_id _ (by omega) (by omega)]
    simp only [w128]; norm_num
  · rw [if_neg h, if_neg (by omega)]
    simp only [w128]
    congr 2 <;> omega

/-- **`bid_get_BID128_fast`** (caller: sqrt): a coefficient equal to 10^34 (a rounding artefact) becomes 10^33 with the
exponent raised by one; then, for the resulting biased exponent `e'` in `0 … 12287`, the result is the canonical
encoding of `(sign, coeff', e' − 6176)`; the updated exponent and coefficient are returned too. -/
theorem get_fast_spec (sgn : Nat) (e : Int) (c0 c1 : Nat) (hs : sgn = 0 ∨ sgn = 2 ^ 63)
    (hc0 : c0 < 2 ^ 64) (hc1 : c1 < 2 ^ 64) (hC : c0 + 2 ^ 64 * c1 ≤ 10 ^ 34)
    (he0 : 0 ≤ (norm34 (c0 + 2 ^ 64 * c1) e).2) (he1 : (norm34 (c0 + 2 ^ 64 * c1) e).2 ≤ 12287) :
    let n := norm34 (c0 + 2 ^ 64 * c1) e
    let r := get_BID128_fast sgn e (c0, c1)
    r.2.1 = n.2 ∧ r.2.2 = w128 n.1 ∧
    bits r.1 = encode (.fin (decide (sgn ≠ 0)) n.1 (n.2 - 6176)) ∧
    decode (bits r.1) = .fin (decide (sgn ≠ 0)) n.1 (n.2 - 6176) := by
  intro n r
  have hn1 : n.1 < 10 ^ 34 := by
    show (norm34 _ _).1 < _
    unfold norm34; split_ifs <;> simp <;> omega
  have he : -2147483648 ≤ e ∧ e < 2147483647 := by
    unfold norm34 at he0 he1; split_ifs at he0 he1 <;> simp at he0 he1 <;> omega
  have hr : r = ((((w128 n.1).1, sgn ||| shl64 (wordOfI32 n.2) 49 ||| (w128 n.1).2), n.2, w128 n.1)) := by
    show get_BID128_fast sgn e (c0, c1) = _
    unfold get_BID128_fast
    rw [norm34_words c0 c1 e hc0 hc1 he.2 he.1]
  rw [hr]
  have hw := w128_val n.1
  have hw0 : (w128 n.1).1 < 2 ^ 64 := by simp only [w128]; omega
  have h := (pack_words sgn n.2 (w128 n.1).1 (w128 n.1).2 hs he0 he1 hw0 (by rw [hw]; exact hn1)).2
  rw [hw] at h
  refine ⟨rfl, rfl, h, ?_⟩
  show decode (bits _) = _
  unfold bits
  rw [h]
  exact decode_encode (fin_WF _ _ _ hn1 he0 he1)

theorem gt_w128 (n a0 a1 : Nat) (h0 : a0 < 2 ^ 64) :
    gt_128 (w128 n) (a0, a1) = decide (a0 + 2 ^ 64 * a1 < n) := by
  unfold w128
  rw [gt_128_spec _ _ _ _ (Nat.mod_lt _ (by norm_num)) h0]
  congr 1
  have := Nat.mod_add_div n (2 ^ 64)
  rw [this]

/-- one turn of the normalisation loop of `bid_get_BID128` multiplies the coefficient by ten -/
theorem loop_step (C : Nat) (hC : C < 10 ^ 33) : loopTimes10 (w128 C) = w128 (10 * C) := by
  have h110 : (10 : Nat) ^ 33 < 2 ^ 110 := by norm_num
  obtain ⟨c0, c1, rfl, h0, h1⟩ : ∃ c0 c1, C = c0 + 2 ^ 64 * c1 ∧ c0 < 2 ^ 64 ∧ c1 < 2 ^ 46 :=
    ⟨C % 2 ^ 64, C / 2 ^ 64, by omega, by omega, by omega⟩
  have hw : w128 (c0 + 2 ^ 64 * c1) = (c0, c1) := by simp only [w128]; congr 1 <;> omega
  rw [hw]
  simp only [loopTimes10, w128, add64, shl64, shr64, W64, Nat.shiftLeft_eq, Nat.shiftRight_eq_div_pow]
  have l2 : c0 * 2 ^ 1 % 18446744073709551616 + 2 ^ 64 * (c0 / 2 ^ 63) = 2 * c0 := by omega
  have l8 : c0 * 2 ^ 3 % 18446744073709551616 + 2 ^ 64 * (c0 / 2 ^ 61) = 8 * c0 := by omega
  have m2 : c1 * 2 ^ 1 % 18446744073709551616 = 2 * c1 := by omega
  have m8 : c1 * 2 ^ 3 % 18446744073709551616 = 8 * c1 := by omega
  rw [m2, m8]
  have hhi : 10 * (c0 + 2 ^ 64 * c1) / 2 ^ 64 = 10 * c1 + (10 * c0) / 2 ^ 64 := by omega
  have hlo : 10 * (c0 + 2 ^ 64 * c1) % 2 ^ 64 = (10 * c0) % 2 ^ 64 := by omega
  rw [hhi, hlo]
  have n1 : (8 * c1 + 2 * c1) % 18446744073709551616 = 10 * c1 := by omega
  have n2 : (10 * c1 + c0 / 2 ^ 61) % 18446744073709551616 = 10 * c1 + c0 / 2 ^ 61 := by omega
  have n3 : (10 * c1 + c0 / 2 ^ 61 + c0 / 2 ^ 63) % 18446744073709551616 = 10 * c1 + c0 / 2 ^ 61 + c0 / 2 ^ 63 := by omega
  rw [n1, n2, n3]
  have ha : c0 * 2 ^ 1 % 18446744073709551616 < 18446744073709551616 := Nat.mod_lt _ (by norm_num)
  have hb : c0 * 2 ^ 3 % 18446744073709551616 < 18446744073709551616 := Nat.mod_lt _ (by norm_num)
  generalize c0 * 2 ^ 1 % 18446744073709551616 = a at *
  generalize c0 * 2 ^ 3 % 18446744073709551616 = b at *
  have h10 : 10 * c0 = 2 ^ 64 * (c0 / 2 ^ 63 + c0 / 2 ^ 61) + (a + b) := by omega
  rw [h10]
  have hu : c0 / 2 ^ 63 < 2 := by omega
  have hv : c0 / 2 ^ 61 < 8 := by omega
  generalize c0 / 2 ^ 63 = u at *
  generalize c0 / 2 ^ 61 = v at *
  clear l2 l8 h10 hlo hhi n1 n2 n3 m2 m8 hw
  by_cases hab : a + b < 18446744073709551616
  · have e1 : (a + b) % 18446744073709551616 = a + b := Nat.mod_eq_of_lt hab
    have e2 : (2 ^ 64 * (u + v) + (a + b)) % 2 ^ 64 = a + b := by omega
    have e3 : (2 ^ 64 * (u + v) + (a + b)) / 2 ^ 64 = u + v := by omega
    rw [e1, e2, e3, if_neg (by omega)]
    congr 1; omega
  · have e1 : (a + b) % 18446744073709551616 = a + b - 18446744073709551616 := by omega
    have e2 : (2 ^ 64 * (u + v) + (a + b)) % 2 ^ 64 = a + b - 18446744073709551616 := by omega
    have e3 : (2 ^ 64 * (u + v) + (a + b)) / 2 ^ 64 = u + v + 1 := by omega
    rw [e1, e2, e3, if_pos (by omega)]
    congr 1; omega

theorem getLoop_spec (fuel : Nat) : ∀ (C : Nat) (e : Int), C < 10 ^ 34 → e - 12287 ≤ fuel →
    ∃ j : Nat, getLoop fuel (w128 C) e = (w128 (C * 10 ^ j), e - j) ∧ C * 10 ^ j < 10 ^ 34 ∧
      (e - j ≤ 12287 ∨ 10 ^ 33 ≤ C * 10 ^ j) ∧ (j = 0 ∨ (C * 10 ^ (j - 1) < 10 ^ 33 ∧ e - ((j - 1 : Nat) : Int) > 12287)) := by
  induction fuel with
  | zero =>
    intro C e hC hf
    exact ⟨0, by simp [getLoop], by simpa using hC, Or.inl (by simpa using hf), Or.inl rfl⟩
  | succ f ih =>
    intro C e hC hf
    unfold getLoop
    have hw0 : (w128 C).1 < 2 ^ 64 := by simp only [w128]; omega
    have hgt : gt_128 (power10 33) (w128 C) = decide (C < 10 ^ 33) := by
      rw [power10_33]
      have := gt_w128 (10 ^ 33) (w128 C).1 (w128 C).2 hw0
      rw [w128_val] at this
      exact this
    by_cases hc : C < 10 ^ 33 ∧ e > 12287
    · rw [if_pos (by rw [hgt]; simpa using hc)]
      rw [loop_step C hc.1]
      obtain ⟨j, a1, a2, a3, a4⟩ := ih (10 * C) (e - 1) (by omega) (by omega)
      refine ⟨j + 1, ?_, ?_, ?_, Or.inr ?_⟩
      · rw [a1]
        have : 10 * C * 10 ^ j = C * 10 ^ (j + 1) := by rw [Nat.pow_succ]; ring
        rw [this]
        congr 1; push_cast; omega
      · have : 10 * C * 10 ^ j = C * 10 ^ (j + 1) := by rw [Nat.pow_succ]; ring
        rw [← this]; exact a2
      · have : 10 * C * 10 ^ j = C * 10 ^ (j + 1) := by rw [Nat.pow_succ]; ring
        rw [← this]
        rcases a3 with h | h
        · left; push_cast; omega
        · right; exact h
      · simp only [Nat.add_sub_cancel]
        rcases a4 with rfl | ⟨h1, h2⟩
        · simpa using hc
        · obtain ⟨i, rfl⟩ : ∃ i, j = i + 1 := ⟨j - 1, by
            rcases Nat.eq_zero_or_pos j with h | h
            · subst h; simp at h2; omega
            · omega⟩
          simp only [Nat.add_sub_cancel] at h1 h2
          have : 10 * C * 10 ^ i = C * 10 ^ (i + 1) := by rw [Nat.pow_succ]; ring
          rw [← this]
          exact ⟨h1, by push_cast at h2 ⊢; omega⟩
    · rw [if_neg (by rw [hgt]; simpa using hc)]
      refine ⟨0, by simp, by simpa using hC, ?_, Or.inl rfl⟩
      simp only [Nat.pow_zero, Nat.mul_one, Nat.cast_zero, sub_zero]
      by_cases h : e ≤ 12287
      · exact Or.inl h
      · exact Or.inr (by omega)

/-- the encoding of the overflow result, as the two words `bid_get_BID128` returns -/
theorem overflow_words (sgn : Nat) (mode : Mode) (hs : sgn = 0 ∨ sgn = 2 ^ 63) :
    bits (if mode = .rtz ∨ (sgn ≠ 0 ∧ mode = .rup) ∨ (sgn = 0 ∧ mode = .rdn)
          then (0x378d8e63ffffffff, sgn ||| 0x5fffed09bead87c0) else (0, sgn ||| 0x7800000000000000))
      = encode (overflowResult mode (decide (sgn ≠ 0))) := by
  rcases hs with rfl | rfl <;> cases mode <;> decide +kernel

/-- the normalised pair after the `coeff == 10^34` test of `bid_get_BID128` has a coefficient below 10^34 -/
theorem norm34_lt (C : Nat) (e : Int) (hC : C ≤ 10 ^ 34) : (norm34 C e).1 < 10 ^ 34 := by
  unfold norm34; split_ifs <;> simp <;> omega

/-- `bid_get_BID128`, unfolded after the `coeff == 10^34` normalisation -/
theorem get_unfold (sgn : Nat) (e : Int) (c0 c1 : Nat) (mode : Mode) (fpsc : Nat) (hc0 : c0 < 2 ^ 64) (hc1 : c1 < 2 ^ 64)
    (he : -2147483648 ≤ e) (he' : e < 2147483647) :
    get_BID128 sgn e (c0, c1) mode fpsc =
      (let expon := (norm34 (c0 + 2 ^ 64 * c1) e).2
       let coeff := w128 (norm34 (c0 + 2 ^ 64 * c1) e).1
       if 0 ≤ expon ∧ expon ≤ 12287 then
         some ((coeff.1, sgn ||| shl64 (wordOfI32 expon) 49 ||| coeff.2), fpsc)
       else if expon < 0 then handle_UF_128 sgn expon coeff mode fpsc
       else
         let ce : U128 × Int := if expon - 34 ≤ 12287 then getLoop 34 coeff expon else (coeff, expon)
         if ce.2 > 12287 then
           if ce.1.2 ||| ce.1.1 = 0 then some ((0, sgn ||| shl64 12287 49), fpsc)
           else
             if mode = .rtz ∨ (sgn ≠ 0 ∧ mode = .rup) ∨ (sgn = 0 ∧ mode = .rdn) then
               some ((0x378d8e63ffffffff, sgn ||| 0x5fffed09bead87c0), fpsc ||| (fOverflow ||| fInexact))
             else some ((0, sgn ||| 0x7800000000000000), fpsc ||| (fOverflow ||| fInexact))
         else some ((ce.1.1, sgn ||| shl64 (wordOfI32 ce.2) 49 ||| ce.1.2), fpsc)) := by
  unfold get_BID128
  rw [norm34_words c0 c1 e hc0 hc1 he' he]

theorem w128_or_eq_zero (n : Nat) : ((w128 n).2 ||| (w128 n).1 = 0) ↔ n = 0 := by
  simp only [w128, Nat.or_eq_zero_iff]; omega

/-- **`bid_get_BID128`, exponent in range** (after a coefficient 10^34 has become 10^33 with the exponent raised): the
canonical encoding of the datum, status word untouched. -/
theorem get_in_range (sgn : Nat) (e : Int) (c0 c1 : Nat) (mode : Mode) (fpsc : Nat) (hs : sgn = 0 ∨ sgn = 2 ^ 63)
    (hc0 : c0 < 2 ^ 64) (hc1 : c1 < 2 ^ 64) (hC : c0 + 2 ^ 64 * c1 ≤ 10 ^ 34)
    (h0 : 0 ≤ (norm34 (c0 + 2 ^ 64 * c1) e).2) (h1 : (norm34 (c0 + 2 ^ 64 * c1) e).2 ≤ 12287) :
    ∃ r, get_BID128 sgn e (c0, c1) mode fpsc = some (r, fpsc) ∧
      bits r = encode (.fin (decide (sgn ≠ 0)) (norm34 (c0 + 2 ^ 64 * c1) e).1 ((norm34 (c0 + 2 ^ 64 * c1) e).2 - 6176)) := by
  have he : -2147483648 ≤ e ∧ e < 2147483647 := by
    unfold norm34 at h0 h1; split_ifs at h0 h1 <;> simp at h0 h1 <;> omega
  rw [get_unfold sgn e c0 c1 mode fpsc hc0 hc1 he.1 he.2]
  simp only
  rw [if_pos ⟨h0, h1⟩]
  refine ⟨_, rfl, ?_⟩
  have hn := norm34_lt _ e hC
  have hw := w128_val (norm34 (c0 + 2 ^ 64 * c1) e).1
  have hw0 : (w128 (norm34 (c0 + 2 ^ 64 * c1) e).1).1 < 2 ^ 64 := by simp only [w128]; omega
  have h := (pack_words sgn _ _ _ hs h0 h1 hw0 (by rw [hw]; exact hn)).2
  rw [hw] at h
  exact h

/-- **`bid_get_BID128`, negative exponent**: the call goes to `handle_UF_128` with the normalised pair -/
theorem get_underflow (sgn : Nat) (e : Int) (c0 c1 : Nat) (mode : Mode) (fpsc : Nat)
    (hc0 : c0 < 2 ^ 64) (hc1 : c1 < 2 ^ 64) (he : -2147483648 ≤ e) (he' : e < 2147483647)
    (h0 : (norm34 (c0 + 2 ^ 64 * c1) e).2 < 0) :
    get_BID128 sgn e (c0, c1) mode fpsc =
      handle_UF_128 sgn (norm34 (c0 + 2 ^ 64 * c1) e).2 (w128 (norm34 (c0 + 2 ^ 64 * c1) e).1) mode fpsc := by
  rw [get_unfold sgn e c0 c1 mode fpsc hc0 hc1 he he']
  simp only
  rw [if_neg (by omega), if_pos h0]

/-- **`bid_get_BID128`, exponent above the maximum** (`e' > 12287` after normalisation; `k = e' − 12287`): if the
coefficient can be padded with `k` zeros and stay below 10^34 (in particular if it is zero), the result is the
padded coefficient at the largest exponent, exactly, with no flag; otherwise the overflow result for the mode and
sign (infinity or the largest finite number), with overflow and inexact raised. -/
theorem get_overflow (sgn : Nat) (e : Int) (c0 c1 : Nat) (mode : Mode) (fpsc : Nat) (hs : sgn = 0 ∨ sgn = 2 ^ 63)
    (hc0 : c0 < 2 ^ 64) (hc1 : c1 < 2 ^ 64) (hC : c0 + 2 ^ 64 * c1 ≤ 10 ^ 34)
    (he : -2147483648 ≤ e) (he' : e < 2147483647)
    (h0 : (norm34 (c0 + 2 ^ 64 * c1) e).2 > 12287) :
    let C' := (norm34 (c0 + 2 ^ 64 * c1) e).1
    let k := ((norm34 (c0 + 2 ^ 64 * c1) e).2 - 12287).toNat
    (C' * 10 ^ k < 10 ^ 34 →
      ∃ r, get_BID128 sgn e (c0, c1) mode fpsc = some (r, fpsc) ∧
        bits r = encode (.fin (decide (sgn ≠ 0)) (C' * 10 ^ k) 6111)) ∧
    (¬ C' * 10 ^ k < 10 ^ 34 →
      ∃ r, get_BID128 sgn e (c0, c1) mode fpsc = some (r, fpsc ||| (fOverflow ||| fInexact)) ∧
        bits r = encode (overflowResult mode (decide (sgn ≠ 0)))) := by
  intro C' k
  have hn : C' < 10 ^ 34 := norm34_lt _ e hC
  rw [get_unfold sgn e c0 c1 mode fpsc hc0 hc1 he he']
  simp only
  rw [if_neg (by omega), if_neg (by omega)]
  obtain ⟨e', he'⟩ : ∃ e', e' = (norm34 (c0 + 2 ^ 64 * c1) e).2 := ⟨_, rfl⟩
  rw [← he'] at h0 ⊢
  have hk : (k : Int) = e' - 12287 := by
    show (((norm34 (c0 + 2 ^ 64 * c1) e).2 - 12287).toNat : Int) = _
    rw [← he']; omega
  have hkpos : 0 < k := by omega
  show (C' * 10 ^ k < 10 ^ 34 → ∃ r,
      (let ce : U128 × Int := if e' - 34 ≤ 12287 then getLoop 34 (w128 C') e' else (w128 C', e'); _) = _ ∧ _) ∧ _
  -- the packed zero / padded result
  have hpack : ∀ n : Nat, n < 10 ^ 34 →
      bits ((w128 n).1, sgn ||| shl64 (wordOfI32 12287) 49 ||| (w128 n).2) = encode (.fin (decide (sgn ≠ 0)) n 6111) := by
    intro n hn
    have hw := w128_val n
    have hw0 : (w128 n).1 < 2 ^ 64 := by simp only [w128]; omega
    have h := (pack_words sgn 12287 _ _ hs (by omega) (by omega) hw0 (by rw [hw]; exact hn)).2
    rw [hw] at h
    exact h
  have hovf := overflow_words sgn mode hs
  by_cases hloop : e' - 34 ≤ 12287
  · rw [if_pos hloop]
    obtain ⟨j, a1, a2, a3, a4⟩ := getLoop_spec 34 C' e' hn (by omega)
    rw [a1]
    simp only
    have hjk : j ≤ k := by
      rcases a4 with rfl | ⟨_, h⟩
      · omega
      · have : ((j - 1 : Nat) : Int) < k := by omega
        omega
    constructor
    · intro hpad
      have hj : j = k := by
        by_contra hne
        have hlt : j < k := by omega
        have h33 : 10 ^ 33 ≤ C' * 10 ^ j := by
          rcases a3 with h | h
          · omega
          · exact h
        obtain ⟨d, hd⟩ : ∃ d, k = j + (d + 1) := ⟨k - j - 1, by omega⟩
        have : C' * 10 ^ k = C' * 10 ^ j * 10 ^ d * 10 := by rw [hd, Nat.pow_add, Nat.pow_succ]; ring
        rw [this] at hpad
        have hd : 1 ≤ 10 ^ d := Nat.pow_pos (by decide)
        have : C' * 10 ^ j * 1 ≤ C' * 10 ^ j * 10 ^ d := Nat.mul_le_mul_left _ hd
        omega
      rw [if_neg (by omega)]
      refine ⟨_, rfl, ?_⟩
      have : e' - (j : Int) = 12287 := by omega
      rw [this, hj]
      exact hpack _ hpad
    · intro hpad
      have hlt : j < k := by
        by_contra hne
        have : j = k := by omega
        rw [this] at a2; omega
      rw [if_pos (by omega)]
      have hne : C' * 10 ^ j ≠ 0 := by
        intro h0'
        have : C' = 0 := by
          rcases Nat.mul_eq_zero.1 h0' with h | h
          · exact h
          · exact absurd h (Nat.pos_iff_ne_zero.1 (Nat.pow_pos (by decide)))
        rw [this] at hpad; simp at hpad
      rw [if_neg (by rw [w128_or_eq_zero]; exact hne)]
      by_cases hm : mode = .rtz ∨ (sgn ≠ 0 ∧ mode = .rup) ∨ (sgn = 0 ∧ mode = .rdn)
      · rw [if_pos hm] at hovf ⊢
        exact ⟨_, rfl, hovf⟩
      · rw [if_neg hm] at hovf ⊢
        exact ⟨_, rfl, hovf⟩
  · rw [if_neg hloop]
    simp only
    rw [if_pos h0]
    by_cases hz : C' = 0
    · have hpad : C' * 10 ^ k < 10 ^ 34 := by rw [hz]; simp
      refine ⟨fun _ => ?_, fun h => absurd hpad h⟩
      rw [if_pos (by rw [w128_or_eq_zero]; exact hz)]
      refine ⟨_, rfl, ?_⟩
      have := hpack 0 (by norm_num)
      rw [hz, Nat.zero_mul]
      simpa [w128, wordOfI32] using this
    · have hpad : ¬ C' * 10 ^ k < 10 ^ 34 := by
        have h35 : (10 : Nat) ^ 35 ≤ 10 ^ k := Nat.pow_le_pow_right (by decide) (by omega)
        have : 1 * 10 ^ k ≤ C' * 10 ^ k := Nat.mul_le_mul_right _ (by omega)
        have : (10 : Nat) ^ 34 < 10 ^ 35 := by norm_num
        omega
      refine ⟨fun h => absurd h hpad, fun _ => ?_⟩
      rw [if_neg (by rw [w128_or_eq_zero]; exact hz)]
      by_cases hm : mode = .rtz ∨ (sgn ≠ 0 ∧ mode = .rup) ∨ (sgn = 0 ∧ mode = .rdn)
      · rw [if_pos hm] at hovf ⊢
        exact ⟨_, rfl, hovf⟩
      · rw [if_neg hm] at hovf ⊢
        exact ⟨_, rfl, hovf⟩

/-! ### examples -/

-- pack
example : bits (get_BID128_very_fast (2 ^ 63) 6176 (w128 (10 ^ 34 - 1))) = encode (.fin true (10 ^ 34 - 1) 0) := by decide +kernel
example : get_BID128_fast 0 12286 (w128 (10 ^ 34)) = (w128 (encode (.fin false (10 ^ 33) 6111)), 12287, w128 (10 ^ 33)) := by
  decide +kernel
example : get_BID128 0 6176 (w128 (10 ^ 34)) .rne 0 = some (w128 (encode (.fin false (10 ^ 33) 1)), 0) := by decide +kernel
example : get_BID128 (2 ^ 63) 12300 (w128 123) .rne 0 = some (w128 (encode (.fin true (123 * 10 ^ 13) 6111)), 0) := by
  decide +kernel
example : get_BID128 (2 ^ 63) 12300 (w128 (10 ^ 21)) .rne 0 = some (w128 (encode (.inf true)), 0x28) := by decide +kernel
example : get_BID128 (2 ^ 63) 12300 (w128 (10 ^ 21 - 1)) .rne 0 = some (w128 (encode (.fin true ((10 ^ 21 - 1) * 10 ^ 13) 6111)), 0) := by
  decide +kernel
example : get_BID128 (2 ^ 63) 12288 (w128 (10 ^ 33)) .rup 0 = some (w128 (encode (.fin true (10 ^ 34 - 1) 6111)), 0x28) := by
  decide +kernel
example : get_BID128 0 2147483647 (w128 1) .rdn 0 = some (w128 (encode (.fin false (10 ^ 34 - 1) 6111)), 0x28) := by decide +kernel
example : get_BID128 0 99999 (0, 0) .rdn 0 = some (w128 (encode (.fin false 0 6111)), 0) := by decide +kernel
example : get_BID128 0 12320 (w128 1) .rne 0 = some (w128 (encode (.fin false (10 ^ 33) 6111)), 0) := by decide +kernel
example : get_BID128 0 12321 (w128 1) .rne 0 = some (w128 (encode (.inf false)), 0x28) := by decide +kernel
example : get_BID128 0 (-1) (w128 (10 ^ 34)) .rne 0 = some (w128 (encode (.fin false (10 ^ 33) (-6176))), 0) := by decide +kernel
example : get_BID128 0 (-10000000) (w128 77) .rup 0 = some ((1, 0), 0x30) := by decide +kernel
-- outside the domain: coefficient 10^34 with the largest `i32` exponent wraps into the underflow path
example : get_BID128 0 2147483647 (w128 (10 ^ 34)) .rne 0 = some ((0, 0), 0x30) := by decide +kernel

/-! ## 9. Decoded forms -/

theorem roundInt_le (mode : Mode) (neg : Bool) (q r D : Nat) : roundInt mode neg q r D ≤ q + 1 := by
  unfold roundInt; split_ifs <;> omega

/-- a rounded subnormal coefficient `m ≤ 10^33 + 1` under a sign word is the canonical encoding of `±m·10^−6176` -/
theorem uf_bits (sgn m : Nat) (hs : sgn = 0 ∨ sgn = 2 ^ 63) (hm : m < 10 ^ 34) :
    bits (m % 2 ^ 64, sgn ||| m / 2 ^ 64) = encode (.fin (decide (sgn ≠ 0)) m eMin) ∧
    decode (bits (m % 2 ^ 64, sgn ||| m / 2 ^ 64)) = .fin (decide (sgn ≠ 0)) m eMin := by
  have h113 : (10 : Nat) ^ 34 < 2 ^ 113 := by norm_num
  have e1 : sgn ||| m / 2 ^ 64 = sgn + m / 2 ^ 64 := by
    rcases hs with rfl | rfl
    · simp
    · have := or_eq_add_of_lt 63 1 (m / 2 ^ 64) (by omega)
      simpa using this
  have hb : bits (m % 2 ^ 64, sgn ||| m / 2 ^ 64) = encode (.fin (decide (sgn ≠ 0)) m eMin) := by
    simp only [bits, e1, encode, signBit, eMin]
    rcases hs with rfl | rfl
    · simp; omega
    · simp; omega
  refine ⟨hb, ?_⟩
  rw [hb]
  exact decode_encode (by simp only [Datum.WF, P34_eq', eMin, eMax]; omega)

/-- **`handle_UF_128`, decoded**: under the hypotheses of `handle_uf_spec` and a sign word that is 0 or 2^63, the
result is the canonical encoding of `(−1)^s · m · 10^−6176` where `m` is `C / 10^x` (`x = −expon`) correctly rounded
in the given mode for that sign (`RoundedInt`), and the outgoing status word is `ufFlags`. -/
theorem handle_uf_decode (sgn : Nat) (expon : Int) (c0 c1 : Nat) (mode : Mode) (fpsc : Nat)
    (hs : sgn = 0 ∨ sgn = 2 ^ 63) (he1 : -2147483648 ≤ expon) (he2 : expon ≤ -1) (hc0 : c0 < 2 ^ 64) (hc1 : c1 < 2 ^ 64)
    (hC : c0 + 2 ^ 64 * c1 ≤ 10 ^ 34) (hdom : c0 + 2 ^ 64 * c1 ≠ 0 ∨ -34 ≤ expon) :
    ∃ r m, handle_UF_128 sgn expon (c0, c1) mode fpsc
        = some (r, ufFlags fpsc (decide ((c0 + 2 ^ 64 * c1) % 10 ^ (-expon).toNat = 0))) ∧
      RoundedInt mode (decide (sgn ≠ 0)) (c0 + 2 ^ 64 * c1) (10 ^ (-expon).toNat) m ∧
      bits r = encode (.fin (decide (sgn ≠ 0)) m eMin) ∧
      decode (bits r) = .fin (decide (sgn ≠ 0)) m eMin := by
  have hD : 0 < 10 ^ (-expon).toNat := Nat.pow_pos (by decide)
  refine ⟨_, _, handle_uf_spec sgn expon c0 c1 mode fpsc he1 he2 hc0 hc1 hC hdom,
    roundInt_divmod_spec mode _ _ _ hD, ?_⟩
  apply uf_bits sgn _ hs
  have h1 := roundInt_le mode (decide (sgn ≠ 0)) ((c0 + 2 ^ 64 * c1) / 10 ^ (-expon).toNat)
    ((c0 + 2 ^ 64 * c1) % 10 ^ (-expon).toNat) (10 ^ (-expon).toNat)
  have h10 : 10 ^ 1 ≤ 10 ^ (-expon).toNat := Nat.pow_le_pow_right (by decide) (by omega)
  have : (c0 + 2 ^ 64 * c1) / 10 ^ (-expon).toNat ≤ 10 ^ 34 / 10 ^ 1 :=
    le_trans (Nat.div_le_div_right hC) (Nat.div_le_div_left h10 (by norm_num))
  have : (10 : Nat) ^ 34 / 10 ^ 1 + 1 < 10 ^ 34 := by norm_num
  omega

/-- **`bid_handle_UF_128_rem`, decoded, with the sticky bit interpreted**: the division passes the 34-digit quotient
`CQ`, its non-zero remainder (`R ≠ 0`) and `expon ≤ −1`.  If the exact quotient is `CQ + ρ/Y` with `0 < ρ < Y`, the
result is the canonical encoding of `(−1)^s · m · 10^−6176` with `m` the exact quotient divided by `10^(−expon)`,
correctly rounded; the rounding is never exact, so the status word gets underflow (and inexact unless it was already
set). -/
theorem handle_uf_rem_decode (sgn : Nat) (expon : Int) (c0 c1 R : Nat) (mode : Mode) (fpsc : Nat) (Y ρ : Nat)
    (hs : sgn = 0 ∨ sgn = 2 ^ 63) (he1 : -2147483648 ≤ expon) (he2 : expon ≤ -1) (hc0 : c0 < 2 ^ 64) (hc1 : c1 < 2 ^ 64)
    (hC : c0 + 2 ^ 64 * c1 < 10 ^ 34) (hR : R ≠ 0) (hρ0 : 0 < ρ) (hρ : ρ < Y) :
    ∃ r m, handle_UF_128_rem sgn expon (c0, c1) R mode fpsc = some (r, ufFlags fpsc false) ∧
      RoundedInt mode (decide (sgn ≠ 0)) ((c0 + 2 ^ 64 * c1) * Y + ρ) (Y * 10 ^ (-expon).toNat) m ∧
      bits r = encode (.fin (decide (sgn ≠ 0)) m eMin) ∧
      decode (bits r) = .fin (decide (sgn ≠ 0)) m eMin := by
  have hspec := handle_uf_rem_spec sgn expon c0 c1 R mode fpsc he1 (by omega) hc0 hc1 hC (Or.inr (Or.inl hR))
  rw [if_pos hR] at hspec
  obtain ⟨k, hk⟩ : ∃ k : Nat, k = (-expon).toNat := ⟨_, rfl⟩
  have hx : (1 - expon).toNat = k + 1 := by omega
  rw [hx] at hspec
  rw [← hk]
  have hst := sticky_rounded mode (decide (sgn ≠ 0)) (c0 + 2 ^ 64 * c1) Y ρ k (by omega) hρ0 hρ
  have hne' : ∀ C : Nat, (10 * C + 1) % 10 ^ (k + 1) ≠ 0 := by
    intro C h
    have : (10 * C + 1) % (10 ^ k * 10) % 10 = 1 := by rw [Nat.mod_mul_left_mod]; omega
    rw [Nat.pow_succ] at h; rw [h] at this; omega
  have hne := hne' (c0 + 2 ^ 64 * c1)
  rw [show decide ((10 * (c0 + 2 ^ 64 * c1) + 1) % 10 ^ (k + 1) = 0) = false from by simpa using hne] at hspec
  refine ⟨_, _, hspec, hst, ?_⟩
  apply uf_bits sgn _ hs
  have h1 := roundInt_le mode (decide (sgn ≠ 0)) ((10 * (c0 + 2 ^ 64 * c1) + 1) / 10 ^ (k + 1))
    ((10 * (c0 + 2 ^ 64 * c1) + 1) % 10 ^ (k + 1)) (10 ^ (k + 1))
  have h10 : 10 ^ 2 ≤ 10 ^ (k + 1) := Nat.pow_le_pow_right (by decide) (by omega)
  have : (10 * (c0 + 2 ^ 64 * c1) + 1) / 10 ^ (k + 1) ≤ 10 ^ 35 / 10 ^ 2 :=
    le_trans (Nat.div_le_div_right (by omega)) (Nat.div_le_div_left h10 (by norm_num))
  have : (10 : Nat) ^ 35 / 10 ^ 2 + 1 < 10 ^ 34 := by norm_num
  omega

/-- **`bid_get_BID128`, negative exponent, decoded**: for a non-zero coefficient `≤ 10^34` (zero is allowed down to
`e' = −34`) and any `i32` exponent that is negative after normalisation (`e' < 0`): the result is the canonical
encoding of `(−1)^s · m · 10^−6176`, `m` being `C' / 10^(−e')` correctly rounded; status word by `ufFlags`. -/
theorem get_underflow_decode (sgn : Nat) (e : Int) (c0 c1 : Nat) (mode : Mode) (fpsc : Nat)
    (hs : sgn = 0 ∨ sgn = 2 ^ 63) (hc0 : c0 < 2 ^ 64) (hc1 : c1 < 2 ^ 64) (hC : c0 + 2 ^ 64 * c1 ≤ 10 ^ 34)
    (he : -2147483648 ≤ e) (he' : e < 2147483647)
    (h0 : (norm34 (c0 + 2 ^ 64 * c1) e).2 < 0)
    (hdom : c0 + 2 ^ 64 * c1 ≠ 0 ∨ -34 ≤ e) :
    let C' := (norm34 (c0 + 2 ^ 64 * c1) e).1
    let x := (-(norm34 (c0 + 2 ^ 64 * c1) e).2).toNat
    ∃ r m, get_BID128 sgn e (c0, c1) mode fpsc = some (r, ufFlags fpsc (decide (C' % 10 ^ x = 0))) ∧
      RoundedInt mode (decide (sgn ≠ 0)) C' (10 ^ x) m ∧
      bits r = encode (.fin (decide (sgn ≠ 0)) m eMin) ∧
      decode (bits r) = .fin (decide (sgn ≠ 0)) m eMin := by
  intro C' x
  rw [get_underflow sgn e c0 c1 mode fpsc hc0 hc1 he he' h0]
  have hn : C' < 10 ^ 34 := norm34_lt _ e hC
  have hw := w128_val C'
  have hw0 : (w128 C').1 < 2 ^ 64 := by simp only [w128]; omega
  have hw1 : (w128 C').2 < 2 ^ 64 := by
    have : (10 : Nat) ^ 34 < 2 ^ 113 := by norm_num
    simp only [w128]; omega
  have he2 : -2147483648 ≤ (norm34 (c0 + 2 ^ 64 * c1) e).2 ∧ (C' ≠ 0 ∨ -34 ≤ (norm34 (c0 + 2 ^ 64 * c1) e).2) := by
    show _ ∧ ((norm34 (c0 + 2 ^ 64 * c1) e).1 ≠ 0 ∨ _)
    unfold norm34
    split_ifs with h
    · exact ⟨by simp; omega, Or.inl (by simp)⟩
    · refine ⟨by simpa using he, ?_⟩
      rcases hdom with h | h
      · exact Or.inl (by simpa using h)
      · exact Or.inr (by simpa using h)
  have := handle_uf_decode sgn (norm34 (c0 + 2 ^ 64 * c1) e).2 (w128 C').1 (w128 C').2 mode fpsc hs he2.1 (by omega)
    hw0 hw1 (by rw [hw]; omega) (by rw [hw]; exact he2.2)
  rw [hw] at this
  exact this

/-! ## 10. `bid_get_BID128` and `bid_handle_UF_128_rem` against `finish` -/

/-- the exact value `C · 10^(e − 6176)` handed to `bid_get_BID128`, as `finish` sees it -/
def getVal (C : Nat) (e : Int) : ℚ := (C : ℚ) / ((1 : Nat) : ℚ) * (10 : ℚ) ^ (e - 6176)

theorem getVal_eq (C : Nat) (e : Int) : getVal C e = (C : ℚ) * (10 : ℚ) ^ (e - 6176) := by
  unfold getVal; simp

/-- the 10^34 normalisation does not change the value -/
theorem getVal_norm34 (C : Nat) (e : Int) : getVal C e = getVal (norm34 C e).1 (norm34 C e).2 := by
  unfold norm34
  split_ifs with h
  · subst h
    rw [getVal_eq, getVal_eq]
    have : e + 1 - 6176 = 1 + (e - 6176) := by ring
    simp only [this, zpow_add₀ ten_ne, zpow_one]
    push_cast; ring
  · rfl

/-- a member of the format delivered exactly: `finish` returns it when it is the closest to the preferred exponent -/
theorem finish_of_exact (mode : Mode) (neg : Bool) (C : Nat) (e : Int) (hC : 0 < C) (m : Nat) (x : Int)
    (hrep : Representable m x) (hval : (m : ℚ) * (10 : ℚ) ^ x = getVal C e)
    (hclose : ∀ m' x', Representable m' x' → (m' : ℚ) * (10 : ℚ) ^ x' = getVal C e → |x - (e - 6176)| ≤ |x' - (e - 6176)|) :
    finish mode neg C 1 (e - 6176) (e - 6176) = (.fin neg m x, 0) := by
  rw [finish_eq_iff mode neg C 1 (e - 6176) (e - 6176) hC (by norm_num)]
  left
  have hv : fval false m x = getVal C e := by rw [fval_false]; exact hval
  refine ⟨⟨m, x, hrep, hv⟩, m, x, rfl, hv, hrep, ?_⟩
  intro m' x' hr' hv'
  rw [fval_false] at hv'
  exact hclose m' x' hr' hv'

theorem ten_zpow_pos (x : Int) : (0 : ℚ) < (10 : ℚ) ^ x := zpow_pos ten_pos _

/-- Regime A: the normalised exponent is in range -/
theorem finish_in_range (mode : Mode) (neg : Bool) (C : Nat) (e : Int) (hC0 : 0 < C) (hC : C ≤ 10 ^ 34)
    (h0 : 0 ≤ (norm34 C e).2) (h1 : (norm34 C e).2 ≤ 12287) :
    finish mode neg C 1 (e - 6176) (e - 6176) = (.fin neg (norm34 C e).1 ((norm34 C e).2 - 6176), 0) := by
  have hn := norm34_lt C e hC
  apply finish_of_exact mode neg C e hC0
  · simp only [Representable, P34_eq', eMin, eMax]; omega
  · rw [getVal_norm34 C e, getVal_eq]
  · intro m' x' hr' hv'
    unfold norm34
    split_ifs with h
    · -- C = 10^34: the exponent e - 6176 itself is impossible
      simp only
      have hne : x' ≠ e - 6176 := by
        intro hx
        rw [hx, getVal_eq, h] at hv'
        have := mul_right_cancel₀ (ten_zpow_pos (e - 6176)).ne' hv'
        have : m' = 10 ^ 34 := by exact_mod_cast this
        have := hr'.1
        rw [P34_eq'] at this; omega
      have : |e + 1 - 6176 - (e - 6176)| = 1 := by
        have : e + 1 - 6176 - (e - 6176) = 1 := by ring
        rw [this]; rfl
      rw [this]
      have : x' - (e - 6176) ≠ 0 := by omega
      exact Int.one_le_abs this
    · simp

/-- Regime B, exact: a negative normalised exponent whose digits to remove are all zero -/
theorem finish_uf_exact (mode : Mode) (neg : Bool) (C : Nat) (e : Int) (hC0 : 0 < C) (hC : C ≤ 10 ^ 34)
    (h0 : (norm34 C e).2 < 0) (hr : (norm34 C e).1 % 10 ^ (-(norm34 C e).2).toNat = 0) :
    finish mode neg C 1 (e - 6176) (e - 6176)
      = (.fin neg ((norm34 C e).1 / 10 ^ (-(norm34 C e).2).toNat) eMin, 0) := by
  have hn := norm34_lt C e hC
  have he : e - 6176 < eMin := by
    have : e ≤ (norm34 C e).2 := by unfold norm34; split_ifs <;> simp
    unfold eMin; omega
  obtain ⟨k, hk⟩ : ∃ k : Nat, k = (-(norm34 C e).2).toNat := ⟨_, rfl⟩
  rw [← hk] at hr ⊢
  have hdm := Nat.div_add_mod (norm34 C e).1 (10 ^ k)
  rw [hr, Nat.add_zero] at hdm
  apply finish_of_exact mode neg C e hC0
  · refine ⟨?_, le_refl _, by decide⟩
    rw [P34_eq']
    exact lt_of_le_of_lt (Nat.div_le_self _ _) hn
  · rw [getVal_norm34 C e, getVal_eq]
    have : (((norm34 C e).1 : Nat) : ℚ) = ((10 ^ k : Nat) : ℚ) * (((norm34 C e).1 / 10 ^ k : Nat) : ℚ) := by
      exact_mod_cast hdm.symm
    rw [this]
    have hz : (10 : ℚ) ^ ((norm34 C e).2 - 6176) = (10 : ℚ) ^ eMin / ((10 ^ k : Nat) : ℚ) := by
      rw [Nat.cast_pow, ← zpow_natCast, Nat.cast_ofNat, ← zpow_sub₀ ten_ne]
      congr 1; unfold eMin; omega
    rw [hz]
    have : ((10 ^ k : Nat) : ℚ) ≠ 0 := by positivity
    field_simp
  · intro m' x' hr' _
    have := hr'.2.1
    rw [abs_of_nonneg (by omega), abs_of_nonneg (by omega)]
    omega

/-- Regime B, inexact -/
theorem finish_uf_inexact (mode : Mode) (neg : Bool) (C : Nat) (e : Int) (hC0 : 0 < C) (hC : C ≤ 10 ^ 34)
    (h0 : (norm34 C e).2 < 0) (hr : (norm34 C e).1 % 10 ^ (-(norm34 C e).2).toNat ≠ 0) (m : Nat) (hm : m < 10 ^ 34)
    (hround : RoundedInt mode neg (norm34 C e).1 (10 ^ (-(norm34 C e).2).toNat) m) :
    finish mode neg C 1 (e - 6176) (e - 6176) = (.fin neg m eMin, fUnderflow ||| fInexact) := by
  have hn := norm34_lt C e hC
  obtain ⟨k, hk⟩ : ∃ k : Nat, k = (-(norm34 C e).2).toNat := ⟨_, rfl⟩
  rw [← hk] at hr hround
  have hD : 0 < 10 ^ k := Nat.pow_pos (by decide)
  have hDq : ((10 ^ k : Nat) : ℚ) ≠ 0 := by positivity
  -- v / 10^eMin = C' / 10^k
  have hz : (10 : ℚ) ^ ((norm34 C e).2 - 6176) = (10 : ℚ) ^ eMin / ((10 ^ k : Nat) : ℚ) := by
    rw [Nat.cast_pow, ← zpow_natCast, Nat.cast_ofNat, ← zpow_sub₀ ten_ne]
    congr 1; unfold eMin; omega
  have hv : getVal C e = (((norm34 C e).1 : Nat) : ℚ) / ((10 ^ k : Nat) : ℚ) * (10 : ℚ) ^ eMin := by
    rw [getVal_norm34 C e, getVal_eq, hz]; field_simp
  rw [finish_eq_iff mode neg C 1 (e - 6176) (e - 6176) hC0 (by norm_num)]
  right; left
  change ¬ IsMember (getVal C e) ∧ ∃ m' x, ((Datum.fin neg m eMin, fUnderflow ||| fInexact) : Datum × Flags)
      = (.fin neg m' x, if getVal C e < (10 : ℚ) ^ (-6143 : ℤ) then fUnderflow ||| fInexact else fInexact) ∧ _
  have hsmall : getVal C e < (10 : ℚ) ^ (-6143 : ℤ) := by
    rw [getVal_norm34 C e, getVal_eq]
    have h1 : (((norm34 C e).1 : Nat) : ℚ) < (10 : ℚ) ^ (34 : ℤ) := by
      have : (((norm34 C e).1 : Nat) : ℚ) < ((10 ^ 34 : Nat) : ℚ) := by exact_mod_cast hn
      rw [Nat.cast_pow] at this
      exact_mod_cast this
    have h2 : (10 : ℚ) ^ ((norm34 C e).2 - 6176) ≤ (10 : ℚ) ^ (-6177 : ℤ) :=
      zpow_le_zpow_right₀ one_lt_ten.le (by omega)
    calc _ < (10 : ℚ) ^ (34 : ℤ) * (10 : ℚ) ^ ((norm34 C e).2 - 6176) :=
          mul_lt_mul_of_pos_right h1 (ten_zpow_pos _)
      _ ≤ (10 : ℚ) ^ (34 : ℤ) * (10 : ℚ) ^ (-6177 : ℤ) := mul_le_mul_of_nonneg_left h2 (ten_zpow_pos _).le
      _ = (10 : ℚ) ^ (-6143 : ℤ) := by rw [← zpow_add₀ ten_ne]; norm_num
  refine ⟨?_, m, eMin, by rw [if_pos hsmall], by rw [P34_eq']; exact hm, le_refl _, by decide, ?_, ?_⟩
  · rintro ⟨m', x', hr', hv'⟩
    rw [fval_false, hv] at hv'
    have hint := member_int hr'.2.1 hv'
    have hnat : (norm34 C e).1 = m' * 10 ^ (x' - eMin).toNat * 10 ^ k := by
      have : (((norm34 C e).1 : Nat) : ℚ) = ((m' * 10 ^ (x' - eMin).toNat : Nat) : ℚ) * ((10 ^ k : Nat) : ℚ) := by
        rw [← hint]; field_simp
      exact_mod_cast this
    apply hr
    rw [hnat, Nat.mul_mod_left]
  · have := RoundedTo_of_RoundedInt hD hround
    change RoundedTo mode neg (getVal C e / (10 : ℚ) ^ eMin) m
    rw [hv, mul_div_assoc, div_self (ten_zpow_pos _).ne', mul_one]
    exact this
  · intro x' M h1 h2
    omega

/-- Regime C: the value written with the largest exponent -/
theorem getVal_at_eMax (C : Nat) (e : Int) (h0 : (norm34 C e).2 > 12287) :
    getVal C e = (((norm34 C e).1 * 10 ^ ((norm34 C e).2 - 12287).toNat : Nat) : ℚ) * (10 : ℚ) ^ eMax := by
  rw [getVal_norm34 C e, getVal_eq]
  push_cast
  rw [← zpow_natCast, mul_assoc, ← zpow_add₀ ten_ne]
  congr 2
  unfold eMax; omega

/-- Regime C, exact: padding with zeros keeps the coefficient below 10^34 -/
theorem finish_pad (mode : Mode) (neg : Bool) (C : Nat) (e : Int) (hC0 : 0 < C)
    (h0 : (norm34 C e).2 > 12287) (hpad : (norm34 C e).1 * 10 ^ ((norm34 C e).2 - 12287).toNat < 10 ^ 34) :
    finish mode neg C 1 (e - 6176) (e - 6176)
      = (.fin neg ((norm34 C e).1 * 10 ^ ((norm34 C e).2 - 12287).toNat) 6111, 0) := by
  have he : eMax ≤ e - 6176 := by
    have : (norm34 C e).2 ≤ e + 1 := by unfold norm34; split_ifs <;> simp
    unfold eMax; omega
  apply finish_of_exact mode neg C e hC0
  · exact ⟨by rw [P34_eq']; exact hpad, by decide, by decide⟩
  · rw [getVal_at_eMax C e h0]; rfl
  · intro m' x' hr' _
    have := hr'.2.2
    unfold eMax at he this
    rw [abs_of_nonpos (by omega), abs_of_nonpos (by omega)]
    omega

/-- Regime C, overflow -/
theorem finish_ovf (mode : Mode) (neg : Bool) (C : Nat) (e : Int) (hC0 : 0 < C)
    (h0 : (norm34 C e).2 > 12287) (hpad : ¬ (norm34 C e).1 * 10 ^ ((norm34 C e).2 - 12287).toNat < 10 ^ 34) :
    finish mode neg C 1 (e - 6176) (e - 6176) = (overflowResult mode neg, fOverflow ||| fInexact) := by
  rw [finish_eq_iff mode neg C 1 (e - 6176) (e - 6176) hC0 (by norm_num)]
  right; right
  change ¬ IsMember (getVal C e) ∧ _ ∧ ∃ M, RoundedTo mode neg (getVal C e / (10 : ℚ) ^ eMax) M ∧ P34 ≤ M
  have hge : (10 : ℚ) ^ (34 + eMax) ≤ getVal C e := by
    rw [getVal_at_eMax C e h0, zpow_add₀ ten_ne]
    apply mul_le_mul_of_nonneg_right _ (ten_zpow_pos _).le
    have : ((10 ^ 34 : Nat) : ℚ) ≤ (((norm34 C e).1 * 10 ^ ((norm34 C e).2 - 12287).toNat : Nat) : ℚ) := by
      exact_mod_cast (not_lt.1 hpad)
    rw [Nat.cast_pow] at this
    exact_mod_cast this
  obtain ⟨a, b⟩ := overflow_clause mode neg hge
  exact ⟨a, rfl, b⟩

theorem ufFlags_zero (b : Bool) : ufFlags 0 b = if b then 0 else fUnderflow ||| fInexact := by
  cases b <;> decide

/-- **`bid_get_BID128` is the model's `finish`.**  For a sign word 0 / 2^63, a non-zero coefficient `C ≤ 10^34`, any
`i32` biased exponent `e` below `2^31 − 1`, every rounding mode, and a clear status word on entry (what the repaired
wrappers of division, scaleb/ldexp and string conversion pass): the routine returns a pattern and a status word such
that (decoded pattern, status word) is exactly `finish mode sign C 1 (e − 6176) (e − 6176)` — the correctly rounded
delivery of `(−1)^s · C · 10^(e−6176)` with preferred exponent `e − 6176` in the sense of `FinishSpecStrict`
(`finish_eq_iff`): exact members come back exactly (10^34 as 10^33 one exponent up, large exponents padded with
zeros down to the maximum, small exponents clamped to the minimum when the dropped digits are zero) with no flag;
otherwise one rounding at the minimum exponent with underflow and inexact, or the overflow result with overflow and
inexact. -/
theorem get_eq_finish (sgn : Nat) (e : Int) (c0 c1 : Nat) (mode : Mode) (hs : sgn = 0 ∨ sgn = 2 ^ 63)
    (hc0 : c0 < 2 ^ 64) (hc1 : c1 < 2 ^ 64) (hC0 : 0 < c0 + 2 ^ 64 * c1) (hC : c0 + 2 ^ 64 * c1 ≤ 10 ^ 34)
    (he : -2147483648 ≤ e) (he' : e < 2147483647) :
    ∃ r f, get_BID128 sgn e (c0, c1) mode 0 = some (r, f) ∧
      (decode (bits r), f) = finish mode (decide (sgn ≠ 0)) (c0 + 2 ^ 64 * c1) 1 (e - 6176) (e - 6176) := by
  have hn := norm34_lt (c0 + 2 ^ 64 * c1) e hC
  rcases lt_trichotomy (norm34 (c0 + 2 ^ 64 * c1) e).2 0 with hlt | heq | hgt
  · -- underflow side
    obtain ⟨r, m, hget, hround, _, hdec⟩ :=
      get_underflow_decode sgn e c0 c1 mode 0 hs hc0 hc1 hC he he' hlt (Or.inl (by omega))
    refine ⟨r, _, hget, ?_⟩
    rw [hdec, ufFlags_zero]
    have hm : m < 10 ^ 34 := by
      have := decode_WF (bits r)
      rw [hdec] at this
      simpa [Datum.WF, P34_eq'] using this.1
    by_cases hr : (norm34 (c0 + 2 ^ 64 * c1) e).1 % 10 ^ (-(norm34 (c0 + 2 ^ 64 * c1) e).2).toNat = 0
    · simp only [hr, decide_true, if_true]
      rw [finish_uf_exact mode _ _ e hC0 hC hlt hr]
      have hD : 0 < 10 ^ (-(norm34 (c0 + 2 ^ 64 * c1) e).2).toNat := Nat.pow_pos (by decide)
      have h2 := roundInt_divmod_spec mode (decide (sgn ≠ 0)) (norm34 (c0 + 2 ^ 64 * c1) e).1 _ hD
      rw [hr] at h2
      have h3 : ∀ q D, roundInt mode (decide (sgn ≠ 0)) q 0 D = q := by
        intro q D; simp [roundInt, roundUp]
      rw [h3] at h2
      rw [RoundedInt_unique mode _ _ _ _ _ hD hround h2]
    · simp only [hr, decide_false, if_false, Bool.false_eq_true]
      rw [finish_uf_inexact mode _ _ e hC0 hC hlt hr m hm hround]
  · -- exponent 0
    obtain ⟨r, hget, hbits⟩ := get_in_range sgn e c0 c1 mode 0 hs hc0 hc1 hC (by omega) (by omega)
    refine ⟨r, 0, hget, ?_⟩
    rw [hbits, decode_encode (fin_WF _ _ _ hn (by omega) (by omega)),
      finish_in_range mode _ _ e hC0 hC (by omega) (by omega)]
  · by_cases hin : (norm34 (c0 + 2 ^ 64 * c1) e).2 ≤ 12287
    · obtain ⟨r, hget, hbits⟩ := get_in_range sgn e c0 c1 mode 0 hs hc0 hc1 hC (by omega) hin
      refine ⟨r, 0, hget, ?_⟩
      rw [hbits, decode_encode (fin_WF _ _ _ hn (by omega) hin), finish_in_range mode _ _ e hC0 hC (by omega) hin]
    · have h0 : (norm34 (c0 + 2 ^ 64 * c1) e).2 > 12287 := by omega
      obtain ⟨hA, hB⟩ := get_overflow sgn e c0 c1 mode 0 hs hc0 hc1 hC he he' h0
      by_cases hpad : (norm34 (c0 + 2 ^ 64 * c1) e).1 * 10 ^ ((norm34 (c0 + 2 ^ 64 * c1) e).2 - 12287).toNat < 10 ^ 34
      · obtain ⟨r, hget, hbits⟩ := hA hpad
        refine ⟨r, 0, hget, ?_⟩
        rw [hbits, finish_pad mode _ _ e hC0 h0 hpad]
        rw [decode_encode (by simp only [Datum.WF, P34_eq', eMin, eMax]; omega)]
      · obtain ⟨r, hget, hbits⟩ := hB hpad
        refine ⟨r, _, hget, ?_⟩
        rw [hbits, finish_ovf mode _ _ e hC0 h0 hpad, Nat.zero_or]
        rw [decode_encode]
        cases mode <;> cases hd : decide (sgn ≠ 0) <;> simp [overflowResult, Datum.WF, P34, eMin, eMax]

/-- a tiny, inexact quotient: `(n/d)·10^(eMin − k)` with `d·10^k ∤ n` and `n < d·10^(k+33)` is delivered by `finish` as
its rounding at the minimum exponent, with underflow and inexact, whatever the preferred exponent -/
theorem finish_tiny_inexact (mode : Mode) (neg : Bool) (n d k : Nat) (pref : Int) (hn : 0 < n) (hd : 0 < d)
    (hnd : n % (d * 10 ^ k) ≠ 0) (hlt : n < d * 10 ^ (k + 33)) (m : Nat) (hm : m < 10 ^ 34)
    (hround : RoundedInt mode neg n (d * 10 ^ k) m) :
    finish mode neg n d (eMin - k) pref = (.fin neg m eMin, fUnderflow ||| fInexact) := by
  have hD : 0 < d * 10 ^ k := Nat.mul_pos hd (Nat.pow_pos (by decide))
  have hdq : (d : ℚ) ≠ 0 := by exact_mod_cast hd.ne'
  have hkq : ((10 : ℚ) ^ k) ≠ 0 := by positivity
  have hv : (n : ℚ) / d * (10 : ℚ) ^ (eMin - (k : Int)) = (n : ℚ) / ((d * 10 ^ k : Nat) : ℚ) * (10 : ℚ) ^ eMin := by
    rw [zpow_sub₀ ten_ne, zpow_natCast]; push_cast; field_simp
  rw [finish_eq_iff mode neg n d (eMin - k) pref hn hd, hv]
  right; left
  have hsmall : (n : ℚ) / ((d * 10 ^ k : Nat) : ℚ) * (10 : ℚ) ^ eMin < (10 : ℚ) ^ (-6143 : ℤ) := by
    have h1 : (n : ℚ) / ((d * 10 ^ k : Nat) : ℚ) < (10 : ℚ) ^ (33 : ℤ) := by
      rw [div_lt_iff₀ (by exact_mod_cast hD)]
      have : (n : ℚ) < ((d * 10 ^ (k + 33) : Nat) : ℚ) := by exact_mod_cast hlt
      calc (n : ℚ) < ((d * 10 ^ (k + 33) : Nat) : ℚ) := this
        _ = (10 : ℚ) ^ (33 : ℤ) * ((d * 10 ^ k : Nat) : ℚ) := by push_cast; rw [pow_add]; norm_num; ring
    calc _ < (10 : ℚ) ^ (33 : ℤ) * (10 : ℚ) ^ eMin := mul_lt_mul_of_pos_right h1 (ten_zpow_pos _)
      _ = (10 : ℚ) ^ (-6143 : ℤ) := by rw [← zpow_add₀ ten_ne]; unfold eMin; norm_num
  refine ⟨?_, m, eMin, by rw [if_pos hsmall], by rw [P34_eq']; exact hm, le_refl _, by decide, ?_, ?_⟩
  · rintro ⟨m', x', hr', hv'⟩
    rw [fval_false] at hv'
    have hint := member_int hr'.2.1 hv'
    have hnat : n = m' * 10 ^ (x' - eMin).toNat * (d * 10 ^ k) := by
      have : (n : ℚ) = ((m' * 10 ^ (x' - eMin).toNat : Nat) : ℚ) * ((d * 10 ^ k : Nat) : ℚ) := by
        rw [← hint]
        have : ((d * 10 ^ k : Nat) : ℚ) ≠ 0 := by exact_mod_cast hD.ne'
        field_simp
      exact_mod_cast this
    apply hnd
    rw [hnat, Nat.mul_mod_left]
  · have := RoundedTo_of_RoundedInt hD hround
    rw [mul_div_assoc, div_self (ten_zpow_pos _).ne', mul_one]
    exact this
  · intro x' M h1 h2
    omega

/-- **`bid_handle_UF_128_rem` is the model's `finish` on the exact quotient.**  The division calls it with the
34-digit truncated quotient `CQ`, a non-zero remainder (`R ≠ 0`), `expon ≤ −1` and — having just raised inexact — a
status word that is clear apart from inexact.  If the exact quotient is `(CQ·Y + ρ)/Y` with `0 < ρ < Y`, then
(decoded result, status word) is `finish mode sign (CQ·Y + ρ) Y (expon − 6176) pref` for every preferred exponent:
one correct rounding of the exact quotient at the minimum exponent, underflow and inexact. -/
theorem handle_uf_rem_eq_finish (sgn : Nat) (expon : Int) (c0 c1 R : Nat) (mode : Mode) (fpsc : Nat) (Y ρ : Nat) (pref : Int)
    (hs : sgn = 0 ∨ sgn = 2 ^ 63) (hf : fpsc = 0 ∨ fpsc = fInexact)
    (he1 : -2147483648 ≤ expon) (he2 : expon ≤ -1) (hc0 : c0 < 2 ^ 64) (hc1 : c1 < 2 ^ 64)
    (hC : c0 + 2 ^ 64 * c1 < 10 ^ 34) (hR : R ≠ 0) (hρ0 : 0 < ρ) (hρ : ρ < Y) :
    ∃ r, handle_UF_128_rem sgn expon (c0, c1) R mode fpsc = some (r, fUnderflow ||| fInexact) ∧
      (decode (bits r), fUnderflow ||| fInexact)
        = finish mode (decide (sgn ≠ 0)) ((c0 + 2 ^ 64 * c1) * Y + ρ) Y (expon - 6176) pref := by
  obtain ⟨r, m, hget, hround, _, hdec⟩ :=
    handle_uf_rem_decode sgn expon c0 c1 R mode fpsc Y ρ hs he1 he2 hc0 hc1 hC hR hρ0 hρ
  have hfl : ufFlags fpsc false = fUnderflow ||| fInexact := by rcases hf with rfl | rfl <;> decide
  rw [hfl] at hget
  refine ⟨r, hget, ?_⟩
  rw [hdec]
  have hm : m < 10 ^ 34 := by
    have := decode_WF (bits r)
    rw [hdec] at this
    simpa [Datum.WF, P34_eq'] using this.1
  obtain ⟨k, hk⟩ : ∃ k : Nat, k = (-expon).toNat := ⟨_, rfl⟩
  rw [← hk] at hround
  have he : expon - 6176 = eMin - (k : Int) := by unfold eMin; omega
  rw [he]
  generalize c0 + 2 ^ 64 * c1 = CQ at *
  symm
  apply finish_tiny_inexact mode _ _ Y k pref (by positivity) (by omega) _ _ m hm hround
  · -- Y·10^k does not divide CQ·Y + ρ
    intro h
    have h1 : (CQ * Y + ρ) % Y = 0 := by
      have := Nat.mod_mul_right_mod (CQ * Y + ρ) Y (10 ^ k)
      rw [h] at this; simpa using this.symm
    rw [Nat.mul_comm, Nat.mul_add_mod, Nat.mod_eq_of_lt hρ] at h1
    omega
  · have h10 : 10 ^ 34 ≤ 10 ^ (k + 33) := Nat.pow_le_pow_right (by decide) (by omega)
    calc CQ * Y + ρ < (CQ + 1) * Y := by rw [Nat.add_mul, Nat.one_mul]; omega
      _ ≤ 10 ^ 34 * Y := Nat.mul_le_mul_right _ (by omega)
      _ ≤ 10 ^ (k + 33) * Y := Nat.mul_le_mul_right _ h10
      _ = Y * 10 ^ (k + 33) := Nat.mul_comm _ _

/-! ### examples -/

example : get_BID128 0 (-3) (w128 123456) .rne 0 = some ((123, 0), 0x30) ∧
    (decode (bits (123, 0)), 0x30) = finish .rne false 123456 1 (-3 - 6176) (-3 - 6176) := by decide +kernel
example : get_BID128 (2 ^ 63) 12300 (w128 (10 ^ 21)) .rdn 0 = some (w128 (encode (.inf true)), 0x28) ∧
    (Datum.inf true, 0x28) = finish .rdn true (10 ^ 21) 1 (12300 - 6176) (12300 - 6176) := by decide +kernel
example : get_BID128 0 6176 (w128 (10 ^ 34)) .rne 0 = some (w128 (encode (.fin false (10 ^ 33) 1)), 0) ∧
    (Datum.fin false (10 ^ 33) 1, 0) = finish .rne false (10 ^ 34) 1 0 0 := by decide +kernel
-- 1234000 + 1/3, three digits below the minimum exponent, rounding up
example : handle_UF_128_rem 0 (-3) (w128 1234000) 1 .rup 0x20 = some ((1235, 0), 0x30) ∧
    (decode (bits (1235, 0)), 0x30) = finish .rup false (1234000 * 3 + 1) 3 (-3 - 6176) 0 := by decide +kernel


/-! ## 11. The interface `hkPack` on concrete lines -/

-- the interface
example : hkPack "handle_uf" .rne 0 [0, 0xfffffffffffffffd, 123456, 0] = some ([123, 0], 0x30) := by decide +kernel
example : hkPack "handle_uf_rem" .rup 0x20 [2 ^ 63, 0xfffffffffffffffd, 1234000, 0, 1] = some ([1234, 2 ^ 63], 0x30) := by
  decide +kernel
example : hkPack "get" .rtz 1 [0, 12300, 10 ^ 21 % 2 ^ 64, 10 ^ 21 / 2 ^ 64] = some ([0x378d8e63ffffffff, 0x5fffed09bead87c0], 0x29) := by
  decide +kernel
example : hkPack "get_fast" .rne 0 [0, 5, 0x378d8e6400000000, 0x0001ed09bead87c0]
    = some ([0x38c15b0a00000000, 0x000c314dc6448d93, 6, 0x38c15b0a00000000, 0x0000314dc6448d93], 0) := by decide +kernel
example : hkPack "get_very_fast" .rne 7 [2 ^ 63, 0xffffffffffffffff, 1, 0] = some ([1, 0xfffe000000000000], 7) := by decide +kernel
example : hkPack "unpack" .rne 0 [1, 0x3040000000000000] = some ([1, 0, 6176, 1, 0], 0) := by decide +kernel
example : hkPack "unpack_value" .rne 0 [1, 0xb040000000000000] = some ([1, 2 ^ 63, 6176, 1, 0], 0) := by decide +kernel
example : hkPack "handle_uf" .rne 0 [0, 1, 5, 0] = none := by decide +kernel
example : hkPack "round64" .rne 0 [1, 2, 3] = none := by decide +kernel

end Dec.C13PackHelpers
